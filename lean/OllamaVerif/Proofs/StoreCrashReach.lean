/-
  C12 (round 7) — consistency of download debris is an INVARIANT of the store, not a hypothesis.

  `Proofs/StoreCrash.lean` proves crash safety of a pull under the named hypothesis `PullPre`
  (whatever an earlier, interrupted pull left behind for the digests of this pull is consistent with
  what the registry serves).  Here that hypothesis is discharged: for a fixed `world` (the bytes
  behind every digest any honest registry serves)

    DebrisOK world st  :=  ∀ d data, world d = some data → PartOK st d data

  is preserved by EVERY effect of EVERY operation at EVERY crash prefix (last write cut at any byte)
  and by the start-up sequence; in the fixed variant (`atomicPart`) so is `RecsWhole` (no part record
  is ever torn).  The argument has the same shape as the one for `Inv`: a local condition per effect
  (`DebEffOK`), preservation by one effect, and a proof that every operation issues each effect in a
  state where the condition holds (`exec_seqDeb`) — this is where the ORDER of the download's
  effects is used: the record is written with `Completed = 0` before any byte, the record that says
  `Completed = Size` only after the last byte, the record is removed before the rename.
-/
import OllamaVerif.Proofs.StoreCrash
namespace OllamaVerif.StoreCrash
open OllamaVerif

/-! ## byte-level lemmas (`resize`, `overlay`) -/

theorem resize_resize (bs : Bytes) (n : Nat) : resize (resize bs n) n = resize bs n := by
  have h : (resize bs n).length = n := length_resize bs n
  unfold resize at h ⊢
  rw [List.take_of_length_le (Nat.le_of_eq h), h]
  simp

theorem length_overlay (old : Bytes) (off : Nat) (bs : Bytes) (h : off + bs.length ≤ old.length) :
    (overlay old off bs).length = old.length := by
  unfold overlay
  simp only [List.length_append, List.length_take, List.length_replicate, List.length_drop]
  omega

theorem take_overlay (old : Bytes) (off : Nat) (bs : Bytes) (c : Nat) (hc : c ≤ off) (ho : off ≤ old.length) :
    (overlay old off bs).take c = old.take c := by
  unfold overlay
  have h0 : off - old.length = 0 := by omega
  rw [h0]
  simp only [List.replicate_zero, List.append_nil, List.append_assoc]
  rw [List.take_append_of_le_length (by rw [List.length_take]; omega), List.take_take]
  congr 1
  omega

/-- what the consistency of a record looks at: the first `c` bytes of the file once it has its full size -/
theorem take_resize (bs : Bytes) (s c : Nat) (hc : c ≤ s) (hl : c ≤ bs.length) :
    (resize bs s).take c = bs.take c := by
  unfold resize
  rw [List.take_append_of_le_length (by rw [List.length_take]; omega), List.take_take]
  congr 1
  omega

/-! ## the invariants -/

def Path.isDebris : Path → Bool
  | .pfile _ | .part _ _ => true
  | _ => false

/-- record `r` describes `data` and the bytes it declares complete are in the file `bs` -/
def RecFits (bs data : Bytes) (r : PartRec) : Prop :=
  r.off = 0 ∧ r.size = data.length ∧ r.completed ≤ r.size ∧
    (resize bs r.size).take r.completed = data.take r.completed

/-- `world d` = the bytes every honest registry serves for digest `d`.  All download debris in the
store is consistent with it. -/
def DebrisOK (world : Digest → Option Bytes) (st : Store) : Prop :=
  ∀ d data, world d = some data → PartOK st d data

/-- no part record is torn (fixed variant) -/
def RecsWhole (st : Store) : Prop :=
  ∀ d c, get st (.part d 0) = some c → ∃ r, c = .prec r

def DebInv (strict : Bool) (world : Digest → Option Bytes) (st : Store) : Prop :=
  DebrisOK world st ∧ (strict = true → RecsWhole st)

theorem partOK_iff {st : Store} {d : Digest} {data : Bytes} :
    PartOK st d data ↔ ∃ bs, pfileBytes st d = some bs ∧
      ∀ r, get st (.part d 0) = some (.prec r) → RecFits bs data r := by
  unfold PartOK RecFits
  constructor
  · rintro ⟨bs, hb, h⟩
    refine ⟨bs, hb, ?_⟩
    intro r hr
    rw [hr] at h; exact h
  · rintro ⟨bs, hb, h⟩
    refine ⟨bs, hb, ?_⟩
    split
    · rename_i r hr; exact h r hr
    · trivial

theorem NoPullDebris.debrisOK {st : Store} (h : NoPullDebris st) (world : Digest → Option Bytes) :
    DebrisOK world st := fun d data _ => h.partOK d data

theorem NoPullDebris.recsWhole {st : Store} (h : NoPullDebris st) : RecsWhole st := by
  intro d c hg; rw [(h d).2 0] at hg; cases hg

theorem NoPullDebris.debInv {st : Store} (h : NoPullDebris st) (strict : Bool) (world : Digest → Option Bytes) :
    DebInv strict world st := ⟨h.debrisOK world, fun _ => h.recsWhole⟩

/-- what a new content of the record file `-partial-0` of `d` has to satisfy at the moment it
becomes visible under that name -/
def PutFits (strict : Bool) (world : Digest → Option Bytes) (st : Store) (d : Digest) (c : Content) : Prop :=
  (strict = true → ∃ r, c = .prec r) ∧
  ∀ r, c = .prec r → ∀ data, world d = some data → ∀ bs, pfileBytes st d = some bs → RecFits bs data r

/-- local condition under which an effect keeps `DebInv` -/
def DebEffOK (strict : Bool) (world : Digest → Option Bytes) (st : Store) : Effect → Prop
  | .mk p => (∀ d, p ≠ .pfile d) ∧ (strict = true → ∀ d j, p ≠ .part d j)
  | .touch p => ∀ d j, p ≠ .part d j
  | .app p _ => p.isDebris = false
  | .pw p off _ => (∀ d j, p ≠ .part d j) ∧
      ∀ d, p = .pfile d → (∃ old, get st p = some (.raw old) ∧ off ≤ old.length) ∧
        ∀ r, get st (.part d 0) = some (.prec r) → r.completed ≤ off
  | .ftr p n => (∀ d j, p ≠ .part d j) ∧
      ∀ d, p = .pfile d → ∀ r, get st (.part d 0) = some (.prec r) → n = r.size ∨ r.completed = 0
  | .put p c => (∀ d, p ≠ .pfile d) ∧ ∀ d, p = .part d 0 → PutFits strict world st d c
  | .cp _ dst => dst.isDebris = false
  | .mv src dst => (∀ d j, src ≠ .part d j) ∧ (∀ d, dst ≠ .pfile d) ∧
      (∀ d, src = .pfile d → ∀ r, get st (.part d 0) ≠ some (.prec r)) ∧
      (∀ d, dst = .part d 0 → ∀ c, get st src = some c → PutFits strict world st d c)
  | .chmod _ => True
  | .rm p => ∀ d, p ≠ .pfile d

/-- an effect that writes no `-partial` file and no part record -/
def debFree (e : Effect) : Bool := (writes e).all (fun p => !p.isDebris)

theorem debFree_ok {strict : Bool} {world : Digest → Option Bytes} {st : Store} {e : Effect}
    (h : debFree e = true) : DebEffOK strict world st e := by
  cases e <;> simp only [debFree, writes, List.all_cons, List.all_nil, Bool.and_true, Bool.not_eq_true',
    Bool.and_eq_true] at h <;> simp only [DebEffOK]
  case mk p => exact ⟨fun d hp => by subst hp; simp [Path.isDebris] at h,
    fun _ d j hp => by subst hp; simp [Path.isDebris] at h⟩
  case touch p => exact fun d j hp => by subst hp; simp [Path.isDebris] at h
  case app p bs => exact h
  case pw p off bs => exact ⟨fun d j hp => by subst hp; simp [Path.isDebris] at h,
    fun d hp => by subst hp; simp [Path.isDebris] at h⟩
  case ftr p n => exact ⟨fun d j hp => by subst hp; simp [Path.isDebris] at h,
    fun d hp => by subst hp; simp [Path.isDebris] at h⟩
  case put p c => exact ⟨fun d hp => by subst hp; simp [Path.isDebris] at h,
    fun d hp => by subst hp; simp [Path.isDebris] at h⟩
  case cp src dst => exact h
  case mv src dst =>
    exact ⟨fun d j hp => by subst hp; simp [Path.isDebris] at h,
      fun d hp => by subst hp; simp [Path.isDebris] at h,
      fun d hp => by subst hp; simp [Path.isDebris] at h,
      fun d hp => by subst hp; simp [Path.isDebris] at h⟩
  case rm p => exact fun d hp => by subst hp; simp [Path.isDebris] at h

/-! ## one effect preserves the invariants -/

theorem pfileBytes_congr {st st' : Store} {d : Digest} (h : get st' (.pfile d) = get st (.pfile d)) :
    pfileBytes st' d = pfileBytes st d := by unfold pfileBytes; rw [h]

theorem pfileBytes_some_raw {st : Store} {d : Digest} {old : Bytes} (h : get st (.pfile d) = some (.raw old)) :
    pfileBytes st d = some old := by unfold pfileBytes; rw [h]

theorem recFits_zero {bs data : Bytes} {r : PartRec} (h : RecFits bs data r) (bs' : Bytes) (hc : r.completed = 0) :
    RecFits bs' data r := by
  obtain ⟨h1, h2, h3, _⟩ := h
  exact ⟨h1, h2, h3, by rw [hc]; rfl⟩

theorem debrisOK_after {strict : Bool} {world : Digest → Option Bytes} {st : Store} {e : Effect}
    (hinv : DebrisOK world st) (hok : DebEffOK strict world st e) : DebrisOK world (apply e st) := by
  intro d data hw
  have hold := hinv d data hw
  -- effects that touch neither d's -partial file nor d's record
  have frame : Path.pfile d ∉ writes e → Path.part d 0 ∉ writes e → PartOK (apply e st) d data :=
    fun h1 h2 => hold.transfer (get_apply_of_not_written h1) (get_apply_of_not_written h2)
  rw [partOK_iff] at hold ⊢
  obtain ⟨bs, hbs, hrec⟩ := hold
  cases e with
  | chmod p => exact partOK_iff.mp (frame (by simp [writes]) (by simp [writes]))
  | app p x =>
    simp only [DebEffOK] at hok
    exact partOK_iff.mp (frame (by simp [writes]; intro h; subst h; simp [Path.isDebris] at hok)
      (by simp [writes]; intro h; subst h; simp [Path.isDebris] at hok))
  | cp src dst =>
    simp only [DebEffOK] at hok
    exact partOK_iff.mp (frame (by simp [writes]; intro h; subst h; simp [Path.isDebris] at hok)
      (by simp [writes]; intro h; subst h; simp [Path.isDebris] at hok))
  | rm p =>
    simp only [DebEffOK] at hok
    by_cases hp : p = .part d 0
    · subst hp
      refine ⟨bs, ?_, ?_⟩
      · rw [pfileBytes_congr (get_apply_of_not_written (by simp [writes]))]; exact hbs
      · intro r hr; simp [apply, get_del] at hr
    · exact partOK_iff.mp (frame (by simp [writes]; exact fun h => hok d h.symm)
        (by simp [writes]; exact fun h => hp h.symm))
  | mk p =>
    simp only [DebEffOK] at hok
    by_cases hp : p = .part d 0
    · subst hp
      refine ⟨bs, ?_, ?_⟩
      · rw [pfileBytes_congr (get_apply_of_not_written (by simp [writes]))]; exact hbs
      · intro r hr; simp [apply, get_set] at hr
    · exact partOK_iff.mp (frame (by simp [writes]; exact fun h => hok.1 d h.symm)
        (by simp [writes]; exact fun h => hp h.symm))
  | touch p =>
    simp only [DebEffOK] at hok
    by_cases hp : p = .pfile d
    · subst hp
      have hR : get (apply (.touch (.pfile d)) st) (.part d 0) = get st (.part d 0) :=
        get_apply_of_not_written (by simp [writes])
      refine ⟨bs, ?_, fun r hr => hrec r (hR ▸ hr)⟩
      unfold pfileBytes at hbs ⊢
      simp only [apply]
      cases hg : get st (.pfile d) with
      | none => rw [hg] at hbs; simp [get_set]; simpa using hbs
      | some c => simp only [hg]; rw [hg] at hbs; exact hbs
    · exact partOK_iff.mp (frame (by simp [writes]; exact fun h => hp h.symm)
        (by simp [writes]; exact fun h => hok d 0 h.symm))
  | ftr p n =>
    simp only [DebEffOK] at hok
    by_cases hp : p = .pfile d
    · subst hp
      have hR : get (apply (.ftr (.pfile d) n) st) (.part d 0) = get st (.part d 0) :=
        get_apply_of_not_written (by simp [writes])
      have hcond := hok.2 d rfl
      cases hg : get st (.pfile d) with
      | none =>
        refine ⟨bs, ?_, fun r hr => hrec r (hR ▸ hr)⟩
        rw [pfileBytes_congr]; exact hbs
        simp [apply, hg]
      | some c =>
        cases c with
        | raw old =>
          have hb : bs = old := by
            unfold pfileBytes at hbs; rw [hg] at hbs; injection hbs with hbs; exact hbs.symm
          subst hb
          refine ⟨resize bs n, ?_, ?_⟩
          · apply pfileBytes_some_raw; simp [apply, hg, get_set]
          · intro r hr
            rw [hR] at hr
            have hf := hrec r hr
            rcases hcond r hr with h | h
            · subst h
              obtain ⟨h1, h2, h3, h4⟩ := hf
              exact ⟨h1, h2, h3, by rw [resize_resize]; exact h4⟩
            · exact recFits_zero hf _ h
        | man m =>
          refine ⟨bs, ?_, fun r hr => hrec r (hR ▸ hr)⟩
          rw [pfileBytes_congr]; exact hbs
          simp [apply, hg]
        | prec r0 =>
          refine ⟨bs, ?_, fun r hr => hrec r (hR ▸ hr)⟩
          rw [pfileBytes_congr]; exact hbs
          simp [apply, hg]
    · exact partOK_iff.mp (frame (by simp [writes]; exact fun h => hp h.symm)
        (by simp [writes]; exact fun h => hok.1 d 0 h.symm))
  | pw p off x =>
    simp only [DebEffOK] at hok
    by_cases hp : p = .pfile d
    · subst hp
      have hR : get (apply (.pw (.pfile d) off x) st) (.part d 0) = get st (.part d 0) :=
        get_apply_of_not_written (by simp [writes])
      obtain ⟨⟨old, hg, hoff⟩, hcomp⟩ := hok.2 d rfl
      have hb : bs = old := by
        unfold pfileBytes at hbs; rw [hg] at hbs; injection hbs with hbs; exact hbs.symm
      subst hb
      refine ⟨overlay bs off x, ?_, ?_⟩
      · apply pfileBytes_some_raw; simp [apply, hg, get_set]
      · intro r hr
        rw [hR] at hr
        obtain ⟨h1, h2, h3, h4⟩ := hrec r hr
        have hc := hcomp r hr
        refine ⟨h1, h2, h3, ?_⟩
        have hlen : off ≤ (overlay bs off x).length := by
          unfold overlay
          simp only [List.length_append, List.length_take, List.length_replicate, List.length_drop]
          omega
        rw [take_resize _ _ _ h3 (by omega), take_overlay _ _ _ _ hc hoff]
        rw [take_resize _ _ _ h3 (by omega)] at h4
        exact h4
    · exact partOK_iff.mp (frame (by simp [writes]; exact fun h => hp h.symm)
        (by simp [writes]; exact fun h => hok.1 d 0 h.symm))
  | put p c =>
    simp only [DebEffOK] at hok
    by_cases hp : p = .part d 0
    · subst hp
      refine ⟨bs, ?_, ?_⟩
      · rw [pfileBytes_congr (get_apply_of_not_written (by simp [writes]))]; exact hbs
      · intro r hr
        have : c = .prec r := by simpa [apply, get_set] using hr
        exact (hok.2 d rfl).2 r this data hw bs hbs
    · exact partOK_iff.mp (frame (by simp [writes]; exact fun h => hok.1 d h.symm)
        (by simp [writes]; exact fun h => hp h.symm))
  | mv src dst =>
    simp only [DebEffOK] at hok
    obtain ⟨hsrc, hdst, hpf, hput⟩ := hok
    cases hs : get st src with
    | none =>
      refine ⟨bs, ?_, ?_⟩
      · rw [pfileBytes_congr]; exact hbs
        simp [apply, hs]
      · intro r hr; apply hrec r; simpa [apply, hs] using hr
    | some c =>
      by_cases h1 : src = .pfile d
      · -- the rename of the -partial file: the record is already gone
        subst h1
        have hd1 : dst ≠ .pfile d := hdst d
        refine ⟨[], ?_, ?_⟩
        · unfold pfileBytes
          rw [get_apply_mv_src _ _ (Ne.symm hd1)]
        · intro r hr
          by_cases h2 : dst = .part d 0
          · subst h2
            have hc : c = .prec r := by simpa [apply, hs, get_set] using hr
            subst hc
            -- a record renamed from the -partial file itself: its own content would have to be a record
            unfold pfileBytes at hbs; rw [hs] at hbs; cases hbs
          · have : get st (.part d 0) = some (.prec r) := by
              have hne : Path.part d 0 ≠ Path.pfile d := by intro h; cases h
              simpa [apply, hs, get_set, get_del, Ne.symm h2, hne] using hr
            exact absurd this (hpf d rfl r)
      · by_cases h2 : dst = .part d 0
        · subst h2
          have hP : get (apply (.mv src (.part d 0)) st) (.pfile d) = get st (.pfile d) := by
            apply get_apply_of_not_written
            simp [writes]; exact fun h => h1 h.symm
          refine ⟨bs, ?_, ?_⟩
          · rw [pfileBytes_congr hP]; exact hbs
          · intro r hr
            have hc : c = .prec r := by simpa [apply, hs, get_set] using hr
            exact (hput d rfl c hs).2 r hc data hw bs hbs
        · exact partOK_iff.mp (frame (by simp [writes]; exact ⟨fun h => h1 h.symm, fun h => hdst d h.symm⟩)
            (by simp [writes]; exact ⟨fun h => hsrc d 0 h.symm, fun h => h2 h.symm⟩))

theorem recsWhole_after {world : Digest → Option Bytes} {st : Store} {e : Effect}
    (hinv : RecsWhole st) (hok : DebEffOK true world st e) : RecsWhole (apply e st) := by
  intro d c hg
  have frame : Path.part d 0 ∉ writes e → ∃ r, c = .prec r := fun h => by
    rw [get_apply_of_not_written h] at hg; exact hinv d c hg
  cases e with
  | chmod p => exact frame (by simp [writes])
  | app p x =>
    simp only [DebEffOK] at hok
    exact frame (by simp [writes]; intro h; subst h; simp [Path.isDebris] at hok)
  | cp src dst =>
    simp only [DebEffOK] at hok
    exact frame (by simp [writes]; intro h; subst h; simp [Path.isDebris] at hok)
  | rm p =>
    by_cases hp : p = .part d 0
    · subst hp; simp [apply, get_del] at hg
    · exact frame (by simp [writes]; exact fun h => hp h.symm)
  | mk p =>
    simp only [DebEffOK] at hok
    exact frame (by simp [writes]; exact fun h => hok.2 trivial d 0 h.symm)
  | touch p =>
    simp only [DebEffOK] at hok
    exact frame (by simp [writes]; exact fun h => hok d 0 h.symm)
  | ftr p n =>
    simp only [DebEffOK] at hok
    exact frame (by simp [writes]; exact fun h => hok.1 d 0 h.symm)
  | pw p off x =>
    simp only [DebEffOK] at hok
    exact frame (by simp [writes]; exact fun h => hok.1 d 0 h.symm)
  | put p c' =>
    simp only [DebEffOK] at hok
    by_cases hp : p = .part d 0
    · subst hp
      have : c' = c := by simpa [apply, get_set] using hg
      subst this
      exact (hok.2 d rfl).1 rfl
    · exact frame (by simp [writes]; exact fun h => hp h.symm)
  | mv src dst =>
    simp only [DebEffOK] at hok
    obtain ⟨hsrc, hdst, hpf, hput⟩ := hok
    cases hs : get st src with
    | none => simp only [apply, hs] at hg; exact hinv d c hg
    | some c' =>
      by_cases h2 : dst = .part d 0
      · subst h2
        have : c' = c := by simpa [apply, hs, get_set] using hg
        subst this
        exact (hput d rfl c' hs).1 rfl
      · exact frame (by simp [writes]; exact ⟨fun h => hsrc d 0 h.symm, fun h => h2 h.symm⟩)

theorem debInv_after {strict : Bool} {world : Digest → Option Bytes} {st : Store} {e : Effect}
    (hinv : DebInv strict world st) (hok : DebEffOK strict world st e) : DebInv strict world (apply e st) := by
  refine ⟨debrisOK_after hinv.1 hok, ?_⟩
  intro hs; subst hs
  exact recsWhole_after (hinv.2 rfl) hok

/-! ## sequences, crash prefixes -/

def SeqDeb (strict : Bool) (world : Digest → Option Bytes) (st : Store) : List Effect → Prop
  | [] => True
  | e :: es => DebEffOK strict world st e ∧ SeqDeb strict world (apply e st) es

theorem seqDeb_append {strict : Bool} {world : Digest → Option Bytes} {st : Store} {a b : List Effect} :
    SeqDeb strict world st (a ++ b) ↔ SeqDeb strict world st a ∧ SeqDeb strict world (run a st) b := by
  induction a generalizing st with
  | nil => simp [SeqDeb, run]
  | cons e a ih => simp [SeqDeb, run, ih, and_assoc]

theorem seq_preserves_debInv {strict : Bool} {world : Digest → Option Bytes} {st : Store} {es : List Effect}
    (hinv : DebInv strict world st) (hok : SeqDeb strict world st es) : DebInv strict world (run es st) := by
  induction es generalizing st with
  | nil => exact hinv
  | cons e es ih => exact ih (debInv_after hinv hok.1) hok.2

theorem seqDeb_take {strict : Bool} {world : Digest → Option Bytes} {st : Store} {es : List Effect} (k : Nat)
    (h : SeqDeb strict world st es) : SeqDeb strict world st (es.take k) := by
  induction es generalizing st k with
  | nil => simp [SeqDeb]
  | cons e es ih =>
    cases k with
    | zero => simp [SeqDeb]
    | succ k => exact ⟨h.1, ih k h.2⟩

theorem debEffOK_cut {strict : Bool} {world : Digest → Option Bytes} {st : Store} {e e' : Effect}
    (h : DebEffOK strict world st e) (hc : CutOf e e') : DebEffOK strict world st e' := by
  cases hc <;> exact h

theorem seqDeb_crashPrefix {strict : Bool} {world : Digest → Option Bytes} {st : Store} {es p : List Effect}
    (h : SeqDeb strict world st es) (hp : CrashPrefix es p) : SeqDeb strict world st p := by
  obtain ⟨k, rfl | ⟨e, e', hk, hc, rfl⟩⟩ := hp
  · exact seqDeb_take k h
  · have h1 : SeqDeb strict world st (es.take (k + 1)) := seqDeb_take (k + 1) h
    have h2 : es.take (k + 1) = es.take k ++ [e] := by
      rw [List.take_add_one, hk]; rfl
    rw [h2, seqDeb_append] at h1
    rw [seqDeb_append]
    exact ⟨h1.1, debEffOK_cut h1.2.1 hc, trivial⟩

def AllDebFree (es : List Effect) : Prop := ∀ e ∈ es, debFree e = true

theorem seqDeb_debFree {strict : Bool} {world : Digest → Option Bytes} {st : Store} {es : List Effect}
    (h : AllDebFree es) : SeqDeb strict world st es := by
  induction es generalizing st with
  | nil => trivial
  | cons e es ih => exact ⟨debFree_ok (h e (by simp)), ih (fun e' he' => h e' (by simp [he']))⟩

theorem allDebFree_nil : AllDebFree [] := by intro e he; cases he

theorem allDebFree_append {a b : List Effect} (ha : AllDebFree a) (hb : AllDebFree b) : AllDebFree (a ++ b) := by
  intro e he
  rcases List.mem_append.mp he with h | h
  · exact ha e h
  · exact hb e h

theorem allDebFree_andThen {a : Res} {st : Store} {f : Store → Res}
    (ha : AllDebFree a.effs) (hf : ∀ st', AllDebFree (f st').effs) : AllDebFree (a.andThen st f).effs := by
  rw [andThen_effs]; split
  · exact allDebFree_append ha (hf _)
  · exact ha

theorem seqDeb_andThen {strict : Bool} {world : Digest → Option Bytes} {a : Res} {st : Store} {f : Store → Res}
    (ha : SeqDeb strict world st a.effs) (hf : a.ok = true → SeqDeb strict world (run a.effs st) (f (run a.effs st)).effs) :
    SeqDeb strict world st (a.andThen st f).effs := by
  rw [andThen_effs]; split
  · rename_i h; exact seqDeb_append.mpr ⟨ha, hf h⟩
  · exact ha


/-! ## the download: every effect is issued in a state where it keeps the debris consistent -/

theorem seqDeb_cons {strict : Bool} {world : Digest → Option Bytes} {st : Store} {e : Effect} {es : List Effect} :
    SeqDeb strict world st (e :: es) ↔ DebEffOK strict world st e ∧ SeqDeb strict world (apply e st) es := Iff.rfl

section effs
variable {strict : Bool} {world : Digest → Option Bytes} {st : Store}

theorem deb_mv_temp_rec (k : Nat) (d : Digest)
    (h : ∀ c, get st (.temp k) = some c → PutFits strict world st d c) :
    DebEffOK strict world st (.mv (.temp k) (.part d 0)) := by
  simp only [DebEffOK]
  refine ⟨?_, ?_, ?_, ?_⟩
  · intro _ _ h; cases h
  · intro _ h; cases h
  · intro _ h; cases h
  · intro d' hd'; injection hd' with h1 _; subst h1; exact h

theorem deb_mk_rec (d : Digest) (j : Nat) (hs : ¬ strict = true) : DebEffOK strict world st (.mk (.part d j)) := by
  simp only [DebEffOK]
  exact ⟨(by intro _ h; cases h), fun h => absurd h hs⟩

theorem deb_put_rec (d : Digest) (c : Content) (h : PutFits strict world st d c) :
    DebEffOK strict world st (.put (.part d 0) c) := by
  simp only [DebEffOK]
  refine ⟨(by intro _ h; cases h), ?_⟩
  intro d' hd'; injection hd' with h1 _; subst h1; exact h

theorem deb_pw (d : Digest) (off : Nat) (x old : Bytes) (hP : get st (.pfile d) = some (.raw old))
    (ho : off ≤ old.length) (hrec : ∀ r, get st (.part d 0) = some (.prec r) → r.completed ≤ off) :
    DebEffOK strict world st (.pw (.pfile d) off x) := by
  simp only [DebEffOK]
  refine ⟨(by intro _ _ h; cases h), ?_⟩
  intro d' hd'; injection hd' with h1; subst h1
  exact ⟨⟨old, hP, ho⟩, hrec⟩

theorem deb_touch (d : Digest) : DebEffOK strict world st (.touch (.pfile d)) := by
  simp only [DebEffOK]; intro _ _ h; cases h

theorem deb_ftr (d : Digest) (n : Nat)
    (h : ∀ r, get st (.part d 0) = some (.prec r) → n = r.size ∨ r.completed = 0) :
    DebEffOK strict world st (.ftr (.pfile d) n) := by
  simp only [DebEffOK]
  refine ⟨(by intro _ _ h; cases h), ?_⟩
  intro d' hd'; injection hd' with h1; subst h1; exact h

theorem deb_rm_rec (d : Digest) (j : Nat) : DebEffOK strict world st (.rm (.part d j)) := by
  simp only [DebEffOK]; intro _ h; cases h

theorem deb_mv_pfile (d : Digest) (h : ∀ r, get st (.part d 0) ≠ some (.prec r)) :
    DebEffOK strict world st (.mv (.pfile d) (.blob d)) := by
  simp only [DebEffOK]
  refine ⟨?_, ?_, ?_, ?_⟩
  · intro _ _ h; cases h
  · intro _ h; cases h
  · intro d' hd'; injection hd' with h1; subst h1; exact h
  · intro _ h; cases h

end effs

theorem writePart_result (env : Env) (k : Nat) (d : Digest) (r : PartRec) (st : Store) :
    get (run (writePart env k (.part d 0) r) st) (.part d 0) = some (.prec r) := by
  unfold writePart; split
  · simp [writeAtomic, run, apply, get_set]
  · simp [run, apply, get_set]

theorem writePart_seqDeb {strict : Bool} {world : Digest → Option Bytes} (env : Env)
    (hstrict : strict = true → env.atomicPart = true) (k : Nat) (d : Digest) (r : PartRec) (st : Store)
    (hfit : ∀ data, world d = some data → ∀ bs, pfileBytes st d = some bs → RecFits bs data r) :
    SeqDeb strict world st (writePart env k (.part d 0) r) := by
  unfold writePart
  split
  · -- temp + rename
    simp only [writeAtomic, seqDeb_cons]
    refine ⟨debFree_ok rfl, debFree_ok rfl, debFree_ok rfl, ?_, trivial⟩
    apply deb_mv_temp_rec
    intro c hc
    have hc' : c = .prec r := by
      have : get (apply (.chmod (.temp k)) (apply (.put (.temp k) (.prec r)) (apply (.mk (.temp k)) st))) (.temp k)
          = some (.prec r) := by simp [apply, get_set]
      rw [this] at hc; injection hc with hc; exact hc.symm
    subst hc'
    refine ⟨fun _ => ⟨r, rfl⟩, ?_⟩
    intro r' hr' data hw bs hbs
    injection hr' with hr'; subst hr'
    have hpf : get (apply (.chmod (.temp k)) (apply (.put (.temp k) (.prec r)) (apply (.mk (.temp k)) st))) (.pfile d)
        = get st (.pfile d) := by simp [apply, get_set]
    rw [pfileBytes_congr hpf] at hbs
    exact hfit data hw bs hbs
  · rename_i hat
    simp only [seqDeb_cons]
    refine ⟨deb_mk_rec d 0 (fun hs => hat (hstrict hs)), ?_, trivial⟩
    apply deb_put_rec
    refine ⟨fun _ => ⟨r, rfl⟩, ?_⟩
    intro r' hr' data hw bs hbs
    injection hr' with hr'; subst hr'
    rw [pfileBytes_congr (get_apply_of_not_written (by simp [writes]))] at hbs
    exact hfit data hw bs hbs

theorem pwrites_seqDeb {strict : Bool} {world : Digest → Option Bytes} (d : Digest) (pieces : List Bytes) (off : Nat)
    (st : Store) (old : Bytes) (hP : get st (.pfile d) = some (.raw old))
    (hlen : off + pieces.flatten.length ≤ old.length)
    (hrec : ∀ r, get st (.part d 0) = some (.prec r) → r.completed ≤ off) :
    SeqDeb strict world st (pwrites (.pfile d) off pieces) := by
  induction pieces generalizing off st old with
  | nil => trivial
  | cons x rest ih =>
    simp only [List.flatten_cons, List.length_append] at hlen
    simp only [pwrites, seqDeb_cons]
    refine ⟨deb_pw d off x old hP (by omega) hrec, ?_⟩
    apply ih (off + x.length) _ (overlay old off x)
    · simp [apply, hP, get_set]
    · rw [length_overlay _ _ _ (by omega)]; omega
    · intro r hr
      rw [get_apply_of_not_written (by simp [writes])] at hr
      have := hrec r hr; omega

theorem resize_self (bs : Bytes) : resize bs bs.length = bs := by simp [resize]

theorem rm_mv_seqDeb {strict : Bool} {world : Digest → Option Bytes} (d : Digest) (s : Store) :
    SeqDeb strict world s ([.rm (.part d 0)] ++ [.mv (.pfile d) (.blob d)]) := by
  simp only [List.cons_append, List.nil_append, seqDeb_cons]
  refine ⟨deb_rm_rec d 0, deb_mv_pfile d ?_, trivial⟩
  intro r; simp [apply, get_del]

/-- the common tail of a fresh download and of a resumed one: the missing bytes, the record that
says "complete", removal of the record, rename -/
theorem fetch_tail_seqDeb {strict : Bool} {world : Digest → Option Bytes} (env : Env)
    (hstrict : strict = true → env.atomicPart = true) (hchunk : ∀ bs, (env.chunk bs).flatten = bs)
    (k : Nat) (d : Digest) (data : Bytes) (hw : world d = some data)
    (s : Store) (f : Bytes) (r r' : PartRec) (c : Nat)
    (hP : get s (.pfile d) = some (.raw f)) (hfl : f.length = data.length)
    (hR : get s (.part d 0) = some (.prec r)) (hrc : r.completed = c) (hc : c ≤ data.length)
    (hpre : f.take c = data.take c)
    (hr1 : r'.off = 0) (hr2 : r'.size = data.length) (hr3 : r'.completed = data.length) :
    SeqDeb strict world s (pwrites (.pfile d) c (env.chunk (data.drop c)) ++
      (writePart env k (.part d 0) r' ++ ([.rm (.part d 0)] ++ [.mv (.pfile d) (.blob d)]))) := by
  have hbl : (data.drop c).length = data.length - c := List.length_drop
  rw [seqDeb_append]
  refine ⟨pwrites_seqDeb d _ c s f hP (by rw [hchunk, hbl]; omega) (fun r0 h0 => by
    rw [hR] at h0; injection h0 with h0; injection h0 with h0; subst h0; omega), ?_⟩
  -- after the body writes the file is `data`, the record is untouched
  have hP3 : get (run (pwrites (.pfile d) c (env.chunk (data.drop c))) s) (.pfile d) = some (.raw data) := by
    rw [run_pwrites _ _ _ _ _ hP, overlayAll_eq _ _ _ (by omega), hchunk, hpre, hbl]
    have : c + (data.length - c) = f.length := by omega
    rw [this, List.drop_length, List.append_nil, List.take_append_drop]
  generalize run (pwrites (.pfile d) c (env.chunk (data.drop c))) s = s3 at hP3
  rw [seqDeb_append]
  refine ⟨writePart_seqDeb env hstrict k d r' s3 ?_, rm_mv_seqDeb d _⟩
  intro data' hw' bs hbs
  rw [hw] at hw'; injection hw' with hw'; subst hw'
  rw [pfileBytes_some_raw hP3] at hbs; injection hbs with hbs; subst hbs
  refine ⟨hr1, hr2, by omega, ?_⟩
  rw [hr2, hr3, resize_self]

theorem touch_ftr_seqDeb {strict : Bool} {world : Digest → Option Bytes} (d : Digest) (n : Nat) (s : Store)
    (h : ∀ r, get s (.part d 0) = some (.prec r) → n = r.size ∨ r.completed = 0) :
    SeqDeb strict world s [.touch (.pfile d), .ftr (.pfile d) n] := by
  simp only [seqDeb_cons]
  refine ⟨deb_touch d, deb_ftr d n ?_, trivial⟩
  intro r hr
  rw [get_apply_of_not_written (by simp [writes])] at hr
  exact h r hr

theorem part_after_touch_ftr (d : Digest) (n : Nat) (s : Store) :
    get (run [Effect.touch (.pfile d), .ftr (.pfile d) n] s) (.part d 0) = get s (.part d 0) :=
  get_run_of_not_written (by intro e he; simp at he; rcases he with rfl | rfl <;> simp [writes])

theorem download_seqDeb {strict : Bool} {world : Digest → Option Bytes} (env : Env)
    (hstrict : strict = true → env.atomicPart = true) (hchunk : ∀ bs, (env.chunk bs).flatten = bs)
    (k : Nat) (d : Digest) (data : Bytes) (hw : world d = some data) (st : Store)
    (hinv : DebrisOK world st) :
    SeqDeb strict world st (download env k d data st).effs := by
  obtain ⟨bs, hbs, hrec⟩ := partOK_iff.mp (hinv d data hw)
  unfold download
  dsimp only
  cases hR : get st (.part d 0) with
  | none =>
    simp only []
    by_cases hz : data.length = 0
    · simp only [hz, ↓reduceIte]
      rw [seqDeb_append]
      refine ⟨touch_ftr_seqDeb d 0 st (fun r hr => by rw [hR] at hr; cases hr), ?_⟩
      simp only [seqDeb_cons]
      refine ⟨deb_mv_pfile d ?_, trivial⟩
      intro r0
      rw [part_after_touch_ftr, hR]; simp
    · simp only [hz, ↓reduceIte, List.append_assoc]
      rw [seqDeb_append]
      refine ⟨writePart_seqDeb env hstrict k d _ st (fun data' hw' bs' _ => by
        rw [hw] at hw'; injection hw' with hw'; subst hw'
        exact ⟨rfl, rfl, Nat.zero_le _, rfl⟩), ?_⟩
      have hR1 := writePart_result env k d ⟨0, 0, data.length, 0⟩ st
      have hP1 : pfileBytes (run (writePart env k (.part d 0) ⟨0, 0, data.length, 0⟩) st) d = some bs := by
        rw [pfileBytes_congr (pfile_not_written_by_rec env k d _ st)]; exact hbs
      generalize run (writePart env k (.part d 0) ⟨0, 0, data.length, 0⟩) st = s1 at hR1 hP1
      rw [seqDeb_append]
      refine ⟨touch_ftr_seqDeb d _ s1 (fun r hr => by
        rw [hR1] at hr; injection hr with hr; injection hr with hr; subst hr; exact Or.inl rfl), ?_⟩
      have hP2 := get_touch_ftr s1 d bs data.length hP1
      have hR2 : get (run [Effect.touch (.pfile d), .ftr (.pfile d) data.length] s1) (.part d 0) = some (.prec ⟨0, 0, data.length, 0⟩) := by
        rw [part_after_touch_ftr]; exact hR1
      generalize run [Effect.touch (.pfile d), .ftr (.pfile d) data.length] s1 = s2 at hP2 hR2
      have := fetch_tail_seqDeb (strict := strict) env hstrict hchunk (k + 1) d data hw s2 (resize bs data.length)
        ⟨0, 0, data.length, 0⟩ ⟨0, 0, data.length, data.length⟩ 0 hP2 (length_resize _ _) hR2 rfl (Nat.zero_le _) rfl rfl rfl rfl
      simpa using this
  | some c =>
    cases c with
    | raw b => trivial
    | man m => trivial
    | prec r =>
      simp only []
      obtain ⟨hoff, hsize, hle, hpre⟩ := hrec r hR
      have hP2 := get_touch_ftr st d bs r.size hbs
      have hR2 : get (run [Effect.touch (.pfile d), .ftr (.pfile d) r.size] st) (.part d 0) = some (.prec r) := by
        rw [part_after_touch_ftr]; exact hR
      have hTF := touch_ftr_seqDeb (strict := strict) (world := world) d r.size st (fun r0 hr => by
        rw [hR] at hr; injection hr with hr; injection hr with hr; subst hr; exact Or.inl rfl)
      by_cases hc : r.completed = r.size
      · simp only [hc, ↓reduceIte, List.append_nil, List.append_assoc]
        rw [seqDeb_append]
        exact ⟨hTF, rm_mv_seqDeb d _⟩
      · simp only [hc, ↓reduceIte, List.append_assoc]
        rw [seqDeb_append]
        refine ⟨hTF, ?_⟩
        generalize run [Effect.touch (.pfile d), .ftr (.pfile d) r.size] st = s2 at hP2 hR2
        have hbody : List.take (r.size - r.completed) (List.drop (r.off + r.completed) data) = data.drop r.completed := by
          rw [hoff, Nat.zero_add]
          apply List.take_of_length_le
          rw [List.length_drop]; omega
        rw [hbody, hoff, Nat.zero_add]
        have hpre' : (resize bs r.size).take r.completed = data.take r.completed := hpre
        exact fetch_tail_seqDeb env hstrict hchunk k d data hw s2 (resize bs r.size) r _ r.completed hP2
          (by rw [length_resize]; exact hsize) hR2 rfl (by omega) hpre' rfl hsize
          (by simp only [List.length_drop]; omega)

/-! ## the other operations never write a `-partial` file or a part record -/

theorem allDebFree_newLayer (env : Env) (k : Nat) (pieces : List Bytes) (st : Store) :
    AllDebFree (newLayer env k pieces st).effs := by
  intro e he
  unfold newLayer at he
  dsimp only at he
  by_cases hp : present st (.blob (env.hash pieces.flatten)) = true
  · simp only [hp, ↓reduceIte, List.mem_append, List.mem_cons, List.mem_map, List.not_mem_nil, or_false] at he
    rcases he with (rfl | ⟨x, _, rfl⟩) | rfl <;> rfl
  · simp only [hp, Bool.false_eq_true, ↓reduceIte, List.mem_append, List.mem_cons, List.mem_map,
      List.not_mem_nil, or_false] at he
    rcases he with (rfl | ⟨x, _, rfl⟩) | rfl | rfl <;> rfl

theorem allDebFree_upload (env : Env) (k : Nat) (d : Digest) (body : Bytes) (st : Store) :
    AllDebFree (upload env k d body st).effs := by
  unfold upload; split
  · exact allDebFree_nil
  · exact allDebFree_newLayer env k _ st

theorem allDebFree_uploads (env : Env) (k : Nat) (ups : List (Digest × Bytes)) (st : Store) :
    AllDebFree (uploads env k ups st).effs := by
  induction ups generalizing st k with
  | nil => exact allDebFree_nil
  | cons u rest ih =>
    obtain ⟨d, body⟩ := u
    simp only [uploads]
    exact allDebFree_andThen (allDebFree_upload env k d body st) (fun st' => ih _ _)

theorem allDebFree_newLayers (env : Env) (k : Nat) (datas : List Bytes) (st : Store) :
    AllDebFree (newLayers env k datas st).effs := by
  induction datas generalizing st k with
  | nil => exact allDebFree_nil
  | cons x rest ih =>
    simp only [newLayers]
    exact allDebFree_andThen (allDebFree_newLayer env k _ st) (fun st' => ih _ _)

theorem allDebFree_removeLayers (ds : List Digest) (st : Store) : AllDebFree (removeLayers ds st).effs := by
  induction ds generalizing st with
  | nil => exact allDebFree_nil
  | cons d rest ih =>
    simp only [removeLayers]
    apply allDebFree_andThen
    · unfold layerRemove; split
      · exact allDebFree_nil
      · intro e he; simp at he; subst he; rfl
    · intro st'; exact ih _

theorem allDebFree_writeManifest (env : Env) (k : Nat) (n : Name) (m : Man) :
    AllDebFree (writeManifest env k n m).effs := by
  unfold writeManifest
  split
  · intro e he
    simp only [writeAtomic, List.mem_cons, List.not_mem_nil, or_false] at he
    rcases he with rfl | rfl | rfl | rfl <;> rfl
  · intro e he
    simp at he
    rcases he with rfl | rfl <;> rfl

theorem allDebFree_cleanupOld (env : Env) (old : Option Man) (st : Store) :
    AllDebFree (cleanupOld env old st).effs := by
  unfold cleanupOld
  split
  · split
    · exact allDebFree_nil
    · exact allDebFree_removeLayers _ _
  · exact allDebFree_nil

theorem allDebFree_verify1 (env : Env) (d : Digest) (st : Store) : AllDebFree (verify1 env d st).effs := by
  unfold verify1
  split
  · split
    · exact allDebFree_nil
    · intro e he; simp at he; subst he; rfl
  · exact allDebFree_nil

theorem allDebFree_cleanupPull (env : Env) (cand : List Digest) (st : Store) :
    AllDebFree (cleanupPull env cand st).effs := by
  unfold cleanupPull
  split
  · exact allDebFree_nil
  · intro e he
    unfold deleteUnused at he
    obtain ⟨d, _, rfl⟩ := List.mem_map.mp he
    rfl

theorem allDebFree_create (env : Env) (n : Name) (ups : List (Digest × Bytes)) (file : Digest)
    (datas : List Bytes) (cfg : Bytes) (st : Store) : AllDebFree (create env n ups file datas cfg st).effs := by
  simp only [create]
  apply allDebFree_andThen (allDebFree_uploads env 0 ups st)
  intro st'
  unfold createHandler
  dsimp only
  split
  · exact allDebFree_nil
  · apply allDebFree_andThen (allDebFree_newLayers env _ _ st')
    intro st2
    apply allDebFree_andThen (allDebFree_writeManifest env _ n _)
    intro st3
    exact allDebFree_cleanupOld env _ st3

theorem allDebFree_copy (env : Env) (src dst : Name) (st : Store) : AllDebFree (copy env src dst st).effs := by
  unfold copy
  split
  · exact allDebFree_nil
  · split
    · exact allDebFree_nil
    · split
      · intro e he
        simp only [writeAtomic, List.mem_cons, List.not_mem_nil, or_false] at he
        rcases he with rfl | rfl | rfl | rfl <;> rfl
      · intro e he
        simp at he
        rcases he with rfl | rfl <;> rfl

theorem allDebFree_delete (n : Name) (st : Store) : AllDebFree (delete n st).effs := by
  unfold delete
  split
  · exact allDebFree_nil
  · apply allDebFree_andThen
    · intro e he; simp at he; subst he; rfl
    · intro st'; exact allDebFree_removeLayers _ _

/-! ## pull, and every operation -/

theorem downloads_seqDeb {strict : Bool} {world : Digest → Option Bytes} (env : Env)
    (hstrict : strict = true → env.atomicPart = true) (hchunk : ∀ bs, (env.chunk bs).flatten = bs)
    (reg : Digest → Option Bytes) (hsub : ∀ d data, reg d = some data → world d = some data)
    (k : Nat) (ds : List Digest) (st : Store) (hinv : DebInv strict world st) :
    SeqDeb strict world st (downloads env reg k ds st).effs := by
  induction ds generalizing st k with
  | nil => trivial
  | cons d rest ih =>
    unfold downloads
    split
    · exact ih _ st hinv
    · split
      · trivial
      · rename_i data hr
        have hd := download_seqDeb (strict := strict) env hstrict hchunk k d data (hsub d data hr) st hinv.1
        have hdv : SeqDeb strict world st ((download env k d data st).andThen st (verify1 env d)).effs :=
          seqDeb_andThen hd (fun _ => seqDeb_debFree (allDebFree_verify1 env d _))
        exact seqDeb_andThen hdv (fun _ => ih (k + 2) _ (seq_preserves_debInv hinv hdv))

theorem pull_seqDeb {strict : Bool} {world : Digest → Option Bytes} (env : Env)
    (hstrict : strict = true → env.atomicPart = true) (hchunk : ∀ bs, (env.chunk bs).flatten = bs)
    (reg : Digest → Option Bytes) (hsub : ∀ d data, reg d = some data → world d = some data)
    (n : Name) (m : Man) (st : Store) (hinv : DebInv strict world st) :
    SeqDeb strict world st (pull env reg n m st).effs := by
  unfold pull
  dsimp only
  apply seqDeb_andThen (downloads_seqDeb env hstrict hchunk reg hsub 0 (m.all.map Layer.digest) st hinv)
  intro _
  apply seqDeb_debFree
  apply allDebFree_andThen (allDebFree_writeManifest env _ n m)
  intro st3
  exact allDebFree_cleanupPull env _ st3

/-- the registry of a pull serves what the world holds behind each digest -/
def OpW (world : Digest → Option Bytes) : Op → Prop
  | .pull reg _ _ => ∀ d data, reg d = some data → world d = some data
  | _ => True

/-- Every effect of every operation is issued in a state in which it keeps the download debris
consistent (and, in the fixed variant, every part record whole). -/
theorem exec_seqDeb {strict : Bool} {world : Digest → Option Bytes} (env : Env)
    (hstrict : strict = true → env.atomicPart = true) (hchunk : ∀ bs, (env.chunk bs).flatten = bs)
    (st : Store) (hinv : DebInv strict world st) (op : Op) (hop : OpW world op) :
    SeqDeb strict world st (op.exec env st).effs := by
  cases op with
  | upload k d body => exact seqDeb_debFree (allDebFree_upload env k d body st)
  | create n ups file datas cfg => exact seqDeb_debFree (allDebFree_create env n ups file datas cfg st)
  | copy src dst => exact seqDeb_debFree (allDebFree_copy env src dst st)
  | delete n => exact seqDeb_debFree (allDebFree_delete n st)
  | pull reg n m => exact pull_seqDeb env hstrict hchunk reg hop n m st hinv

theorem debInv_restartWith {strict : Bool} {world : Digest → Option Bytes} (env : Env) {st : Store}
    (h : DebInv strict world st) : DebInv strict world (restartWith env st) := by
  unfold restartWith restart
  split
  · exact h
  · split
    · exact (noDebris_prune st).debInv strict world
    · exact h

/-- **Crashes re-establish the hypothesis of the pull theorems.**  Consistent debris before ANY
operation ⇒ consistent debris after any crash prefix of it and after the start-up sequence. -/
theorem debInv_crash {strict : Bool} {world : Digest → Option Bytes} (env : Env)
    (hstrict : strict = true → env.atomicPart = true) (hchunk : ∀ bs, (env.chunk bs).flatten = bs)
    (st : Store) (hinv : DebInv strict world st) (op : Op) (hop : OpW world op)
    (p : List Effect) (hp : CrashPrefix (op.exec env st).effs p) :
    DebInv strict world (run p st) :=
  seq_preserves_debInv hinv (seqDeb_crashPrefix (exec_seqDeb env hstrict hchunk st hinv op hop) hp)

theorem DebrisOK.pullPre {world : Digest → Option Bytes} {st : Store} (h : DebrisOK world st)
    (reg : Digest → Option Bytes) (hsub : ∀ d data, reg d = some data → world d = some data) (ds : List Digest) :
    PullPre reg st ds := fun d _ _ data hr => h d data (hsub d data hr)

/-! ## every history: the stores the server can ever be in -/

/-- Stores reachable from the empty store by ANY sequence of: an operation run to any crash prefix of
its effect list (the whole list = the operation completed; last data write cut at any byte), and the
start-up sequence. -/
inductive Reach (env : Env) (world : Digest → Option Bytes) : Store → Prop
  | init : Reach env world []
  | crash {st : Store} (op : Op) (p : List Effect) :
      Reach env world st → OpW world op → CrashPrefix (op.exec env st).effs p → Reach env world (run p st)
  | restart {st : Store} : Reach env world st → Reach env world (restartWith env st)

theorem noPullDebris_nil : NoPullDebris [] := fun _ => ⟨rfl, fun _ => rfl⟩

theorem reach_debInv {env : Env} {world : Digest → Option Bytes} (hchunk : ∀ bs, (env.chunk bs).flatten = bs)
    {st : Store} (h : Reach env world st) : DebInv env.atomicPart world st := by
  induction h with
  | init => exact noPullDebris_nil.debInv _ _
  | crash op p _ hop hp ih => exact debInv_crash env id hchunk _ ih op hop p hp
  | restart _ ih => exact debInv_restartWith env ih

/-! ## the pull succeeds from ANY store with consistent debris and whole records (fixed variant) -/

theorem download_ok_of_whole (env : Env) (k : Nat) (d : Digest) (data : Bytes) (st : Store) (h : RecsWhole st) :
    (download env k d data st).ok = true := by
  unfold download
  dsimp only
  cases hR : get st (.part d 0) with
  | none => simp only []; split <;> rfl
  | some c =>
    obtain ⟨r, rfl⟩ := h d c hR
    rfl

theorem downloads_ok_whole {hash : Bytes → Digest} {world : Digest → Option Bytes} (env : Env)
    (henv : env.hash = hash) (hap : env.atomicPart = true)
    (hchunk : ∀ bs, (env.chunk bs).flatten = bs)
    (reg : Digest → Option Bytes) (hreg : ∀ d data, reg d = some data → hash data = d)
    (hsub : ∀ d data, reg d = some data → world d = some data)
    (k : Nat) (ds : List Digest) (st : Store)
    (htot : ∀ d ∈ ds, (reg d).isSome = true) (hinv : Inv hash st) (hdeb : DebInv true world st) :
    (downloads env reg k ds st).ok = true := by
  induction ds generalizing st k with
  | nil => rfl
  | cons d rest ih =>
    unfold downloads
    have hrest : ∀ d' ∈ rest, (reg d').isSome = true := fun d' h => htot d' (List.mem_cons_of_mem _ h)
    split
    · exact ih _ st hrest hinv hdeb
    · rename_i hp
      cases hr : reg d with
      | none => have := htot d (by simp); simp [hr] at this
      | some data =>
        have hpart := hdeb.1 d data (hsub d data hr)
        have hok := download_ok_of_whole env k d data st (hdeb.2 rfl)
        have hd := download_seqDeb (strict := true) env (fun _ => hap) hchunk k d data (hsub d data hr) st hdeb.1
        have hs := download_spec env henv hchunk k d data (hreg d data hr) st hpart (present_false_get hp)
        dsimp only
        rw [dl_verify_eq env henv hchunk k d data (hreg d data hr) st hinv hpart (present_false_get hp),
          andThen_ok, hok]
        exact ih (k + 2) _ hrest (seq_preserves_inv hinv hs.1) (seq_preserves_debInv hdeb hd)

/-- From ANY store with the invariant, consistent debris and whole records, a pull from an honest
registry that serves every layer of the manifest succeeds (fixed variant of `writePart`). -/
theorem pull_ok_whole {hash : Bytes → Digest} {world : Digest → Option Bytes} (env : Env) (henv : env.hash = hash)
    (hap : env.atomicPart = true) (hchunk : ∀ bs, (env.chunk bs).flatten = bs)
    (reg : Digest → Option Bytes) (hreg : ∀ d data, reg d = some data → hash data = d)
    (hsub : ∀ d data, reg d = some data → world d = some data)
    (n : Name) (m : Man) (htot : ∀ l ∈ m.all, (reg l.digest).isSome = true)
    (st : Store) (hinv : Inv hash st) (hdeb : DebInv true world st) :
    (pull env reg n m st).ok = true := by
  have htot' : ∀ d ∈ m.all.map Layer.digest, (reg d).isSome = true := by
    intro d hd; obtain ⟨l, hl, rfl⟩ := List.mem_map.mp hd; exact htot l hl
  have hok := downloads_ok_whole env henv hap hchunk reg hreg hsub 0 (m.all.map Layer.digest) st htot' hinv hdeb
  unfold pull
  dsimp only
  rw [andThen_ok, andThen_ok, hok, writeManifest_ok, cleanupPull_ok]
  rfl

end OllamaVerif.StoreCrash
