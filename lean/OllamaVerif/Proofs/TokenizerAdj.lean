/-
  C20 helper lemmas, part 3: the adjacency invariant of the merge loop (the model's `joinAt` looks `b` up as the
  live successor of `a`; the Go code indexes `merges[b]` directly).
-/
import OllamaVerif.Proofs.TokenizerVocab
namespace OllamaVerif.Tok

/-! ## the adjacency invariant of the merge loop

The Go loop pops `pair{a, b}` and indexes `merges[a]`, `merges[b]` DIRECTLY; the model's `joinAt` finds `b` as the
live successor of `a`.  `joinDirect` is the direct indexing (on the list of live parts: set `a`'s runes, drop
`b`); the two agree whenever no live part lies strictly between `a` and `b`, and that holds for every queue entry
of every reachable state (either family, any queue order). -/

def SortedP (ps : List Part) : Prop := ps.Pairwise (fun p q => p.start < q.start)

/-- `a < b` and no live part strictly between them -/
def AdjOk (ps : List Part) (a b : Nat) : Prop := a < b ∧ ∀ p ∈ ps, ¬ (a < p.start ∧ p.start < b)

def AdjInv (ps : List Part) (h : Array Cand) : Prop := SortedP ps ∧ ∀ c ∈ h, AdjOk ps c.a c.b

/-- the Go step: `left, right := merges[a], merges[b]`, both live and `ok` → `merges[a].runes = left ++ right`,
    `merges[b].runes = nil` -/
def joinDirect (ok : Str → Str → Bool) (ps : List Part) (a b : Nat) : Option (List Part) :=
  match getPart ps a, getPart ps b with
  | some l, some r =>
    if ok l.runes r.runes = true then
      some ((ps.filter (fun p => p.start != b)).map fun p =>
        if p.start = a then ({ start := a, runes := l.runes ++ r.runes } : Part) else p)
    else none
  | _, _ => none

theorem getPart_cons (p : Part) (ps : List Part) (x : Nat) :
    getPart (p :: ps) x = if p.start = x then some p else getPart ps x := by
  unfold getPart
  rw [List.find?_cons]
  by_cases h : p.start = x
  · simp [h]
  · have : (p.start == x) = false := by simp [h]
    simp [this, h]

theorem getPart_none_of_lt (ps : List Part) (x : Nat) (h : ∀ p ∈ ps, x < p.start) : getPart ps x = none := by
  unfold getPart
  rw [List.find?_eq_none]
  intro p hp
  have := h p hp
  simp; omega

theorem filter_map_id_of_gt (ps : List Part) (a b : Nat) (f : Part) (h : ∀ p ∈ ps, b < p.start) (hab : a < b) :
    ((ps.filter (fun p => p.start != b)).map fun p => if p.start = a then f else p) = ps := by
  induction ps with
  | nil => rfl
  | cons p ps ih =>
    have hp := h p (by simp)
    have h1 : p.start ≠ b := by omega
    have h2 : ¬ p.start = a := by omega
    have e : (p :: ps).filter (fun p => p.start != b) = p :: ps.filter (fun p => p.start != b) := by
      simp [h1]
    rw [e, List.map_cons, if_neg h2, ih (fun q hq => h q (List.mem_cons_of_mem _ hq))]

theorem joinAt_eq_direct (ok : Str → Str → Bool) (ps : List Part) (a b : Nat)
    (hs : SortedP ps) (hadj : AdjOk ps a b) : joinAt ok ps a b = joinDirect ok ps a b := by
  obtain ⟨hab, hbetween⟩ := hadj
  induction ps with
  | nil => simp [joinAt, joinDirect, getPart]
  | cons p rest ih =>
    have hsp := List.pairwise_cons.mp hs
    cases rest with
    | nil =>
      simp only [joinAt, joinDirect, getPart_cons]
      by_cases h1 : p.start = a
      · have h2 : ¬ a = b := by omega
        subst h1
        simp [h2, getPart]
      · simp [h1, getPart]
    | cons q rest =>
      have hsq := List.pairwise_cons.mp hsp.2
      have hpq : p.start < q.start := hsp.1 q (by simp)
      unfold joinAt
      by_cases hpa : p.start = a
      · -- `a` is the head
        rw [if_pos hpa]
        have hpb : ¬ p.start = b := by omega
        unfold joinDirect
        rw [getPart_cons, if_pos hpa, getPart_cons, if_neg hpb, getPart_cons]
        by_cases hqb : q.start = b
        · rw [if_pos hqb]
          by_cases hok : ok p.runes q.runes = true
          · rw [if_pos ⟨hqb, hok⟩]
            simp only [hok, if_true]
            congr 1
            have f1 : ((p :: q :: rest).filter (fun z => z.start != b)) = p :: rest.filter (fun z => z.start != b) := by
              simp [hpb, hqb]
            rw [f1, List.map_cons, if_pos hpa]
            congr 1
            exact (filter_map_id_of_gt rest a b _ (fun z hz => by have := hsq.1 z hz; omega) hab).symm
          · rw [if_neg (fun h => hok h.2)]
            simp only [hok]
            rfl
        · rw [if_neg (fun h => hqb h.1), if_neg hqb]
          have : getPart rest b = none := by
            cases hg : getPart rest b with
            | none => rfl
            | some r =>
              exfalso
              obtain ⟨hrm, hrs⟩ := getPart_some rest b r hg
              have hq1 : q.start < r.start := hsq.1 r hrm
              exact hbetween q (by simp) ⟨by omega, by omega⟩
          rw [this]
      · rw [if_neg hpa]
        have hs' : SortedP (q :: rest) := hsp.2
        rw [ih hs' (fun z hz => hbetween z (List.mem_cons_of_mem _ hz))]
        unfold joinDirect
        rw [getPart_cons (p := p), if_neg hpa, getPart_cons (p := p) (x := b)]
        by_cases hpb : p.start = b
        · -- then no part starts at `a` (everything starts at or after `b > a`)
          have hnone : getPart (q :: rest) a = none :=
            getPart_none_of_lt _ _ (fun z hz => by have := hsp.1 z hz; omega)
          simp [hnone]
        · rw [if_neg hpb]
          cases getPart (q :: rest) a with
          | none => rfl
          | some l =>
            cases getPart (q :: rest) b with
            | none => rfl
            | some r =>
              simp only
              by_cases hok : ok l.runes r.runes = true
              · simp only [hok, if_true, Option.map_some]
                congr 1
                have e : (p :: q :: rest).filter (fun z => z.start != b)
                    = p :: (q :: rest).filter (fun z => z.start != b) := by
                  simp [List.filter_cons, hpb]
                rw [e, List.map_cons, if_neg hpa]
              · simp only [hok]
                rfl

/-- consecutive parts of a sorted list are adjacent -/
theorem sorted_consecutive_adj (pre rest : List Part) (p q : Part) (hs : SortedP (pre ++ p :: q :: rest)) :
    AdjOk (pre ++ p :: q :: rest) p.start q.start := by
  have h := List.pairwise_append.mp hs
  obtain ⟨_, h2, h3⟩ := h
  have h2' := List.pairwise_cons.mp h2
  have h2'' := List.pairwise_cons.mp h2'.2
  refine ⟨h2'.1 q (by simp), ?_⟩
  intro z hz
  simp only [List.mem_append, List.mem_cons] at hz
  rcases hz with hz | rfl | rfl | hz
  · have := h3 z hz p (by simp); omega
  · omega
  · omega
  · have := h2''.1 z hz; omega

theorem prevStart_decomp (ps : List Part) (a x : Nat) (h : prevStart ps a = some x) :
    ∃ pre p q rest, ps = pre ++ p :: q :: rest ∧ p.start = x ∧ q.start = a := by
  induction ps with
  | nil => simp [prevStart] at h
  | cons p rest ih =>
    cases rest with
    | nil => simp [prevStart] at h
    | cons q rest =>
      unfold prevStart at h
      split at h
      · rename_i hq
        cases h
        exact ⟨[], p, q, rest, rfl, rfl, hq⟩
      · obtain ⟨pre, p', q', rest', he, h1, h2⟩ := ih h
        exact ⟨p :: pre, p', q', rest', by rw [he]; rfl, h1, h2⟩

theorem nextStart_decomp (ps : List Part) (a n x : Nat) (h : nextStart ps a n = x) (hx : x ≠ n) :
    ∃ pre p q rest, ps = pre ++ p :: q :: rest ∧ p.start = a ∧ q.start = x := by
  induction ps with
  | nil => simp [nextStart] at h; omega
  | cons p rest ih =>
    cases rest with
    | nil => simp [nextStart] at h; omega
    | cons q rest =>
      unfold nextStart at h
      split at h
      · rename_i hp
        exact ⟨[], p, q, rest, rfl, hp, h⟩
      · obtain ⟨pre, p', q', rest', he, h1, h2⟩ := ih h
        exact ⟨p :: pre, p', q', rest', by rw [he]; rfl, h1, h2⟩

theorem pushCand_adj (cfg : Cfg) (ps : List Part) (h : Array Cand) (x y : Nat) (hi : AdjInv ps h)
    (hxy : AdjOk ps x y) : AdjInv ps (pushCand cfg ps h x y) := by
  refine ⟨hi.1, ?_⟩
  unfold pushCand
  split
  · split
    · intro c hc
      rw [mem_heapPush] at hc
      rcases hc with hc | rfl
      · exact hi.2 c hc
      · exact hxy
    · exact hi.2
  · exact hi.2

theorem join_adj (ok : Str → Str → Bool) (ps ps' : List Part) (h h' : Array Cand) (a b : Nat) (hi : AdjInv ps h)
    (hsub : ∀ x ∈ h', x ∈ h) (hj : joinAt ok ps a b = some ps') : AdjInv ps' h' := by
  obtain ⟨hs, hc⟩ := hi
  obtain ⟨pre, p, q, rest, hps, hpa, _, _, hps'⟩ := joinAt_some _ _ _ _ _ hj
  have hstarts : ∀ z ∈ ps', ∃ w ∈ ps, w.start = z.start := by
    intro z hz
    rw [hps'] at hz
    rw [hps]
    simp only [List.mem_append, List.mem_cons] at hz
    rcases hz with hz | rfl | hz
    · exact ⟨z, by simp [hz], rfl⟩
    · exact ⟨p, by simp, hpa⟩
    · exact ⟨z, by simp [hz], rfl⟩
  refine ⟨?_, ?_⟩
  · -- sorted: the starts of ps' are a sublist of the starts of ps
    have hsl : (ps'.map (·.start)).Sublist (ps.map (·.start)) := by
      rw [hps', hps]
      simp only [List.map_append, List.map_cons]
      apply List.Sublist.append (List.Sublist.refl _)
      rw [hpa]
      exact List.Sublist.cons_cons _ (List.sublist_cons_self _ _)
    have h1 : (ps.map (·.start)).Pairwise (· < ·) := by
      unfold SortedP at hs
      exact List.pairwise_map.mpr hs
    exact List.pairwise_map.mp (h1.sublist hsl)
  · intro c hcm
    obtain ⟨h1, h2⟩ := hc c (hsub c hcm)
    refine ⟨h1, fun z hz hb => ?_⟩
    obtain ⟨w, hw, hws⟩ := hstarts z hz
    exact h2 w hw (by rw [hws]; exact hb)

/-- the loop of the Go code with both ends of the popped candidate indexed directly -/
def mergeLoopDirect (cfg : Cfg) (n : Nat) : Nat → List Part → Array Cand → List Part
  | 0, ps, _ => ps
  | f+1, ps, h =>
    match heapPop cfg.less h with
    | none => ps
    | some (c, h) =>
      match joinDirect (cfg.ok c) ps c.a c.b with
      | some ps' =>
        let h := match prevStart ps' c.a with
          | some p => pushCand cfg ps' h p c.a
          | none => h
        let nx := nextStart ps' c.a n
        let h := if nx < n then pushCand cfg ps' h c.a nx else h
        mergeLoopDirect cfg n f ps' h
      | none => mergeLoopDirect cfg n f ps h

theorem mergeLoop_eq_direct (cfg : Cfg) (n f : Nat) (ps : List Part) (h : Array Cand) (hi : AdjInv ps h) :
    mergeLoopDirect cfg n f ps h = mergeLoop cfg n f ps h := by
  induction f generalizing ps h with
  | zero => rfl
  | succ f ih =>
    unfold mergeLoopDirect mergeLoop
    cases hp : heapPop cfg.less h with
    | none => rfl
    | some ch =>
      obtain ⟨c, h'⟩ := ch
      obtain ⟨hcm, hsub⟩ := heapPop_mem _ _ _ _ hp
      simp only
      rw [← joinAt_eq_direct _ _ _ _ hi.1 (hi.2 c hcm)]
      cases hj : joinAt (cfg.ok c) ps c.a c.b with
      | none =>
        exact ih ps h' ⟨hi.1, fun x hx => hi.2 x (hsub x hx)⟩
      | some ps' =>
        simp only
        apply ih
        have h1 := join_adj _ _ _ _ _ _ _ hi hsub hj
        have h2 : AdjInv ps' (match prevStart ps' c.a with
            | some p => pushCand cfg ps' h' p c.a
            | none => h') := by
          split
          · rename_i x hx
            obtain ⟨pre, p, q, rest, he, e1, e2⟩ := prevStart_decomp _ _ _ hx
            apply pushCand_adj _ _ _ _ _ h1
            have := sorted_consecutive_adj pre rest p q (by rw [← he]; exact h1.1)
            rw [← he, e1, e2] at this
            exact this
          · exact h1
        split
        · rename_i hlt
          obtain ⟨pre, p, q, rest, he, e1, e2⟩ := nextStart_decomp ps' c.a n _ rfl (by omega)
          apply pushCand_adj _ _ _ _ _ h2
          have := sorted_consecutive_adj pre rest p q (by rw [← he]; exact h1.1)
          rw [← he, e1, e2] at this
          exact this
        · exact h2

theorem initParts_sorted (rs : Str) (i : Nat) : SortedP (initParts rs i) := by
  induction rs generalizing i with
  | nil => exact List.Pairwise.nil
  | cons r rs ih =>
    simp only [initParts]
    apply List.Pairwise.cons _ (ih (i + 1))
    intro p hp
    have := initParts_ge rs (i + 1) p hp
    simp only; omega

theorem initHeap_adj (cfg : Cfg) (ps pre l : List Part) (h : Array Cand) (he : ps = pre ++ l) (hi : AdjInv ps h) :
    AdjInv ps (initHeap cfg ps l h) := by
  induction l generalizing pre h with
  | nil => simpa [initHeap] using hi
  | cons p rest ih =>
    cases rest with
    | nil => simpa [initHeap] using hi
    | cons q rest =>
      unfold initHeap
      apply ih (pre ++ [p]) _ (by rw [he]; simp)
      apply pushCand_adj _ _ _ _ _ hi
      have := sorted_consecutive_adj pre rest p q (by rw [← he]; exact hi.1)
      rw [← he] at this
      exact this

def mergeAllDirect (cfg : Cfg) (rs : Str) : List Part :=
  let ps := initParts rs 0
  mergeLoopDirect cfg rs.length (3 * rs.length + 3) ps (initHeap cfg ps ps #[])

/-- **The adjacency test of the model's `joinAt` is redundant** (either family, any queue order, any input): the
    loop that indexes both ends of a popped candidate directly, as the Go code does, computes the same parts. -/
theorem mergeAll_eq_direct (cfg : Cfg) (rs : Str) : mergeAllDirect cfg rs = mergeAll cfg rs := by
  unfold mergeAllDirect mergeAll
  apply mergeLoop_eq_direct
  apply initHeap_adj cfg _ [] _ _ rfl
  exact ⟨initParts_sorted rs 0, fun c hc => by simp at hc⟩

end OllamaVerif.Tok
