/-
  GGUF round trip (C05): decode (encode kvs ts) returns what was written.  Helper lemmas per
  reader (strings, scalars, arrays, key/values, tensor infos, the trailing seek loop) and the
  final theorem `decode_encode`.
-/
import OllamaVerif.Proofs.Gguf
namespace OllamaVerif.Gguf
open OllamaVerif

theorem readN_append (xs rest : Bytes) (p : Nat) :
    readN xs.length ⟨xs ++ rest, p⟩ = .ok (xs, ⟨rest, p + xs.length⟩) := by
  simp [readN]

theorem readNCopy_append (xs rest : Bytes) (p : Nat) :
    readNCopy xs.length ⟨xs ++ rest, p⟩ = .ok (xs, ⟨rest, p + xs.length⟩) := by
  simp [readNCopy]

theorem readUint_le (w n : Nat) (rest : Bytes) (p : Nat) :
    readUint false w ⟨leBytes w n ++ rest, p⟩ = .ok (n % 256 ^ w, ⟨rest, p + w⟩) := by
  unfold readUint
  have h := readN_append (leBytes w n) rest p
  rw [leBytes_length] at h
  rw [h]
  simp [leVal_leBytes]

theorem two64_eq : two64 = 256 ^ 8 := by decide
theorem two32_eq : 4294967296 = 256 ^ 4 := by decide

theorem readU64 (n : Nat) (hn : n < two64) (rest : Bytes) (p : Nat) :
    readUint false 8 ⟨u64le n ++ rest, p⟩ = .ok (n, ⟨rest, p + 8⟩) := by
  unfold u64le
  rw [readUint_le, ← two64_eq, Nat.mod_eq_of_lt hn]

theorem readU32 (n : Nat) (hn : n < 4294967296) (rest : Bytes) (p : Nat) :
    readUint false 4 ⟨u32le n ++ rest, p⟩ = .ok (n, ⟨rest, p + 4⟩) := by
  unfold u32le
  rw [readUint_le, ← two32_eq, Nat.mod_eq_of_lt hn]

theorem toI64_small (n : Nat) (h : n < two63) : toI64 n = (n : Int) := by
  unfold toI64; simp [h]

/-- the configuration of a v3 little-endian decode without allocation budget -/
structure V3 (c : Cfg) : Prop where
  v : c.version = 3
  be : c.be = false
  b : c.budget = none

theorem readStr_enc {c : Cfg} (hc : V3 c) (s rest : Bytes) (p : Nat) (hs : s.length < two63) :
    readStr c ⟨encStr s ++ rest, p⟩ = .ok (s, ⟨rest, p + 8 + s.length⟩) := by
  have h63 : two63 < two64 := by decide
  unfold readStr
  simp only [hc.v, show (3 : Nat) ≠ 1 by decide, ↓reduceIte]
  unfold readStrV23 encStr
  rw [List.append_assoc, hc.be, readU64 _ (by omega)]
  simp only [bind, Except.bind, toI64_small _ hs]
  have hrn := readN_append s rest (p + 8)
  split
  · split
    · rename_i h1 h2
      simp only [List.length_append, Int.toNat_natCast] at h2
      omega
    · simp only [checkAlloc, hc.b, Int.toNat_natCast]
      exact readNCopy_append s rest (p + 8)
  · split
    · rename_i h1 h2; omega
    · simp only [Int.toNat_natCast]; exact hrn

end OllamaVerif.Gguf

namespace OllamaVerif.Gguf
open OllamaVerif

def arrVal (maxA : Int) (t : Nat) (es : List Elem) : Val :=
  .arr t (es.length : Int) (if maxA < 0 ∨ (es.length : Int) ≤ maxA then some es else none)

/-- what the decoder returns for a written value -/
def toVal (maxA : Int) : KVal → Val
  | .u32 n => .scalar 4 n
  | .f32 b => .scalar 6 b
  | .bool b => .scalar 7 (if b then 1 else 0)
  | .str s => .str s
  | .ai32 l => arrVal maxA 5 (l.map Elem.scalar)
  | .au32 l => arrVal maxA 4 (l.map Elem.scalar)
  | .af32 l => arrVal maxA 6 (l.map Elem.scalar)
  | .astr l => arrVal maxA 8 (l.map Elem.str)

def WfVal : KVal → Prop
  | .u32 n => n < 4294967296
  | .f32 b => b < 4294967296
  | .bool _ => True
  | .str s => s.length < two63
  | .ai32 l => l.length < two63 ∧ ∀ x ∈ l, x < 4294967296
  | .au32 l => l.length < two63 ∧ ∀ x ∈ l, x < 4294967296
  | .af32 l => l.length < two63 ∧ ∀ x ∈ l, x < 4294967296
  | .astr l => l.length < two63 ∧ ∀ x ∈ l, x.length < two63

theorem readElems_u32 {c : Cfg} (hc : V3 c) (t : Nat) (ht : t = 4 ∨ t = 5 ∨ t = 6) (collect : Bool) :
    ∀ (l : List Nat) (rest : Bytes) (p : Nat), (∀ x ∈ l, x < 4294967296) →
      readElems c t collect l.length ⟨l.flatMap u32le ++ rest, p⟩
        = .ok (l.map Elem.scalar, ⟨rest, p + 4 * l.length⟩) := by
  intro l
  induction l with
  | nil => intro rest p _; simp [readElems]
  | cons x l ih =>
    intro rest p hl
    have hx : x < 4294967296 := hl x (by simp)
    have hw : scalarWidth t = some 4 := by rcases ht with h | h | h <;> subst h <;> decide
    have h7 : ¬ t = 7 := by rcases ht with h | h | h <;> subst h <;> decide
    simp only [List.length_cons, readElems, List.flatMap_cons, List.append_assoc]
    unfold readElem
    simp only [hw]
    unfold readScalar
    rw [hc.be, readU32 x hx]
    simp only [bind, Except.bind, pure, Except.pure, h7, ↓reduceIte, hc.v]
    have := ih rest (p + 4) (fun y hy => hl y (by simp [hy]))
    simp only [show ¬ ((3 : Nat) = 1) by decide, and_false, ↓reduceIte]
    rw [this]
    simp only [List.map_cons]
    congr 2
    simp only [false_and, and_false, ↓reduceIte]
    congr 3; omega

theorem discardStr_enc {c : Cfg} (hc : V3 c) (s rest : Bytes) (p : Nat) (hs : s.length < two63) :
    discardStr c ⟨encStr s ++ rest, p⟩ = .ok ((), ⟨rest, p + 8 + s.length⟩) := by
  have h63 : two63 < two64 := by decide
  unfold discardStr encStr
  rw [List.append_assoc, hc.be, readU64 _ (by omega)]
  simp only [bind, Except.bind, toI64_small _ hs, pure, Except.pure]
  split
  · rename_i h
    have : s.length = 0 := by omega
    have hnil : s = [] := List.eq_nil_of_length_eq_zero this
    subst hnil; simp
  · simp only [Int.toNat_natCast]
    rw [readNCopy_append s rest (p + 8)]

def encStrs (l : List Bytes) : Bytes := l.flatMap encStr
def strsLen : List Bytes → Nat
  | [] => 0
  | s :: l => 8 + s.length + strsLen l

theorem readElems_str {c : Cfg} (hc : V3 c) (collect : Bool) :
    ∀ (l : List Bytes) (rest : Bytes) (p : Nat), (∀ x ∈ l, x.length < two63) →
      readElems c 8 collect l.length ⟨l.flatMap encStr ++ rest, p⟩
        = .ok (l.map (fun s => if collect then Elem.str s else Elem.str []), ⟨rest, p + strsLen l⟩) := by
  intro l
  induction l with
  | nil => intro rest p _; simp [readElems, strsLen]
  | cons x l ih =>
    intro rest p hl
    have hx : x.length < two63 := hl x (by simp)
    have hw : scalarWidth 8 = none := by decide
    simp only [List.length_cons, readElems, List.flatMap_cons, List.append_assoc]
    unfold readElem
    simp only [hw, ↓reduceIte, hc.v, show ¬ ((3 : Nat) = 1) by decide]
    have := ih rest (p + 8 + x.length) (fun y hy => hl y (by simp [hy]))
    cases collect with
    | true =>
      have hrs := readStr_enc hc x (l.flatMap encStr ++ rest) p hx
      unfold readStr at hrs
      simp only [hc.v, show ¬ ((3 : Nat) = 1) by decide, ↓reduceIte] at hrs
      simp only [↓reduceIte, hrs, bind, Except.bind, pure, Except.pure, and_false]
      rw [this]
      simp only [List.map_cons, strsLen, ↓reduceIte, false_and, and_false]
      congr 3; omega
    | false =>
      simp only [Bool.false_eq_true, ↓reduceIte, discardStr_enc hc x _ p hx, bind, Except.bind, pure, Except.pure,
        false_and]
      rw [this]
      simp only [List.map_cons, strsLen, Bool.false_eq_true, ↓reduceIte, false_and, and_false]
      congr 3; omega

end OllamaVerif.Gguf

namespace OllamaVerif.Gguf
open OllamaVerif

@[simp] theorem u32le_length (n : Nat) : (u32le n).length = 4 := by simp [u32le]
@[simp] theorem u64le_length (n : Nat) : (u64le n).length = 8 := by simp [u64le]

theorem flatMap_u32le_length (l : List Nat) : (l.flatMap u32le).length = 4 * l.length := by
  induction l with
  | nil => simp
  | cons x l ih => simp [List.flatMap_cons, u32le, ih]; omega

theorem flatMap_encStr_length (l : List Bytes) : (l.flatMap encStr).length = strsLen l := by
  induction l with
  | nil => simp [strsLen]
  | cons x l ih => simp [List.flatMap_cons, encStr, u64le, strsLen, ih]; omega

/-- the decoder's view of the tree: all guards on, arrays appended as read -/
structure V3T (c : Cfg) : Prop extends V3 c where
  g : c.g = Guards.all

theorem readArr_u32 {c : Cfg} (hc : V3T c) (t : Nat) (ht : t = 4 ∨ t = 5 ∨ t = 6) (l : List Nat)
    (hl : l.length < two63) (hx : ∀ x ∈ l, x < 4294967296) (rest : Bytes) (p : Nat) :
    readArr c ⟨u32le t ++ u64le l.length ++ l.flatMap u32le ++ rest, p⟩
      = .ok (arrVal c.maxArray t (l.map Elem.scalar), ⟨rest, p + 12 + 4 * l.length⟩) := by
  have h63 : two63 < two64 := by decide
  have ht32 : t < 4294967296 := by rcases ht with h | h | h <;> subst h <;> decide
  unfold readArr
  rw [List.append_assoc, List.append_assoc, hc.be, readU32 t ht32]
  simp only [bind, Except.bind, hc.v, show ¬ ((3 : Nat) = 1) by decide, ↓reduceIte]
  rw [readU64 _ (by omega)]
  simp only [toI64_small _ hl]
  have hneg : ¬ ((l.length : Int) < 0) := by omega
  simp only [hneg, and_false, ↓reduceIte, hc.g, Guards.all, not_true_eq_false, pure, Except.pure]
  rw [readElems_u32 hc.toV3 t ht _ l rest (p + 4 + 8) hx]
  simp only [arrVal, List.length_map]
  congr 3
  · by_cases hcol : c.maxArray < 0 ∨ (l.length : Int) ≤ c.maxArray
    · have : (decide (c.maxArray < 0) || decide ((l.length : Int) ≤ c.maxArray)) = true := by
        rcases hcol with h | h <;> simp [h]
      simp [this, hcol]
    · have : (decide (c.maxArray < 0) || decide ((l.length : Int) ≤ c.maxArray)) = false := by
        simp only [not_or] at hcol; simp [hcol.1, hcol.2]
      simp [this, hcol]

end OllamaVerif.Gguf

namespace OllamaVerif.Gguf
open OllamaVerif

theorem readArr_str {c : Cfg} (hc : V3T c) (l : List Bytes)
    (hl : l.length < two63) (hx : ∀ x ∈ l, x.length < two63) (rest : Bytes) (p : Nat) :
    readArr c ⟨u32le 8 ++ u64le l.length ++ l.flatMap encStr ++ rest, p⟩
      = .ok (arrVal c.maxArray 8 (l.map Elem.str), ⟨rest, p + 12 + strsLen l⟩) := by
  have h63 : two63 < two64 := by decide
  unfold readArr
  rw [List.append_assoc, List.append_assoc, hc.be, readU32 8 (by decide)]
  simp only [bind, Except.bind, hc.v, show ¬ ((3 : Nat) = 1) by decide, ↓reduceIte]
  rw [readU64 _ (by omega)]
  simp only [toI64_small _ hl]
  have hneg : ¬ ((l.length : Int) < 0) := by omega
  simp only [hneg, and_false, ↓reduceIte, hc.g, Guards.all, not_true_eq_false, pure, Except.pure]
  rw [readElems_str hc.toV3 _ l rest (p + 4 + 8) hx]
  simp only [arrVal, List.length_map]
  by_cases hcol : c.maxArray < 0 ∨ (l.length : Int) ≤ c.maxArray
  · have : (decide (c.maxArray < 0) || decide ((l.length : Int) ≤ c.maxArray)) = true := by
      rcases hcol with h | h <;> simp [h]
    simp only [this, ↓reduceIte, hcol]
  · have : (decide (c.maxArray < 0) || decide ((l.length : Int) ≤ c.maxArray)) = false := by
      simp only [not_or] at hcol; simp [hcol.1, hcol.2]
    simp only [this, Bool.false_eq_true, ↓reduceIte, hcol]

/-- one tagged value: the type tag followed by the payload, as `ggufWriteKV` writes it -/
theorem readTagged_enc {c : Cfg} (hc : V3T c) (v : KVal) (hw : WfVal v) (rest : Bytes) (p : Nat) :
    (readUint c.be 4 ⟨encVal v ++ rest, p⟩ >>= fun tr => readValue c tr.1 tr.2)
      = .ok (toVal c.maxArray v, ⟨rest, p + (encVal v).length⟩) := by
  have h63 : two63 < two64 := by decide
  cases v with
  | u32 n =>
    simp only [encVal, List.append_assoc, hc.be, readU32 4 (by decide), bind, Except.bind]
    unfold readValue readScalar
    simp only [show scalarWidth 4 = some 4 by decide, hc.be, readU32 n hw, bind, Except.bind, pure, Except.pure,
      show ¬ ((4 : Nat) = 7) by decide, ↓reduceIte, toVal]
    simp [u32le]
  | f32 n =>
    simp only [encVal, List.append_assoc, hc.be, readU32 6 (by decide), bind, Except.bind]
    unfold readValue readScalar
    simp only [show scalarWidth 6 = some 4 by decide, hc.be, readU32 n hw, bind, Except.bind, pure, Except.pure,
      show ¬ ((6 : Nat) = 7) by decide, ↓reduceIte, toVal]
    simp [u32le]
  | bool b =>
    simp only [encVal, List.append_assoc, hc.be, readU32 7 (by decide), bind, Except.bind]
    unfold readValue readScalar readUint readN
    cases b <;> simp [scalarWidth, bind, Except.bind, pure, Except.pure, toVal, leVal, hc.be, u32le] <;> omega
  | str s =>
    simp only [encVal, List.append_assoc, hc.be, readU32 8 (by decide), bind, Except.bind]
    unfold readValue
    simp only [show scalarWidth 8 = none by decide, ↓reduceIte, readStr_enc hc.toV3 s rest (p + 4) hw, bind,
      Except.bind, pure, Except.pure, toVal]
    simp [u32le, encStr, u64le]; omega
  | ai32 l =>
    simp only [encVal, List.append_assoc, hc.be, readU32 9 (by decide), bind, Except.bind]
    unfold readValue
    simp only [show scalarWidth 9 = none by decide, show ¬ ((9 : Nat) = 8) by decide, ↓reduceIte]
    have := readArr_u32 hc 5 (by decide) l hw.1 hw.2 rest (p + 4)
    simp only [List.append_assoc] at this
    rw [this]
    have hpos : p + 4 + 12 + 4 * l.length = p + (encVal (.ai32 l)).length := by
      simp only [encVal, List.length_append, u32le_length, u64le_length, flatMap_u32le_length]; omega
    rw [hpos]; rfl
  | au32 l =>
    simp only [encVal, List.append_assoc, hc.be, readU32 9 (by decide), bind, Except.bind]
    unfold readValue
    simp only [show scalarWidth 9 = none by decide, show ¬ ((9 : Nat) = 8) by decide, ↓reduceIte]
    have := readArr_u32 hc 4 (by decide) l hw.1 hw.2 rest (p + 4)
    simp only [List.append_assoc] at this
    rw [this]
    have hpos : p + 4 + 12 + 4 * l.length = p + (encVal (.au32 l)).length := by
      simp only [encVal, List.length_append, u32le_length, u64le_length, flatMap_u32le_length]; omega
    rw [hpos]; rfl
  | af32 l =>
    simp only [encVal, List.append_assoc, hc.be, readU32 9 (by decide), bind, Except.bind]
    unfold readValue
    simp only [show scalarWidth 9 = none by decide, show ¬ ((9 : Nat) = 8) by decide, ↓reduceIte]
    have := readArr_u32 hc 6 (by decide) l hw.1 hw.2 rest (p + 4)
    simp only [List.append_assoc] at this
    rw [this]
    have hpos : p + 4 + 12 + 4 * l.length = p + (encVal (.af32 l)).length := by
      simp only [encVal, List.length_append, u32le_length, u64le_length, flatMap_u32le_length]; omega
    rw [hpos]; rfl
  | astr l =>
    simp only [encVal, List.append_assoc, hc.be, readU32 9 (by decide), bind, Except.bind]
    unfold readValue
    simp only [show scalarWidth 9 = none by decide, show ¬ ((9 : Nat) = 8) by decide, ↓reduceIte]
    have := readArr_str hc l hw.1 hw.2 rest (p + 4)
    simp only [List.append_assoc] at this
    rw [this]
    have hpos : p + 4 + 12 + strsLen l = p + (encVal (.astr l)).length := by
      simp only [encVal, List.length_append, u32le_length, u64le_length, flatMap_encStr_length]; omega
    rw [hpos]; rfl

end OllamaVerif.Gguf

namespace OllamaVerif.Gguf
open OllamaVerif

def WfKV (kv : Bytes × KVal) : Prop := kv.1.length < two63 ∧ WfVal kv.2

theorem readKVs_enc {c : Cfg} (hc : V3T c) :
    ∀ (kvs : List (Bytes × KVal)) (acc : List (Bytes × Val)) (rest : Bytes) (p : Nat),
      (∀ kv ∈ kvs, WfKV kv) →
      readKVs c kvs.length acc ⟨kvs.flatMap encKV ++ rest, p⟩
        = .ok (kvs.foldl (fun a kv => kvInsert a kv.1 (toVal c.maxArray kv.2)) acc,
               ⟨rest, p + (kvs.flatMap encKV).length⟩) := by
  intro kvs
  induction kvs with
  | nil => intro acc rest p _; simp [readKVs]
  | cons kv kvs ih =>
    intro acc rest p hw
    obtain ⟨k, v⟩ := kv
    have hkv := hw (k, v) (by simp)
    simp only [List.length_cons, readKVs, List.flatMap_cons, encKV, List.append_assoc]
    rw [readStr_enc hc.toV3 k _ p hkv.1]
    simp only [bind, Except.bind]
    have ht := readTagged_enc hc v hkv.2 (kvs.flatMap encKV ++ rest) (p + 8 + k.length)
    simp only [bind, Except.bind] at ht
    cases hru : readUint c.be 4 ⟨encVal v ++ (kvs.flatMap encKV ++ rest), p + 8 + k.length⟩ with
    | error e => rw [hru] at ht; cases ht
    | ok tr =>
      rw [hru] at ht
      simp only [] at ht
      simp only [ht]
      rw [ih _ rest _ (fun kv hk => hw kv (by simp [hk]))]
      simp only [List.foldl_cons, List.length_append, encStr, u64le_length]
      congr 3
      omega

theorem kvInsert_fresh (acc : List (Bytes × Val)) (k : Bytes) (v : Val) (h : ∀ p ∈ acc, p.1 ≠ k) :
    kvInsert acc k v = acc ++ [(k, v)] := by
  unfold kvInsert
  congr 1
  exact List.filter_eq_self.mpr (by intro p hp; simpa using h p hp)

theorem foldl_kvInsert_nodup (maxA : Int) :
    ∀ (kvs : List (Bytes × KVal)) (acc : List (Bytes × Val)),
      (kvs.map (·.1)).Nodup → (∀ kv ∈ kvs, ∀ p ∈ acc, p.1 ≠ kv.1) →
      kvs.foldl (fun a kv => kvInsert a kv.1 (toVal maxA kv.2)) acc
        = acc ++ kvs.map (fun kv => (kv.1, toVal maxA kv.2)) := by
  intro kvs
  induction kvs with
  | nil => intro acc _ _; simp
  | cons kv kvs ih =>
    intro acc hn hd
    simp only [List.map_cons, List.nodup_cons] at hn
    simp only [List.foldl_cons]
    rw [kvInsert_fresh acc kv.1 _ (hd kv (by simp))]
    rw [ih _ hn.2]
    · simp
    · intro kv' hkv' p hp
      simp only [List.mem_append, List.mem_singleton] at hp
      rcases hp with hp | hp
      · exact hd kv' (by simp [hkv']) p hp
      · subst hp
        intro e
        exact hn.1 (List.mem_map.mpr ⟨kv', hkv', e.symm⟩)

end OllamaVerif.Gguf

namespace OllamaVerif.Gguf
open OllamaVerif

theorem flatMap_u64le_length (l : List Nat) : (l.flatMap u64le).length = 8 * l.length := by
  induction l with
  | nil => simp
  | cons x l ih => simp [List.flatMap_cons, ih]; omega

theorem readShape_enc {c : Cfg} (hc : V3 c) :
    ∀ (l : List Nat) (rest : Bytes) (p : Nat), (∀ x ∈ l, x < two64) →
      readShape c l.length ⟨l.flatMap u64le ++ rest, p⟩ = .ok (l, ⟨rest, p + 8 * l.length⟩) := by
  intro l
  induction l with
  | nil => intro rest p _; simp [readShape]
  | cons x l ih =>
    intro rest p hl
    simp only [List.length_cons, readShape, List.flatMap_cons, List.append_assoc, hc.be]
    rw [readU64 x (hl x (by simp))]
    simp only [bind, Except.bind, pure, Except.pure]
    rw [ih rest (p + 8) (fun y hy => hl y (by simp [hy]))]
    simp only []
    congr 3
    omega

/-- writer-side well-formedness of one tensor -/
structure WfTensor (t : TIn) : Prop where
  name : t.name.length < two63
  dims : t.shape.length < 4294967296
  dim : ∀ x ∈ t.shape, x < two64
  kind : t.kind < 4294967296

def infoOf (t : TIn) (off : Nat) : TInfo := ⟨t.name, t.kind, t.shape.reverse, off⟩

theorem readTensor_enc {c : Cfg} (hc : V3T c) (t : TIn) (off : Nat) (hw : WfTensor t) (ho : off < two64)
    (rest : Bytes) (p : Nat) :
    readTensor c ⟨encTInfo t off ++ rest, p⟩
      = .ok (infoOf t off, ⟨rest, p + (encTInfo t off).length⟩) := by
  unfold readTensor encTInfo
  simp only [List.append_assoc]
  rw [readStr_enc hc.toV3 t.name _ p hw.name]
  simp only [bind, Except.bind, hc.be]
  rw [readU32 _ hw.dims]
  simp only []
  have hrem : ¬ (c.g.dimsHuge = true ∧ 8 * t.shape.length >
      (t.shape.reverse.flatMap u64le ++ (u32le t.kind ++ (u64le off ++ rest))).length) := by
    simp only [List.length_append, flatMap_u64le_length, List.length_reverse]
    omega
  simp only [hrem, ↓reduceIte, checkAlloc, hc.b]
  have hsh := readShape_enc hc.toV3 t.shape.reverse (u32le t.kind ++ (u64le off ++ rest)) (p + 8 + t.name.length + 4)
    (by intro x hx; exact hw.dim x (List.mem_reverse.mp hx))
  simp only [List.length_reverse] at hsh
  rw [hsh]
  simp only []
  rw [readU32 _ hw.kind]
  simp only []
  rw [readU64 _ ho]
  simp only [pure, Except.pure, infoOf]
  congr 3
  simp only [List.length_append, encStr, u64le_length, u32le_length, flatMap_u64le_length, List.length_reverse]
  omega

/-- the tensors written with their declared offsets -/
def infosOf : List TIn → List Nat → List TInfo
  | t :: ts, o :: os => infoOf t o :: infosOf ts os
  | _, _ => []

theorem readTensors_enc {c : Cfg} (hc : V3T c) :
    ∀ (ts : List TIn) (os : List Nat) (rest : Bytes) (p : Nat),
      os.length = ts.length → (∀ t ∈ ts, WfTensor t) → (∀ o ∈ os, o < two64) →
      readTensors c ts.length ⟨encTInfos ts os ++ rest, p⟩
        = .ok (infosOf ts os, ⟨rest, p + (encTInfos ts os).length⟩) := by
  intro ts
  induction ts with
  | nil => intro os rest p _ _ _; simp [readTensors, encTInfos, infosOf]
  | cons t ts ih =>
    intro os rest p hlen hw ho
    cases os with
    | nil => simp at hlen
    | cons o os =>
      simp only [List.length_cons, readTensors, encTInfos, List.append_assoc]
      rw [readTensor_enc hc t o (hw t (by simp)) (ho o (by simp))]
      simp only [bind, Except.bind]
      rw [ih os rest _ (by simpa using hlen) (fun t' h => hw t' (by simp [h])) (fun o' h => ho o' (by simp [h]))]
      simp only [pure, Except.pure, infosOf, List.length_append]
      congr 3
      omega

end OllamaVerif.Gguf

namespace OllamaVerif.Gguf
open OllamaVerif

def prodL : List Nat → Nat
  | [] => 1
  | x :: l => x * prodL l

theorem prodL_append (l : List Nat) (x : Nat) : prodL (l ++ [x]) = prodL l * x := by
  induction l with
  | nil => simp [prodL]
  | cons y l ih => simp [prodL, ih, Nat.mul_assoc]

theorem prodL_reverse (l : List Nat) : prodL l.reverse = prodL l := by
  induction l with
  | nil => rfl
  | cons x l ih => simp [prodL, prodL_append, ih, Nat.mul_comm]

theorem foldl_mulmod (M : Nat) : ∀ (l : List Nat) (a : Nat),
    l.foldl (fun acc n => (acc * n) % M) (a % M) = (a * prodL l) % M := by
  intro l
  induction l with
  | nil => intro a; simp [prodL]
  | cons x l ih =>
    intro a
    simp only [List.foldl_cons, prodL]
    have : (a % M * x) % M = (a * x) % M := Nat.mod_mul_mod a x M
    rw [this, ih (a * x), Nat.mul_assoc]

theorem parameters_eq (l : List Nat) : parameters l = prodL l % two64 := by
  unfold parameters
  have := foldl_mulmod two64 l 1
  have h1 : 1 % two64 = 1 := by decide
  rw [h1] at this
  rw [this, Nat.one_mul]

theorem tensorSize_reverse (kind : Nat) (shape : List Nat) :
    tensorSize kind shape.reverse = tensorSize kind shape := by
  unfold tensorSize
  rw [parameters_eq, parameters_eq, prodL_reverse]

theorem seekTensors_enc (align : Nat) :
    ∀ (ts : List TIn) (os : List Nat) (P : Nat), os.length = ts.length →
      (∀ t ∈ ts, WfT t) → P + (encData align ts P).length < two63 →
      seekTensors Guards.all align (infosOf ts os) P = .ok (P + (encData align ts P).length) := by
  intro ts
  induction ts with
  | nil => intro os P _ _ _; cases os <;> simp [infosOf, seekTensors, encData]
  | cons t ts ih =>
    intro os P hlen hw hb
    cases os with
    | nil => simp at hlen
    | cons o os =>
      have hsz : t.data.length = tensorSize t.kind t.shape := hw t (by simp)
      simp only [encData, List.length_append, List.length_replicate] at hb ⊢
      have hlt : tensorSize t.kind t.shape < two63 := by omega
      simp only [infosOf, seekTensors, infoOf, tensorSize_reverse, toI64_small _ hlt]
      have hneg : ¬ ((tensorSize t.kind t.shape : Int) < 0) := by omega
      have h2 : (two63 : Int) = ((two63 : Nat) : Int) := rfl
      have hrange : ¬ (((P + padding P align : Nat) : Int) + (tensorSize t.kind t.shape : Int) < 0 ∨
          ((P + padding P align : Nat) : Int) + (tensorSize t.kind t.shape : Int) ≥ (two63 : Int)) := by
        omega
      simp only [hneg, and_false, ↓reduceIte, hrange]
      have hnat : (((P + padding P align : Nat) : Int) + (tensorSize t.kind t.shape : Int)).toNat
          = P + padding P align + t.data.length := by omega
      rw [hnat]
      rw [ih os _ (by simpa using hlen) (fun t' h => hw t' (by simp [h])) (by omega)]
      congr 1
      omega

end OllamaVerif.Gguf

namespace OllamaVerif.Gguf
open OllamaVerif

theorem alignment_agrees (maxA : Int) (kvs : List (Bytes × KVal)) (a : Nat) (extra : Val)
    (hw : ∀ kv ∈ kvs, WfKV kv) (ha : alignmentIn kvs = .ok a) :
    alignmentOf Guards.all (kvs.map (fun kv => (kv.1, toVal maxA kv.2)) ++ [(keyParamCount, extra)]) = .ok a := by
  unfold alignmentOf kvLookup
  unfold alignmentIn at ha
  have hne : ¬ (keyParamCount = keyAlignment) := by decide
  rw [List.find?_append, List.find?_map]
  have hcomp : ((fun p : Bytes × Val => decide (p.1 = keyAlignment)) ∘ fun kv : Bytes × KVal => (kv.1, toVal maxA kv.2))
      = fun p : Bytes × KVal => decide (p.1 = keyAlignment) := by
    funext p; rfl
  rw [hcomp]
  cases hf : kvs.find? (fun p => decide (p.1 = keyAlignment)) with
  | none =>
    rw [hf] at ha
    simp only [Option.map_none] at ha
    simp [List.find?, hne]
    injection ha
  | some kv =>
    rw [hf] at ha
    obtain ⟨k, v⟩ := kv
    have hmem : (k, v) ∈ kvs := List.mem_of_find?_eq_some hf
    have hwf := (hw (k, v) hmem).2
    simp only [Option.map_some] at ha
    cases v with
    | u32 n =>
      simp only [] at ha
      have hn : n < 4294967296 := hwf
      simp only [Option.map_some, Option.or_some, toVal]
      rw [Nat.mod_eq_of_lt hn] at ha
      exact ha
    | f32 _ => simp at ha
    | bool _ => simp at ha
    | str _ => simp at ha
    | ai32 _ => simp at ha
    | au32 _ => simp at ha
    | af32 _ => simp at ha
    | astr _ => simp at ha

end OllamaVerif.Gguf

namespace OllamaVerif.Gguf
open OllamaVerif

/-- **Round trip.**  For every key/value list given in key order with distinct keys and every
    tensor list, if the writer model succeeds then the decoder model returns exactly the written
    keys and values (plus the parameter count), the tensor infos with reversed shapes and the
    declared offsets, the aligned start of the data section, and an end offset equal to the file
    length. -/
theorem decode_encode (kvs : List (Bytes × KVal)) (ts : List TIn) (file : Bytes) (align : Nat) (maxArraySize : Int)
    (hsorted : sortKVs kvs = kvs) (hnodup : (kvs.map (·.1)).Nodup)
    (hnoparam : ∀ kv ∈ kvs, kv.1 ≠ keyParamCount)
    (hwkv : ∀ kv ∈ kvs, WfKV kv) (hwt : ∀ t ∈ ts, WfTensor t ∧ WfT t)
    (hnk : kvs.length < two64) (hnt : ts.length < two64)
    (halign : alignmentIn kvs = .ok align) (hpos : 0 < align)
    (hoff : ∀ o ∈ offsets false align ts 0, o < two64)
    (henc : encode false kvs ts = .ok file) (hlen : file.length < two63) :
    let maxA : Int := if maxArraySize = 0 then 1024 else maxArraySize
    let head := encHead false align kvs ts
    let infos := infosOf ts (offsets false align ts 0)
    decode file maxArraySize none
      = .ok ⟨3, kvs.map (fun kv => (kv.1, toVal maxA kv.2)) ++ [(keyParamCount, .scalar 10 (sumParameters infos))],
             infos, head.length + padding head.length align, file.length⟩ := by
  intro maxA head infos
  obtain ⟨H, hHd⟩ : ∃ H, H = head.length := ⟨_, rfl⟩
  have hfile : file = head ++ encData align ts H := by
    unfold encode at henc
    simp only [writerAlignment_lenient _ _ halign, bind, Except.bind] at henc
    split at henc
    · cases henc
    · simp only [pure, Except.pure] at henc
      injection henc with h; rw [hHd]; exact h.symm
  have hc : V3T (⟨false, 3, maxA, none, Guards.tree⟩ : Cfg) := ⟨⟨rfl, rfl, rfl⟩, rfl⟩
  have hhead : head = u32le magicLE ++ (u32le 3 ++ (u64le ts.length ++ (u64le kvs.length ++
      (kvs.flatMap encKV ++ (encTInfos ts (offsets false align ts 0)))))) := by
    simp only [head, encHead, encHeader, hsorted, List.append_assoc]
  have hheadlen : 0 + 4 + 4 + 8 + 8 + (kvs.flatMap encKV).length + (encTInfos ts (offsets false align ts 0)).length
      = H := by
    rw [hHd, hhead]
    simp only [List.length_append, u32le_length, u64le_length]
    omega
  have hflen : file.length = H + (encData align ts H).length := by
    rw [hfile, List.length_append, ← hHd]
  rw [← hHd]
  unfold decode decodeFrom
  simp only []
  rw [hfile, hhead]
  simp only [List.append_assoc]
  rw [readU32 magicLE (by decide)]
  simp only [bind, Except.bind, show ¬ (magicLE ≠ magicLE ∧ magicLE ≠ magicBE) by decide, ↓reduceIte,
    show (decide (magicLE = magicBE)) = false by decide]
  rw [readU32 3 (by decide)]
  simp only [show ¬ ((3 : Nat) = 1) by decide, ↓reduceIte]
  rw [show ∀ (n : Nat) (rest : Bytes) (p : Nat), readUintIn false 8 (2 * 8) ⟨u64le n ++ (u64le kvs.length ++ rest), p⟩
      = readUint false 8 ⟨u64le n ++ (u64le kvs.length ++ rest), p⟩ from by
    intro n rest p; unfold readUintIn
    simp only [List.length_append, u64le_length]
    rw [if_pos (by omega)]]
  rw [readU64 _ hnt]
  simp only []
  rw [readU64 _ hnk]
  simp only []
  unfold decodeBody
  have hk := readKVs_enc hc kvs [] (encTInfos ts (offsets false align ts 0) ++ encData align ts H)
    (0 + 4 + 4 + 8 + 8) hwkv
  simp only [] at hk
  simp only [bind, Except.bind]
  rw [hk]
  simp only []
  rw [foldl_kvInsert_nodup maxA kvs [] hnodup (by intro _ _ p hp; cases hp)]
  have ht := readTensors_enc hc ts (offsets false align ts 0) (encData align ts H)
    (0 + 4 + 4 + 8 + 8 + (kvs.flatMap encKV).length) (offsets_length _ _ _ _)
    (fun t h => (hwt t h).1) hoff
  rw [ht]
  simp only [List.nil_append]
  rw [kvInsert_fresh _ keyParamCount _ (by
    intro p hp
    obtain ⟨kv, hkv, rfl⟩ := List.mem_map.mp hp
    exact hnoparam kv hkv)]
  rw [show Guards.tree = Guards.all from rfl]
  rw [alignment_agrees maxA kvs align _ hwkv halign]
  simp only [show ¬ (align = 0) by omega, ↓reduceIte, hheadlen]
  have hseek := seekTensors_enc align ts (offsets false align ts 0) H (offsets_length _ _ _ _)
    (fun t h => (hwt t h).2) (by omega)
  rw [hseek]
  simp only [pure, Except.pure]
  congr 2
  simp only [List.length_append, u32le_length, u64le_length]
  omega

end OllamaVerif.Gguf
