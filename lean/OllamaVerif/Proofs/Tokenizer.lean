/-
  Helper lemmas for C20 (tokenizers).  Core Lean only.
-/
import OllamaVerif.Model.Tokenizer

namespace OllamaVerif.Tok

/-! ## byte map -/

theorem dec_enc_table (pinned : Bool) :
    ∀ b, b < 256 → b ≠ 0 → (pinned = true → b ≠ 0x7e) → decRune (encByte pinned b) = some b := by
  cases pinned <;> decide +kernel

theorem decodeRunes_append (a b : Str) : decodeRunes (a ++ b) = decodeRunes a ++ decodeRunes b := by
  simp [decodeRunes, List.filterMap_append]

theorem decodeRunes_map_enc (pinned : Bool) (bs : Str)
    (h : ∀ b ∈ bs, b < 256 ∧ b ≠ 0 ∧ (pinned = true → b ≠ 0x7e)) :
    decodeRunes (bs.map (encByte pinned)) = bs := by
  induction bs with
  | nil => rfl
  | cons b bs ih =>
    have hb := h b (by simp)
    have := dec_enc_table pinned b hb.1 hb.2.1 hb.2.2
    simp only [decodeRunes, List.map_cons, List.filterMap_cons, this]
    congr 1
    exact ih (fun x hx => h x (by simp [hx]))

/-! ## strings.Index -/

theorem isPrefixOf_eq (p s : Str) (h : isPrefixOf p s = true) : s = p ++ s.drop p.length := by
  induction p generalizing s with
  | nil => simp
  | cons a p ih =>
    cases s with
    | nil => simp [isPrefixOf] at h
    | cons b s =>
      simp only [isPrefixOf, Bool.and_eq_true, beq_iff_eq] at h
      obtain ⟨rfl, h2⟩ := h
      simp only [List.length_cons, List.drop_succ_cons, List.cons_append]
      congr 1
      exact ih s h2

theorem isPrefixOf_self (p : Str) : isPrefixOf p p = true := by
  induction p with
  | nil => rfl
  | cons a p ih => simp [isPrefixOf, ih]

theorem indexOf_spec (s pat : Str) (i : Nat) (h : indexOf s pat = some i) :
    s = s.take i ++ pat ++ s.drop (i + pat.length) := by
  induction s generalizing i with
  | nil =>
    unfold indexOf at h
    split at h
    · rename_i hp
      cases h
      simpa using isPrefixOf_eq pat [] hp
    · simp at h
  | cons c s ih =>
    unfold indexOf at h
    split at h
    · rename_i hp
      cases h
      simpa using isPrefixOf_eq pat (c :: s) hp
    · simp only [Option.map_eq_some_iff] at h
      obtain ⟨j, hj, rfl⟩ := h
      have := ih j hj
      simp only [List.take_succ_cons, List.cons_append]
      rw [show j + 1 + pat.length = (j + pat.length) + 1 by omega, List.drop_succ_cons]
      congr 1

theorem indexOf_self (p : Str) : indexOf p p = some 0 := by
  unfold indexOf
  simp [isPrefixOf_self]

/-! ## special splitting -/

def fragsLit (frs : List Frag) : Str := (frs.map Frag.lit).flatten

theorem fragsLit_append (a b : List Frag) : fragsLit (a ++ b) = fragsLit a ++ fragsLit b := by
  simp [fragsLit]

theorem splitSpecial_lit (sp : Special) (f : Nat) (s : Str) : fragsLit (splitSpecial sp f s) = s := by
  induction f generalizing s with
  | zero => simp [splitSpecial, fragsLit, Frag.lit]
  | succ f ih =>
    unfold splitSpecial
    split
    · simp [fragsLit, Frag.lit]
    · rename_i i hi
      have hs := indexOf_spec s sp.lit i hi
      rw [fragsLit_append, fragsLit_append]
      have h1 : fragsLit (if i > 0 then [Frag.text (s.take i)] else []) = s.take i := by
        by_cases h0 : i > 0
        · simp [h0, fragsLit, Frag.lit]
        · have : i = 0 := by omega
          subst this
          simp [fragsLit]
      have h2 : fragsLit [Frag.special sp] = sp.lit := by simp [fragsLit, Frag.lit]
      have h3 : fragsLit (let rest := s.drop (i + sp.lit.length)
          if rest.isEmpty then [] else splitSpecial sp f rest) = s.drop (i + sp.lit.length) := by
        simp only
        split
        · rename_i he
          simp only [List.isEmpty_iff] at he
          simp [fragsLit, he]
        · exact ih _
      rw [h1, h2, h3]
      exact hs.symm

theorem splitFrags_lit (sp : Special) (frs : List Frag) : fragsLit (splitFrags sp frs) = fragsLit frs := by
  induction frs with
  | nil => rfl
  | cons fr frs ih =>
    have : splitFrags sp (fr :: frs) = (match fr with
        | .text s => splitSpecial sp (s.length + 1) s
        | .special q => [.special q]) ++ splitFrags sp frs := by
      cases fr <;> simp [splitFrags]
    rw [this, fragsLit_append, ih]
    cases fr with
    | text s =>
      simp only [splitSpecial_lit]
      simp [fragsLit, Frag.lit]
    | special q => simp [fragsLit]

theorem fragments_lit (specials : List Special) (s : Str) : fragsLit (fragments specials s) = s := by
  unfold fragments
  have : ∀ (sps : List Special) (frs : List Frag),
      fragsLit (sps.foldl (fun frs sp => splitFrags sp frs) frs) = fragsLit frs := by
    intro sps
    induction sps with
    | nil => intro frs; rfl
    | cons sp sps ih => intro frs; simp only [List.foldl_cons]; rw [ih, splitFrags_lit]
  rw [this]
  simp [fragsLit, Frag.lit]

/-- every special fragment comes from the list of specials -/
def specialsFrom (sps : List Special) (frs : List Frag) : Prop :=
  ∀ fr ∈ frs, ∀ q, fr = Frag.special q → q ∈ sps

theorem splitSpecial_from (sp : Special) (f : Nat) (s : Str) :
    ∀ fr ∈ splitSpecial sp f s, ∀ q, fr = Frag.special q → q = sp := by
  induction f generalizing s with
  | zero => intro fr hfr q hq; simp [splitSpecial] at hfr; subst hfr; cases hq
  | succ f ih =>
    intro fr hfr q hq
    unfold splitSpecial at hfr
    split at hfr
    · simp at hfr; subst hfr; cases hq
    · simp only [List.mem_append] at hfr
      rcases hfr with (hfr | hfr) | hfr
      · split at hfr
        · simp at hfr; subst hfr; cases hq
        · simp at hfr
      · simp at hfr; subst hfr; cases hq; rfl
      · split at hfr
        · simp at hfr
        · exact ih _ fr hfr q hq

theorem fragments_from (specials : List Special) (s : Str) :
    specialsFrom specials (fragments specials s) := by
  unfold fragments
  have : ∀ (sps done : List Special) (frs : List Frag), specialsFrom done frs →
      specialsFrom (done ++ sps) (sps.foldl (fun frs sp => splitFrags sp frs) frs) := by
    intro sps
    induction sps with
    | nil => intro done frs h; simpa using h
    | cons sp sps ih =>
      intro done frs h
      simp only [List.foldl_cons]
      have h' : specialsFrom (done ++ [sp]) (splitFrags sp frs) := by
        intro fr hfr q hq
        simp only [splitFrags, List.mem_flatMap] at hfr
        obtain ⟨g, hg, hfr⟩ := hfr
        cases g with
        | text t =>
          have := splitSpecial_from sp _ t fr hfr q hq
          simp [this]
        | special q' =>
          simp at hfr
          subst hfr
          have := h _ hg q hq
          simp [this]
      have := ih (done ++ [sp]) _ h'
      simpa using this
  have := this specials [] [.text s] (by intro fr hfr q hq; simp at hfr; subst hfr; cases hq)
  simpa using this

/-! ## merge loop -/

def concatParts (ps : List Part) : Str := (ps.map (·.runes)).flatten

theorem joinAt_concat (ok : Str → Str → Bool) (ps ps' : List Part) (a b : Nat)
    (h : joinAt ok ps a b = some ps') : concatParts ps' = concatParts ps := by
  induction ps generalizing ps' with
  | nil => simp [joinAt] at h
  | cons p rest ih =>
    cases rest with
    | nil => simp [joinAt] at h
    | cons q rest =>
      unfold joinAt at h
      split at h
      · split at h
        · cases h; simp [concatParts]
        · cases h
      · simp only [Option.map_eq_some_iff] at h
        obtain ⟨ps2, h2, rfl⟩ := h
        have := ih ps2 h2
        simp only [concatParts, List.map_cons, List.flatten_cons] at this ⊢
        rw [this]

theorem joinAt_all (P : Str → Prop) (ok : Str → Str → Bool) (hok : ∀ l r, ok l r = true → P (l ++ r))
    (ps ps' : List Part) (a b : Nat) (hps : ∀ p ∈ ps, P p.runes)
    (h : joinAt ok ps a b = some ps') : ∀ p ∈ ps', P p.runes := by
  induction ps generalizing ps' with
  | nil => simp [joinAt] at h
  | cons p rest ih =>
    cases rest with
    | nil => simp [joinAt] at h
    | cons q rest =>
      unfold joinAt at h
      split at h
      · split at h
        · rename_i hq
          cases h
          intro x hx
          simp only [List.mem_cons] at hx
          rcases hx with rfl | hx
          · exact hok _ _ hq.2
          · exact hps x (by simp [hx])
        · cases h
      · simp only [Option.map_eq_some_iff] at h
        obtain ⟨ps2, h2, rfl⟩ := h
        intro x hx
        simp only [List.mem_cons] at hx
        rcases hx with rfl | hx
        · exact hps _ (by simp)
        · exact ih ps2 (fun y hy => hps y (List.mem_cons_of_mem _ hy)) h2 x hx

theorem mergeLoop_concat (cfg : Cfg) (n f : Nat) (ps : List Part) (h : Array Cand) :
    concatParts (mergeLoop cfg n f ps h) = concatParts ps := by
  induction f generalizing ps h with
  | zero => rfl
  | succ f ih =>
    unfold mergeLoop
    split
    · rfl
    · split
      · rename_i ps' hj
        simp only
        rw [ih, joinAt_concat _ _ _ _ _ hj]
      · exact ih _ _

theorem mergeLoop_all (P : Str → Prop) (cfg : Cfg) (hok : ∀ c l r, cfg.ok c l r = true → P (l ++ r))
    (n f : Nat) (ps : List Part) (h : Array Cand) (hps : ∀ p ∈ ps, P p.runes) :
    ∀ p ∈ mergeLoop cfg n f ps h, P p.runes := by
  induction f generalizing ps h with
  | zero => exact hps
  | succ f ih =>
    unfold mergeLoop
    split
    · exact hps
    · split
      · rename_i c h' ps' hj
        simp only
        exact ih _ _ (joinAt_all P _ (hok _) _ _ _ _ hps hj)
      · exact ih _ _ hps

theorem initParts_concat (rs : Str) (i : Nat) : concatParts (initParts rs i) = rs := by
  induction rs generalizing i with
  | nil => rfl
  | cons r rs ih =>
    simp only [initParts, concatParts, List.map_cons, List.flatten_cons, List.singleton_append]
    congr 1
    exact ih (i + 1)

theorem initParts_single (rs : Str) (i : Nat) : ∀ p ∈ initParts rs i, ∃ r ∈ rs, p.runes = [r] := by
  induction rs generalizing i with
  | nil => intro p hp; simp [initParts] at hp
  | cons r rs ih =>
    intro p hp
    simp only [initParts, List.mem_cons] at hp
    rcases hp with rfl | hp
    · exact ⟨r, by simp, rfl⟩
    · obtain ⟨x, hx, hxe⟩ := ih (i + 1) p hp
      exact ⟨x, by simp [hx], hxe⟩

theorem mergeAll_concat (cfg : Cfg) (rs : Str) : concatParts (mergeAll cfg rs) = rs := by
  unfold mergeAll
  simp only
  rw [mergeLoop_concat, initParts_concat]

theorem mergeAll_all (P : Str → Prop) (cfg : Cfg) (hok : ∀ c l r, cfg.ok c l r = true → P (l ++ r))
    (rs : Str) (h1 : ∀ r ∈ rs, P [r]) : ∀ p ∈ mergeAll cfg rs, P p.runes := by
  unfold mergeAll
  simp only
  apply mergeLoop_all P cfg hok
  intro p hp
  obtain ⟨r, hr, hre⟩ := initParts_single rs 0 p hp
  rw [hre]
  exact h1 r hr

end OllamaVerif.Tok

namespace OllamaVerif.Tok

/-! ## BPE encode/decode -/

/-- `Values[values[s]] = s` (the lookup map is built from `Values`) -/
def Vocab.Wf (V : Vocab) : Prop := ∀ t i, V.tokId t = some i → V.tokStr i = t ∧ i < V.size

/-- the per-byte guard of the BPE round trip -/
def byteOk (pinned : Bool) (b : Nat) : Prop := b < 256 ∧ b ≠ 0 ∧ (pinned = true → b ≠ 0x7e)

/-- "the vocabulary covers every byte" (every remapped byte that can occur is a token) -/
def Vocab.CoversBytes (V : Vocab) (pinned : Bool) : Prop :=
  ∀ b, byteOk pinned b → (V.tokId [encByte pinned b]).isSome = true

theorem bpeDecode_append (V : Vocab) (a b : List Nat) :
    bpeDecode V (a ++ b) = bpeDecode V a ++ bpeDecode V b := by
  simp [bpeDecode]

theorem bpeDecode_parts (V : Vocab) (hwf : V.Wf) (ps : List Part)
    (hall : ∀ p ∈ ps, (V.tokId p.runes).isSome = true) :
    bpeDecode V (ps.filterMap fun p => V.tokId p.runes) = decodeRunes (concatParts ps) := by
  induction ps with
  | nil => rfl
  | cons p ps ih =>
    have hp := hall p (by simp)
    obtain ⟨i, hi⟩ := Option.isSome_iff_exists.mp hp
    have hs := (hwf _ _ hi).1
    have : bpeDecode V ((p :: ps).filterMap fun p => V.tokId p.runes)
        = decodeRunes (V.tokStr i) ++ bpeDecode V (ps.filterMap fun p => V.tokId p.runes) := by
      simp [bpeDecode, List.filterMap_cons, hi]
    rw [this, ih (fun q hq => hall q (List.mem_cons_of_mem _ hq)), hs]
    simp [concatParts, decodeRunes_append]

theorem bpeCfg_ok (V : Vocab) (c : Cand) (l r : Str) (h : (bpeCfg V).ok c l r = true) :
    (V.tokId (l ++ r)).isSome = true := by
  simp only [bpeCfg, Bool.and_eq_true, beq_iff_eq] at h
  rw [h.1]; exact h.2

theorem bpePiece_roundtrip (pinned : Bool) (V : Vocab) (hwf : V.Wf) (hcov : V.CoversBytes pinned)
    (piece : Str) (hb : ∀ b ∈ piece, byteOk pinned b) :
    bpeDecode V (bpePiece pinned V piece) = piece := by
  have hdec : decodeRunes (piece.map (encByte pinned)) = piece := decodeRunes_map_enc pinned piece hb
  unfold bpePiece
  simp only
  split
  · rename_i id hid
    have := (hwf _ _ hid).1
    simp [bpeDecode, this, hdec]
  · rw [bpeDecode_parts V hwf, mergeAll_concat, hdec]
    apply mergeAll_all (fun t => (V.tokId t).isSome = true) _ (bpeCfg_ok V)
    intro r hr
    simp only [List.mem_map] at hr
    obtain ⟨b, hbm, rfl⟩ := hr
    exact hcov b (hb b hbm)

theorem bpePieces_roundtrip (pinned : Bool) (V : Vocab) (hwf : V.Wf) (hcov : V.CoversBytes pinned)
    (pieces : List Str) (hb : ∀ piece ∈ pieces, ∀ b ∈ piece, byteOk pinned b) :
    bpeDecode V (pieces.flatMap (bpePiece pinned V)) = pieces.flatten := by
  induction pieces with
  | nil => rfl
  | cons p ps ih =>
    simp only [List.flatMap_cons, List.flatten_cons, bpeDecode_append]
    rw [bpePiece_roundtrip pinned V hwf hcov p (hb p (by simp)),
        ih (fun q hq => hb q (List.mem_cons_of_mem _ hq))]

theorem bpeFrags_roundtrip (pinned : Bool) (V : Vocab) (split : Str → List Str) (hwf : V.Wf)
    (hcov : V.CoversBytes pinned) (frs : List Frag)
    (htext : ∀ t, Frag.text t ∈ frs → (split t).flatten = t ∧ ∀ b ∈ t, byteOk pinned b)
    (hsp : ∀ q, Frag.special q ∈ frs → decodeRunes (V.tokStr q.id) = q.lit) :
    bpeDecode V (frs.flatMap (bpeFrag pinned V split)) = fragsLit frs := by
  induction frs with
  | nil => rfl
  | cons fr frs ih =>
    simp only [List.flatMap_cons, bpeDecode_append]
    rw [ih (fun t ht => htext t (List.mem_cons_of_mem _ ht)) (fun q hq => hsp q (List.mem_cons_of_mem _ hq))]
    have : fragsLit (fr :: frs) = fr.lit ++ fragsLit frs := by simp [fragsLit]
    rw [this]
    congr 1
    cases fr with
    | text t =>
      obtain ⟨h1, h2⟩ := htext t (by simp)
      simp only [bpeFrag, Frag.lit]
      rw [bpePieces_roundtrip pinned V hwf hcov, h1]
      intro piece hp b hbp
      apply h2
      rw [← h1]
      exact List.mem_flatten.mpr ⟨piece, hp, hbp⟩
    | special q =>
      simp only [bpeFrag, Frag.lit]
      have := hsp q (by simp)
      simp [bpeDecode, this]

theorem mem_fragsLit_of_text (frs : List Frag) (t : Str) (h : Frag.text t ∈ frs) :
    ∀ b ∈ t, b ∈ fragsLit frs := by
  intro b hb
  simp only [fragsLit, List.mem_flatten, List.mem_map]
  exact ⟨t, ⟨Frag.text t, h, rfl⟩, hb⟩

/-- every id produced for a piece is the id of some vocabulary string -/
theorem bpePiece_ids (pinned : Bool) (V : Vocab) (piece : Str) :
    ∀ id ∈ bpePiece pinned V piece, ∃ t, V.tokId t = some id := by
  intro id hid
  unfold bpePiece at hid
  simp only at hid
  split at hid
  · rename_i i hi
    simp at hid; subst hid
    exact ⟨_, hi⟩
  · simp only [List.mem_filterMap] at hid
    obtain ⟨p, _, hp⟩ := hid
    exact ⟨_, hp⟩

theorem mem_addSpecials (c : AddCfg) (ids : List Nat) :
    ∀ id ∈ addSpecials c ids, id ∈ ids ∨ (c.addSpecial = true ∧ c.addBOS = true ∧ id = c.bos) ∨
      (c.addSpecial = true ∧ c.addEOS = true ∧ id = c.eos) := by
  intro id hid
  unfold addSpecials at hid
  split at hid
  · rename_i hc
    simp only [Bool.and_eq_true] at hc
    simp only at hid
    by_cases hb : c.addBOS = true <;> by_cases he : c.addEOS = true <;>
      simp [hb, he] at hid <;> simp [hc.1, hb, he] <;> grind
  · exact Or.inl hid

end OllamaVerif.Tok

namespace OllamaVerif.Tok

/-! ## SentencePiece -/

theorem spmDecode_append (V : Vocab) (a b : List Nat) (x y : Str)
    (ha : spmDecode V a = some x) (hb : spmDecode V b = some y) :
    spmDecode V (a ++ b) = some (x ++ y) := by
  induction a generalizing x with
  | nil => simp [spmDecode] at ha; subst ha; simpa using hb
  | cons id ids ih =>
    simp only [spmDecode, List.cons_append] at ha ⊢
    cases h1 : spmDecodeTok V id with
    | none => simp [h1] at ha
    | some u =>
      cases h2 : spmDecode V ids with
      | none => simp [h1, h2] at ha
      | some v =>
        simp only [h1, h2, Option.some.injEq] at ha
        subst ha
        simp [ih v h2, List.append_assoc]

theorem byteTok_facts : ∀ b, b < 256 →
    utf8s ((byteTok b).map sepToSpace) = byteTok b ∧ parseByteTok (byteTok b) = some (some b) := by
  decide +kernel

theorem utf8_lt (r : Nat) (h : r < 0x110000) : ∀ b ∈ utf8 r, b < 256 := by
  intro b hb
  unfold utf8 at hb
  split at hb
  · simp at hb; omega
  · split at hb
    · simp at hb; omega
    · split at hb
      · simp at hb; omega
      · simp at hb; omega

theorem utf8s_lt (rs : Str) (h : ∀ r ∈ rs, r < 0x110000) : ∀ b ∈ utf8s rs, b < 256 := by
  intro b hb
  simp only [utf8s, List.mem_flatMap] at hb
  obtain ⟨r, hr, hbr⟩ := hb
  exact utf8_lt r (h r hr) b hbr

theorem utf8s_append (a b : Str) : utf8s (a ++ b) = utf8s a ++ utf8s b := by simp [utf8s]

/-- the vocabulary has all 256 byte tokens -/
def Vocab.HasByteTokens (V : Vocab) : Prop := ∀ b, b < 256 → (V.tokId (byteTok b)).isSome = true

theorem spm_fallback (V : Vocab) (hwf : V.Wf) (hbt : V.HasByteTokens) (bs : Str) (h : ∀ b ∈ bs, b < 256) :
    spmDecode V (bs.filterMap fun b => V.tokId (byteTok b)) = some bs := by
  induction bs with
  | nil => rfl
  | cons b bs ih =>
    have hb := h b (by simp)
    obtain ⟨i, hi⟩ := Option.isSome_iff_exists.mp (hbt b hb)
    have hs := (hwf _ _ hi).1
    have hf := byteTok_facts b hb
    have h1 : spmDecodeTok V i = some [b] := by simp [spmDecodeTok, hs, hf.1, hf.2]
    have := ih (fun x hx => h x (List.mem_cons_of_mem _ hx))
    simp [List.filterMap_cons, hi, spmDecode, h1, this]

theorem map_sepToSpace_id (p : Str) (h : sepRune ∉ p) : p.map sepToSpace = p := by
  induction p with
  | nil => rfl
  | cons r p ih =>
    simp only [List.mem_cons, not_or] at h
    simp only [List.map_cons, ih h.2]
    congr 1
    simp only [sepToSpace]
    split
    · rename_i h'; exact absurd h'.symm h.1
    · rfl

theorem map_sep_roundtrip (t : Str) (h : sepRune ∉ t) : (t.map spaceToSep).map sepToSpace = t := by
  induction t with
  | nil => rfl
  | cons r t ih =>
    simp only [List.mem_cons, not_or] at h
    simp only [List.map_cons, ih h.2]
    congr 1
    simp only [spaceToSep, sepToSpace]
    split
    · rename_i h'; simp [h']
    · split
      · rename_i h'; exact absurd h'.symm h.1
      · rfl

/-- decode of the ids of one token string `p`: either `p` is a token (and then must not look like a
    byte-token literal), or it contains no U+2581 and is spelled with byte tokens -/
theorem spmToken_decode (V : Vocab) (hwf : V.Wf) (hbt : V.HasByteTokens) (p : Str)
    (hvalid : ∀ r ∈ p, r < 0x110000)
    (hcase : (V.tokId p).isSome = true ∨ sepRune ∉ p)
    (hnolit : (V.tokId p).isSome = true → parseByteTok (utf8s (p.map sepToSpace)) = none) :
    spmDecode V (spmToken V p) = some (utf8s (p.map sepToSpace)) := by
  unfold spmToken
  split
  · rename_i id hid
    have hs := (hwf _ _ hid).1
    have := hnolit (by simp [hid])
    simp [spmDecode, spmDecodeTok, hs, this]
  · rename_i hnone
    have hno : sepRune ∉ p := by
      rcases hcase with h | h
      · simp [hnone] at h
      · exact h
    rw [map_sepToSpace_id p hno]
    exact spm_fallback V hwf hbt _ (utf8s_lt p hvalid)

theorem map_space_roundtrip (p : Str) (h : 32 ∉ p) : (p.map sepToSpace).map spaceToSep = p := by
  induction p with
  | nil => rfl
  | cons r p ih =>
    simp only [List.mem_cons, not_or] at h
    simp only [List.map_cons, ih h.2]
    congr 1
    simp only [spaceToSep, sepToSpace]
    split
    · rename_i h'; simp [h']
    · split
      · rename_i h'; exact absurd h'.symm h.1
      · rfl

/-- no contiguous piece of the text that IS A TOKEN of the vocabulary (after space -> U+2581) spells a
    byte-token literal `<0x??>` (6 bytes) -/
def NoByteLit (V : Vocab) (s : Str) : Prop :=
  ∀ pre m post, s = pre ++ m ++ post → (V.tokId (m.map spaceToSep)).isSome = true →
    parseByteTok (utf8s m) = none

theorem NoByteLit.infix {V : Vocab} {s : Str} (h : NoByteLit V s) (a t b : Str) (hs : s = a ++ t ++ b) :
    NoByteLit V t := by
  intro pre m post ht
  apply h (a ++ pre) m (post ++ b)
  rw [hs, ht]; simp [List.append_assoc]

theorem mem_flatten_split {α} (l : List (List α)) (x : List α) (h : x ∈ l) :
    ∃ a b, l.flatten = a ++ x ++ b := by
  obtain ⟨s, t, rfl⟩ := List.append_of_mem h
  exact ⟨s.flatten, t.flatten, by simp⟩

/-! ### binary heap: push/pop only permute / drop entries -/

theorem mem_swapIfInBounds (h : Array Cand) (i j : Nat) (x : Cand) :
    x ∈ h.swapIfInBounds i j ↔ x ∈ h := by
  unfold Array.swapIfInBounds
  split
  · split
    · exact (Array.swap_perm _ _).mem_iff
    · exact Iff.rfl
  · exact Iff.rfl

theorem mem_heapUp (less : Cand → Cand → Bool) (f : Nat) (h : Array Cand) (j : Nat) (x : Cand) :
    x ∈ heapUp less f h j ↔ x ∈ h := by
  induction f generalizing h j with
  | zero => exact Iff.rfl
  | succ f ih =>
    unfold heapUp
    split
    · exact Iff.rfl
    · simp only
      split
      · rw [ih, mem_swapIfInBounds]
      · exact Iff.rfl

theorem mem_heapDown (less : Cand → Cand → Bool) (f : Nat) (h : Array Cand) (i : Nat) (x : Cand) :
    x ∈ heapDown less f h i ↔ x ∈ h := by
  induction f generalizing h i with
  | zero => exact Iff.rfl
  | succ f ih =>
    unfold heapDown
    simp only
    split
    · split <;> split <;> first | exact Iff.rfl | (rw [ih, mem_swapIfInBounds])
    · exact Iff.rfl

theorem mem_heapPush (less : Cand → Cand → Bool) (h : Array Cand) (c x : Cand) :
    x ∈ heapPush less h c ↔ x ∈ h ∨ x = c := by
  unfold heapPush
  simp only
  rw [mem_heapUp, Array.mem_push]

theorem heapPop_mem (less : Cand → Cand → Bool) (h h' : Array Cand) (c : Cand)
    (hp : heapPop less h = some (c, h')) : c ∈ h ∧ ∀ x ∈ h', x ∈ h := by
  unfold heapPop at hp
  split at hp
  · cases hp
  · rename_i hsz
    simp only [Option.some.injEq, Prod.mk.injEq] at hp
    obtain ⟨rfl, rfl⟩ := hp
    constructor
    · have : 0 < h.size := by omega
      simp [Array.getD, this]
    · intro x hx
      rw [mem_heapDown] at hx
      have : x ∈ h.swapIfInBounds 0 (h.size - 1) := by
        have h1 := Array.mem_toList_iff.mpr hx
        rw [Array.toList_pop] at h1
        exact Array.mem_toList_iff.mp ((List.dropLast_sublist _).subset h1)
      exact (mem_swapIfInBounds _ _ _ _).mp this

/-! ## SPM: the size-only staleness test of the Go code suffices -/

theorem joinAt_some (ok : Str → Str → Bool) (ps ps' : List Part) (a b : Nat)
    (h : joinAt ok ps a b = some ps') :
    ∃ pre p q rest, ps = pre ++ p :: q :: rest ∧ p.start = a ∧ q.start = b ∧ ok p.runes q.runes = true ∧
      ps' = pre ++ ({ start := a, runes := p.runes ++ q.runes } : Part) :: rest := by
  induction ps generalizing ps' with
  | nil => simp [joinAt] at h
  | cons p rest ih =>
    cases rest with
    | nil => simp [joinAt] at h
    | cons q rest =>
      unfold joinAt at h
      split at h
      · rename_i hpa
        split at h
        · rename_i hq
          cases h
          exact ⟨[], p, q, rest, rfl, hpa, hq.1, hq.2, rfl⟩
        · cases h
      · simp only [Option.map_eq_some_iff] at h
        obtain ⟨ps2, h2, rfl⟩ := h
        obtain ⟨pre, p', q', rest', he, h1, h2', h3, h4⟩ := ih ps2 h2
        exact ⟨p :: pre, p', q', rest', by rw [he]; rfl, h1, h2', h3, by rw [h4]; rfl⟩

theorem utf8_length_pos (r : Nat) : 0 < (utf8 r).length := by
  unfold utf8
  split
  · simp
  · split
    · simp
    · split <;> simp

theorem utf8s_length_eq_zero (x : Str) (h : (utf8s x).length = 0) : x = [] := by
  cases x with
  | nil => rfl
  | cons r x =>
    have := utf8_length_pos r
    have h2 : (utf8s (r :: x)).length = (utf8 r).length + (utf8s x).length := by simp [utf8s]
    omega

theorem prefix_size_eq (l0 l r0 r : Str) (hl : l0 <+: l) (hr : r0 <+: r)
    (hs : (utf8s l).length + (utf8s r).length = (utf8s l0).length + (utf8s r0).length) :
    l = l0 ∧ r = r0 := by
  obtain ⟨x, rfl⟩ := hl
  obtain ⟨y, rfl⟩ := hr
  simp only [utf8s_append, List.length_append] at hs
  have hx := utf8s_length_eq_zero x (by omega)
  have hy := utf8s_length_eq_zero y (by omega)
  simp [hx, hy]

theorem start_unique (ps : List Part) (hn : (ps.map (·.start)).Nodup) (p q : Part)
    (hp : p ∈ ps) (hq : q ∈ ps) (h : p.start = q.start) : p = q := by
  induction ps with
  | nil => cases hp
  | cons x xs ih =>
    simp only [List.map_cons, List.nodup_cons, List.mem_map, not_exists, not_and] at hn
    simp only [List.mem_cons] at hp hq
    rcases hp with rfl | hp <;> rcases hq with rfl | hq
    · rfl
    · exact absurd h.symm (hn.1 q hq)
    · exact absurd h (hn.1 p hp)
    · exact ih hn.2 hp hq

theorem getPart_some (ps : List Part) (a : Nat) (l : Part) (h : getPart ps a = some l) :
    l ∈ ps ∧ l.start = a := by
  unfold getPart at h
  exact ⟨List.mem_of_find?_eq_some h, by simpa using List.find?_some h⟩

/-- what a queue entry remembers: it was created from two strings whose join is a token, its recorded
    size is theirs, and the parts at its two ends (if still live) extend those strings -/
def CandOk (V : Vocab) (ps : List Part) (c : Cand) : Prop :=
  ∃ l0 r0, (V.tokId (l0 ++ r0)).isSome = true ∧ c.size = (utf8s l0).length + (utf8s r0).length ∧
    (∀ p ∈ ps, p.start = c.a → l0 <+: p.runes) ∧ (∀ p ∈ ps, p.start = c.b → r0 <+: p.runes)

def TokOrSingle (V : Vocab) (u : Str) : Prop := (V.tokId u).isSome = true ∨ ∃ r, u = [r]

def SpmInv (V : Vocab) (ps : List Part) (h : Array Cand) : Prop :=
  (ps.map (·.start)).Nodup ∧ (∀ c ∈ h, CandOk V ps c) ∧ (∀ p ∈ ps, TokOrSingle V p.runes)

theorem pushCand_inv (V : Vocab) (ps : List Part) (h : Array Cand) (x y : Nat) (hi : SpmInv V ps h) :
    SpmInv V ps (pushCand (spmCfg V) ps h x y) := by
  obtain ⟨hn, hc, hp⟩ := hi
  unfold pushCand
  split
  · rename_i l r hl hr
    obtain ⟨hlm, hls⟩ := getPart_some ps x l hl
    obtain ⟨hrm, hrs⟩ := getPart_some ps y r hr
    split
    · rename_i key size value hmk
      refine ⟨hn, ?_, hp⟩
      intro c hcm
      rw [mem_heapPush] at hcm
      rcases hcm with hcm | rfl
      · exact hc c hcm
      · simp only [spmCfg, Option.map_eq_some_iff, Prod.mk.injEq] at hmk
        obtain ⟨id, hid, _, hsz, _⟩ := hmk
        refine ⟨l.runes, r.runes, by simp [hid], hsz.symm, ?_, ?_⟩
        · intro p hpm hps
          have := start_unique ps hn p l hpm hlm (by simp only at hps; rw [hps, hls])
          rw [this]; exact List.prefix_refl _
        · intro p hpm hps
          have := start_unique ps hn p r hpm hrm (by simp only at hps; rw [hps, hrs])
          rw [this]; exact List.prefix_refl _
    · exact ⟨hn, hc, hp⟩
  · exact ⟨hn, hc, hp⟩

theorem join_inv (V : Vocab) (ps ps' : List Part) (h h' : Array Cand) (c : Cand) (hi : SpmInv V ps h)
    (hc : c ∈ h) (hsub : ∀ x ∈ h', x ∈ h)
    (hj : joinAt ((spmCfg V).ok c) ps c.a c.b = some ps') : SpmInv V ps' h' := by
  obtain ⟨hn, hcs, hp⟩ := hi
  obtain ⟨pre, p, q, rest, hps, hpa, hqb, hok, hps'⟩ := joinAt_some _ _ _ _ _ hj
  have hpm : p ∈ ps := by rw [hps]; simp
  have hqm : q ∈ ps := by rw [hps]; simp
  -- the popped candidate is not stale: its two ends are exactly the strings it was created from
  obtain ⟨l0, r0, htok, hsz, hl, hr⟩ := hcs c hc
  have hsize : (utf8s p.runes).length + (utf8s q.runes).length = (utf8s l0).length + (utf8s r0).length := by
    simp only [spmCfg, beq_iff_eq] at hok
    rw [hok, hsz]
  obtain ⟨e1, e2⟩ := prefix_size_eq l0 p.runes r0 q.runes (hl p hpm hpa) (hr q hqm hqb) hsize
  have hmem' : ∀ z ∈ ps', z ∈ ps ∨ z = ({ start := c.a, runes := p.runes ++ q.runes } : Part) := by
    intro z hz
    rw [hps'] at hz
    rw [hps]
    simp only [List.mem_append, List.mem_cons] at hz ⊢
    rcases hz with hz | rfl | hz
    · exact Or.inl (Or.inl hz)
    · exact Or.inr rfl
    · exact Or.inl (Or.inr (Or.inr (Or.inr hz)))
  refine ⟨?_, ?_, ?_⟩
  · -- starts of ps' are a sublist of the starts of ps
    have hsl : (ps'.map (·.start)).Sublist (ps.map (·.start)) := by
      rw [hps', hps]
      simp only [List.map_append, List.map_cons]
      apply List.Sublist.append (List.Sublist.refl _)
      rw [hpa]
      exact List.Sublist.cons_cons _ (List.sublist_cons_self _ _)
    exact hsl.nodup hn
  · intro c' hc'
    obtain ⟨l1, r1, ht1, hs1, hl1, hr1⟩ := hcs c' (hsub c' hc')
    refine ⟨l1, r1, ht1, hs1, ?_, ?_⟩
    · intro z hz hzs
      rcases hmem' z hz with hz | rfl
      · exact hl1 z hz hzs
      · simp only at hzs ⊢
        exact (hl1 p hpm (by rw [hpa]; exact hzs)).trans (List.prefix_append _ _)
    · intro z hz hzs
      rcases hmem' z hz with hz | rfl
      · exact hr1 z hz hzs
      · simp only at hzs ⊢
        exact (hr1 p hpm (by rw [hpa]; exact hzs)).trans (List.prefix_append _ _)
  · intro z hz
    rcases hmem' z hz with hz | rfl
    · exact hp z hz
    · left; simp only; rw [e1, e2]; exact htok

theorem spm_mergeLoop_inv (V : Vocab) (n f : Nat) (ps : List Part) (h : Array Cand) (hi : SpmInv V ps h) :
    ∀ p ∈ mergeLoop (spmCfg V) n f ps h, TokOrSingle V p.runes := by
  induction f generalizing ps h with
  | zero => exact hi.2.2
  | succ f ih =>
    unfold mergeLoop
    split
    · exact hi.2.2
    · rename_i c h' hpop
      obtain ⟨hcm, hsub⟩ := heapPop_mem _ _ _ _ hpop
      split
      · rename_i ps' hj
        have h1 := join_inv V ps ps' h h' c hi hcm hsub hj
        simp only
        apply ih
        have h2 : SpmInv V ps' (match prevStart ps' c.a with
            | some p => pushCand (spmCfg V) ps' h' p c.a
            | none => h') := by
          split
          · exact pushCand_inv V _ _ _ _ h1
          · exact h1
        split
        · exact pushCand_inv V _ _ _ _ h2
        · exact h2
      · apply ih
        exact ⟨hi.1, fun x hx => hi.2.1 x (hsub x hx), hi.2.2⟩

theorem initParts_ge (rs : Str) (i : Nat) : ∀ p ∈ initParts rs i, i ≤ p.start := by
  induction rs generalizing i with
  | nil => intro p hp; simp [initParts] at hp
  | cons r rs ih =>
    intro p hp
    simp only [initParts, List.mem_cons] at hp
    rcases hp with rfl | hp
    · exact Nat.le_refl _
    · have := ih (i + 1) p hp; omega

theorem initParts_nodup (rs : Str) (i : Nat) : ((initParts rs i).map (·.start)).Nodup := by
  induction rs generalizing i with
  | nil => simp [initParts]
  | cons r rs ih =>
    simp only [initParts, List.map_cons, List.nodup_cons, List.mem_map, not_exists, not_and]
    refine ⟨?_, ih (i + 1)⟩
    intro p hp hps
    have := initParts_ge rs (i + 1) p hp
    omega

theorem initHeap_inv (V : Vocab) (ps l : List Part) (h : Array Cand) (hi : SpmInv V ps h) :
    SpmInv V ps (initHeap (spmCfg V) ps l h) := by
  induction l generalizing h with
  | nil => simpa [initHeap] using hi
  | cons p rest ih =>
    cases rest with
    | nil => simpa [initHeap] using hi
    | cons q rest =>
      unfold initHeap
      exact ih _ (pushCand_inv V ps h _ _ hi)

/-- **SPM merge loop with the Go code's size-only staleness test: every part it leaves is a token or a
    single rune of the input.** -/
theorem spm_mergeAll_parts (V : Vocab) (rs : Str) :
    ∀ p ∈ mergeAll (spmCfg V) rs, TokOrSingle V p.runes := by
  unfold mergeAll
  simp only
  apply spm_mergeLoop_inv
  apply initHeap_inv
  refine ⟨initParts_nodup rs 0, ?_, ?_⟩
  · intro c hc; simp at hc
  · intro p hp
    obtain ⟨r, _, hr⟩ := initParts_single rs 0 p hp
    exact Or.inr ⟨r, hr⟩

theorem spmParts_decode (V : Vocab) (hwf : V.Wf) (hbt : V.HasByteTokens) (ps : List Part)
    (h : ∀ p ∈ ps, (∀ r ∈ p.runes, r < 0x110000) ∧ ((V.tokId p.runes).isSome = true ∨ sepRune ∉ p.runes) ∧
      ((V.tokId p.runes).isSome = true → parseByteTok (utf8s (p.runes.map sepToSpace)) = none)) :
    spmDecode V (ps.flatMap fun p => spmToken V p.runes) = some (utf8s ((concatParts ps).map sepToSpace)) := by
  induction ps with
  | nil => rfl
  | cons p ps ih =>
    obtain ⟨h1, h2, h3⟩ := h p (by simp)
    have hp := spmToken_decode V hwf hbt p.runes h1 h2 h3
    have hr := ih (fun q hq => h q (List.mem_cons_of_mem _ hq))
    simp only [List.flatMap_cons]
    rw [spmDecode_append V _ _ _ _ hp hr]
    simp [concatParts, utf8s_append]

theorem spmText_decode (V : Vocab) (hwf : V.Wf) (hbt : V.HasByteTokens)
    (t : Str) (hsep : 32 ∈ t → (V.tokId [sepRune]).isSome = true)
    (hvalid : ∀ r ∈ t, r < 0x110000) (hnosep : sepRune ∉ t) (hnolit : NoByteLit V t) :
    spmDecode V (spmText V t) = some (utf8s t) := by
  have hback := map_sep_roundtrip t hnosep
  unfold spmText
  simp only
  split
  · rename_i id hid
    have hs := (hwf _ _ hid).1
    have : parseByteTok (utf8s t) = none := hnolit [] t [] (by simp) (by simp [hid])
    simp [spmDecode, spmDecodeTok, hs, hback, this]
  · rw [spmParts_decode V hwf hbt, mergeAll_concat, hback]
    intro p hp
    have hP : (V.tokId p.runes).isSome = true ∨ ∃ r, p.runes = [r] :=
      spm_mergeAll_parts V (t.map spaceToSep) p hp
    have hcat := mergeAll_concat (spmCfg V) (t.map spaceToSep)
    obtain ⟨a, b, hab⟩ := mem_flatten_split _ p.runes (List.mem_map.mpr ⟨p, hp, rfl⟩)
    unfold concatParts at hcat
    rw [hcat] at hab
    -- p.runes is a contiguous piece of the mapped text
    have hmem : ∀ r ∈ p.runes, r ∈ t.map spaceToSep := by
      intro r hr; rw [hab]; simp [hr]
    have ht : t = a.map sepToSpace ++ p.runes.map sepToSpace ++ b.map sepToSpace := by
      rw [← hback, hab]; simp
    have h32 : 32 ∉ p.runes := by
      intro h
      have := hmem 32 h
      simp only [List.mem_map] at this
      obtain ⟨x, _, hx⟩ := this
      simp only [spaceToSep] at hx
      split at hx
      · simp [sepRune] at hx
      · rename_i hne; exact hne hx
    refine ⟨?_, ?_, ?_⟩
    · intro r hr
      have := hmem r hr
      simp only [List.mem_map] at this
      obtain ⟨x, hx, rfl⟩ := this
      simp only [spaceToSep]
      split
      · simp [sepRune]
      · exact hvalid x hx
    · rcases hP with h | ⟨r, hr⟩
      · exact Or.inl h
      · by_cases hrs : r = sepRune
        · left; rw [hr, hrs]
          apply hsep
          have := hmem r (by rw [hr]; simp)
          simp only [List.mem_map] at this
          obtain ⟨x, hx, hxr⟩ := this
          simp only [spaceToSep] at hxr
          split at hxr
          · rename_i h32x; rw [← h32x]; exact hx
          · exact absurd (hxr.trans hrs ▸ hx) hnosep
        · right; rw [hr]; simp; exact fun h => hrs h.symm
    · intro htok
      apply hnolit _ _ _ ht
      rw [map_space_roundtrip _ h32]; exact htok

end OllamaVerif.Tok

namespace OllamaVerif.Tok

/-! ## every occurrence of a special literal is consumed -/

/-- `p` occurs in `t` as a contiguous piece -/
def Occurs (p t : Str) : Prop := ∃ a b, t = a ++ p ++ b

theorem Occurs.trans {q u t : Str} (h : Occurs q u) (a b : Str) (ht : t = a ++ u ++ b) : Occurs q t := by
  obtain ⟨c, d, rfl⟩ := h
  exact ⟨a ++ c, d ++ b, by rw [ht]; simp [List.append_assoc]⟩

theorem isPrefixOf_append (p b : Str) : isPrefixOf p (p ++ b) = true := by
  induction p with
  | nil => simp [isPrefixOf]
  | cons a p ih => simp [isPrefixOf, ih]

theorem indexOf_none (s pat : Str) (h : indexOf s pat = none) : ¬ Occurs pat s := by
  induction s with
  | nil =>
    unfold indexOf at h
    split at h
    · cases h
    · rename_i hp
      rintro ⟨a, b, hab⟩
      have h1 : a = [] ∧ pat = [] ∧ b = [] := by
        have := congrArg List.length hab
        simp at this
        refine ⟨?_, ?_, ?_⟩ <;> apply List.eq_nil_of_length_eq_zero <;> omega
      rw [h1.2.1] at hp
      simp [isPrefixOf] at hp
  | cons c s ih =>
    unfold indexOf at h
    split at h
    · cases h
    · rename_i hp
      simp only [Option.map_eq_none_iff] at h
      rintro ⟨a, b, hab⟩
      cases a with
      | nil =>
        simp only [List.nil_append] at hab
        rw [hab] at hp
        exact hp (isPrefixOf_append pat b)
      | cons a0 a' =>
        simp only [List.cons_append, List.cons.injEq] at hab
        exact ih h ⟨a', b, hab.2⟩

theorem indexOf_min (s pat : Str) (i : Nat) (h : indexOf s pat = some i) :
    ∀ a b, s = a ++ pat ++ b → i ≤ a.length := by
  induction s generalizing i with
  | nil =>
    intro a b hab
    unfold indexOf at h
    split at h
    · cases h; omega
    · cases h
  | cons c s ih =>
    intro a b hab
    unfold indexOf at h
    split at h
    · cases h; omega
    · rename_i hp
      simp only [Option.map_eq_some_iff] at h
      obtain ⟨j, hj, rfl⟩ := h
      cases a with
      | nil =>
        simp only [List.nil_append] at hab
        rw [hab] at hp
        exact absurd (isPrefixOf_append pat b) hp
      | cons a0 a' =>
        simp only [List.cons_append, List.cons.injEq] at hab
        have := ih j hj a' b hab.2
        simp; omega

theorem splitSpecial_text_infix (sp : Special) (f : Nat) (s : Str) :
    ∀ u, Frag.text u ∈ splitSpecial sp f s → ∃ a b, s = a ++ u ++ b := by
  induction f generalizing s with
  | zero => intro u hu; simp [splitSpecial] at hu; subst hu; exact ⟨[], [], by simp⟩
  | succ f ih =>
    intro u hu
    unfold splitSpecial at hu
    split at hu
    · simp at hu; subst hu; exact ⟨[], [], by simp⟩
    · rename_i i hi
      have hs := indexOf_spec s sp.lit i hi
      simp only [List.mem_append] at hu
      rcases hu with (hu | hu) | hu
      · split at hu
        · simp at hu; subst hu
          exact ⟨[], sp.lit ++ s.drop (i + sp.lit.length), by simpa [List.append_assoc] using hs⟩
        · simp at hu
      · simp at hu
      · split at hu
        · simp at hu
        · obtain ⟨a, b, hab⟩ := ih _ u hu
          refine ⟨s.take i ++ sp.lit ++ a, b, ?_⟩
          calc s = s.take i ++ sp.lit ++ s.drop (i + sp.lit.length) := hs
            _ = s.take i ++ sp.lit ++ (a ++ u ++ b) := by rw [← hab]
            _ = _ := by simp [List.append_assoc]

theorem splitSpecial_no_occ (sp : Special) (hne : sp.lit ≠ []) (f : Nat) (s : Str) (hf : s.length < f) :
    ∀ u, Frag.text u ∈ splitSpecial sp f s → ¬ Occurs sp.lit u := by
  have hpos : 0 < sp.lit.length := List.length_pos_iff.mpr hne
  induction f generalizing s with
  | zero => omega
  | succ f ih =>
    intro u hu
    unfold splitSpecial at hu
    split at hu
    · rename_i hnone
      simp at hu; subst hu
      exact indexOf_none _ _ hnone
    · rename_i i hi
      have hs := indexOf_spec s sp.lit i hi
      have hlen := congrArg List.length hs
      simp only [List.length_append, List.length_take, List.length_drop] at hlen
      simp only [List.mem_append] at hu
      rcases hu with (hu | hu) | hu
      · split at hu
        · simp at hu; subst hu
          rintro ⟨a, b, hab⟩
          have hmin := indexOf_min s sp.lit i hi a (b ++ s.drop i) (by
            conv => lhs; rw [← List.take_append_drop i s]
            rw [hab]; simp [List.append_assoc])
          have := congrArg List.length hab
          simp only [List.length_append, List.length_take] at this
          omega
        · simp at hu
      · simp at hu
      · split at hu
        · simp at hu
        · apply ih _ _ u hu
          simp only [List.length_drop]
          omega

/-- no text fragment contains the literal `q` -/
def NoOcc (q : Str) (frs : List Frag) : Prop := ∀ u, Frag.text u ∈ frs → ¬ Occurs q u

theorem splitFrags_text (sp : Special) (frs : List Frag) (u : Str) (h : Frag.text u ∈ splitFrags sp frs) :
    ∃ t, Frag.text t ∈ frs ∧ Frag.text u ∈ splitSpecial sp (t.length + 1) t := by
  simp only [splitFrags, List.mem_flatMap] at h
  obtain ⟨g, hg, hu⟩ := h
  cases g with
  | text t => exact ⟨t, hg, hu⟩
  | special q => simp at hu

theorem splitFrags_noOcc_self (sp : Special) (hne : sp.lit ≠ []) (frs : List Frag) :
    NoOcc sp.lit (splitFrags sp frs) := by
  intro u hu
  obtain ⟨t, _, hut⟩ := splitFrags_text sp frs u hu
  exact splitSpecial_no_occ sp hne _ t (by omega) u hut

theorem splitFrags_noOcc_keep (sp : Special) (q : Str) (frs : List Frag) (h : NoOcc q frs) :
    NoOcc q (splitFrags sp frs) := by
  intro u hu hocc
  obtain ⟨t, ht, hut⟩ := splitFrags_text sp frs u hu
  obtain ⟨a, b, hab⟩ := splitSpecial_text_infix sp _ t u hut
  exact h t ht (hocc.trans a b hab)

theorem fragments_noOcc (specials : List Special) (hne : ∀ q ∈ specials, q.lit ≠ []) (s : Str) :
    ∀ q ∈ specials, NoOcc q.lit (fragments specials s) := by
  unfold fragments
  have : ∀ (sps done : List Special) (frs : List Frag), (∀ q ∈ sps, q.lit ≠ []) →
      (∀ q ∈ done, NoOcc q.lit frs) →
      ∀ q ∈ done ++ sps, NoOcc q.lit (sps.foldl (fun frs sp => splitFrags sp frs) frs) := by
    intro sps
    induction sps with
    | nil => intro done frs _ h q hq; simp at hq; exact h q hq
    | cons sp sps ih =>
      intro done frs hne' h q hq
      simp only [List.foldl_cons]
      have h' : ∀ q ∈ done ++ [sp], NoOcc q.lit (splitFrags sp frs) := by
        intro q hq
        simp only [List.mem_append, List.mem_singleton] at hq
        rcases hq with hq | rfl
        · exact splitFrags_noOcc_keep sp q.lit frs (h q hq)
        · exact splitFrags_noOcc_self q (hne' q (by simp)) frs
      exact ih (done ++ [sp]) _ (fun x hx => hne' x (List.mem_cons_of_mem _ hx)) h' q (by simpa using hq)
  intro q hq
  exact this specials [] [.text s] hne (by simp) q (by simpa using hq)

end OllamaVerif.Tok
