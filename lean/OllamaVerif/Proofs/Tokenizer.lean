/-
  Helper lemmas for C20 (tokenizers).  Core Lean only.
-/
import OllamaVerif.Model.Tokenizer

namespace OllamaVerif.Tok

/-! ## byte map -/

theorem dec_enc_table (pinned : Bool) :
    ∀ b, b < 256 → b ≠ 0 → (pinned = true → b ≠ 0x7e) → decRune (encByte pinned b) = some b := by
  cases pinned <;> decide +kernel

theorem decodeRunes_append (a b : Str) : decodeRunes (a ++ b) = decodeRunes a ++ decodeRunes b := by
  simp [decodeRunes, List.filterMap_append]

theorem decodeRunes_map_enc (pinned : Bool) (bs : Str)
    (h : ∀ b ∈ bs, b < 256 ∧ b ≠ 0 ∧ (pinned = true → b ≠ 0x7e)) :
    decodeRunes (bs.map (encByte pinned)) = bs := by
  induction bs with
  | nil => rfl
  | cons b bs ih =>
    have hb := h b (by simp)
    have := dec_enc_table pinned b hb.1 hb.2.1 hb.2.2
    simp only [decodeRunes, List.map_cons, List.filterMap_cons, this]
    congr 1
    exact ih (fun x hx => h x (by simp [hx]))

/-! ## strings.Index -/

theorem isPrefixOf_eq (p s : Str) (h : isPrefixOf p s = true) : s = p ++ s.drop p.length := by
  induction p generalizing s with
  | nil => simp
  | cons a p ih =>
    cases s with
    | nil => simp [isPrefixOf] at h
    | cons b s =>
      simp only [isPrefixOf, Bool.and_eq_true, beq_iff_eq] at h
      obtain ⟨rfl, h2⟩ := h
      simp only [List.length_cons, List.drop_succ_cons, List.cons_append]
      congr 1
      exact ih s h2

theorem isPrefixOf_self (p : Str) : isPrefixOf p p = true := by
  induction p with
  | nil => rfl
  | cons a p ih => simp [isPrefixOf, ih]

theorem indexOf_spec (s pat : Str) (i : Nat) (h : indexOf s pat = some i) :
    s = s.take i ++ pat ++ s.drop (i + pat.length) := by
  induction s generalizing i with
  | nil =>
    unfold indexOf at h
    split at h
    · rename_i hp
      cases h
      simpa using isPrefixOf_eq pat [] hp
    · simp at h
  | cons c s ih =>
    unfold indexOf at h
    split at h
    · rename_i hp
      cases h
      simpa using isPrefixOf_eq pat (c :: s) hp
    · simp only [Option.map_eq_some_iff] at h
      obtain ⟨j, hj, rfl⟩ := h
      have := ih j hj
      simp only [List.take_succ_cons, List.cons_append]
      rw [show j + 1 + pat.length = (j + pat.length) + 1 by omega, List.drop_succ_cons]
      congr 1

theorem indexOf_self (p : Str) : indexOf p p = some 0 := by
  unfold indexOf
  simp [isPrefixOf_self]

/-! ## special splitting -/

def fragsLit (frs : List Frag) : Str := (frs.map Frag.lit).flatten

theorem fragsLit_append (a b : List Frag) : fragsLit (a ++ b) = fragsLit a ++ fragsLit b := by
  simp [fragsLit]

theorem splitSpecial_lit (sp : Special) (f : Nat) (s : Str) : fragsLit (splitSpecial sp f s) = s := by
  induction f generalizing s with
  | zero => simp [splitSpecial, fragsLit, Frag.lit]
  | succ f ih =>
    unfold splitSpecial
    split
    · simp [fragsLit, Frag.lit]
    · rename_i i hi
      have hs := indexOf_spec s sp.lit i hi
      rw [fragsLit_append, fragsLit_append]
      have h1 : fragsLit (if i > 0 then [Frag.text (s.take i)] else []) = s.take i := by
        by_cases h0 : i > 0
        · simp [h0, fragsLit, Frag.lit]
        · have : i = 0 := by omega
          subst this
          simp [fragsLit]
      have h2 : fragsLit [Frag.special sp] = sp.lit := by simp [fragsLit, Frag.lit]
      have h3 : fragsLit (let rest := s.drop (i + sp.lit.length)
          if rest.isEmpty then [] else splitSpecial sp f rest) = s.drop (i + sp.lit.length) := by
        simp only
        split
        · rename_i he
          simp only [List.isEmpty_iff] at he
          simp [fragsLit, he]
        · exact ih _
      rw [h1, h2, h3]
      exact hs.symm

theorem splitFrags_lit (sp : Special) (frs : List Frag) : fragsLit (splitFrags sp frs) = fragsLit frs := by
  induction frs with
  | nil => rfl
  | cons fr frs ih =>
    have : splitFrags sp (fr :: frs) = (match fr with
        | .text s => splitSpecial sp (s.length + 1) s
        | .special q => [.special q]) ++ splitFrags sp frs := by
      cases fr <;> simp [splitFrags]
    rw [this, fragsLit_append, ih]
    cases fr with
    | text s =>
      simp only [splitSpecial_lit]
      simp [fragsLit, Frag.lit]
    | special q => simp [fragsLit]

theorem fragments_lit (specials : List Special) (s : Str) : fragsLit (fragments specials s) = s := by
  unfold fragments
  have : ∀ (sps : List Special) (frs : List Frag),
      fragsLit (sps.foldl (fun frs sp => splitFrags sp frs) frs) = fragsLit frs := by
    intro sps
    induction sps with
    | nil => intro frs; rfl
    | cons sp sps ih => intro frs; simp only [List.foldl_cons]; rw [ih, splitFrags_lit]
  rw [this]
  simp [fragsLit, Frag.lit]

/-- every special fragment comes from the list of specials -/
def specialsFrom (sps : List Special) (frs : List Frag) : Prop :=
  ∀ fr ∈ frs, ∀ q, fr = Frag.special q → q ∈ sps

theorem splitSpecial_from (sp : Special) (f : Nat) (s : Str) :
    ∀ fr ∈ splitSpecial sp f s, ∀ q, fr = Frag.special q → q = sp := by
  induction f generalizing s with
  | zero => intro fr hfr q hq; simp [splitSpecial] at hfr; subst hfr; cases hq
  | succ f ih =>
    intro fr hfr q hq
    unfold splitSpecial at hfr
    split at hfr
    · simp at hfr; subst hfr; cases hq
    · simp only [List.mem_append] at hfr
      rcases hfr with (hfr | hfr) | hfr
      · split at hfr
        · simp at hfr; subst hfr; cases hq
        · simp at hfr
      · simp at hfr; subst hfr; cases hq; rfl
      · split at hfr
        · simp at hfr
        · exact ih _ fr hfr q hq

theorem fragments_from (specials : List Special) (s : Str) :
    specialsFrom specials (fragments specials s) := by
  unfold fragments
  have : ∀ (sps done : List Special) (frs : List Frag), specialsFrom done frs →
      specialsFrom (done ++ sps) (sps.foldl (fun frs sp => splitFrags sp frs) frs) := by
    intro sps
    induction sps with
    | nil => intro done frs h; simpa using h
    | cons sp sps ih =>
      intro done frs h
      simp only [List.foldl_cons]
      have h' : specialsFrom (done ++ [sp]) (splitFrags sp frs) := by
        intro fr hfr q hq
        simp only [splitFrags, List.mem_flatMap] at hfr
        obtain ⟨g, hg, hfr⟩ := hfr
        cases g with
        | text t =>
          have := splitSpecial_from sp _ t fr hfr q hq
          simp [this]
        | special q' =>
          simp at hfr
          subst hfr
          have := h _ hg q hq
          simp [this]
      have := ih (done ++ [sp]) _ h'
      simpa using this
  have := this specials [] [.text s] (by intro fr hfr q hq; simp at hfr; subst hfr; cases hq)
  simpa using this

/-! ## merge loop -/

def concatParts (ps : List Part) : Str := (ps.map (·.runes)).flatten

theorem joinAt_concat (ok : Str → Str → Bool) (ps ps' : List Part) (a b : Nat)
    (h : joinAt ok ps a b = some ps') : concatParts ps' = concatParts ps := by
  induction ps generalizing ps' with
  | nil => simp [joinAt] at h
  | cons p rest ih =>
    cases rest with
    | nil => simp [joinAt] at h
    | cons q rest =>
      unfold joinAt at h
      split at h
      · split at h
        · cases h; simp [concatParts]
        · cases h
      · simp only [Option.map_eq_some_iff] at h
        obtain ⟨ps2, h2, rfl⟩ := h
        have := ih ps2 h2
        simp only [concatParts, List.map_cons, List.flatten_cons] at this ⊢
        rw [this]

theorem joinAt_all (P : Str → Prop) (ok : Str → Str → Bool) (hok : ∀ l r, ok l r = true → P (l ++ r))
    (ps ps' : List Part) (a b : Nat) (hps : ∀ p ∈ ps, P p.runes)
    (h : joinAt ok ps a b = some ps') : ∀ p ∈ ps', P p.runes := by
  induction ps generalizing ps' with
  | nil => simp [joinAt] at h
  | cons p rest ih =>
    cases rest with
    | nil => simp [joinAt] at h
    | cons q rest =>
      unfold joinAt at h
      split at h
      · split at h
        · rename_i hq
          cases h
          intro x hx
          simp only [List.mem_cons] at hx
          rcases hx with rfl | hx
          · exact hok _ _ hq.2
          · exact hps x (by simp [hx])
        · cases h
      · simp only [Option.map_eq_some_iff] at h
        obtain ⟨ps2, h2, rfl⟩ := h
        intro x hx
        simp only [List.mem_cons] at hx
        rcases hx with rfl | hx
        · exact hps _ (by simp)
        · exact ih ps2 (fun y hy => hps y (List.mem_cons_of_mem _ hy)) h2 x hx

theorem mergeLoop_concat (cfg : Cfg) (n f : Nat) (ps : List Part) (h : Array Cand) :
    concatParts (mergeLoop cfg n f ps h) = concatParts ps := by
  induction f generalizing ps h with
  | zero => rfl
  | succ f ih =>
    unfold mergeLoop
    split
    · rfl
    · split
      · rename_i ps' hj
        simp only
        rw [ih, joinAt_concat _ _ _ _ _ hj]
      · exact ih _ _

theorem mergeLoop_all (P : Str → Prop) (cfg : Cfg) (hok : ∀ c l r, cfg.ok c l r = true → P (l ++ r))
    (n f : Nat) (ps : List Part) (h : Array Cand) (hps : ∀ p ∈ ps, P p.runes) :
    ∀ p ∈ mergeLoop cfg n f ps h, P p.runes := by
  induction f generalizing ps h with
  | zero => exact hps
  | succ f ih =>
    unfold mergeLoop
    split
    · exact hps
    · split
      · rename_i c h' ps' hj
        simp only
        exact ih _ _ (joinAt_all P _ (hok _) _ _ _ _ hps hj)
      · exact ih _ _ hps

theorem initParts_concat (rs : Str) (i : Nat) : concatParts (initParts rs i) = rs := by
  induction rs generalizing i with
  | nil => rfl
  | cons r rs ih =>
    simp only [initParts, concatParts, List.map_cons, List.flatten_cons, List.singleton_append]
    congr 1
    exact ih (i + 1)

theorem initParts_single (rs : Str) (i : Nat) : ∀ p ∈ initParts rs i, ∃ r ∈ rs, p.runes = [r] := by
  induction rs generalizing i with
  | nil => intro p hp; simp [initParts] at hp
  | cons r rs ih =>
    intro p hp
    simp only [initParts, List.mem_cons] at hp
    rcases hp with rfl | hp
    · exact ⟨r, by simp, rfl⟩
    · obtain ⟨x, hx, hxe⟩ := ih (i + 1) p hp
      exact ⟨x, by simp [hx], hxe⟩

theorem mergeAll_concat (cfg : Cfg) (rs : Str) : concatParts (mergeAll cfg rs) = rs := by
  unfold mergeAll
  simp only
  rw [mergeLoop_concat, initParts_concat]

theorem mergeAll_all (P : Str → Prop) (cfg : Cfg) (hok : ∀ c l r, cfg.ok c l r = true → P (l ++ r))
    (rs : Str) (h1 : ∀ r ∈ rs, P [r]) : ∀ p ∈ mergeAll cfg rs, P p.runes := by
  unfold mergeAll
  simp only
  apply mergeLoop_all P cfg hok
  intro p hp
  obtain ⟨r, hr, hre⟩ := initParts_single rs 0 p hp
  rw [hre]
  exact h1 r hr

end OllamaVerif.Tok

namespace OllamaVerif.Tok

/-! ## BPE encode/decode -/

/-- `Values[values[s]] = s` (the lookup map is built from `Values`) -/
def Vocab.Wf (V : Vocab) : Prop := ∀ t i, V.tokId t = some i → V.tokStr i = t ∧ i < V.size

/-- the per-byte guard of the BPE round trip -/
def byteOk (pinned : Bool) (b : Nat) : Prop := b < 256 ∧ b ≠ 0 ∧ (pinned = true → b ≠ 0x7e)

/-- "the vocabulary covers every byte" (every remapped byte that can occur is a token) -/
def Vocab.CoversBytes (V : Vocab) (pinned : Bool) : Prop :=
  ∀ b, byteOk pinned b → (V.tokId [encByte pinned b]).isSome = true

theorem bpeDecode_append (V : Vocab) (a b : List Nat) :
    bpeDecode V (a ++ b) = bpeDecode V a ++ bpeDecode V b := by
  simp [bpeDecode]

theorem bpeDecode_parts (V : Vocab) (hwf : V.Wf) (ps : List Part)
    (hall : ∀ p ∈ ps, (V.tokId p.runes).isSome = true) :
    bpeDecode V (ps.filterMap fun p => V.tokId p.runes) = decodeRunes (concatParts ps) := by
  induction ps with
  | nil => rfl
  | cons p ps ih =>
    have hp := hall p (by simp)
    obtain ⟨i, hi⟩ := Option.isSome_iff_exists.mp hp
    have hs := (hwf _ _ hi).1
    have : bpeDecode V ((p :: ps).filterMap fun p => V.tokId p.runes)
        = decodeRunes (V.tokStr i) ++ bpeDecode V (ps.filterMap fun p => V.tokId p.runes) := by
      simp [bpeDecode, List.filterMap_cons, hi]
    rw [this, ih (fun q hq => hall q (List.mem_cons_of_mem _ hq)), hs]
    simp [concatParts, decodeRunes_append]

theorem bpeCfg_ok (V : Vocab) (c : Cand) (l r : Str) (h : (bpeCfg V).ok c l r = true) :
    (V.tokId (l ++ r)).isSome = true := by
  simp only [bpeCfg, Bool.and_eq_true, beq_iff_eq] at h
  rw [h.1]; exact h.2

theorem bpePiece_roundtrip (pinned : Bool) (V : Vocab) (hwf : V.Wf) (hcov : V.CoversBytes pinned)
    (piece : Str) (hb : ∀ b ∈ piece, byteOk pinned b) :
    bpeDecode V (bpePiece pinned V piece) = piece := by
  have hdec : decodeRunes (piece.map (encByte pinned)) = piece := decodeRunes_map_enc pinned piece hb
  unfold bpePiece
  simp only
  split
  · rename_i id hid
    have := (hwf _ _ hid).1
    simp [bpeDecode, this, hdec]
  · rw [bpeDecode_parts V hwf, mergeAll_concat, hdec]
    apply mergeAll_all (fun t => (V.tokId t).isSome = true) _ (bpeCfg_ok V)
    intro r hr
    simp only [List.mem_map] at hr
    obtain ⟨b, hbm, rfl⟩ := hr
    exact hcov b (hb b hbm)

theorem bpePieces_roundtrip (pinned : Bool) (V : Vocab) (hwf : V.Wf) (hcov : V.CoversBytes pinned)
    (pieces : List Str) (hb : ∀ piece ∈ pieces, ∀ b ∈ piece, byteOk pinned b) :
    bpeDecode V (pieces.flatMap (bpePiece pinned V)) = pieces.flatten := by
  induction pieces with
  | nil => rfl
  | cons p ps ih =>
    simp only [List.flatMap_cons, List.flatten_cons, bpeDecode_append]
    rw [bpePiece_roundtrip pinned V hwf hcov p (hb p (by simp)),
        ih (fun q hq => hb q (List.mem_cons_of_mem _ hq))]

theorem bpeFrags_roundtrip (pinned : Bool) (V : Vocab) (split : Str → List Str) (hwf : V.Wf)
    (hcov : V.CoversBytes pinned) (frs : List Frag)
    (htext : ∀ t, Frag.text t ∈ frs → (split t).flatten = t ∧ ∀ b ∈ t, byteOk pinned b)
    (hsp : ∀ q, Frag.special q ∈ frs → decodeRunes (V.tokStr q.id) = q.lit) :
    bpeDecode V (frs.flatMap (bpeFrag pinned V split)) = fragsLit frs := by
  induction frs with
  | nil => rfl
  | cons fr frs ih =>
    simp only [List.flatMap_cons, bpeDecode_append]
    rw [ih (fun t ht => htext t (List.mem_cons_of_mem _ ht)) (fun q hq => hsp q (List.mem_cons_of_mem _ hq))]
    have : fragsLit (fr :: frs) = fr.lit ++ fragsLit frs := by simp [fragsLit]
    rw [this]
    congr 1
    cases fr with
    | text t =>
      obtain ⟨h1, h2⟩ := htext t (by simp)
      simp only [bpeFrag, Frag.lit]
      rw [bpePieces_roundtrip pinned V hwf hcov, h1]
      intro piece hp b hbp
      apply h2
      rw [← h1]
      exact List.mem_flatten.mpr ⟨piece, hp, hbp⟩
    | special q =>
      simp only [bpeFrag, Frag.lit]
      have := hsp q (by simp)
      simp [bpeDecode, this]

theorem mem_fragsLit_of_text (frs : List Frag) (t : Str) (h : Frag.text t ∈ frs) :
    ∀ b ∈ t, b ∈ fragsLit frs := by
  intro b hb
  simp only [fragsLit, List.mem_flatten, List.mem_map]
  exact ⟨t, ⟨Frag.text t, h, rfl⟩, hb⟩

/-- every id produced for a piece is the id of some vocabulary string -/
theorem bpePiece_ids (pinned : Bool) (V : Vocab) (piece : Str) :
    ∀ id ∈ bpePiece pinned V piece, ∃ t, V.tokId t = some id := by
  intro id hid
  unfold bpePiece at hid
  simp only at hid
  split at hid
  · rename_i i hi
    simp at hid; subst hid
    exact ⟨_, hi⟩
  · simp only [List.mem_filterMap] at hid
    obtain ⟨p, _, hp⟩ := hid
    exact ⟨_, hp⟩

theorem mem_addSpecials (c : AddCfg) (ids : List Nat) :
    ∀ id ∈ addSpecials c ids, id ∈ ids ∨ (c.addSpecial = true ∧ c.addBOS = true ∧ id = c.bos) ∨
      (c.addSpecial = true ∧ c.addEOS = true ∧ id = c.eos) := by
  intro id hid
  unfold addSpecials at hid
  split at hid
  · rename_i hc
    simp only [Bool.and_eq_true] at hc
    simp only at hid
    by_cases hb : c.addBOS = true <;> by_cases he : c.addEOS = true <;>
      simp [hb, he] at hid <;> simp [hc.1, hb, he] <;> grind
  · exact Or.inl hid

end OllamaVerif.Tok

namespace OllamaVerif.Tok

/-! ## SentencePiece -/

theorem spmDecode_append (V : Vocab) (a b : List Nat) (x y : Str)
    (ha : spmDecode V a = some x) (hb : spmDecode V b = some y) :
    spmDecode V (a ++ b) = some (x ++ y) := by
  induction a generalizing x with
  | nil => simp [spmDecode] at ha; subst ha; simpa using hb
  | cons id ids ih =>
    simp only [spmDecode, List.cons_append] at ha ⊢
    cases h1 : spmDecodeTok V id with
    | none => simp [h1] at ha
    | some u =>
      cases h2 : spmDecode V ids with
      | none => simp [h1, h2] at ha
      | some v =>
        simp only [h1, h2, Option.some.injEq] at ha
        subst ha
        simp [ih v h2, List.append_assoc]

theorem byteTok_facts : ∀ b, b < 256 →
    utf8s ((byteTok b).map sepToSpace) = byteTok b ∧ parseByteTok (byteTok b) = some (some b) := by
  decide +kernel

theorem utf8_lt (r : Nat) (h : r < 0x110000) : ∀ b ∈ utf8 r, b < 256 := by
  intro b hb
  unfold utf8 at hb
  split at hb
  · simp at hb; omega
  · split at hb
    · simp at hb; omega
    · split at hb
      · simp at hb; omega
      · simp at hb; omega

theorem utf8s_lt (rs : Str) (h : ∀ r ∈ rs, r < 0x110000) : ∀ b ∈ utf8s rs, b < 256 := by
  intro b hb
  simp only [utf8s, List.mem_flatMap] at hb
  obtain ⟨r, hr, hbr⟩ := hb
  exact utf8_lt r (h r hr) b hbr

theorem utf8s_append (a b : Str) : utf8s (a ++ b) = utf8s a ++ utf8s b := by simp [utf8s]

/-- the vocabulary has all 256 byte tokens -/
def Vocab.HasByteTokens (V : Vocab) : Prop := ∀ b, b < 256 → (V.tokId (byteTok b)).isSome = true

theorem spm_fallback (V : Vocab) (hwf : V.Wf) (hbt : V.HasByteTokens) (bs : Str) (h : ∀ b ∈ bs, b < 256) :
    spmDecode V (bs.filterMap fun b => V.tokId (byteTok b)) = some bs := by
  induction bs with
  | nil => rfl
  | cons b bs ih =>
    have hb := h b (by simp)
    obtain ⟨i, hi⟩ := Option.isSome_iff_exists.mp (hbt b hb)
    have hs := (hwf _ _ hi).1
    have hf := byteTok_facts b hb
    have h1 : spmDecodeTok V i = some [b] := by simp [spmDecodeTok, hs, hf.1, hf.2]
    have := ih (fun x hx => h x (List.mem_cons_of_mem _ hx))
    simp [List.filterMap_cons, hi, spmDecode, h1, this]

theorem map_sepToSpace_id (p : Str) (h : sepRune ∉ p) : p.map sepToSpace = p := by
  induction p with
  | nil => rfl
  | cons r p ih =>
    simp only [List.mem_cons, not_or] at h
    simp only [List.map_cons, ih h.2]
    congr 1
    simp only [sepToSpace]
    split
    · rename_i h'; exact absurd h'.symm h.1
    · rfl

theorem map_sep_roundtrip (t : Str) (h : sepRune ∉ t) : (t.map spaceToSep).map sepToSpace = t := by
  induction t with
  | nil => rfl
  | cons r t ih =>
    simp only [List.mem_cons, not_or] at h
    simp only [List.map_cons, ih h.2]
    congr 1
    simp only [spaceToSep, sepToSpace]
    split
    · rename_i h'; simp [h']
    · split
      · rename_i h'; exact absurd h'.symm h.1
      · rfl

/-- decode of the ids of one token string `p`: either `p` is a token (and then must not look like a
    byte-token literal), or it contains no U+2581 and is spelled with byte tokens -/
theorem spmToken_decode (V : Vocab) (hwf : V.Wf) (hbt : V.HasByteTokens) (p : Str)
    (hvalid : ∀ r ∈ p, r < 0x110000)
    (hcase : (V.tokId p).isSome = true ∨ sepRune ∉ p)
    (hnolit : (V.tokId p).isSome = true → parseByteTok (utf8s (p.map sepToSpace)) = none) :
    spmDecode V (spmToken V p) = some (utf8s (p.map sepToSpace)) := by
  unfold spmToken
  split
  · rename_i id hid
    have hs := (hwf _ _ hid).1
    have := hnolit (by simp [hid])
    simp [spmDecode, spmDecodeTok, hs, this]
  · rename_i hnone
    have hno : sepRune ∉ p := by
      rcases hcase with h | h
      · simp [hnone] at h
      · exact h
    rw [map_sepToSpace_id p hno]
    exact spm_fallback V hwf hbt _ (utf8s_lt p hvalid)

theorem map_space_roundtrip (p : Str) (h : 32 ∉ p) : (p.map sepToSpace).map spaceToSep = p := by
  induction p with
  | nil => rfl
  | cons r p ih =>
    simp only [List.mem_cons, not_or] at h
    simp only [List.map_cons, ih h.2]
    congr 1
    simp only [spaceToSep, sepToSpace]
    split
    · rename_i h'; simp [h']
    · split
      · rename_i h'; exact absurd h'.symm h.1
      · rfl

/-- no contiguous piece of the text that IS A TOKEN of the vocabulary (after space -> U+2581) spells a
    byte-token literal `<0x??>` (6 bytes) -/
def NoByteLit (V : Vocab) (s : Str) : Prop :=
  ∀ pre m post, s = pre ++ m ++ post → (V.tokId (m.map spaceToSep)).isSome = true →
    parseByteTok (utf8s m) = none

theorem NoByteLit.infix {V : Vocab} {s : Str} (h : NoByteLit V s) (a t b : Str) (hs : s = a ++ t ++ b) :
    NoByteLit V t := by
  intro pre m post ht
  apply h (a ++ pre) m (post ++ b)
  rw [hs, ht]; simp [List.append_assoc]

theorem mem_flatten_split {α} (l : List (List α)) (x : List α) (h : x ∈ l) :
    ∃ a b, l.flatten = a ++ x ++ b := by
  obtain ⟨s, t, rfl⟩ := List.append_of_mem h
  exact ⟨s.flatten, t.flatten, by simp⟩

theorem spmCfg_ok (V : Vocab) (c : Cand) (l r : Str) (h : (spmCfg V).ok c l r = true) :
    (V.tokId (l ++ r)).isSome = true := by
  simp only [spmCfg, Bool.and_eq_true] at h
  exact h.2

theorem spmParts_decode (V : Vocab) (hwf : V.Wf) (hbt : V.HasByteTokens) (ps : List Part)
    (h : ∀ p ∈ ps, (∀ r ∈ p.runes, r < 0x110000) ∧ ((V.tokId p.runes).isSome = true ∨ sepRune ∉ p.runes) ∧
      ((V.tokId p.runes).isSome = true → parseByteTok (utf8s (p.runes.map sepToSpace)) = none)) :
    spmDecode V (ps.flatMap fun p => spmToken V p.runes) = some (utf8s ((concatParts ps).map sepToSpace)) := by
  induction ps with
  | nil => rfl
  | cons p ps ih =>
    obtain ⟨h1, h2, h3⟩ := h p (by simp)
    have hp := spmToken_decode V hwf hbt p.runes h1 h2 h3
    have hr := ih (fun q hq => h q (List.mem_cons_of_mem _ hq))
    simp only [List.flatMap_cons]
    rw [spmDecode_append V _ _ _ _ hp hr]
    simp [concatParts, utf8s_append]

theorem spmText_decode (V : Vocab) (hwf : V.Wf) (hbt : V.HasByteTokens)
    (t : Str) (hsep : 32 ∈ t → (V.tokId [sepRune]).isSome = true)
    (hvalid : ∀ r ∈ t, r < 0x110000) (hnosep : sepRune ∉ t) (hnolit : NoByteLit V t) :
    spmDecode V (spmText V t) = some (utf8s t) := by
  have hback := map_sep_roundtrip t hnosep
  unfold spmText
  simp only
  split
  · rename_i id hid
    have hs := (hwf _ _ hid).1
    have : parseByteTok (utf8s t) = none := hnolit [] t [] (by simp) (by simp [hid])
    simp [spmDecode, spmDecodeTok, hs, hback, this]
  · rw [spmParts_decode V hwf hbt, mergeAll_concat, hback]
    intro p hp
    have hP := mergeAll_all (fun u => (V.tokId u).isSome = true ∨ ∃ r, u = [r]) (spmCfg V)
      (fun c l r h => Or.inl (spmCfg_ok V c l r h)) (t.map spaceToSep) (fun r _ => Or.inr ⟨r, rfl⟩) p hp
    have hcat := mergeAll_concat (spmCfg V) (t.map spaceToSep)
    obtain ⟨a, b, hab⟩ := mem_flatten_split _ p.runes (List.mem_map.mpr ⟨p, hp, rfl⟩)
    unfold concatParts at hcat
    rw [hcat] at hab
    -- p.runes is a contiguous piece of the mapped text
    have hmem : ∀ r ∈ p.runes, r ∈ t.map spaceToSep := by
      intro r hr; rw [hab]; simp [hr]
    have ht : t = a.map sepToSpace ++ p.runes.map sepToSpace ++ b.map sepToSpace := by
      rw [← hback, hab]; simp
    have h32 : 32 ∉ p.runes := by
      intro h
      have := hmem 32 h
      simp only [List.mem_map] at this
      obtain ⟨x, _, hx⟩ := this
      simp only [spaceToSep] at hx
      split at hx
      · simp [sepRune] at hx
      · rename_i hne; exact hne hx
    refine ⟨?_, ?_, ?_⟩
    · intro r hr
      have := hmem r hr
      simp only [List.mem_map] at this
      obtain ⟨x, hx, rfl⟩ := this
      simp only [spaceToSep]
      split
      · simp [sepRune]
      · exact hvalid x hx
    · rcases hP with h | ⟨r, hr⟩
      · exact Or.inl h
      · by_cases hrs : r = sepRune
        · left; rw [hr, hrs]
          apply hsep
          have := hmem r (by rw [hr]; simp)
          simp only [List.mem_map] at this
          obtain ⟨x, hx, hxr⟩ := this
          simp only [spaceToSep] at hxr
          split at hxr
          · rename_i h32x; rw [← h32x]; exact hx
          · exact absurd (hxr.trans hrs ▸ hx) hnosep
        · right; rw [hr]; simp; exact fun h => hrs h.symm
    · intro htok
      apply hnolit _ _ _ ht
      rw [map_space_roundtrip _ h32]; exact htok

end OllamaVerif.Tok
