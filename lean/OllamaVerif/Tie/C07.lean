/-
  C07 — Tie 1: the one source fact the model is parameterised by, re-extracted from
  runner/ollamarunner/cache.go on every run (Generated/C07_Flags.lean): the end index that the failure
  path of ShiftCacheSlot passes to `Remove(slot.Id, 0, ·)`.
-/
import OllamaVerif.Properties.C07
import OllamaVerif.Generated.C07_Flags

namespace OllamaVerif.Tie.C07
open OllamaVerif.Runner

/-- The tree's reset call is one of the two variants the property file speaks about: the pinned `-1`
    (finding F3: `coherent_invariant_partial` + witness apply) or the repaired `math.MaxInt32`
    (`coherent_invariant` applies).  Any other value fails this theorem and the check. -/
theorem tree_reset_end_known :
    Generated.C07.resetEnd = -1 ∨ Generated.C07.resetEnd = maxI32 := by decide

/-- the witness trace evaluated for the tree's own value: stale entries iff the pinned value -/
theorem tree_trace :
    (OllamaVerif.C07.f3Trace Generated.C07.resetEnd).1.length =
      if Generated.C07.resetEnd = maxI32 then 2 else 3 := by decide

end OllamaVerif.Tie.C07
