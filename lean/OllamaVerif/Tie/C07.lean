/-
  C07 — Tie 1: the one source fact the model is parameterised by, re-extracted from
  runner/ollamarunner/cache.go on every run (Generated/C07_Flags.lean): the end index that the failure
  path of ShiftCacheSlot passes to `Remove(slot.Id, 0, ·)`.
-/
import OllamaVerif.Properties.C07
import OllamaVerif.Properties.C07Batch
import OllamaVerif.Generated.C07_Flags

namespace OllamaVerif.Tie.C07
open OllamaVerif.Runner

/-- The tree's reset call is one of the two variants the property file speaks about: the pinned `-1`
    (finding F3: `coherent_invariant_partial` + witness apply) or the repaired `math.MaxInt32`
    (`coherent_invariant` applies).  Any other value fails this theorem and the check. -/
theorem tree_reset_end_known :
    Generated.C07.resetEnd = -1 ∨ Generated.C07.resetEnd = maxI32 := by decide

/-- the witness trace evaluated for the tree's own value: stale entries iff the pinned value -/
theorem tree_trace :
    (OllamaVerif.C07.f3Trace Generated.C07.resetEnd).1.length =
      if Generated.C07.resetEnd = maxI32 then 2 else 3 := by decide

/-- The tree's failure path clears the sequence (commit f8dfba76a): the pinned `-1` is gone.  A
    regression to any other value fails this theorem (and the L2 monitors). -/
theorem tree_reset_end_repaired : Generated.C07.resetEnd = maxI32 := by decide

/-- **The full-strength invariant applies to the tree.**  For the reset value extracted from the
    tree's `ShiftCacheSlot`, every configuration of a new runner and every finite history of loads,
    forwards, successful and failed context shifts, request ends and relocations: the cache stays
    coherent. -/
theorem tree_coherent_invariant (parallel ctx batch : Nat) (multi canShift : Bool) (vocab eosMod : Nat)
    (c : Cache)
    (hs : OllamaVerif.C07.Steps true
      (mkServer Generated.C07.resetEnd parallel ctx batch multi canShift vocab eosMod).cache c) :
    OllamaVerif.C07.Coherent c :=
  OllamaVerif.C07.coherent_invariant _ c (OllamaVerif.C07.coherent_init ..) tree_reset_end_repaired hs

/-- **The executable model, for the tree's reset value.**  A new runner built with the reset value extracted
    from the tree's `ShiftCacheSlot`, any configuration with a context below 2^31, any history of events run by
    `runEvents` (the function the oracle folds over a `hist` line; a layout observed after a defrag is adopted only
    if the model's own check `relocOK` accepts it): in the state
    reached every slot's cached contents are exactly its record and live sequences own their slots exclusively. -/
theorem tree_reachable_coherent_owned (parallel ctx batch : Nat) (multi canShift : Bool) (vocab eosMod : Nat)
    (se cc : Bool) (hctx : (ctx : Int) < maxI32) (evs : List Event) (sv : Server)
    (hr : runEvents { mkServer Generated.C07.resetEnd parallel ctx batch multi canShift vocab eosMod with
      stopEarliest := se, crCounted := cc } evs 1 = some sv) :
    OllamaVerif.C07.Coherent sv.cache ∧ OllamaVerif.C07.Owned sv := by
  rw [tree_reset_end_repaired] at hr
  exact OllamaVerif.C07.reachable_coherent_owned parallel ctx batch multi canShift vocab eosMod se cc hctx evs sv hr

end OllamaVerif.Tie.C07
