/-
  C12 — source facts regenerated from the tree under test on every run (go/ast over func Serve in
  server/routes.go, `TestVerifC12Facts` in the driver), consumed here by `decide`.

  The model's `restartWith` (and the driver's synchronous transcription of it) is the start-up store
  repair of Serve.  What makes it a *start-up* repair is its POSITION: every repair call is a plain
  statement of Serve executed before the call that starts serving — not inside a `go` statement, a
  function literal or a `defer` — so no request can observe (or race with) a store the repair has not
  finished with.  `crash_safe` / `rerun_converges*` compose "crash; restart; operation" sequentially;
  that composition is only the real behaviour if this holds.
-/
import OllamaVerif.Generated.C12_Serve
namespace OllamaVerif.Tie.C12
open OllamaVerif.Generated.C12

def isPrefixL : List Char → List Char → Bool
  | [], _ => true
  | _ :: _, [] => false
  | a :: as, b :: bs => a == b && isPrefixL as bs

def containsL (pat : List Char) : List Char → Bool
  | [] => pat.isEmpty
  | c :: t => isPrefixL pat (c :: t) || containsL pat t

def contains (s pat : String) : Bool := containsL pat.toList s.toList

def is (s name : String) : Bool := s.toList == name.toList

/-- the repair calls and the serving call, in source order -/
def isRepairOrServe (n : String) : Bool :=
  is n "fixBlobs" || is n "Manifests" || is n "PruneLayers" || is n "PruneDirectory" ||
  is n "srvr.Serve" || is n "http.Serve"

def sequence : List String := (serveCalls.filter (fun c => isRepairOrServe c.1)).map (·.1)

/-- every repair call is there, in the order the model's `restartWith` applies them, and the call that
starts serving comes after all of them -/
theorem serve_repair_order :
    sequence.map String.toList =
      ["fixBlobs", "Manifests", "PruneLayers", "PruneDirectory", "srvr.Serve"].map String.toList := by
  decide +kernel

/-- none of them (nor the NoPrune test) is inside a `go` statement, a function literal or a `defer`:
the repair is complete before Serve starts to serve -/
theorem serve_repair_is_synchronous : serveCalls.all (fun c => !c.2.1) = true := by decide +kernel

def hasPrefix (s pre : String) : Bool := isPrefixL pre.toList s.toList

/-- the gating the model's `restartWith`/`restart` has, stated on NORMALISED guards (round 7: the text of the
conditions, the names of the error variables, `if c {…} else {…}` versus an early return, and whether the repair
sits in Serve itself or in a helper it calls are not facts the property depends on): `fixBlobs` runs
unconditionally; the manifest check and the prune are reached only when OLLAMA_NOPRUNE is not set; the prune is
reached under strictly more conditions than the manifest check (it depends on its outcome — WHICH outcome is
compared by behaviour: L1 `restarted` lines on stores with an unparseable manifest, and the crash states that go
through the real Serve). -/
theorem serve_repair_gating :
    serveCalls.all (fun c =>
      (!(is c.1 "Manifests" || is c.1 "PruneLayers" || is c.1 "PruneDirectory") ||
        c.2.2.any (fun g => hasPrefix g "noprune-off:")) &&
      (!(is c.1 "PruneLayers" || is c.1 "PruneDirectory") ||
        serveCalls.all (fun m => !is m.1 "Manifests" || decide (m.2.2.length < c.2.2.length))) &&
      (!is c.1 "fixBlobs" || c.2.2.isEmpty)) = true := by
  decide +kernel

end OllamaVerif.Tie.C12
