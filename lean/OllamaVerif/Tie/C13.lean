/-
  C13 tie: the character classes and length limits of the model's `validPartM` / `validPartN` are the ones
  the working tree's `isValidPart` (types/model and server/internal/internal/names) implement.  The table
  is regenerated on every run by executing the real functions on every 1-byte string, every 2-byte
  string (checked to be exactly first-set × rest-set, and position-independent) and on `a`^n for
  n ≤ 1200 (see vlib/checks/c13.py, TestVerifC13Table in both packages).
-/
import OllamaVerif.Model.Names
import OllamaVerif.Generated.C13_NameTable

namespace OllamaVerif.Tie.C13
open OllamaVerif.Names OllamaVerif.Generated.C13

def bytesWhere (p : UInt8 → Bool) : List Nat := (List.range 256).filter fun b => p (UInt8.ofNat b)

/-- first-byte sets: exactly `isAlphanumericOrUnderscore`, for every kind of both packages -/
theorem first_sets_match :
    firstM = (List.range 5).map (fun k => (k, bytesWhere isAlnumU)) ∧
    firstN = (List.range 4).map (fun k => (k, bytesWhere isAlnumU)) := by
  constructor <;> decide +kernel

/-- rest-byte sets: exactly the model's `restOk` per kind -/
theorem rest_sets_match :
    restM = (List.range 5).map (fun k => (k, bytesWhere (restOk (Kind.ofIdx k)))) ∧
    restN = (List.range 4).map (fun k => (k, bytesWhere (restOk (Kind.ofIdx k)))) := by
  constructor <;> decide +kernel

/-- length limits: [1, maxLen] in types/model, [0, maxLen] in names; accepted lengths are an interval and the
    2-byte acceptance relation is the product of the two sets -/
theorem length_limits_match :
    lenM = (List.range 5).map (fun k => (k, 1, maxLen (Kind.ofIdx k), 1, 1)) ∧
    lenN = (List.range 4).map (fun k => (k, 0, maxLen (Kind.ofIdx k), 1, 1)) := by
  constructor <;> decide

/-- no byte the real code accepts anywhere in a part is `/`, `\`, NUL or `@`; none accepted first is `.` -/
theorem accepted_bytes_safe :
    (restM ++ restN ++ firstM ++ firstN).all (fun e => e.2.all fun b => b != 47 && b != 92 && b != 0 && b != 64) = true ∧
    (firstM ++ firstN).all (fun e => e.2.all fun b => b != 46) = true := by
  constructor <;> decide +kernel

/-- `:` is accepted only inside hosts (and digests) -/
theorem colon_only_in_hosts :
    (restM ++ restN).all (fun e => e.1 == 0 || e.1 == 4 || e.2.all fun b => b != 58) = true := by
  decide +kernel

/-- no probed string (all 2-byte strings, 3-byte spot checks, valid 2/3/4-byte UTF-8 encodings of code points of every
    low-byte class, alone / after / before / inside ASCII) is treated by the real `isValidPart` other than byte-wise -/
theorem no_odd_strings :
    oddM = (List.range 5).map (fun k => (k, [])) ∧ oddN = (List.range 4).map (fun k => (k, [])) := by
  constructor <;> decide

/-- **Finding N1 stays repaired**: on the three witness strings (`h//m`, `h//m:t`, `h:80//m`) the real
    `names.Parse(w).IsValid()` of the working tree is what the model of the CURRENT tree (`isValidNCur`, under which
    `roundtrip_names_bare` is proved) says: invalid.  A tree in which the repair is reverted fails this `decide`. -/
theorem n1_variant_is_repaired :
    n1Probe = [[104, 47, 47, 109], [104, 47, 47, 109, 58, 116], [104, 58, 56, 48, 47, 47, 109]].map
      (fun w => isValidNCur (parseN w)) ∧ n1Probe = [false, false, false] := by
  constructor <;> decide

/-- the defaults merged into every abbreviated name, the `!MISSING!` marker and `MaxNameLength` are, in the working tree,
    the values the model uses -/
theorem constants_match :
    constM = [sDefaultHost, sLibrary, sLatest, sMissing].map (fun s => s.map UInt8.toNat) ∧
    maxNameLengthN = maxNameLength := by
  constructor <;> decide

end OllamaVerif.Tie.C13
