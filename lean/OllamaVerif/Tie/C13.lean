import OllamaVerif.Model.Names
import OllamaVerif.Generated.C13_NameTable
namespace OllamaVerif.Tie.C13
end OllamaVerif.Tie.C13
