/-
  C03 tie: WHICH variant of the pull model the tree under test is.

  `Generated/C03_Variant.lean` is rewritten on every run: the real `getValue`, `downloadBlob` and `PullModel` of the
  tree are EXECUTED on the witness inputs of the findings (F5: a header ending in `realm=`; C03-emptydigest: digest
  `""`; F6: layer A answered by an error page, layer B's HEAD 404; C03-dupdigest: a digest listed twice with one
  flipped byte; C03-verifywindow: a single corrupt layer, is "verifying sha256 digest" still announced?).

  Here the variant flags of the model are COMPUTED from those observations (`treeFlags`), the kernel decides that the
  model under these flags gives the observed outcome on the same witnesses (`model_reproduces_probes`, toy hash) and
  that the flags are the repaired ones (`tree_is_repaired`); the property theorems that need a repaired variant are
  then instantiated for every configuration that carries the tree's flags.  A regression of one of the repairs
  flips an observation, and the theorems below stop checking.  (The oracle of the L1 comparison is handed the same
  flags as a bit mask by the driver, which runs the same probes.)
-/
import OllamaVerif.Generated.C03_Variant
import OllamaVerif.Properties.C03

namespace OllamaVerif.Tie.C03
open OllamaVerif OllamaVerif.Pull OllamaVerif.C03

def obs (k : String) : String := ((Generated.C03.probes.find? fun r => r.1 == k).map (·.2)).getD "?"

/-- the model's variant flags, read off what the tree did -/
structure Flags where
  fixedChallenge : Bool
  fixedEmpty : Bool
  fixedDup : Bool
  verifyEarly : Bool
  verifyBeforeRename : Bool
deriving DecidableEq, Repr

def treeFlags : Flags :=
  { fixedChallenge := obs "getvalue-realm" == "ok"
    fixedEmpty := obs "empty-digest" == "err"
    fixedDup := obs "dup-digest-flip" == "err:digest-mismatch"
    verifyEarly := obs "f6-errorpage-then-404" == "err:digest-mismatch"
    verifyBeforeRename := obs "flip-single" == "err:digest-mismatch" && obs "flip-single-verifying-announced" == "no" }

/-- a configuration of the tree: any plan constants, the tree's flags -/
def IsTree (cfg : Cfg) : Prop :=
  cfg.fixedChallenge = treeFlags.fixedChallenge ∧ cfg.fixedEmpty = treeFlags.fixedEmpty ∧
  cfg.fixedDup = treeFlags.fixedDup ∧ cfg.verifyEarly = treeFlags.verifyEarly ∧
  cfg.verifyBeforeRename = treeFlags.verifyBeforeRename

def treeCfg : Cfg :=
  { cfgW with fixedChallenge := treeFlags.fixedChallenge, fixedEmpty := treeFlags.fixedEmpty,
              fixedDup := treeFlags.fixedDup, verifyEarly := treeFlags.verifyEarly,
              verifyBeforeRename := treeFlags.verifyBeforeRename }

def showO : Outcome → String
  | .ok _ => "ok"
  | .err .digestMismatch => "err:digest-mismatch"
  | .err .notfound => "err:notfound"
  | .err .digestFormat => "err"
  | .err _ => "err:other"
  | .panic _ => "panic"

/-- every repair the model knows is present in the tree (the transfer-side verification, C03-verifywindow, is a
    proposed patch that is NOT applied: known finding) -/
theorem tree_is_repaired :
    Generated.C03.probes.length = 6 ∧
    treeFlags = ⟨true, true, true, true, false⟩ := by decide

/-- the model under the tree's flags gives, on the same witness inputs (toy hash), what the real code did -/
theorem model_reproduces_probes :
    (match parseChallenge treeFlags.fixedChallenge (kRealm ++ [61]) with
      | none => "panic" | some _ => "ok") = obs "getvalue-realm" ∧
    showO (pull treeCfg toyHash 0 ⟨⟨[⟨.empty, 0, 0⟩], ⟨.empty, 0, 0⟩⟩, [], [0]⟩ Scripts.honest st0).1 = obs "empty-digest" ∧
    showO (pull treeCfg toyHash 0 regAB scF6 st0).1 = obs "f6-errorpage-then-404" ∧
    showO (pull treeCfg toyHash 0 ⟨⟨[⟨.ok dA, 2, 0⟩, ⟨.ok dA, 2, 0⟩], ⟨.empty, 0, 0⟩⟩, [(dA, cA)], [0]⟩
      ⟨[], [], [(dA, ⟨[], [], [[.body (.flip 0) none .eof]]⟩)], none⟩ st0).1 = obs "dup-digest-flip" ∧
    showO (pull treeCfg toyHash 0 regA ⟨[], [], [(dA, ⟨[], [], [[.body (.flip 0) none .eof]]⟩)], none⟩ st0).1 = obs "flip-single" := by
  decide

theorem isTree_treeCfg : IsTree treeCfg := ⟨rfl, rfl, rfl, rfl, rfl⟩

/-- **Clauses 1 and 3 for the tree**: with the tree's flags, a pull that reports success leaves every layer of the
    served manifest stored and hashing to its digest (no condition on the manifest) and the name resolving to the
    served manifest. -/
theorem tree_pull_success_complete (cfg : Cfg) (ht : IsTree cfg) (hash : Bytes → Digest) (name : Name) (reg : Registry)
    (sc : Scripts) (st st' : Store) (log : Log) (hinv : BlobInv hash st)
    (h : pull cfg hash name reg sc st = (.ok (), st', log)) :
    (∀ l ∈ reg.manifest.all, ∃ d c, l.digest = .ok d ∧ st'.blobs d = some c ∧ hash c = d) ∧
    lookupM name st'.manifests = some (.readable reg.manifest) :=
  pull_success_complete_fixed cfg hash name reg sc st st' log
    (by rw [ht.2.2.2.1, tree_is_repaired.2]) hinv h

/-- **Clause 4 over every history, for the tree** -/
theorem tree_history_every_state_intact (cfg : Cfg) (ht : IsTree cfg) (hash : Bytes → Digest) (steps : List HStep)
    (st : Store) (hb : BlobInv hash st) (hn : NameInv hash st) :
    ∀ r ∈ runHistory cfg hash steps st, BlobInv hash r.2.1 ∧ NameInv hash r.2.1 :=
  history_every_state_intact cfg hash (by rw [ht.2.2.2.1, tree_is_repaired.2]) steps st hb hn

/-- **Clause 6 for the tree**: no reply script makes the tree's pull panic (model panic sites) -/
theorem tree_pull_no_panic (cfg : Cfg) (ht : IsTree cfg) (hash : Bytes → Digest) (name : Name) (reg : Registry)
    (sc : Scripts) (st : Store) (p : PanicSite) : (pull cfg hash name reg sc st).1 ≠ .panic p :=
  pull_no_panic_fixed cfg hash name reg sc st p
    (by rw [ht.1, tree_is_repaired.2]) (by rw [ht.2.1, tree_is_repaired.2])

/-- non-vacuity: `treeCfg` is a configuration of the tree, and an honest pull succeeds under it -/
example : IsTree treeCfg ∧ (pull treeCfg toyHash 0 regAB Scripts.honest st0).1 = .ok () :=
  ⟨isTree_treeCfg, by decide⟩

end OllamaVerif.Tie.C03
