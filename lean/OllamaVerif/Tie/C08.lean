/-
  C08, Tie 1: the Link/Resolve theorems instantiated at the `Link` variant that the tree under test contains
  (`Generated.C08.linkFixed`, extracted from cache.go on every run).  They compile only while the tree has the
  repaired `Link` (fix 834f6be9a): if the in-place copy comes back, `linkFixed` regenerates to `false`, these
  stop type-checking and the check reports the lost obligation (next to the L2 replay of F8 itself).
-/
import OllamaVerif.Properties.C08
import OllamaVerif.Generated.C08_LinkVariant
namespace OllamaVerif.Tie.C08
open OllamaVerif OllamaVerif.BlobCache OllamaVerif.Generated.C08

/-- the tree's `Link` is the repaired one -/
theorem tree_link_is_fixed : linkFixed = true := by decide

/-- **Link then Resolve, for the tree's `Link`** — no guard on what the name was linked to before -/
theorem tree_link_then_resolve (hash : Bytes → Digest) (k : Disk) (name : Bytes) (d : Digest)
    (f : Bytes) (want : MPath)
    (hat : splitNameDigest name = (name, []))
    (hp : nameToPath name = some want)
    (hb : k.blob d = some f) (hh : hash f = d) :
    (link hash linkFixed k name d).2 = .ok ∧
    (resolve hash (link hash linkFixed k name d).1 name).2 = .digest d := by
  rw [tree_link_is_fixed]
  exact OllamaVerif.C08.link_then_resolve_fixed hash k name d f want hat hp hb hh

/-- **Link links only verified bytes, for the tree's `Link`** -/
theorem tree_link_requires_blob (hash : Bytes → Digest) (k : Disk) (name : Bytes) (d : Digest)
    (hok : (link hash linkFixed k name d).2 = .ok) :
    ∃ f, k.blob d = some f ∧
      (f = [] ∨ hash f = d ∨
        ∃ want g, nameToPath name = some want ∧ manGet k.mans (manifestPathOf k.mans want) = some g ∧ hash g = d) := by
  rw [tree_link_is_fixed] at hok
  exact OllamaVerif.C08.link_requires_blob_fixed hash k name d hok

/-- the F8 history on the tree's `Link`: the second Link takes effect -/
theorem tree_relink_same_size_takes_effect :
    let A : Bytes := [1, 1, 1]
    let B : Bytes := [2, 2, 2]
    (runOps OllamaVerif.C08.idh linkFixed
      [.put A 3 ⟨[A], .eof⟩, .put B 3 ⟨[B], .eof⟩, .link OllamaVerif.C08.nm A, .link OllamaVerif.C08.nm B,
       .resolve OllamaVerif.C08.nm] Disk.empty).2
      = [.res .ok, .res .ok, .res .ok, .res .ok, .digest B] := by decide

end OllamaVerif.Tie.C08
