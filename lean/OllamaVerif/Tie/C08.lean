/-
  C08, Tie 1 (facts regenerated from the tree under test on every run, consumed by `decide`):

  * `Generated/C08_LinkVariant.lean`: which `Link` the tree contains (`linkFixed`: temp + rename, fix 834f6be9a;
    `linkZeroCheck`: zero-length refusal of proposed_fixes/C08-F8-zero.patch).  The Link/Resolve theorems below are
    instantiated at that variant and compile only while the tree has the repaired `Link`: if the in-place copy comes
    back, `linkFixed` regenerates to `false`, they stop type-checking and the check reports the lost obligation
    (next to the L2 replay of F8 itself).
  * `Generated/C08_NameChars.lean`: the bytes the real `names.isValidPart` accepts first / later in a part of each
    kind, its length limits, position independence — obtained by executing it (TestVerifC08NameTable).  They must be
    exactly the model's `isAlnumU` / `restC` / `Part.maxLen`, which is what `nameToPath_safe` (⇒ `link_confined`:
    a name never denotes a file outside manifests/<h>/<n>/<m>/<t>) is proved from.
  * `Generated/C08_ReadLimit.lean` (round 7): the limits `Resolve` and `Link` pass to `readAndSum` (constant
    expressions extracted from the two call sites), whether `readAndSum` refuses a longer file
    (proposed_fixes/C08-F28.patch) and whether `copyNamedFile` refuses a negative size (C08-F29.patch).
-/
import OllamaVerif.Properties.C08Hist
import OllamaVerif.Generated.C08_LinkVariant
import OllamaVerif.Generated.C08_NameChars
import OllamaVerif.Generated.C08_ReadLimit
namespace OllamaVerif.Tie.C08
open OllamaVerif OllamaVerif.BlobCache OllamaVerif.Generated.C08

/-- the tree's `Link` is the repaired one -/
theorem tree_link_is_fixed : linkFixed = true := by decide

/-- the tree's `Link` refuses a zero-length blob file whose digest is not that of the empty string (fix 892890804; the
    all-fixed variant is the EXPECTED one: if the probe finds the refusal gone, this stops compiling) -/
theorem tree_link_zero_checked : linkZeroCheck = true := by decide

/-- **Link then Resolve, for the tree's `Link`** — no guard on what the name was linked to before -/
theorem tree_link_then_resolve (hash : Bytes → Digest) (k : Disk) (name : Bytes) (d : Digest)
    (f : Bytes) (want : MPath)
    (hat : splitNameDigest name = (name, []))
    (hp : nameToPath name = some want)
    (hb : k.blob d = some f) (hh : hash f = d) :
    (linkZ hash linkZeroCheck linkFixed k name d).2 = .ok ∧
    (resolve hash (linkZ hash linkZeroCheck linkFixed k name d).1 name).2 = .digest d := by
  rw [tree_link_is_fixed]
  exact OllamaVerif.C08.linkZ_then_resolve_fixed hash linkZeroCheck k name d f want hat hp hb hh

/-- **Link links only verified bytes, for the tree's `Link`** (empty file still linkable while the zero-length
    refusal is not in the tree: finding F8-zero) -/
theorem tree_link_requires_blob (hash : Bytes → Digest) (k : Disk) (name : Bytes) (d : Digest)
    (hok : (linkZ hash linkZeroCheck linkFixed k name d).2 = .ok) :
    ∃ f, k.blob d = some f ∧
      (f = [] ∨ hash f = d ∨
        ∃ want g, nameToPath name = some want ∧ manGet k.mans (manifestPathOf k.mans want) = some g ∧ hash g = d) := by
  rw [tree_link_is_fixed] at hok
  exact OllamaVerif.C08.link_requires_blob_fixed hash k name d
    (OllamaVerif.C08.linkZ_ok hash linkZeroCheck true k name d hok).2

/-- the F8 history on the tree's `Link`: the second Link takes effect -/
theorem tree_relink_same_size_takes_effect :
    let A : Bytes := [1, 1, 1]
    let B : Bytes := [2, 2, 2]
    (runOps OllamaVerif.C08.idh linkFixed linkZeroCheck
      [.put A 3 ⟨[A], .eof⟩, .put B 3 ⟨[B], .eof⟩, .link OllamaVerif.C08.nm A, .link OllamaVerif.C08.nm B,
       .resolve OllamaVerif.C08.nm] Disk.empty).2
      = [.res .ok, .res .ok, .res .ok, .res .ok, .digest B] := by decide

def bytesWhere (p : UInt8 → Bool) : List Nat := (List.range 256).filter fun b => p (UInt8.ofNat b)

/-- first bytes the real `isValidPart` accepts = the model's `isAlnumU`, for all four kinds -/
theorem name_first_chars_match :
    firstChars = (List.range 4).map (fun k => (k, bytesWhere isAlnumU)) := by decide +kernel

/-- later bytes the real `isValidPart` accepts = the model's `restC kind` -/
theorem name_rest_chars_match :
    restChars = (List.range 4).map (fun k => (k, bytesWhere (restC (Part.ofIdx k)))) := by decide +kernel

/-- length limits (accepted lengths are the interval [0, max]) and position independence of the later bytes -/
theorem name_len_limits_match :
    lenLimits = (List.range 4).map (fun k => (k, (Part.ofIdx k).maxLen, 1, 1)) := by decide

/-- read off the regenerated table itself: the real code accepts no `/` anywhere and no `.` first -/
theorem name_accepted_bytes_safe :
    (firstChars ++ restChars).all (fun e => e.2.all fun b => b != 47) = true ∧
    firstChars.all (fun e => e.2.all fun b => b != 46) = true := by
  constructor <;> decide +kernel

/-! ## the read limit (round 7) -/

/-- `Resolve` and `Link` read a manifest under the same limit, and it was extracted (not 0): what Link's
    already-linked test sees is what Resolve would answer -/
theorem read_limits_agree : resolveReadLimit = linkReadLimit ∧ 0 < resolveReadLimit := by decide

/-- the tree's `readAndSum` refuses a file longer than the limit (fix dd73d5483, finding F28) and its `copyNamedFile` refuses
    a negative size (fix 9e5c18b2f, finding F29): the all-fixed variant is the EXPECTED one; if a probe finds either gone,
    this stops compiling (next to `variant-regression`) -/
theorem tree_read_strict_and_neg_refused : readStrict = true ∧ negRefused = true := by decide

/-- **Resolve returns the digest of exactly the bytes linked, for the tree's `Resolve`, for EVERY manifest size**: whatever
    digest it answers is the hash of the whole manifest file (an oversize manifest is an error, not a prefix digest) -/
theorem tree_resolve_hash_of_whole_file (hash : Bytes → Digest) (k : Disk) (name : Bytes) (d' : Digest)
    (hnd : (splitNameDigest name).2 = [])
    (h : (resolveL hash readStrict resolveReadLimit k name).2 = .digest d') :
    ∃ want file, nameToPath (splitNameDigest name).1 = some want ∧
      manGet k.mans (manifestPathOf k.mans want) = some file ∧ d' = hash file := by
  rw [tree_read_strict_and_neg_refused.1] at h
  exact OllamaVerif.C08.resolveL_strict_hash_of_whole_file hash resolveReadLimit k name d' hnd h

/-- a negative-size `Put` touches nothing in the tree's cache -/
theorem tree_putNeg_noop (k : Disk) (d : Digest) (s : Script) :
    (putNeg negRefused k d s).1.blob d = k.blob d ∧ (putNeg negRefused k d s).2 = .negSize := by
  rw [tree_read_strict_and_neg_refused.2]
  simp [putNeg, copyNamedNegEffs, run, OllamaVerif.C08.setBlob_same]

theorem manGet_mem (mans : List (MPath × Bytes)) (p : MPath) (file : Bytes) (h : manGet mans p = some file) :
    ∃ e ∈ mans, e.2 = file := by
  unfold manGet at h
  cases hf : mans.find? (fun e => e.1 == p) with
  | none => simp [hf] at h
  | some e =>
    simp only [hf, Option.map_some, Option.some.injEq] at h
    exact ⟨e, List.mem_of_find?_eq_some hf, h⟩

/-- **Link then Resolve for the tree's `Link` AND the tree's `Resolve`** (with its read limit, at the variant and the
    constant found in the source): holds whenever the manifests on the disk after the `Link` are within the limit. -/
theorem tree_link_then_resolve_limited (hash : Bytes → Digest) (k : Disk) (name : Bytes) (d : Digest)
    (f : Bytes) (want : MPath)
    (hat : splitNameDigest name = (name, []))
    (hp : nameToPath name = some want)
    (hb : k.blob d = some f) (hh : hash f = d)
    (hsmall : ∀ e ∈ (linkZ hash linkZeroCheck linkFixed k name d).1.mans, e.2.length ≤ resolveReadLimit) :
    (resolveL hash readStrict resolveReadLimit (linkZ hash linkZeroCheck linkFixed k name d).1 name).2 = .digest d := by
  rw [OllamaVerif.C08.resolveL_eq_resolve]
  · exact (tree_link_then_resolve hash k name d f want hat hp hb hh).2
  · intro w file _ hm
    obtain ⟨e, he, rfl⟩ := manGet_mem _ _ _ hm
    exact hsmall e he

end OllamaVerif.Tie.C08
