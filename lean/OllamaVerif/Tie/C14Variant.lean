/-
  C14 tie: WHICH `FindStop` the tree has.  `Generated/C14_Variant.lean` is rewritten on every run: the real
  `common.FindStop` (and `TruncateStop` on its result) of the tree under test are EXECUTED on inputs that tell
  the two variants of the model apart (`findStopV true` = first listed stop, finding F7; `findStopV false` =
  earliest occurrence, the repair), on ties, on the empty stop and on a miss
  (harness/overlay/runner_common/zz_verif_c14_extract_test.go `TestVerifC14Variant`).

  `tree_findstop_repaired` decides in the kernel that the repaired variant reproduces every answer of the tree and
  the pinned variant does not; `treePinned` is COMPUTED from the probe, and the tree-level theorem `c14_tree` is the
  property for `run treePinned …`.  A regression of the F7 fix flips `treePinned`, and both theorems stop checking.
  The oracle of the L1 comparison is asked for the same variant (vlib/checks/c14.py `regenerate_variant`).
-/
import OllamaVerif.Generated.C14_Variant
import OllamaVerif.Properties.C14

namespace OllamaVerif.Tie.C14
open OllamaVerif OllamaVerif.Stop OllamaVerif.C14

/-- does the model variant reproduce what the tree's `FindStop` / `TruncateStop` answered on every probe? -/
def agreesWithTree (pinned : Bool) : Bool :=
  Generated.C14.findStopProbe.all fun r =>
    findStopV pinned r.1 r.2.1 == r.2.2.1 &&
    (match r.2.2.1 with
     | none => true
     | some stop => (truncateStop [r.1] stop).1.flatten == r.2.2.2)

/-- the variant of the tree, computed from the probe (true = first listed stop, F7) -/
def treePinned : Bool := !agreesWithTree false

/-- the probe is not empty and tells the variants apart: the repaired model agrees with the tree on every row,
    the pinned model does not -/
theorem tree_findstop_repaired :
    Generated.C14.findStopProbe.length ≥ 8 ∧ agreesWithTree false = true ∧ agreesWithTree true = false ∧
    treePinned = false := by decide

/-- **C14 for the tree**: `c14_script` for the variant the tree was measured to have. -/
theorem c14_tree (limit : Int) (stops : List Bytes) (evs : List Ev) (hok : StopsOk stops)
    (cap tail : Nat) (sched : List Nat) (hscript : ValidPrefix (scriptText evs)) :
    let f := run treePinned limit stops init evs
    ((∀ c ∈ f.out, validUtf8 c = true ∧ c ≠ []) ∧ f.outText <+: f.genText) ∧
    (∀ t ∈ stops, ¬ Occurs t f.outText) ∧
    ((∃ t ∈ stops, Occurs t f.genText) →
      f.done = some .stop ∧ ∃ s ∈ stops, ∃ idx, indexOf s f.genText = some idx ∧
        (∀ t ∈ stops, ∀ j, indexOf t f.genText = some j → idx ≤ j) ∧ f.outText = f.genText.take idx) ∧
    ((∀ t ∈ stops, ¬ Occurs t f.genText) →
      (f.done = some .stop → f.cause = some .eos ∧ f.outText = trimValid f.genText) ∧
      (f.done = some .length → f.cause = some .limit ∧ f.outText = trimValid f.genText) ∧
      (f.done = none → f.outText ++ f.pending.flatten = f.genText)) ∧
    (f.done.isSome = true → (runSched treePinned limit stops cap tail init {} sched evs).2.recv = f.out) := by
  have h : treePinned = false := tree_findstop_repaired.2.2.2
  rw [h]
  exact c14_script limit stops evs hok cap tail sched hscript

end OllamaVerif.Tie.C14
