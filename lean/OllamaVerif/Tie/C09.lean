/-
  C09 tie: the retry decision the model uses (`Registry.canRetry`) is the one the working tree's
  `Local.handlePull` makes.  The table is regenerated on every run by executing the REAL handler
  end to end (package registry, in-memory registry, fake time) once per error class of the model:
  the first `Pull` attempt fails with that class (produced by the real client), later attempts
  succeed; the table records how many attempts were made (see vlib/checks/c09.py and
  harness/overlay/server_internal_registry/zz_verif_c09_retry_test.go).
-/
import OllamaVerif.Model.Registry
import OllamaVerif.Generated.C09_RetryTable

namespace OllamaVerif.Tie.C09
open OllamaVerif.Registry

/-- the model's outcome for a table row -/
def outcomeOf : String → Option Outcome
  | "ok" => some .ok
  | "status4xx" => some (.err .status4xx)
  | "status5xx" => some (.err .status5xx)
  | "notFound" => some (.err .notFound)
  | "transport" => some (.err .transport)
  | "canceled" => some (.err .canceled)
  | "eof" => some (.err .eof)
  | "readErr" => some (.err .readErr)
  | "digest" => some (.err .digest)
  | "incomplete" => some (.err .incomplete)
  | "invalidManifest" => some (.err .invalidManifest)
  | "deadline" => some (.err .deadline)
  | _ => none

/-- every outcome of the model (success and the eleven error classes) has a row -/
theorem retry_table_complete :
    OllamaVerif.Generated.C09.retryTable.map (·.1) =
      ["ok", "status4xx", "status5xx", "notFound", "transport", "canceled", "eof", "readErr", "digest",
       "incomplete", "invalidManifest", "deadline"] := by decide

/-- the real handler made a second attempt exactly when the model's `canRetry` says so -/
theorem canRetry_matches_handlePull :
    OllamaVerif.Generated.C09.retryTable.all
      (fun row => match outcomeOf row.1 with
        | some o => (canRetry o == (row.2 == 2)) && (row.2 == 1 || row.2 == 2)
        | none => false) = true := by decide

/-- `outcomeOf` reaches every error class (so a class added to the model without a row breaks
    `retry_table_complete` or this) -/
theorem outcomeOf_covers (e : ErrClass) : ∃ s, outcomeOf s = some (.err e) := by
  cases e
  · exact ⟨"status4xx", rfl⟩
  · exact ⟨"status5xx", rfl⟩
  · exact ⟨"notFound", rfl⟩
  · exact ⟨"transport", rfl⟩
  · exact ⟨"canceled", rfl⟩
  · exact ⟨"eof", rfl⟩
  · exact ⟨"readErr", rfl⟩
  · exact ⟨"digest", rfl⟩
  · exact ⟨"incomplete", rfl⟩
  · exact ⟨"invalidManifest", rfl⟩
  · exact ⟨"deadline", rfl⟩

end OllamaVerif.Tie.C09
