/-
  C09 tie: the retry decision the model uses (`Registry.canRetry`) is the one the working tree's
  `Local.handlePull` makes.  The table is regenerated on every run by executing the REAL handler
  end to end (package registry, in-memory registry, fake time) once per error class of the model:
  the first `Pull` attempt fails with that class (produced by the real client), later attempts
  succeed; the table records how many attempts were made (see vlib/checks/c09.py and
  harness/overlay/server_internal_registry/zz_verif_c09_retry_test.go).

  Round 7: three more tables, regenerated on every run by executing the real code over a whole
  finite domain (harness/overlay/*/zz_verif_c09_tables_test.go): `sendRequest`'s status test
  (100..599), net/http's redirect behaviour as the registry client uses it (method × body kind ×
  status × Location?, one and two hops), the legacy `makeRequestWithRetry` (100..599); and the
  variant flags of the tree (the probes that select the model variant for L1), with the headline
  theorems instantiated for the tree (`tree_*`).
-/
import OllamaVerif.Model.Registry
import OllamaVerif.Properties.C09Tree
import OllamaVerif.Generated.C09_RetryTable
import OllamaVerif.Generated.C09_HttpTables
import OllamaVerif.Generated.C09_Variant

namespace OllamaVerif.Tie.C09
open OllamaVerif.Registry

/-- the model's outcome for a table row -/
def outcomeOf : String → Option Outcome
  | "ok" => some .ok
  | "status4xx" => some (.err .status4xx)
  | "status5xx" => some (.err .status5xx)
  | "notFound" => some (.err .notFound)
  | "transport" => some (.err .transport)
  | "canceled" => some (.err .canceled)
  | "eof" => some (.err .eof)
  | "readErr" => some (.err .readErr)
  | "digest" => some (.err .digest)
  | "incomplete" => some (.err .incomplete)
  | "invalidManifest" => some (.err .invalidManifest)
  | "deadline" => some (.err .deadline)
  | _ => none

/-- every outcome of the model (success and the eleven error classes) has a row -/
theorem retry_table_complete :
    OllamaVerif.Generated.C09.retryTable.map (·.1) =
      ["ok", "status4xx", "status5xx", "notFound", "transport", "canceled", "eof", "readErr", "digest",
       "incomplete", "invalidManifest", "deadline"] := by decide

/-- the real handler made a second attempt exactly when the model's `canRetry` says so -/
theorem canRetry_matches_handlePull :
    OllamaVerif.Generated.C09.retryTable.all
      (fun row => match outcomeOf row.1 with
        | some o => (canRetry o == (row.2 == 2)) && (row.2 == 1 || row.2 == 2)
        | none => false) = true := by decide

/-- `outcomeOf` reaches every error class (so a class added to the model without a row breaks
    `retry_table_complete` or this) -/
theorem outcomeOf_covers (e : ErrClass) : ∃ s, outcomeOf s = some (.err e) := by
  cases e
  · exact ⟨"status4xx", rfl⟩
  · exact ⟨"status5xx", rfl⟩
  · exact ⟨"notFound", rfl⟩
  · exact ⟨"transport", rfl⟩
  · exact ⟨"canceled", rfl⟩
  · exact ⟨"eof", rfl⟩
  · exact ⟨"readErr", rfl⟩
  · exact ⟨"digest", rfl⟩
  · exact ⟨"incomplete", rfl⟩
  · exact ⟨"invalidManifest", rfl⟩
  · exact ⟨"deadline", rfl⟩

/-! ### HTTP tables -/

open OllamaVerif.Generated.C09

/-- every status 100..599 has a row -/
theorem send_table_complete : sendTable.map (·.1) = List.range' 100 500 := by decide +kernel

/-- the real `sendRequest` hands a response to its caller exactly for the statuses the model's
    `is2xx` accepts (whole status domain, answers without Location) -/
theorem sendRequest_accepts_exactly_2xx : sendTable.all (fun r => r.2 == is2xx r.1) = true := by decide +kernel

def methodOf : String → Option Method
  | "GET" => some .get | "HEAD" => some .head | "POST" => some .post | "PUT" => some .put | "PATCH" => some .patch
  | _ => none

def bodyOf : String → Option BodyKind
  | "none" => some .none | "rewindable" => some .rewindable | "stream" => some .stream
  | _ => none

def showMethod : Method → String
  | .get => "GET" | .head => "HEAD" | .post => "POST" | .put => "PUT" | .patch => "PATCH"

/-- what the model's `follow` says the next request is, after one answer or after two -/
def modelNext (hops : Nat) (m : Method) (b : BodyKind) (s1 : Nat) (l1 : Bool) (s2 : Nat) : String :=
  match follow m b ⟨s1, l1⟩ with
  | none => "-"
  | some (m', b') =>
    if hops = 1 then showMethod m'
    else match follow m' b' ⟨s2, true⟩ with
      | none => "-"
      | some (m'', _) => showMethod m''

def followStatuses : List Nat := [100, 199, 200, 201, 204, 206, 300, 301, 302, 303, 304, 305, 306, 307, 308, 399, 400, 404, 500]
def followHops : List Nat := [301, 302, 303, 307, 308]

/-- the domain the table must cover: every method × body kind × (status × Location? | hop × hop) -/
def followDomain : List (Nat × String × String × Nat × Bool × Nat) :=
  ["GET", "HEAD", "POST", "PUT", "PATCH"].flatMap fun m =>
    ["none", "rewindable", "stream"].flatMap fun b =>
      (followStatuses.flatMap fun s => [(1, m, b, s, false, 0), (1, m, b, s, true, 0)]) ++
      (followHops.flatMap fun s1 => followHops.map fun s2 => (2, m, b, s1, true, s2))

theorem follow_table_complete :
    followTable.map (fun r => (r.1, r.2.1, r.2.2.1, r.2.2.2.1, r.2.2.2.2.1, r.2.2.2.2.2.1)) = followDomain := by
  decide +kernel

/-- net/http's client (as driven by the registry client's requests) sends the next request the
    model's `follow` predicts — method kept / turned into GET / answer handed to the caller — for
    every row, incl. the two-hop rows that show the ORIGINAL request's body kind decides 307/308 -/
theorem follow_matches_nethttp :
    followTable.all (fun r =>
      match methodOf r.2.1, bodyOf r.2.2.1 with
      | some m, some b => modelNext r.1 m b r.2.2.2.1 r.2.2.2.2.1 r.2.2.2.2.2.1 == r.2.2.2.2.2.2
      | _, _ => false) = true := by decide +kernel

/-- every status 100..599 except 401, for a body-less HEAD and a PUT, has a row -/
theorem mrr_table_complete :
    mrrTable.map (fun r => (r.1, r.2.1)) =
      ((List.range' 100 500).filter (· != 401)).flatMap (fun s => [("HEAD", s), ("PUT", s)]) := by decide +kernel

def showMrr : Mrr → String
  | .ok _ => "ok" | .notFound => "notFound" | .err => "err"

/-- the real `makeRequestWithRetry` classifies a final answer exactly as the model's `mrr false`
    does: 404 → not found, ≥ 400 → error, EVERYTHING else (1xx, 2xx, 3xx) → a response for the
    caller (whole status domain; on a tree with the F18 repair the 2xx test sits at the call sites:
    model flag `strict`, selected by a probe) -/
theorem mrr_matches_makeRequestWithRetry :
    mrrTable.all (fun r => showMrr (mrr false (some ⟨r.2.1, false⟩)) == r.2.2) = true := by decide +kernel


/-! ### The tree's variant -/

open OllamaVerif.C09

/-- the model configuration of the working tree (threshold and MaxStreams are free) -/
def treeCfg (thr : Nat) (limit : Option Nat) : Cfg := ⟨thr, limit, treeLinkShortcut, treeVerify, treeStaged⟩

/-- the working tree re-hashes every layer before `Link` (probe: the F10b scenario on the real
    client ends in an error).  A tree that loses the `verifyLayer` pass breaks this theorem. -/
theorem tree_verifies : treeVerify = true := by decide

/-- `pull_success_verified` for the working tree -/
theorem tree_pull_success_verified {D : Type} [DecidableEq D] (H : Bytes → D) (thr : Nat) (limit : Option Nat)
    (hcol : treeStaged = true → NoLenCollision H) (c c' : Cache D) (a : Attempt D)
    (h : pull H (treeCfg thr limit) c a = (c', .ok)) :
    ∃ m, a.man = .ok m ∧ ∀ l ∈ m.all, Good H c' l.digest l.size :=
  pull_success_verified H (treeCfg thr limit) tree_verifies hcol c c' a h

/-- the history invariant for the working tree, from an empty cache: with staged chunk files
    unconditionally (up to `NoLenCollision`), without them for size-consistent histories (F10d) -/
theorem tree_history_linked_layers_verified {D : Type} [DecidableEq D] (H : Bytes → D) (thr : Nat)
    (limit : Option Nat) (sz : D → Nat) (as : List (Attempt D))
    (hcol : treeStaged = true → NoLenCollision H)
    (hsz : treeStaged = false → ∀ a ∈ as, AttemptSized sz a) :
    LinkedVerified H (pullHistory H (treeCfg thr limit) Cache.empty as).1 := by
  by_cases hs : treeStaged = true
  · exact history_linked_layers_verified H (treeCfg thr limit) tree_verifies hs (hcol hs) as _
      (linkedVerified_empty H)
  · have hs' : treeStaged = false := by simpa using hs
    have := history_linked_layers_verified_tree H (treeCfg thr limit) tree_verifies hs' sz as (hsz hs') _
      (linkedVerifiedSized_empty sz H)
    intro n m hn
    exact (this n m hn).2

/-! ### The decisions at the start of a layer -/

theorem begin_table_complete :
    beginTable.map (fun r => (r.1, r.2.1)) =
      ([-1, 0, 1, 2, 3] : List Int).flatMap (fun fl => [0, 1, 2, 3].map fun sz => (fl, sz)) := by decide

/-- the real `c.Get` size shortcut and `c.Chunked` (file-less pre-validated Chunker when a file of
    that size exists, else the blob file is created / opened in place) decide as the model's
    `shortcut`, `prevalidated`, `ensureFile` on every blob file length (none, 0…3) × manifest size 0…3
    — incl. the empty-file case (`c.Get` refuses it, `Chunked` pre-validates it) -/
theorem beginLayer_matches_model :
    beginTable.all (fun r =>
      let d : Bytes := [7]
      let c : Cache Bytes := { (Cache.empty : Cache Bytes) with
        files := fun x => if x = d then (if r.1 < 0 then none else some (zeros r.1.toNat)) else none }
      let l : Layer Bytes := ⟨d, r.2.1⟩
      let v := (treeCfg 2 none).variant
      (shortcut c l == r.2.2.1) &&
      (r.2.2.1 || (prevalidated c l == r.2.2.2.1)) &&
      (((if shortcut c l || prevalidated c l then c else ensureFile v c d).files d).isSome == r.2.2.2.2)) = true := by decide

/-! ### `verifyLayer`, the last check before `Link` -/

def vLayer : Layer Bytes := ⟨[97, 98, 99, 100, 101, 102], 6⟩        -- "abcdef" (digest = pre-image)

/-- the blob file of each scenario (`none`: no file) -/
def verifyScenario : String → Option (Option Bytes)
  | "exact" => some (some [97, 98, 99, 100, 101, 102])
  | "short" => some (some [97, 98, 99])
  | "oversized-good-prefix" => some (some [97, 98, 99, 100, 101, 102, 120])
  | "wrong-content" => some (some [97, 98, 99, 100, 101, 88])
  | "empty" => some (some [])
  | "missing" => some none
  | _ => none

theorem verify_table_complete :
    verifyTable.map (·.1) = ["exact", "short", "oversized-good-prefix", "wrong-content", "empty", "missing"] := by decide

/-- the real `verifyLayer` passes / fails, and keeps / removes the blob file, exactly as the model's
    verification pass (`verifyPass` of the tree's variant) does, on every relation between the file
    and the manifest entry — in particular a file LONGER than the manifest's size whose first
    bytes are right does not pass -/
theorem verifyLayer_matches_model :
    verifyTable.all (fun row =>
      match verifyScenario row.1 with
      | none => false
      | some f =>
        let c : Cache Bytes := { (Cache.empty : Cache Bytes) with files := fun d => if d = vLayer.digest then f else none }
        let r := verifyPass id (treeCfg 2 none) c ⟨0, 0, [vLayer], none⟩
        (r.2 == row.2.1) && ((r.1.files vLayer.digest).isSome == row.2.2)) = true := by decide

/-- the working tree offers the config blob to the registry (probe: a push of a manifest with a
    config makes a request naming the config digest) — finding F30 is repaired in /repo (ed2a637ee);
    a tree that loses the repair breaks this theorem -/
theorem tree_pushes_config : treePushConfig = true := by decide

/-- new-client push on the working tree: a manifest request implies every blob of `m.all` — config
    included, the set `Pull` fetches and verifies — was accepted before it -/
theorem tree_push_manifest_after_every_blob {D : Type} (m : Manifest D)
    (scripts : List UpScript) (hlen : scripts.length = m.all.length) (sched : List Nat) (man : List Resp)
    (tr : List PushEv) (ok : Bool) (h : pushManifest treePushConfig m scripts sched man = some (tr, ok))
    (hman : ∃ e ∈ tr, e.isManifest = true) :
    ∃ body, tr = body ++ (manifestRun man).1 ∧ (∀ e ∈ body, e.isManifest = false) ∧
      ∀ i, i < m.all.length → ∃ u, scripts[i]? = some u ∧ (layerRun i u).2 = true ∧
        ∀ e ∈ (layerRun i u).1, e ∈ body := by
  rw [tree_pushes_config] at h
  exact push_manifest_after_every_blob m scripts hlen sched man tr ok h hman

/-- legacy push on the working tree (`strict` as probed) -/
theorem tree_legacy_push_manifest_last (ls : List LegacyLayer) (man : List Resp) :
    ((∃ e ∈ (legacyPush treeStrict ls man).1, e.isManifest = true) ↔ (legacyLayers treeStrict 0 ls).2 = true) ∧
    ((legacyLayers treeStrict 0 ls).2 = true → ∃ body,
        (legacyPush treeStrict ls man).1 = body ++ (legacyManifest treeStrict man).1 ∧
        (∀ e ∈ body, e.isManifest = false) ∧ ∀ j, j < ls.length → settled treeStrict j body) ∧
    ((legacyPush treeStrict ls man).2 = true → (legacyLayers treeStrict 0 ls).2 = true) :=
  legacy_push_manifest_last treeStrict ls man

end OllamaVerif.Tie.C09
