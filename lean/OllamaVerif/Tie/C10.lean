/-
  C10 tie (completeness side of `Safe`): `decode_safe_tree` says the decoder MODEL reaches none of its panic /
  allocation outcomes; the model has one outcome per risky site it knows.  This file ties the list of sites to the
  source: harness/cmd/ggufsites (go/ast) counts, in everything reachable from the functions named `Decode` and from
  `keyValue` in fs/ggml, the unchecked type assertions, divisions by a non-constant, non-constant indexes (maps and
  loop-bounded indexes excluded), `make`s with a size that is neither constant nor `min(…, constant)`, slice expressions
  with a non-constant bound and `Truncate` calls.  Each count must not exceed what the model accounts for:

    assert-unchecked 0   (`keyValue` and the alignment check use `v, ok := x.(T)`: Guards.accessorType / alignType)
    div-nonconst     3   (`offset % align`, `(align - …) % align` in ggufPadding: Guards.alignZero;
                          `… / t.blockSize()` in Tensor.Size: blockSize ∈ {1, 32, 256}, Tie.C05.type_table_matches)
    index-nonconst   0   (v1 array store was `a.values[i] = e`: Guards.v1ArrIndex, now `append`)
    make-unbounded   0   (string / array / shape buffers grow with the data read: Guards.strHuge / arrHuge / arrNeg / dimsHuge)
    slice-nonconst   1   (`llm.scratch[:length]` in readGGUFString: Guards.strNeg + the 16 KiB test)
    truncate         1   (`b.Truncate(b.Len() - 1)` in readGGUFV1String: Guards.v1StrLen)

  A new site of one of these kinds in the decode path makes the regenerated count exceed the bound and this file fails
  to build (the check reports `tie-risky-sites` with the site list); removing or merging sites (helper extraction) passes.
-/
import OllamaVerif.Generated.C10_Sites

namespace OllamaVerif.Tie.C10

/-- sites the decoder model accounts for, same order as `riskyCounts` -/
def modelled : List Nat := [0, 3, 0, 0, 1, 1]

def leAll : List Nat → List Nat → Bool
  | [], [] => true
  | a :: as, b :: bs => decide (a ≤ b) && leAll as bs
  | _, _ => false

theorem risky_sites_accounted : leAll OllamaVerif.Generated.C10.riskyCounts modelled = true := by decide

end OllamaVerif.Tie.C10
