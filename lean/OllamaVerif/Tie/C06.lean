/-
  C06 Tie 1 — the cell-level decisions of the model agree with the tree under test.

  `Generated/C06_Tables.lean` is rewritten on every run from the output of `TestVerifC06Tables`, which
  executes the REAL kvcache.Causal (public methods only) over the whole of a small finite domain for each
  decision the property hinges on: the mask element (sequence / causality / window / Except), the window
  eviction threshold, Remove's per-cell outcome (keep / drop / refuse / shift and the new position),
  CopyPrefix's owner update, and the placement chosen by StartForward for every occupancy pattern of a
  5-cell cache (direct fit, defragment-and-retry, ErrKvCacheFull).  Each theorem says: on every row the
  Lean model takes the decision the real code took (`decide`, kernel-checked).  A tree in which one of
  these comparisons, thresholds or orders is changed no longer builds this module.
-/
import OllamaVerif.Model.Causal
import OllamaVerif.Generated.C06_Tables

namespace OllamaVerif.Tie.C06
open OllamaVerif.KV OllamaVerif.Causal OllamaVerif.Generated.C06

def variant : Variant :=
  { fixDefrag := variantBits % 2 = 1, fixResume := (variantBits / 2) % 2 = 1,
    fixDiv := (variantBits / 4) % 2 = 1, perSeqBatch := (variantBits / 8) % 2 = 1,
    atomicRemove := (variantBits / 16) % 2 = 1, atomicWrapperRemove := (variantBits / 32) % 2 = 1 }

/-- **The tree carries every repair that has been applied** (F14, F15b, F23, SWA capacity, F28 = bits 1..16;
    bit 32 = the proposed F29 repair may or may not be present): a tree that lost one no longer builds this module
    (and the check reports `variant-regression` with the finding's witness history as input). -/
theorem variant_is_all_fixed : variantBits % 32 = 31 := by decide

def win (w : Nat) : Option Int := if w = 0 then none else some (w : Int)

/-- a cache with the given cells (no layers yet), `cellRanges` as the driver sets them up: exact
    min/max location per owning sequence -/
def mk (w : Option Int) (cells : List Cell) : Cache :=
  { Causal.init variant w 1 1 1 1 1 true with
    cells := cells, rows := List.replicate cells.length default,
    ranges := fun s => if cells.any (fun c => decide (s ∈ c.seqs)) then some (rangeOf (hasSeq s) cells) else none }

theorem mask_table :
    maskRows.all (fun (w, mem, en, cp, tp, bit) =>
      maskBitE en (mk (win w) [⟨cp, if mem then [0] else [1]⟩]) ⟨0, tp⟩ 0 == bit) = true := by
  decide +kernel

theorem evict_table :
    evictRows.all (fun (w, cp, low, gone) =>
      let c := (startForward (mk (win w) [⟨cp, [0]⟩, Cell.empty]) [⟨0, low⟩]).1
      (c.curLoc == 0 || decide ((c.cells.getD 0 Cell.empty).seqs = [])) == gone) = true := by
  decide +kernel

/-- outcome code of `Remove` on a one-cell cache -/
def rmOutcome (b e cp : Int) (shared : Bool) : Nat × Int :=
  let e' := if e = -1 then maxInt32 else e
  let r := Causal.removeV (mk none [⟨cp, if shared then [0, 1] else [0]⟩]) 0 b e'
  let cell := r.1.cells.getD 0 Cell.empty
  if r.2 = .shared then (2, cell.pos)
  else if 0 ∉ cell.seqs then (1, cell.pos)
  else if cell.pos ≠ cp then (3, cell.pos)
  else (0, cell.pos)

theorem remove_table :
    removeRows.all (fun (b, e, cp, shared, outcome, np) => rmOutcome b e cp shared == (outcome, np)) = true := by
  decide +kernel

theorem copy_table :
    copyRows.all (fun (n, cp, src, dst, owners) =>
      let seqs := if !src && !dst then [2] else (if dst then [1] else []) ++ (if src then [0] else [])
      ((copyPrefix (mk none [⟨cp, seqs⟩]) 0 1 n).cells.getD 0 Cell.empty).seqs == owners) = true := by
  decide +kernel

def occCells (occ : List Bool) : List Cell :=
  (List.range occ.length).map (fun i => if occ.getD i false then ⟨(i : Int), [0]⟩ else Cell.empty)

def placeOutcome (occ : List Bool) (k : Nat) : Nat :=
  match startForward (mk none (occCells occ)) ((List.range k).map (fun i => ⟨1, (10 + i : Nat)⟩)) with
  | (c, .ok) => c.curLoc
  | (_, .full) => 100
  | (_, .panic) => 101

theorem place_table :
    placeRows.all (fun (occ, k, outcome) => placeOutcome occ k == outcome) = true := by
  decide +kernel

theorem resume_table :
    resumeRows.all (fun (w, occ, pos, res) => canResume (mk (win w) (occCells occ)) 0 pos == res) = true := by
  decide +kernel

theorem encoder_table :
    encoderRows.all (fun (reserve, p, b, e, cached) =>
      let e' := if e = -1 then maxInt32 else e
      ([EOp.start (some p) reserve, .put 0 1, .remove b e'].foldl encStep {}).cached == cached) = true := by
  decide +kernel

end OllamaVerif.Tie.C06
