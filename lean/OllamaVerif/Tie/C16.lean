/-
  C16, Tie 1 (a fact regenerated from the tree under test on every run, consumed by `decide`):

  `Generated/C16_Variant.lean` `overheadSubtracted`: the answer of the REAL `EstimateGPULayers` to the input of
  finding W1 (OLLAMA_GPU_OVERHEAD = 2^64-1, one GPU with 1 GiB free): nothing offloaded ⇒ the overhead is
  subtracted from the free memory (fix cdbdf6013), layers offloaded ⇒ the pinned, wrapping sums are back.
  The theorems below are stated for the variant found in the tree and compile only while the tree has the fix:
  if it is lost, `overheadSubtracted` regenerates to `false`, they stop type-checking and the check reports the
  lost obligations — next to the L2 replay of W1 itself (the drivers keep running the model at the repaired
  variant, so the regression also shows as L1 disagreements and `alloc-exceeds-free … wraps=none`).
-/
import OllamaVerif.Properties.C16
import OllamaVerif.Generated.C16_Variant
namespace OllamaVerif.Tie.C16
open OllamaVerif.Memory OllamaVerif.C16 OllamaVerif.Generated.C16

/-- the tree's estimator is the repaired one (finding W1 stays fixed) -/
theorem tree_subtracts_overhead : overheadSubtracted = true := by decide

/-- **The allocation clause for the tree's estimator, for EVERY value of `OLLAMA_GPU_OVERHEAD`**: if the
    estimator's own sums (none of which contains the overhead) stay below 2^64, each reported size is 0 or
    `size + overhead ≤ free`, strictly below for a GPU that received a layer. -/
theorem tree_alloc_le_free (inp : Inp) (hv : inp.ovSafe = overheadSubtracted)
    (hnw : NoWrap { inp with overhead := 0 }) (i : Nat) (g : Gpu) (a : Nat)
    (hg : inp.gpus[i]? = some g) (ha : (estimate inp).sizes[i]? = some a) :
    (a = 0 ∨ a + inp.overhead ≤ g.free) ∧
    (∀ n, (planCounts inp)[i]? = some n → 0 < n → a + inp.overhead < g.free) :=
  alloc_le_free_fixed inp (by rw [hv]; exact tree_subtracts_overhead) hnw i g a hg ha

/-- the W1 input on the tree's estimator: nothing is planned -/
theorem tree_W1_input_plans_nothing :
    (estimate { w1 18446744073709551606 with ovSafe := overheadSubtracted }).layers = 0 ∧
    (estimate { w1 18446744073709551606 with ovSafe := overheadSubtracted }).sizes = [] := by decide

end OllamaVerif.Tie.C16
