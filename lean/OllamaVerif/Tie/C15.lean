/-
  C15 tie: the lockset discipline evaluated on the access facts regenerated from the working
  tree (Generated/C15_Accesses.lean, emitted by harness/cmd/lockset on every run).

  * `violations_exact`   — Lean's evaluation of the pairwise rule over the regenerated table
                           finds exactly the pairs the translator's own implementation found;
  * `discipline_holds`   — every location class outside `badClassIds` passes `checkClass`;
  * `classes_partition`  — good and bad class ids partition the class table;
  * `bad_classes_exact`  — `badClassIds` are exactly the classes with a violating pair;
  * `bad_classes_known`  — each bad class is one a listed finding explains (F13e/b/c, F21b);
                           a change that breaks the discipline for another class fails here;
  * `race_free_good_classes` — the general theorem applied to the regenerated table.
-/
import OllamaVerif.Properties.C15
import OllamaVerif.Generated.C15_Accesses
import OllamaVerif.Tie.C01

namespace OllamaVerif.Tie.C15
open OllamaVerif.Lockset OllamaVerif.Generated.C15

theorem violations_exact : violatingPairs accesses = expectedViolations := by decide +kernel

theorem discipline_holds : goodClassIds.all (checkClass accesses) = true := by decide +kernel

theorem classes_partition :
    (List.range classNames.length).all
      (fun c => goodClassIds.contains c != badClassIds.contains c) = true ∧
    (goodClassIds ++ badClassIds).all (· < classNames.length) = true := by
  constructor <;> decide +kernel

theorem bad_classes_exact :
    (badClasses accesses).all (badClassIds.contains ·) = true ∧
    badClassIds.all ((badClasses accesses).contains ·) = true := by
  constructor <;> decide +kernel

/-- location classes for which the tree is known NOT to follow the discipline, with the finding
    that explains each (KNOWN_FINDINGS.jsonl, property C15):
    * F13e `PsHandler` reads `expiresAt`/`sessionDuration` under `loadedMu` only; they are written
      under `refMu` only (what is left of F13a after fix fd9f01440);
    * F13b `runnerRef.loading` written under `refMu` only, read under `loadedMu` only;
    * F13c `ByDurationAndName.Less` reads `sessionDuration` with no lock (writer: `expireRunner`);
    * F21b a transfer is published in the sync.Map before `Prepare` fills `Total`/`done`, and
      `blobUpload.done/err` are plain fields polled by `Wait`.
    `Scheduler.loaded`, `runnerRef.model/estimatedTotal/estimatedVRAM` (F13a, fixed fd9f01440) and
    `blobDownload/blobUpload.CancelFunc` (F21a, fixed 1b1f19392) are no longer listed: a change that re-opens them fails `bad_classes_known`. -/
def knownBadClasses : List String :=
  [ "runnerRef.expiresAt", "runnerRef.sessionDuration",            -- F13e (+ F13c on sessionDuration)
    "runnerRef.loading",                                           -- F13b
    "blobDownload.Total", "blobDownload.done", "blobUpload.Total", "blobUpload.done", "blobUpload.err" ] -- F21b

theorem bad_classes_known : badClassNames.all (knownBadClasses.contains ·) = true := by decide

theorem bad_class_names : badClassIds.map (fun c => classNames.getD c "?") = badClassNames := by decide

/-- **C15 for the working tree, lock part.**  For every location class that passes the check
    on the regenerated facts, every well-formed interleaving whose accesses instantiate the facts
    has no two conflicting accesses to one location by different threads that are not ordered by
    a mutex hand-over or by one of the table's named non-lock orderings. -/
theorem race_free_good_classes (c : Nat) (hc : c ∈ goodClassIds) (tc : Thread → Nat)
    (pre mid post : List Ev) (t1 t2 : Thread) (o f1 f2 : Nat)
    (hsingle : SingletonThreads accesses tc
      (pre ++ Ev.acc t1 (c, o) f1 :: (mid ++ Ev.acc t2 (c, o) f2 :: post)) (c, o))
    (hwf : WF (pre ++ Ev.acc t1 (c, o) f1 :: (mid ++ Ev.acc t2 (c, o) f2 :: post)))
    (hconf : Conforms accesses tc (pre ++ Ev.acc t1 (c, o) f1 :: (mid ++ Ev.acc t2 (c, o) f2 :: post)))
    (hne : t1 ≠ t2) :
    ∃ a b, accesses[f1]? = some a ∧ accesses[f2]? = some b ∧
      ((isWrite accesses a = false ∧ isWrite accesses b = false) ∨
       LockOrdered pre (Ev.acc t1 (c, o) f1) mid t1 t2 ∨
       exempt a b = true) := by
  have h := discipline_holds
  rw [List.all_eq_true] at h
  exact lockset_discipline_race_free accesses tc c (h c hc) pre mid post t1 t2 o f1 f2 hsingle hwf hconf hne

/-- the same with spawn order discharged (`lockset_discipline_race_free_fork`): given Go's spawn
    semantics and the meaning of the `pre`/`post` tags, what remains hypothetical for a good class of
    the tree is `exemptNoFork` (fresh object, atomics, both before the same once-spawn, holder /
    doneclose) -/
theorem race_free_good_classes_fork (c : Nat) (hc : c ∈ goodClassIds) (tc : Thread → Nat)
    (pre mid post : List Ev) (t1 t2 : Thread) (o f1 f2 : Nat)
    (hsingle : SingletonThreads accesses tc
      (pre ++ Ev.acc t1 (c, o) f1 :: (mid ++ Ev.acc t2 (c, o) f2 :: post)) (c, o))
    (hwf : WF (pre ++ Ev.acc t1 (c, o) f1 :: (mid ++ Ev.acc t2 (c, o) f2 :: post)))
    (hconf : Conforms accesses tc (pre ++ Ev.acc t1 (c, o) f1 :: (mid ++ Ev.acc t2 (c, o) f2 :: post)))
    (hfwf : ForkWF (pre ++ Ev.acc t1 (c, o) f1 :: (mid ++ Ev.acc t2 (c, o) f2 :: post)))
    (hfc : ForkConforms accesses (pre ++ Ev.acc t1 (c, o) f1 :: (mid ++ Ev.acc t2 (c, o) f2 :: post)))
    (hne : t1 ≠ t2) :
    ∃ a b, accesses[f1]? = some a ∧ accesses[f2]? = some b ∧
      ((isWrite accesses a = false ∧ isWrite accesses b = false) ∨
       LockOrdered pre (Ev.acc t1 (c, o) f1) mid t1 t2 ∨
       (∃ (j : Nat) (t t' : Thread) (s : Nat), pre.length < j ∧ j < pre.length + 1 + mid.length ∧
          (pre ++ Ev.acc t1 (c, o) f1 :: (mid ++ Ev.acc t2 (c, o) f2 :: post))[j]? = some (Ev.fork t t' s) ∧
          Desc (pre ++ Ev.acc t1 (c, o) f1 :: (mid ++ Ev.acc t2 (c, o) f2 :: post)) s t2) ∨
       exemptNoFork a b = true) := by
  have h := discipline_holds
  rw [List.all_eq_true] at h
  exact lockset_discipline_race_free_fork accesses tc c (h c hc) pre mid post t1 t2 o f1 f2
    hsingle hwf hconf hfwf hfc hne

/-- spawn order AND publication order discharged (`lockset_discipline_race_free_ordered`): for a good
    class of the tree what remains hypothetical is `exemptRest` (atomics / sync.Map, both before the
    same once-spawn, holder / doneclose) -/
theorem race_free_good_classes_ordered (c : Nat) (hc : c ∈ goodClassIds) (tc : Thread → Nat) (creator : Nat → Thread)
    (pre mid post : List Ev) (t1 t2 : Thread) (o f1 f2 : Nat)
    (hsingle : SingletonThreads accesses tc
      (pre ++ Ev.acc t1 (c, o) f1 :: (mid ++ Ev.acc t2 (c, o) f2 :: post)) (c, o))
    (hwf : WF (pre ++ Ev.acc t1 (c, o) f1 :: (mid ++ Ev.acc t2 (c, o) f2 :: post)))
    (hconf : Conforms accesses tc (pre ++ Ev.acc t1 (c, o) f1 :: (mid ++ Ev.acc t2 (c, o) f2 :: post)))
    (hfwf : ForkWF (pre ++ Ev.acc t1 (c, o) f1 :: (mid ++ Ev.acc t2 (c, o) f2 :: post)))
    (hfc : ForkConforms accesses (pre ++ Ev.acc t1 (c, o) f1 :: (mid ++ Ev.acc t2 (c, o) f2 :: post)))
    (hpw : PublishWF creator (pre ++ Ev.acc t1 (c, o) f1 :: (mid ++ Ev.acc t2 (c, o) f2 :: post)))
    (hic : InitConforms accesses creator (pre ++ Ev.acc t1 (c, o) f1 :: (mid ++ Ev.acc t2 (c, o) f2 :: post)))
    (hne : t1 ≠ t2) :
    ∃ a b, accesses[f1]? = some a ∧ accesses[f2]? = some b ∧
      ((isWrite accesses a = false ∧ isWrite accesses b = false) ∨
       LockOrdered pre (Ev.acc t1 (c, o) f1) mid t1 t2 ∨
       (∃ (j : Nat) (t t' : Thread) (s : Nat), pre.length < j ∧ j < pre.length + 1 + mid.length ∧
          (pre ++ Ev.acc t1 (c, o) f1 :: (mid ++ Ev.acc t2 (c, o) f2 :: post))[j]? = some (Ev.fork t t' s) ∧
          Desc (pre ++ Ev.acc t1 (c, o) f1 :: (mid ++ Ev.acc t2 (c, o) f2 :: post)) s t2) ∨
       (∃ (j : Nat) (u : Thread), pre.length < j ∧ j < pre.length + 1 + mid.length ∧
          (pre ++ Ev.acc t1 (c, o) f1 :: (mid ++ Ev.acc t2 (c, o) f2 :: post))[j]? = some (Ev.publish u o)) ∨
       exemptRest a b = true) := by
  have h := discipline_holds
  rw [List.all_eq_true] at h
  exact lockset_discipline_race_free_ordered accesses tc creator c (h c hc) pre mid post t1 t2 o f1 f2
    hsingle hwf hconf hfwf hfc hpw hic hne

/-! ## No use of a torn-down runner ("stale pointer") -/

/-- Lean's evaluation of the stale-read rule over the regenerated table = the translator's -/
theorem stale_exact :
    staleReads accesses clearedClassIds 1 registryLockRef objectLockRef = expectedStale := by
  decide +kernel

/-- **No handler or scheduler path uses a cleared runner field through a stale pointer**: every
    use of `model` / `llama` / `Options` / `expireTimer` is through a pointer that is still live
    (registry lock held since the lookup), re-validated under `refMu`, fresh, or held (C01).
    Seeded change C15-C (PsHandler snapshots under loadedMu, reads under refMu) fails here. -/
theorem no_stale_reads :
    staleReads accesses clearedClassIds 1 registryLockRef objectLockRef = [] := by decide +kernel

/-- **C15 for the working tree, life-cycle part, every history.**  The rule-level soundness theorem
    applied to the regenerated table: in every enabled history whose `use` events instantiate the
    tree's facts (a `live` fact's use follows a lookup under `loadedMu` kept since, a `valid` fact's
    use follows a nil re-check under `refMu` kept since; fresh runners and the C01 holder ordering
    as the hypothesis `Other`), no handler or scheduler path uses `model` / `llama` / `Options` /
    `expireTimer` of a runner that `unload` has torn down.  The semantics' `lookup` guard ("only
    runners that are not torn down are in the registry") is `registry_entries_are_open` below (C01's
    invariant for the tree's variant), its `clear` guard is `teardown_locks`; `hother`'s holder half is
    `holder_runner_not_closed_while_used`, its fresh-object half stays a hypothesis.  Not modelled:
    `unloadAllRunners` closes `llama` at server shutdown without clearing the field (no `clear` event). -/
theorem no_use_of_torn_down_runner (G : Lock) (S : Nat → Lock) (Other : List LEv → Thread → Nat → Prop)
    (hother : ∀ pre t o s, lrun G S LState.init pre = some s → Other pre t o → s.cleared o = false)
    (tr : List LEv) (hconf : UseConforms accesses clearedClassIds 1 G S Other tr)
    (pre post : List LEv) (t : Thread) (o f : Nat) (htr : tr = pre ++ LEv.use t o f :: post)
    (s : LState) (hrun : lrun G S LState.init pre = some s) :
    s.cleared o = false :=
  stale_rule_sound accesses clearedClassIds 1 registryLockRef objectLockRef G S Other no_stale_reads hother
    tr hconf pre post t o f htr s hrun

/-- the panic clause for the tree, as far as the teardown can cause it: no step of a conforming
    history dereferences a field `unload` has set to nil (`no_nil_deref_panic` for the tree's table) -/
theorem no_panic_on_torn_down_runner (G : Lock) (S : Nat → Lock) (Other : List LEv → Thread → Nat → Prop)
    (hother : ∀ pre t o s, lrun G S LState.init pre = some s → Other pre t o → s.cleared o = false)
    (tr : List LEv) (hconf : UseConforms accesses clearedClassIds 1 G S Other tr)
    (pre post : List LEv) (e : LEv) (htr : tr = pre ++ e :: post)
    (s : LState) (hrun : lrun G S LState.init pre = some s) :
    panicsAt s e = false :=
  no_nil_deref_panic accesses clearedClassIds 1 registryLockRef objectLockRef G S Other no_stale_reads hother
    tr hconf pre post e htr s hrun

/-- the guards of the life-cycle semantics' `clear` step hold in the tree: every clearing write
    holds the runner's own lock, the registry's insert/delete hold the registry lock, and the three
    pointer fields `PsHandler` and the scheduler dereference (`llama`, `model`, `Options`) are cleared
    classes ALL of whose writes hold `loadedMu` (so `live` protects them; `expireTimer` is protected
    by `valid` only) -/
theorem teardown_locks :
    clearedClassIds.all (fun c => writesHold accesses c objectLockRef) = true ∧
    writesHold accesses registryClassId registryLockRef = true ∧
    hasInsert accesses registryClassId = true ∧
    (["runnerRef.llama", "runnerRef.model", "runnerRef.Options"].all (fun n =>
      clearedClassIds.contains (classNames.idxOf n) &&
      writesHold accesses (classNames.idxOf n) registryLockRef)) = true := by
  refine ⟨by decide +kernel, by decide +kernel, by decide +kernel, by decide +kernel⟩

/-! ## Lock order: the tree's acquisition order has a rank function, hence no AB-BA deadlock

  `lockOrderEdges` = (held, acquired) for every site of package server that takes one of the tracked
  mutexes while holding another one (call-graph resolved, regenerated on every run).  On the current
  tree: `loadedMu` → `refMu` (expireRunner, the expired handler of processCompleted, updateFreeSpace).
  `Scheduler.load` takes `loadedMu` while holding the `refMu` of the runner it has just created; that
  object is not published yet, nobody can wait for or hold its mutex: listed under
  `lockOrderFreshEdges`, outside the relation.  Not in the relation: blocking channel operations
  performed while a mutex is held. -/

/-- the translator's topological rank is a rank function for the regenerated relation -/
theorem lock_order_ranked :
    lockOrderEdges.all (fun e => lockRank.getD e.1 0 < lockRank.getD e.2 0) = true := by decide

/-- hence the relation is acyclic: no mutex class is (transitively) taken while held -/
theorem lock_order_acyclic : ∃ rank : Nat → Nat, ∀ e ∈ lockOrderEdges, rank e.1 < rank e.2 := by
  refine ⟨fun i => lockRank.getD i 0, ?_⟩
  have h := lock_order_ranked
  rw [List.all_eq_true] at h
  intro e he
  simpa using h e he

/-- **No deadlock among the tracked mutexes of the tree**: in any holder state, blocked acquisitions
    that instantiate the regenerated acquisition-order sites cannot form a wait cycle. -/
theorem no_deadlock_among_tracked_mutexes (cls : Lock → Nat) (h : Holder) (a : Wait) (rest : List Wait)
    (hconf : LockOrderConforms lockOrderEdges cls h (a :: rest)) (hc : chainOK h (a :: rest))
    (hclose : h ((a :: rest).getLast (by simp)).m = some a.t) : False := by
  have hr := lock_order_ranked
  rw [List.all_eq_true] at hr
  exact ranked_lock_order_no_deadlock lockOrderEdges cls (fun i => lockRank.getD i 0)
    (fun e he => by simpa using hr e he) h a rest hconf hc hclose

/-! ## The `lookup` guard of the life-cycle semantics is C01's invariant

  `lstep (.lookup t o)` is enabled only for objects that are not torn down: "the registry never holds
  a torn-down runner".  For the scheduler variant the tree implements that is invariant Inv3.wf of the
  C01 model, for every reachable state (C01's own correspondence check ties that model to sched.go;
  `Tie.C01.expired_region_is_atomic` ties "unload and delete in one loadedMu section"). -/

open OllamaVerif.Sched in
theorem registry_entries_are_open {mr mq ds : Nat} {s : State}
    (h : Reach OllamaVerif.Generated.C01.treeVariant (Sched.init mr mq ds) s) {p} (hp : p ∈ s.loaded) :
    (s.runners p.2).closed = false := by
  rw [OllamaVerif.Tie.C01.tree_variant_good] at h
  exact ((OllamaVerif.Sched.reach_inv (OllamaVerif.Sched.inv_init mr mq ds) h).i3.wf p hp).2.2

/-! ## The holder hypothesis (hb 1) is a theorem for the tree's scheduler variant

  Accesses tagged `holder` (the handler's read of `runner.llama` after receiving the runner from
  `GetRunner`'s channel, vs `unload`) are exempt from the lockset rule under the hypothesis "no
  unload between the hand-over and the end of the request".  For the variant of the scheduler
  the working tree implements (`Generated.C01.treeVariant`, regenerated from sched.go and pinned
  to `Variant.good` by `Tie.C01.tree_variant_good`) that is C01's theorem. -/

open OllamaVerif.Sched in
/-- a runner handed to a request is open at the hand-over -/
theorem holder_granted_runner_is_open {mr mq ds : Nat} {s s' : State}
    (h : Reach OllamaVerif.Generated.C01.treeVariant (Sched.init mr mq ds) s) (a : Act)
    (hs : step OllamaVerif.Generated.C01.treeVariant s a = some s')
    (q : ReqId) (r : Rid) (hq : q < s.nReqs) (hbefore : (s.reqs q).gotRunner = none)
    (hafter : (s'.reqs q).gotRunner = some r) : (s'.runners r).closed = false := by
  rw [OllamaVerif.Tie.C01.tree_variant_good] at h hs
  exact OllamaVerif.C01.granted_runner_is_open h a hs q r hq hbefore hafter

open OllamaVerif.Sched in
/-- and it is not shut down while the request uses it -/
theorem holder_runner_not_closed_while_used {mr mq ds : Nat} {s : State}
    (h : Reach OllamaVerif.Generated.C01.treeVariant (Sched.init mr mq ds) s) (r : Rid)
    (hr : r < s.nRunners) (q : ReqId) (hu : OllamaVerif.C01.uses s q r) :
    (s.runners r).closed = false := by
  cases hc : (s.runners r).closed with
  | false => rfl
  | true => exact absurd hu (OllamaVerif.Tie.C01.tree_closed_runner_has_no_user h r hr hc q)

end OllamaVerif.Tie.C15
