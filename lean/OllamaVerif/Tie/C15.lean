/-
  C15 tie: the lockset discipline evaluated on the access facts regenerated from the working
  tree (Generated/C15_Accesses.lean, emitted by harness/cmd/lockset on every run).

  * `violations_exact`   — Lean's evaluation of the pairwise rule over the regenerated table
                           finds exactly the pairs the translator's own implementation found;
  * `discipline_holds`   — every location class outside `badClassIds` passes `checkClass`;
  * `classes_partition`  — good and bad class ids partition the class table;
  * `bad_classes_exact`  — `badClassIds` are exactly the classes with a violating pair;
  * `bad_classes_known`  — each bad class is one a listed finding explains (F13a/b/c, F21a/b);
                           a change that breaks the discipline for another class fails here;
  * `race_free_good_classes` — the general theorem applied to the regenerated table.
-/
import OllamaVerif.Properties.C15
import OllamaVerif.Generated.C15_Accesses

namespace OllamaVerif.Tie.C15
open OllamaVerif.Lockset OllamaVerif.Generated.C15

theorem violations_exact : violatingPairs accesses = expectedViolations := by decide +kernel

theorem discipline_holds : goodClassIds.all (checkClass accesses) = true := by decide +kernel

theorem classes_partition :
    (List.range classNames.length).all
      (fun c => goodClassIds.contains c != badClassIds.contains c) = true ∧
    (goodClassIds ++ badClassIds).all (· < classNames.length) = true := by
  constructor <;> decide +kernel

theorem bad_classes_exact :
    (badClasses accesses).all (badClassIds.contains ·) = true ∧
    badClassIds.all ((badClasses accesses).contains ·) = true := by
  constructor <;> decide +kernel

/-- location classes for which the pinned tree is known NOT to follow the discipline, with the
    finding that explains each (KNOWN_FINDINGS.jsonl, property C15):
    * F13a `PsHandler` iterates `Scheduler.loaded` and reads runner fields with no lock;
    * F13b `runnerRef.loading` written under `refMu` only, read under `loadedMu` only;
    * F13c `ByDurationAndName.Less` reads `sessionDuration` with no lock (writer: `expireRunner`);
    * F21a `CancelFunc` assigned inside the `Run` goroutine, read by `release()`;
    * F21b a transfer is published in the sync.Map before `Prepare` fills `Total`/`done`, and
      `blobUpload.done/err` are plain fields polled by `Wait`. -/
def knownBadClasses : List String :=
  [ "Scheduler.loaded", "runnerRef.model", "runnerRef.estimatedTotal", "runnerRef.estimatedVRAM",
    "runnerRef.expiresAt", "runnerRef.sessionDuration",            -- F13a (+ F13c on sessionDuration)
    "runnerRef.loading",                                           -- F13b
    "blobDownload.CancelFunc", "blobUpload.CancelFunc",            -- F21a
    "blobDownload.Total", "blobDownload.done", "blobUpload.Total", "blobUpload.done", "blobUpload.err" ] -- F21b

theorem bad_classes_known : badClassNames.all (knownBadClasses.contains ·) = true := by decide

theorem bad_class_names : badClassIds.map (fun c => classNames.getD c "?") = badClassNames := by decide

/-- **C15 for the working tree, lock part.**  For every location class that passes the check
    on the regenerated facts, every well-formed interleaving whose accesses instantiate the facts
    has no two conflicting accesses to one location by different threads that are not ordered by
    a mutex hand-over or by one of the table's named non-lock orderings. -/
theorem race_free_good_classes (c : Nat) (hc : c ∈ goodClassIds) (tc : Thread → Nat)
    (pre mid post : List Ev) (t1 t2 : Thread) (o f1 f2 : Nat)
    (hsingle : SingletonThreads accesses tc
      (pre ++ Ev.acc t1 (c, o) f1 :: (mid ++ Ev.acc t2 (c, o) f2 :: post)) (c, o))
    (hwf : WF (pre ++ Ev.acc t1 (c, o) f1 :: (mid ++ Ev.acc t2 (c, o) f2 :: post)))
    (hconf : Conforms accesses tc (pre ++ Ev.acc t1 (c, o) f1 :: (mid ++ Ev.acc t2 (c, o) f2 :: post)))
    (hne : t1 ≠ t2) :
    ∃ a b, accesses[f1]? = some a ∧ accesses[f2]? = some b ∧
      ((isWrite accesses a = false ∧ isWrite accesses b = false) ∨
       LockOrdered pre (Ev.acc t1 (c, o) f1) mid t1 t2 ∨
       exempt a b = true) := by
  have h := discipline_holds
  rw [List.all_eq_true] at h
  exact lockset_discipline_race_free accesses tc c (h c hc) pre mid post t1 t2 o f1 f2 hsingle hwf hconf hne

end OllamaVerif.Tie.C15
