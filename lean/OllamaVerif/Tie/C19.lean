/-
  C19, Tie 1: the template trees the property theorems talk about (`C19.tLegacy`, `C19.tInPlace`,
  `C19.tHeader`) are exactly the trees the REAL `template.Parse` builds for the harness template
  sources.  `Generated/C19_Trees.lean` is rewritten on every run of the check from the tree under
  test (driver `TestVerifC19Trees`); these `rfl` proofs then fail if Parse (trimming, touch-up,
  node structure) ever produces something else.
-/
import OllamaVerif.Properties.C19
import OllamaVerif.Generated.C19_Trees

namespace OllamaVerif.Tie.C19
open OllamaVerif OllamaVerif.Prompt

theorem legacy_tree_is_parsed : OllamaVerif.C19.tLegacy = Generated.C19.legacy := rfl
theorem inPlace_tree_is_parsed : OllamaVerif.C19.tInPlace = Generated.C19.inPlace := rfl
theorem header_tree_is_parsed : OllamaVerif.C19.tHeader = Generated.C19.header := rfl

/-- Parse's touch-up on the default template `{{ .Prompt }}`: the model's `parseTouchUp` gives the
    tree the real Parse gives -/
theorem default_tree_touch_up :
    parseTouchUp [Node.action (.field .prompt)] = Generated.C19.dflt := rfl

end OllamaVerif.Tie.C19
