/-
  C17 — Tie 1: facts regenerated from /repo's working tree on every run (vlib/checks/c17.py executes
  the real `llm.DoneReason(i).String()` for i = 0..7) and re-checked against the model by `decide`.
-/
import OllamaVerif.Model.Stream
import OllamaVerif.Generated.C17_Reasons
import OllamaVerif.Generated.C17_Client
import OllamaVerif.Generated.C17_Variant
namespace OllamaVerif.Tie.C17
open OllamaVerif OllamaVerif.Stream OllamaVerif.Generated.C17

/-- the table covers the enum values 0..7 (3 defined reasons + out-of-range values) -/
theorem reason_table_complete : reasonTable.map (·.1) = List.range 8 := by decide

/-- the model's `reasonStr` is the real `DoneReason.String()` on every tabulated value -/
theorem reason_table_matches : ∀ p ∈ reasonTable, reasonStr p.1 = p.2 := by decide

/-- api.Client's scanner buffer is the documented 512 * format.KiloByte: a reply line shorter than
    that is delivered (`client_view_fits`), one of that length or more is F17e (`client_long_line`) -/
theorem client_limit_documented : clientMaxLine = 512000 := by decide

/-- the error text the model's handlers send for a run that ends without a done chunk (`sIncomplete`,
    used by `one_final_*_fixedD`) is the real `errIncompleteResponse`, and the client's refusal of an
    over-long line (`sTooLong`, `client_long_line`) is the real `bufio.ErrTooLong` -/
theorem error_texts_match : incompleteMsg = sIncomplete ∧ tooLongMsg = sTooLong := by decide

/-- **the variant the theorems are read for is the variant of the tree**: probed on the real handlers,
    writers and client with the findings' own inputs on every run — the streaming tool path still loses a
    call after a parsable boundary prefix (F17a present), the non-streamed reply numbers its calls (F17b
    repaired), a runner error is an OpenAI error event (F17c repaired), a run without a done chunk is
    reported (F17d repaired), api.Client returns the scanner's error (F17e repaired), a tool call delivered by the
    done message itself ends the OpenAI stream with `tool_calls` (F17f repaired, 9e8f7fa39).  When a fix for F17a is
    applied (or a repair regresses) this theorem stops checking and the THEOREMS_TREE / HISTORICAL split in
    vlib/checks/c17.py has to be redone. -/
theorem tree_variant : treeVariant = ⟨false, true, true, true⟩ ∧ treeClientFixed = true ∧ treeFinishFixed = true := by decide

end OllamaVerif.Tie.C17
