/-
  C18 — Tie 1: how the request options reach the sampler, re-extracted from the tree on every run
  (Generated/C18_CallSites.lean, harness/cmd/c18facts: go/ast over every non-test file that calls
  `sample.NewSampler`).  The sampler package itself is tied behaviourally (L1 ops `newsampler`, `newrng`
  call `NewSampler` positionally); the production call site is in runner/ollamarunner, which no C18 driver
  executes.  The facts: at every call site argument i carries the request option of role i, and the
  sampler is a local of the request handler (owned by one sequence).
-/
import OllamaVerif.Properties.C18
import OllamaVerif.Generated.C18_CallSites
import OllamaVerif.Generated.C18_Variant

namespace OllamaVerif.Tie.C18
open OllamaVerif OllamaVerif.Sampler

/-- the option fields in the order `NewSampler(temperature, topK, topP, minP, seed, grammar)` takes them -/
def roles : List String := ["Temperature", "TopK", "TopP", "MinP", "Seed"]

/-- the sampling options of a request (`api.Options`) -/
structure Options (α : Type) where
  Temperature : α
  TopK : Int
  TopP : α
  MinP : α
  Seed : Int

inductive Arg (α : Type) where
  | f (x : α)
  | i (n : Int)
  | unknown

/-- the value an argument carries, given the option field the extractor resolved it to -/
def argOf {α : Type} (opts : Options α) : String → Arg α
  | "Temperature" => .f opts.Temperature
  | "TopK" => .i opts.TopK
  | "TopP" => .f opts.TopP
  | "MinP" => .f opts.MinP
  | "Seed" => .i opts.Seed
  | _ => .unknown

/-- the sampler the model builds for `NewSampler(a₁, …, a₅, grammar)`: clamped parameters + generator -/
def samplerOfArgs {α : Type} (o : Ops α) (opts : Options α) (names : List String) :
    Option (Params α × Option Pcg) :=
  match names.map (argOf opts) with
  | [.f t, .i k, .f p, .f mp, .i s] => some (newParams o t k p mp, newRng s)
  | _ => none

/-- **the tree's call sites are wired role by role**: there is at least one, each passes the five
    options in the order of their roles (and a sixth argument, the grammar), and the sampler it builds
    is a local of the handler.  Swapping two options, passing a constant, or sharing one sampler
    between requests fails this `decide`. -/
theorem callsites_wired :
    Generated.C18.callSites ≠ [] ∧
    Generated.C18.callSites.all (fun s => s.2.1 == roles && s.2.2.1 == 6 && s.2.2.2 == "local") = true := by
  decide

/-- **what the property's theorems quantify over is what a request gets**: for every call site of the
    tree and every request options, the model's sampler is `newParams` of (Temperature, TopK, TopP,
    MinP) with the generator `newRng Seed` — the `P` and the seed of `sample_admissible_*`,
    `sample_in_topk`, `greedy_admissible`, `hist_nth`, `deterministic`. -/
theorem tree_request_sampler {α : Type} (o : Ops α) (opts : Options α) :
    ∀ s ∈ Generated.C18.callSites,
      samplerOfArgs o opts s.2.1 =
        some (newParams o opts.Temperature opts.TopK opts.TopP opts.MinP, newRng opts.Seed) := by
  intro s hs
  have h := List.all_eq_true.1 callsites_wired.2 s hs
  simp only [Bool.and_eq_true, beq_iff_eq] at h
  rw [h.1.1]
  rfl

/-- **the tree implements the repaired variant** (probed on every run on the witness inputs of F18 and
    F18c by the driver, `c18ProbeFix`): max-shift before scaling, and the greedy branch reports
    "all logits are -Inf".  The theorems that speak about the tree are therefore the `fix = true`
    ones (`sample_admissible_fixed_partial`, `sample_admissible_all_fixed`, `sample_never_panics_fixed`,
    `sample_fixed_no_allNegInf(_on)`, `sample_fixed_token_or_nan`, `grammar_retry_admissible_fixed_partial`)
    and the variant-independent ones; the `fix = false` statements describe the upstream code before
    e3725cd97.  A regression of either repair fails this `decide`. -/
theorem tree_is_fixed : Generated.C18.fixShift = true ∧ Generated.C18.fixGreedyErr = true := by decide

/-- `Sample` as the tree runs it -/
def treeSample {α : Type} (o : Ops α) (P : Params α) (r : α) (logits : List α) : Except Err Nat :=
  Sample o Generated.C18.fixShift { P with greedyErr := Generated.C18.fixGreedyErr } r logits

theorem treeSample_eq {α : Type} (o : Ops α) (P : Params α) (r : α) (logits : List α) :
    treeSample o P r logits = Sample o true { P with greedyErr := true } r logits := by
  unfold treeSample
  rw [tree_is_fixed.1, tree_is_fixed.2]

/-- the totality clause for the tree's own variant, on an IEEE-like carrier: NaN-free logits, some
    logit above `-Inf` ⇒ never the "all -Inf" error — at any temperature -/
theorem tree_no_spurious_allNegInf {α : Type} {o : Ops α} (h : OrdLawsOn o) (hb : BeqLawOn o)
    (P : Params α) (r : α) (logits : List α) (hn : C18.noNaN o logits = true)
    (hsome : ∃ w ∈ logits, o.lt o.negInf w = true) :
    treeSample o P r logits ≠ .error .allNegInf := by
  rw [treeSample_eq]
  cases ht : o.beq P.temp o.zero with
  | false => exact C18.sample_fixed_no_allNegInf_on h hb _ r logits ht hn hsome
  | true =>
    obtain ⟨id, v, hS, _⟩ := C18.greedy_admissible_on h hb true { P with greedyErr := true } r logits ht hn hsome
    rw [hS]; intro e; cases e

/-- **the sampler a request gets has its filters in range**: for every call site of the tree and every
    request whose `top_p` / `min_p` are not NaN (JSON cannot express NaN), the stored `top_p` and
    `min_p` lie in `[0, 1]` and the stored temperature is not negative — `NewSampler`'s clamping
    (`C18.newParams_in_range`) composed with the call-site wiring -/
theorem tree_request_params_in_range {α : Type} {o : Ops α} (h : OrdLawsOn o) (hc : C18.ClampLawsOn o)
    (opts : Options α) (hp : o.isNaN opts.TopP = false) (hmp : o.isNaN opts.MinP = false) :
    ∀ s ∈ Generated.C18.callSites, ∃ P rng, samplerOfArgs o opts s.2.1 = some (P, rng) ∧
      o.lt P.temp o.zero = false ∧ P.topK = opts.TopK ∧
      o.lt P.topP o.zero = false ∧ o.lt o.one P.topP = false ∧
      o.lt P.minP o.zero = false ∧ o.lt o.one P.minP = false ∧
      (rng = none ↔ opts.Seed = -1) := by
  intro s hs
  have hr := C18.newParams_in_range h hc opts.Temperature opts.TopK opts.TopP opts.MinP hp hmp
  simp only at hr
  exact ⟨_, _, tree_request_sampler o opts s hs, hr.1, hr.2.1, hr.2.2.1, hr.2.2.2.1, hr.2.2.2.2.2.1,
    hr.2.2.2.2.2.2.1, C18.newRng_none_iff opts.Seed⟩

/-- non-vacuity / sensitivity: a call site that swaps top-p and min-p builds another sampler -/
example :
    (samplerOfArgs C18.zOps (⟨1, 40, 0, 1, 7⟩ : Options Int) ["Temperature", "TopK", "MinP", "TopP", "Seed"]).map
      (fun x => (x.1.topP, x.1.minP)) = some (1, 0) ∧
    (samplerOfArgs C18.zOps (⟨1, 40, 0, 1, 7⟩ : Options Int) roles).map
      (fun x => (x.1.topP, x.1.minP, x.2)) = some (0, 1, some ⟨7, Nat.xor 7 0x9E3779B9⟩) ∧
    (samplerOfArgs C18.zOps (⟨1, 40, 0, 1, -1⟩ : Options Int) roles).map (·.2) = some none := by
  decide

end OllamaVerif.Tie.C18
