/-
  Tie 1 for C04: facts regenerated from the tree under test on every run (Generated/C04_Source.lean, written by
  vlib/checks/c04.py) and checked here by `decide`.

  Only what the machinery itself relies on is an obligation:
  * what `GetBlobsPath` DOES on one digest string of every class — obtained by EXECUTING the real function
    (driver `TestVerifC04Facts`), not by reading its regular expression: `Model.Store.isHex64` / `Digest.key` /
    `JName` and the driver's classification of file names in blobs/ are this behaviour (both spellings name one
    file, the hex is kept as written, everything else is refused).  The regular expression itself is recorded
    in the evidence only: rewriting it equivalently must not fail the check;
  * the startup sequence of `Serve` — the driver's `prune` operation and `Model.Store.pruneStartup` transcribe
    it (fixBlobs; NoPrune gate; Manifests(false) gate; PruneLayers; PruneDirectory).
-/
import OllamaVerif.Generated.C04_Source
import OllamaVerif.Model.Store

namespace OllamaVerif.Tie.C04
open OllamaVerif.Generated.C04 OllamaVerif.Store

def hexL : String := "0123456789abcdef0123456789abcdef0123456789abcdef0123456789abcdef"
def hexU : String := "0123456789ABCDEF0123456789ABCDEF0123456789ABCDEF0123456789ABCDEF"

/-- one digest string of every class `GetBlobsPath` / `PruneLayers` / `fixBlobs` distinguish (the driver's
    `c04TieInputs` is the same list) -/
def tieInputs : List String :=
  ["sha256:" ++ hexL, "sha256-" ++ hexL, "sha256:" ++ hexU, "sha256-" ++ hexU,
   "sha256:" ++ String.ofList (hexL.toList.take 63), "sha256:" ++ hexL ++ "0", "sha256-" ++ hexL ++ "-partial",
   "sha256_" ++ hexL, "SHA256:" ++ hexL, "sha256:" ++ String.ofList (hexL.toList.take 63) ++ "g", "sha512:" ++ hexL,
   "sha256" ++ hexL]

/-- the model's reading of a digest string: `sha256:<64 hex>` and `sha256-<64 hex>` both name the file
    `sha256-<hex>` with the hex AS WRITTEN (the file name is case-sensitive: `Digest.key = hex`); every other
    string is refused -/
def modelBlobFile (s : String) : Option String :=
  let pre := String.ofList (s.toList.take 7)
  let rest := String.ofList (s.toList.drop 7)
  if (pre == "sha256:" || pre == "sha256-") && isHex64 rest then some ("sha256-" ++ rest) else none

/-- the table really is the answer of the real function on every class (fails closed when the facts run did
    not happen) -/
theorem blobs_path_inputs : blobsPathTable.map (·.1) = tieInputs := by decide +kernel

/-- the real `GetBlobsPath` of the tree under test and the model read digest strings alike -/
theorem blobs_path_table : blobsPathTable.all (fun p => modelBlobFile p.1 == p.2) = true := by decide +kernel

theorem serve_startup_sequence :
    serveCalls.map String.toList =
      ["fixBlobs(blobsDir)", "envconfig.NoPrune()", "Manifests(false)", "PruneLayers()",
       "PruneDirectory(manifestsPath)"].map String.toList := by decide +kernel

end OllamaVerif.Tie.C04
