/-
  Tie 1 for C04: facts read from the source of the tree under test on every run
  (Generated/C04_Source.lean, written by vlib/checks/c04.py) and checked here by `decide`.

  Only what the machinery itself relies on is an obligation:
  * the digest pattern of `GetBlobsPath` — `Model.Store.isHex64` / `JName` and the driver's classification of
    file names in blobs/ are this pattern;
  * the startup sequence of `Serve` — the driver's `prune` operation and `Model.Store.pruneStartup` transcribe
    it (fixBlobs; NoPrune gate; Manifests(false) gate; PruneLayers; PruneDirectory).
-/
import OllamaVerif.Generated.C04_Source

namespace OllamaVerif.Tie.C04
open OllamaVerif.Generated.C04

theorem blob_pattern : blobPattern.toList = "^sha256[:-][0-9a-fA-F]{64}$".toList := by decide +kernel

theorem serve_startup_sequence :
    serveCalls.map String.toList =
      ["fixBlobs(blobsDir)", "envconfig.NoPrune()", "Manifests(false)", "PruneLayers()",
       "PruneDirectory(manifestsPath)"].map String.toList := by decide +kernel

end OllamaVerif.Tie.C04
