/-
  Scheduler tie (C01 / C02 / C11): which variant of the model /repo's working tree implements.
  `Generated/C01_SchedFacts.lean` is regenerated on every run (vlib/checks/sched_common.py):
  * `treeVariant`: each flag is true iff the REAL scheduler of the tree stays inside the property on the
    F12a (duplicate expired event) resp. F12b (grant after unload) witness schedules — a behavioural probe,
    insensitive to how the guard is written — AND harness/cmd/schedfacts (go/ast over server/sched.go, helper
    calls inlined, conditions evaluated for what they imply) does not find an unguarded `delete(s.loaded, …)`
    resp. a refCount increment that is not preceded by the `llama == nil` re-check;
  * the structural facts that cannot be probed (atomicity of the expired / make-room regions, the delete
    sites, the non-blocking enqueue, the purity of the unloaded arms, channel capacities) by go/ast.
  If a change removes one of the guards, `tree_variant_good` stops compiling (`decide` fails), the
  theorems below no longer apply to the tree, and the check reports the broken obligation together with the
  monitors that fired on the witness schedule (a concrete failing input).
-/
import OllamaVerif.Properties.C11
import OllamaVerif.Properties.C02
import OllamaVerif.Properties.C02Chan
import OllamaVerif.Properties.C01Bridge
import OllamaVerif.Generated.C01_SchedFacts

namespace OllamaVerif.Tie.C01
open OllamaVerif.Sched OllamaVerif.SchedChan OllamaVerif.Generated.C01

theorem tree_variant_good : treeVariant = Variant.good := by decide

/-- every `delete` on the loaded map is inside processCompleted (the model has no other) -/
theorem no_other_delete_site : deletesElsewhere = 0 := by decide

/-- The model's `cExp` action is ONE atomic region: the refCount test, Close, and the removal from
    `loaded` cannot be separated by another action.  That is true of the tree iff the expired
    handler keeps refMu from the test to unload() and keeps loadedMu across unload() and the delete. -/
theorem expired_region_is_atomic : expiredAtomic = true ∧ unloadUnderLoadedMu = true := by decide

/-- The model's `pExpire` action is ONE atomic region: marking the eviction victim (`sessionDuration = 0`) and
    deciding whether it is idle.  True of the tree iff processPending does both under one hold of the victim's
    refMu (otherwise a victim whose last user finishes in between is never expired and the waiting request, and
    everything queued behind it, is never answered: C02). -/
theorem evict_region_is_atomic : evictAtomic = true := by decide

/-- The model's `submit` never blocks (full queue ⇒ busy error in the same step): GetRunner's enqueue is a
    non-blocking send in the tree. -/
theorem submit_never_blocks : enqueueNonBlocking = true := by decide

/-- `pDrainUnloaded` / `pWaitUnload` consume an unload event and change nothing else (in particular not `loaded`) -/
theorem wait_unload_is_pure : waitUnloadPure = true := by decide

/-- "A runner is shut down at most once" (`closed_at_most_once`) holds in the model because `cExp` closes only a runner
    that is not closed yet; that mirrors `unload()`: `Close()` only where `llama != nil`, then `llama = nil`, and no other
    Close() site but unloadAllRunners (shutdown, outside the model).  Regenerated from the source. -/
theorem close_is_guarded : unloadClosesOnce = true := by decide

/-! ### the bounded model's parameters (Model/SchedChan.lean) -/

/-- the tree takes loadedMu before refMu in the expired case and drains unloadedCh in the idle select -/
theorem tree_cfg_repo : treeCfg = Cfg.repo := by decide

/-- all four scheduler channels are made with capacity OLLAMA_MAX_QUEUE (`full`) -/
theorem chan_caps_are_max_queue : chanCapsAreMaxQueue = true := by decide

/-- the (channel, mutexes held) pairs of the bounded model's `profile`: expired events are sent holding nothing (10 ms
    re-queuer), the runner's refMu (make-room block, finished case, timer callback, failed load) or loadedMu + refMu
    (expireRunner); every other blocking send holds nothing -/
def modelSendSites : List (String × List String) :=
  [("expiredCh", []), ("expiredCh", ["loadedMu", "refMu"]), ("expiredCh", ["refMu"]),
   ("finishedReqCh", []), ("pendingReqCh", []), ("unloadedCh", [])]

/-- the tree sends on its channels holding exactly the mutexes the bounded model says -/
theorem send_sites_match : sendSites = modelSendSites := by decide

/-- rows of `modelSendSites` are what `profile` computes (sample states) -/
theorem profile_expireRunner_idle :
    profile Cfg.repo { (Sched.init 0 1 1) with loaded := [(0, 0)], nRunners := 1 } (.unloadBind 0) =
      ([.loadedMu, .refMu 0], some .expired) := by decide
theorem profile_cVram : profile Cfg.repo (Sched.init 0 1 1) .cVram = ([], some .unloaded) := by decide

/-- the tree's lock order admits no hold-and-wait on loadedMu, in every reachable state of the bounded model -/
theorem tree_no_hold_and_wait_on_loadedMu {v : Variant} {mr mq ds : Nat} {b : BState}
    (h : ReachB v treeCfg (initB mr mq ds) b) :
    ∀ p, p ∈ b.parked → p.wait = .lock .loadedMu → p.holds = [] := by
  rw [tree_cfg_repo] at h
  exact OllamaVerif.C02Chan.repo_no_hold_and_wait_on_loadedMu h

/-- C01 for the tree's variant -/
theorem tree_closed_runner_has_no_user {mr mq ds : Nat} {s : State}
    (h : Reach treeVariant (Sched.init mr mq ds) s) (r : Rid) (hr : r < s.nRunners)
    (hc : (s.runners r).closed = true) : ∀ q, ¬ OllamaVerif.C01.uses s q r := by
  rw [tree_variant_good] at h
  exact OllamaVerif.C01.closed_runner_has_no_user h r hr hc

/-- C01, ghost-free, for the tree's variant: a request in progress holds a runner that is neither shut down nor unloaded -/
theorem tree_in_progress_runner_is_loaded_and_open {mr mq ds : Nat} {s : State}
    (h : Reach treeVariant (Sched.init mr mq ds) s) (q : ReqId) (r : Rid)
    (hg : (s.reqs q).gotRunner = some r) (hd : (s.reqs q).done = false) :
    (s.runners r).closed = false ∧ lookup s.loaded (s.runners r).model = some r := by
  rw [tree_variant_good] at h
  exact OllamaVerif.C01.in_progress_runner_is_loaded_and_open h q r hg hd

/-- C11 for the tree's variant -/
theorem tree_one_runner_per_model {mr mq ds : Nat} {s : State}
    (h : Reach treeVariant (Sched.init mr mq ds) s) (r r' : Rid)
    (hl : OllamaVerif.C11.live s r) (hl' : OllamaVerif.C11.live s r')
    (hm : (s.runners r).model = (s.runners r').model) : r = r' := by
  rw [tree_variant_good] at h
  exact OllamaVerif.C11.one_runner_per_model h r r' hl hl' hm

theorem tree_live_count_le_max {mr mq ds : Nat} {s : State}
    (h : Reach treeVariant (Sched.init mr mq ds) s) (l : List Rid) (hn : l.Nodup)
    (hl : ∀ r, r ∈ l → OllamaVerif.C11.live s r) : l.length ≤ s.maxRunners := by
  rw [tree_variant_good] at h
  exact OllamaVerif.C11.live_count_le_max h l hn hl

end OllamaVerif.Tie.C01
