/-
  C14 tie (regenerated structural facts).  `Generated/C14_Skeleton.lean` is rewritten on every run
  from the working tree by a go/ast pass (harness/overlay/runner_common/zz_verif_c14_extract_test.go):
  for `processBatch`, `removeSequence` and `flushPending` of BOTH runners it lists every statement
  that touches the output state, in source order, with the enclosing if/for structure.

  The lists below are the skeleton `Model/Stop.lean` was written against:
    * `limitCheck`   ↔ the first `if` of `run`            (→ `St.finish .length`)
    * `…Head`        ↔ `numPredicted + 1`, the EOS branch (→ `St.finish .stop`)
    * `outputTail`   ↔ `stepPiece` (append, join, FindStop → TruncateStop → removeSequence(Stop);
                        ContainsStopSuffix hold; IncompleteUnicode hold; flushPending)
    * `fns`          ↔ `St.finish` (flush, then the reason) and `flushChunk`/`trimValid`.
  The ollamarunner loop is additionally *executed* against the model (L1); the llamarunner loop
  cannot be (it needs llama.cpp and a model file), so this skeleton is its tie: the two runners
  differ only in the head (where `numPredicted++` sits and how EOS/piece are obtained); the
  `outputTail` and the two helper functions are literally the same statements.
  A change of the call order, of a condition, of a reason, or a new statement touching the output
  state in either runner makes these theorems fail.
-/
import OllamaVerif.Generated.C14_Skeleton

namespace OllamaVerif.Tie.C14

def limitCheck : List String := [
  "processBatch: range s.seqs {",
  "processBatch: if seq.numPredict > 0 && seq.numPredicted >= seq.numPredict {",
  "processBatch: s.removeSequence(seqIdx, llm.DoneReasonLength)",
  "processBatch: continue",
  "processBatch: }",
  "processBatch: }"]

def ollamaHead : List String := [
  "processBatch: range s.seqs {",
  "processBatch: seq.numPredicted++",
  "processBatch: if seq.numPredicted == 1 {",
  "processBatch: }",
  "processBatch: if seq.embeddingOnly {",
  "processBatch: s.removeSequence(i, llm.DoneReasonStop)",
  "processBatch: continue",
  "processBatch: }",
  "processBatch: if s.model.(model.TextProcessor).Is(token, model.SpecialEOS) {",
  "processBatch: s.removeSequence(i, llm.DoneReasonStop)",
  "processBatch: continue",
  "processBatch: }",
  "processBatch: piece, err := s.model.(model.TextProcessor).Decode([]int32{token})"]

def llamaHead : List String := [
  "processBatch: range s.seqs {",
  "processBatch: if seq.embeddingOnly {",
  "processBatch: s.removeSequence(i, llm.DoneReasonStop)",
  "processBatch: continue",
  "processBatch: }",
  "processBatch: piece := s.model.TokenToPiece(token)",
  "processBatch: seq.numPredicted++",
  "processBatch: if s.model.TokenIsEog(token) {",
  "processBatch: s.removeSequence(i, llm.DoneReasonStop)",
  "processBatch: continue",
  "processBatch: }"]

def outputTail : List String := [
  "processBatch: seq.pendingResponses = append(seq.pendingResponses, piece)",
  "processBatch: sequence := strings.Join(seq.pendingResponses, \"\")",
  "processBatch: if ok, stop := common.FindStop(sequence, seq.stop); ok {",
  "processBatch: seq.pendingResponses, tokenTruncated = common.TruncateStop(seq.pendingResponses, stop)",
  "processBatch: s.removeSequence(i, llm.DoneReasonStop)",
  "processBatch: continue",
  "processBatch: }",
  "processBatch: if common.ContainsStopSuffix(sequence, seq.stop) {",
  "processBatch: continue",
  "processBatch: }",
  "processBatch: if common.IncompleteUnicode(sequence) {",
  "processBatch: continue",
  "processBatch: }",
  "processBatch: if !flushPending(seq) {",
  "processBatch: s.removeSequence(i, llm.DoneReasonConnectionClosed)",
  "processBatch: }",
  "processBatch: }",
  "processBatch: return nil"]

def fns : List String := [
  "removeSequence: flushPending(seq)",
  "removeSequence: seq.doneReason = reason",
  "removeSequence: close(seq.responses)",
  "flushPending: joined := strings.Join(seq.pendingResponses, \"\")",
  "flushPending: seq.pendingResponses = []string{}",
  "flushPending: for !utf8.ValidString(joined) {",
  "flushPending: joined = joined[:len(joined)-1]",
  "flushPending: }",
  "flushPending: if len(joined) == 0 {",
  "flushPending: return true",
  "flushPending: }",
  "flushPending: select {",
  "flushPending: case seq.responses <- joined:",
  "flushPending: return true",
  "flushPending: case <-seq.quit:",
  "flushPending: return false",
  "flushPending: }"]

theorem ollama_skeleton_matches :
    OllamaVerif.Generated.C14.ollama = limitCheck ++ ollamaHead ++ outputTail ++ fns := by decide

theorem llama_skeleton_matches :
    OllamaVerif.Generated.C14.llama = limitCheck ++ llamaHead ++ outputTail ++ fns := by decide

end OllamaVerif.Tie.C14
