/-
  C14 tie (regenerated structural facts).  `Generated/C14_Skeleton.lean` is rewritten on every run
  from the working tree by a go/ast pass (harness/overlay/runner_common/zz_verif_c14_extract_test.go):
  for `processBatch`, `removeSequence` and `flushPending` of BOTH runners it lists every statement
  that touches the output state, in source order, with the enclosing if/for structure.

  The lists below are the skeleton `Model/Stop.lean` was written against:
    * `limitCheck`   ↔ the first `if` of `run`            (→ `St.finish .length`)
    * `…Head`        ↔ `numPredicted + 1`, the EOS branch (→ `St.finish .stop`)
    * `outputTail`   ↔ `stepPiece` (append, join, FindStop → TruncateStop → removeSequence(Stop);
                        ContainsStopSuffix hold; IncompleteUnicode hold; flushPending)
    * `fns`          ↔ `St.finish` (flush, then the reason) and `flushChunk`/`trimValid`.
  Both loops are additionally *executed* against the model (L1; the llamarunner loop since round 7, on
  the real llama.cpp context behind a generated GGUF model), so this skeleton is the second, structural
  tie: the two runners differ only in the head (where `numPredicted++` sits and how EOS/piece are obtained); the
  `outputTail` and the two helper functions are literally the same statements.
    * `…Handler`     ↔ `handlerLines` (one `content` line per chunk; on close ONE final object with
                        `DoneReason: seq.doneReason` verbatim, `PromptEvalCount: seq.numPromptInputs`,
                        `EvalCount`; on a cancelled request `close(seq.quit)` and no final object) and the
                        request mapping `numPredict: req.Options.NumPredict, stop: req.Options.Stop`.
                        Both handlers are executed against the model (L1, command `handler`); the
                        llamarunner handler differs in the `NewSequence` parameters and reports
                        `EvalCount: seq.numDecoded` (incremented once per sampled token, like `numPredicted`).
  A change of the call order, of a condition, of a reason, or a new statement touching the output
  state in either runner makes these theorems fail.
-/
import OllamaVerif.Generated.C14_Skeleton

namespace OllamaVerif.Tie.C14

def limitCheck : List String := [
  "processBatch: range s.seqs {",
  "processBatch: if seq.numPredict > 0 && seq.numPredicted >= seq.numPredict {",
  "processBatch: s.removeSequence(seqIdx, llm.DoneReasonLength)",
  "processBatch: continue",
  "processBatch: }",
  "processBatch: }"]

def ollamaHead : List String := [
  "processBatch: range s.seqs {",
  "processBatch: seq.numPredicted++",
  "processBatch: if seq.numPredicted == 1 {",
  "processBatch: }",
  "processBatch: if seq.embeddingOnly {",
  "processBatch: s.removeSequence(i, llm.DoneReasonStop)",
  "processBatch: continue",
  "processBatch: }",
  "processBatch: if s.model.(model.TextProcessor).Is(token, model.SpecialEOS) {",
  "processBatch: s.removeSequence(i, llm.DoneReasonStop)",
  "processBatch: continue",
  "processBatch: }",
  "processBatch: piece, err := s.model.(model.TextProcessor).Decode([]int32{token})"]

def llamaHead : List String := [
  "processBatch: range s.seqs {",
  "processBatch: seq.numDecoded += 1",
  "processBatch: if seq.numDecoded == 1 {",
  "processBatch: }",
  "processBatch: if seq.embeddingOnly {",
  "processBatch: s.removeSequence(i, llm.DoneReasonStop)",
  "processBatch: continue",
  "processBatch: }",
  "processBatch: piece := s.model.TokenToPiece(token)",
  "processBatch: seq.numPredicted++",
  "processBatch: if s.model.TokenIsEog(token) {",
  "processBatch: s.removeSequence(i, llm.DoneReasonStop)",
  "processBatch: continue",
  "processBatch: }"]

def outputTail : List String := [
  "processBatch: seq.pendingResponses = append(seq.pendingResponses, piece)",
  "processBatch: sequence := strings.Join(seq.pendingResponses, \"\")",
  "processBatch: if ok, stop := common.FindStop(sequence, seq.stop); ok {",
  "processBatch: seq.pendingResponses, tokenTruncated = common.TruncateStop(seq.pendingResponses, stop)",
  "processBatch: s.removeSequence(i, llm.DoneReasonStop)",
  "processBatch: continue",
  "processBatch: }",
  "processBatch: if common.ContainsStopSuffix(sequence, seq.stop) {",
  "processBatch: continue",
  "processBatch: }",
  "processBatch: if common.IncompleteUnicode(sequence) {",
  "processBatch: continue",
  "processBatch: }",
  "processBatch: if !flushPending(seq) {",
  "processBatch: s.removeSequence(i, llm.DoneReasonConnectionClosed)",
  "processBatch: }",
  "processBatch: }",
  "processBatch: return nil"]

def fns : List String := [
  "removeSequence: flushPending(seq)",
  "removeSequence: seq.doneReason = reason",
  "removeSequence: close(seq.responses)",
  "flushPending: joined := strings.Join(seq.pendingResponses, \"\")",
  "flushPending: seq.pendingResponses = []string{}",
  "flushPending: for !utf8.ValidString(joined) {",
  "flushPending: joined = joined[:len(joined)-1]",
  "flushPending: }",
  "flushPending: if len(joined) == 0 {",
  "flushPending: return true",
  "flushPending: }",
  "flushPending: select {",
  "flushPending: case seq.responses <- joined:",
  "flushPending: return true",
  "flushPending: case <-seq.quit:",
  "flushPending: return false",
  "flushPending: }"]

/-- the request → Sequence mapping of the ollamarunner handler -/
def ollamaHandlerOpen : List String := [
  "completion: seq, err := s.NewSequence(req.Prompt, req.Images, NewSequenceParams{ numPredict: req.Options.NumPredict, stop: req.Options.Stop, numKeep: int32(req.Options.NumKeep), sampler: sampler, embedding: false, })"]

/-- the request → Sequence mapping of the llamarunner handler -/
def llamaHandlerOpen : List String := [
  "completion: seq, err := s.NewSequence(req.Prompt, req.Images, NewSequenceParams{ numPredict: req.Options.NumPredict, stop: req.Options.Stop, numKeep: req.Options.NumKeep, samplingParams: &samplingParams, embedding: false, })"]

/-- shared by both handlers: error replies, the read loop, one `content` line per chunk, cancel ⇒ quit -/
def handlerLoop : List String := [
  "completion: if err != nil {",
  "completion: http.Error(w, fmt.Sprintf(\"Failed to create new sequence: %v\", err), http.StatusInternalServerError)",
  "completion: return",
  "completion: }",
  "completion: if !found {",
  "completion: http.Error(w, \"could not find an available sequence\", http.StatusInternalServerError)",
  "completion: return",
  "completion: }",
  "completion: for  {",
  "completion: select {",
  "completion: case <-r.Context().Done():",
  "completion: close(seq.quit)",
  "completion: return",
  "completion: case content, ok := <-seq.responses:",
  "completion: if ok {",
  "completion: if err := json.NewEncoder(w).Encode(&llm.CompletionResponse{ Content: content, }); err != nil {",
  "completion: close(seq.quit)",
  "completion: return",
  "completion: }"]

def ollamaHandlerFinal : List String := [
  "completion: } else {",
  "completion: if err := json.NewEncoder(w).Encode(&llm.CompletionResponse{ Done: true, DoneReason: seq.doneReason, PromptEvalCount: seq.numPromptInputs, PromptEvalDuration: seq.startGenerationTime.Sub(seq.startProcessingTime), EvalCount: seq.numPredicted, EvalDuration: time.Since(seq.startGenerationTime), }); err != nil {",
  "completion: }",
  "completion: return",
  "completion: }",
  "completion: }",
  "completion: }"]

def llamaHandlerFinal : List String := [
  "completion: } else {",
  "completion: if err := json.NewEncoder(w).Encode(&llm.CompletionResponse{ Done: true, DoneReason: seq.doneReason, PromptEvalCount: seq.numPromptInputs, PromptEvalDuration: seq.startGenerationTime.Sub(seq.startProcessingTime), EvalCount: seq.numDecoded, EvalDuration: time.Since(seq.startGenerationTime), }); err != nil {",
  "completion: }",
  "completion: return",
  "completion: }",
  "completion: }",
  "completion: }"]

theorem ollama_skeleton_matches :
    OllamaVerif.Generated.C14.ollama =
      limitCheck ++ ollamaHead ++ outputTail ++ fns ++ ollamaHandlerOpen ++ handlerLoop ++ ollamaHandlerFinal := by
  decide +kernel

theorem llama_skeleton_matches :
    OllamaVerif.Generated.C14.llama =
      limitCheck ++ llamaHead ++ outputTail ++ fns ++ llamaHandlerOpen ++ handlerLoop ++ llamaHandlerFinal := by
  decide +kernel

end OllamaVerif.Tie.C14
