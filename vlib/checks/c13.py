"""C13 — Model names and digests cannot address anything outside the model store."""
import os

from vlib import core
from vlib.registry import COMMON_NOTE

REGISTRATION = {
    "engine": "lean-names",
    "technique": "Lean 4 proof over a byte-level model of both name parsers, the digest validators and the store "
                 "path derivation + regenerated character tables + exhaustive/differential correspondence",
    "category": "proof",
    "text": "Kernel-checked theorems for ALL byte strings over a Lean model of types/model (ParseName, Filepath, "
            "ParseNameFromFilepath), server/internal/internal/names (Parse), server/modelpath.go (ParseModelPath, "
            "GetManifestPath, GetBlobsPath), blob.ParseDigest / nameToPath / manifestPath / GetFile and the registry "
            "client's extended-name splitting: accepted parts are safe path components, derived manifest/blob paths "
            "are confined under the models directory at fixed depth, print/parse round trips, cross-parser agreement, "
            "case-fold ⇒ same manifest path in the new cache, the two digest validators accept the same language, "
            "DiskCache.Resolve / the registry client's extended names resolve inside <dir>/manifests at depth 4 "
            "(C13_rejected_or_confined bundles every entry point). Histories: a sequence of Resolve/Link/Unlink on one "
            "DiskCache interleaved with foreign writers of the shared manifests directory is modelled as a fold over "
            "the DIRECTORY CONTENTS only (no state in the cache between calls: runH_append); cache operations never "
            "create a case twin (runH_noTwins) and every spelling resolves to the same file whatever is on disk "
            "(manifestRel_fold); tied by exact L1 on the path every call resolves to + the final listing, and by L2 "
            "on the real directory after every call. Character classes and length limits are regenerated "
            "from the real isValidPart of both packages (all 1- and 2-byte strings) on every run and re-proved equal "
            "to the model's by `decide`. Model = code is checked exactly on every string of length ≤ 3 (quick) / ≤ 4 "
            "(thorough) over a 16-symbol class alphabet plus structured random names, relative paths and digests, in "
            "five real packages. Round 7: the legacy manifest / blob path theorems hold for ANY non-empty models-directory "
            "string (manifest_path_confined_anyroot, blob_path_confined_anyroot; the other root hypotheses are CleanComp "
            "components, which covers ~/.ollama/models); the directory GetBlobsPath creates is <models>/blobs or nothing "
            "(blobs_mkdir_confined); both spellings of a digest address one blob (canonical_same_blob); server.Manifests "
            "opens exactly the file it enumerated under the name that file spells (manifestsEnum_*); GetFullTagname / "
            "GetShortTagname are read back unchanged by ParseModelPath and model.ParseName (modelpath_print_parse*). "
            "ParseModelPath and model.ParseName read the same four parts on every input both accept (cross_modelpath); what "
            "DisplayShortest prints is read back as the same name up to the case of an abbreviated default part "
            "(displayShortest_roundtrip); the link path the cache creates for an accepted name is listed by DiskCache.Links "
            "as exactly the printed name, accepted again at the same path (pathToName_roundtrip). Finding N1's repair is "
            "pinned (Tie n1_variant_is_repaired; a probe that says 'pinned' is a variant-regression violation). End to end: "
            "for every request string every name-taking gin handler refuses or uses one manifest path below Clean(models) "
            "(handler_name_confined, with getExistingName over-approximated by the relation ExistingResult), /api/blobs and "
            "every layer digest of an untrusted manifest (blob_handler_confined), the new client's handlers "
            "(registry_handler_confined), every digest parser (digest_clause_all; the cache maps all spellings of a digest to "
            "one file, the legacy store only the separator spellings); the real gin engine and Registry.Unlink/ResolveLocal are "
            "driven over scratch stores with decoys outside and the file system is compared before/after every request. A run in "
            "which any outcome class of a modelled entry point is not exercised fails closed.",
    "design_ref": "DESIGN.md §5 C13",
    "note": COMMON_NOTE + "Modelled, not verified: path/filepath Clean/Join (unix build; own component model, "
            "differentially tested against the real functions), strings.EqualFold as a hand matcher that is exact for "
            "an ASCII left operand against arbitrary bytes (KELVIN SIGN / LONG S included; tied directly and through "
            "real non-ASCII link files), fs.Glob's listing is taken as given (hypothesis GlobLink: manifests/ + four "
            "directory entry names; fs.Glob reports a non-UTF-8 leaf name but cannot descend into a non-UTF-8 directory), "
            "string([]rune(s)) as an own UTF-8 decoder (tied on lead / continuation / surrogate / overlong forms), the new "
            "cache's directory is an absolute clean path (the legacy paths: any string). Windows separators are out of scope of "
            "the executable tie (the theorems show no accepted byte is '\\\\' or ':' outside hosts). The legacy store's "
            "case-insensitive lookup lives in routes.go getExistingName (C04 / F16), not in the path derivation.",
}

MODULES = ["OllamaVerif.Properties.C13", "OllamaVerif.Properties.C13Ext", "OllamaVerif.Tie.C13"]
THEOREMS = [
    "OllamaVerif.C13.valid_part_safe_model",
    "OllamaVerif.C13.valid_part_safe_names",
    "OllamaVerif.C13.print_parse_model",
    "OllamaVerif.C13.roundtrip_model",
    "OllamaVerif.C13.print_parse_names",
    "OllamaVerif.C13.roundtrip_names",
    "OllamaVerif.C13.isFQM_eq_isFQN",
    "OllamaVerif.C13.cross_parsers",
    "OllamaVerif.C13.filepath_shape",
    "OllamaVerif.C13.manifest_path_confined_legacy",
    "OllamaVerif.C13.rejected_or_confined_legacy",
    "OllamaVerif.C13.nameToPath_shape",
    "OllamaVerif.C13.filepath_inverse",
    "OllamaVerif.C13.relpath_accepted",
    "OllamaVerif.C13.legacy_path_injective",
    "OllamaVerif.C13.N1_bare_roundtrip_witness",
    "OllamaVerif.C13.legacy_case_twins_witness",
    "OllamaVerif.C13.digest_re_shape",
    "OllamaVerif.C13.blob_path_confined_legacy",
    "OllamaVerif.C13.blob_path_confined_cache",
    "OllamaVerif.C13.fold_same_path",
    "OllamaVerif.C13.manifest_path_confined_cache",
    "OllamaVerif.C13.ext_accepted_fq",
    "OllamaVerif.C13.roundtrip_names_bare_partial",
    "OllamaVerif.C13.isFQN_eq_cur",
    "OllamaVerif.C13.roundtrip_names_bare",
    "OllamaVerif.C13.hexDecode_isSome",
    "OllamaVerif.C13.digest_validators_agree",
    "OllamaVerif.C13.digest_rejected_or_confined_cache",
    "OllamaVerif.C13.names_isValidPart_safe",
    "OllamaVerif.C13.names_manifestPath_accepts_iff",
    "OllamaVerif.C13.names_manifestPath_confined",
    "OllamaVerif.C13.client_manifestPath_confined",
    "OllamaVerif.C13.cacheResolve_confined",
    "OllamaVerif.C13.C13_rejected_or_confined",
    "OllamaVerif.C13.cutTag_literal",
    "OllamaVerif.C13.parseNLoop_fuel",
    "OllamaVerif.C13.manifest_want_ascii",
    "OllamaVerif.C13.manifestPath_eq_rel",
    "OllamaVerif.C13.runH_append",
    "OllamaVerif.C13.equalFold_of_lowerEq",
    "OllamaVerif.C13.stepH_cache_noTwins",
    "OllamaVerif.C13.runH_noTwins",
    "OllamaVerif.C13.manifestRel_fold",
    "OllamaVerif.C13.defaultRoot_clean",
    "OllamaVerif.C13.defaultRoot_nonvacuous",
    "OllamaVerif.C13.legacy_hex_case_witness",
    # round 7 (Properties/C13Ext.lean)
    "OllamaVerif.C13.canonical_same_blob",
    "OllamaVerif.C13.manifestsEnum_sound",
    "OllamaVerif.C13.manifestsEnum_complete",
    "OllamaVerif.C13.manifestsEnum_keys_injective",
    "OllamaVerif.C13.modelpath_print_parse",
    "OllamaVerif.C13.modelpath_print_parse_model",
    "OllamaVerif.C13.clean_eq_render",
    "OllamaVerif.C13.pathJoin_anyroot",
    "OllamaVerif.C13.manifest_path_confined_anyroot",
    "OllamaVerif.C13.blob_path_confined_anyroot",
    "OllamaVerif.C13.blob_path_empty_anyroot",
    "OllamaVerif.C13.getBlobsPath_empty",
    "OllamaVerif.C13.blobs_mkdir_confined",
    "OllamaVerif.C13.runesRoundTrip_ascii",
    "OllamaVerif.C13.pathToName_roundtrip",
    "OllamaVerif.C13.displayShortest_roundtrip",
    "OllamaVerif.C13.displayShortest_case_witness",
    "OllamaVerif.C13.cross_modelpath_partial",
    "OllamaVerif.C13.cross_modelpath_scheme_witness",
    "OllamaVerif.C13.cross_modelpath_scheme",
    "OllamaVerif.C13.cross_modelpath",
    "OllamaVerif.C13.equalFold_ascii_iff",
    "OllamaVerif.C13.nameEqualFold_iff",
    "OllamaVerif.C13.equalFold_names_same_cache_link",
    "OllamaVerif.C13.existingResult_fq",
    "OllamaVerif.C13.handler_paths_agree",
    "OllamaVerif.C13.handler_name_confined",
    "OllamaVerif.C13.blob_handler_confined",
    "OllamaVerif.C13.manifest_layers_confined",
    "OllamaVerif.C13.registry_handler_confined",
    "OllamaVerif.C13.hexDecode_lower",
    "OllamaVerif.C13.digest_spellings_same_file_cache",
    "OllamaVerif.C13.digest_spellings_same_file_legacy_partial",
    "OllamaVerif.C13.newLayer_digest_accepted",
    "OllamaVerif.C13.digest_clause_all",
    "OllamaVerif.Tie.C13.first_sets_match",
    "OllamaVerif.Tie.C13.rest_sets_match",
    "OllamaVerif.Tie.C13.length_limits_match",
    "OllamaVerif.Tie.C13.accepted_bytes_safe",
    "OllamaVerif.Tie.C13.colon_only_in_hosts",
    "OllamaVerif.Tie.C13.no_odd_strings",
    "OllamaVerif.Tie.C13.n1_variant_is_repaired",
    "OllamaVerif.Tie.C13.constants_match",
]

OV_MODEL = {"types/model/zz_verif_c13_test.go": "types_model/zz_verif_c13_test.go"}
OV_NAMES = {"server/internal/internal/names/zz_verif_c13_test.go": "names/zz_verif_c13_test.go"}
OV_BLOB = {"server/internal/cache/blob/zz_verif_c13_test.go": "cache_blob/zz_verif_c13_test.go"}
OV_SERVER = {"server/zz_verif_c13_test.go": "server_c13/zz_verif_c13_test.go"}
OV_CLIENT = {"server/internal/client/ollama/zz_verif_c13_test.go": "client_ollama/zz_verif_c13_test.go"}
GEN = {"zzverif/c13gen.go": "zzverif/c13gen.go"}

DRIVERS = [
    # (label, package, overlay)
    ("model", "./types/model/", OV_MODEL),
    ("names", "./server/internal/internal/names/", OV_NAMES),
    ("blob", "./server/internal/cache/blob/", OV_BLOB),
    ("server", "./server/", OV_SERVER),
    ("client", "./server/internal/client/ollama/", OV_CLIENT),
]


def ov(d):
    m = dict(GEN)
    m.update(d)
    return m


def regenerate(ctx):
    """Tie 1: run the real isValidPart of both packages over all 1-/2-byte strings and length probes."""
    rows = {}
    ok = True
    for label, pkg, overlay in DRIVERS[:2]:
        rc, out, outdir = ctx.go_test(pkg, ov(overlay), "^TestVerifC13Table$")
        if rc != 0 or not os.path.exists(outdir + "/table.txt"):
            ok = False
            continue
        for line in open(outdir + "/table.txt"):
            f = line.split()
            if f[2] in ("odd", "consthex"):
                rows[(f[0], int(f[1]), f[2])] = f[3:]
            else:
                rows[(f[0], int(f[1]), f[2])] = [int(x) for x in f[3:]]
    if not ok:
        ctx.violation("table-driver-failed", "", "could not regenerate the isValidPart tables", no_input=True)
        return

    def lst(xs):
        return "[" + ", ".join(str(x) for x in xs) + "]"

    body = ["-- REGENERATED on every run by vlib/checks/c13.py from /repo's working tree. Do not edit.",
            "namespace OllamaVerif.Generated.C13",
            "/-- per package (M = types/model, N = server/internal/internal/names) and part kind: the bytes b with",
            "    isValidPart(kind, [b]) (first) and isValidPart(kind, ['a', b]) (rest), as returned by the real code -/"]
    for pk, kinds in (("M", 5), ("N", 4)):
        body.append(f"def first{pk} : List (Nat × List Nat) := [" + ", ".join(
            f"({k}, {lst(rows[(pk, k, 'first')])})" for k in range(kinds)) + "]")
        body.append(f"def rest{pk} : List (Nat × List Nat) := [" + ", ".join(
            f"({k}, {lst(rows[(pk, k, 'rest')])})" for k in range(kinds)) + "]")
        body.append("/-- (kind, least accepted length, greatest accepted length ≤ 1200, accepted lengths contiguous, "
                    "2-byte relation = first × rest and position-independent) -/")
        body.append(f"def len{pk} : List (Nat × Nat × Nat × Nat × Nat) := [" + ", ".join(
            "({}, {}, {}, {}, {})".format(k, *rows[(pk, k, 'len')]) for k in range(kinds)) + "]")
        body.append("/-- strings (as byte lists) on which the real isValidPart is NOT `first byte ∈ first ∧ later bytes ∈ rest`: probed on all "
                    "2-byte strings, 3-byte spot checks and valid UTF-8 encodings (2/3/4 bytes) of code points per low-byte class -/")
        body.append(f"def odd{pk} : List (Nat × List (List Nat)) := [" + ", ".join(
            "({}, [{}])".format(k, ", ".join(lst(list(bytes.fromhex(h))) for h in rows.get((pk, k, 'odd'), [])))
            for k in range(kinds)) + "]")
    body.append("/-- constants of the real code: types/model DefaultName() host / namespace / tag and MissingPart (bytes); names.MaxNameLength -/")
    body.append("def constM : List (List Nat) := [" + ", ".join(lst(list(bytes.fromhex(h))) for h in rows[("M", 0, "consthex")]) + "]")
    body.append(f"def maxNameLengthN : Nat := {rows[('N', 0, 'maxname')][0]}")
    body.append("/-- finding N1 on the real code: `names.Parse(w).IsValid()` for w = h//m, h//m:t, h:80//m -/")
    body.append("def n1Probe : List Bool := [" + ", ".join("true" if x else "false" for x in rows[("N", 0, "n1probe")]) + "]")
    body.append("end OllamaVerif.Generated.C13")
    ctx._c13_rows = rows
    core.write_generated("OllamaVerif/Generated/C13_NameTable.lean", "\n".join(body) + "\n")


def tie_witnesses(ctx):
    """When the regenerated tables do not say what the model says, turn the difference into concrete strings:
    every table fact is re-asked of the MODEL (oracle `vpart`), and every differing string — plus the `odd` strings the
    table driver found — becomes a part-level case and name-level cases that the drivers then run through the REAL
    functions and the L2 predicates (part-unsafe / part-cross-disagree / cross-names-to-model / cross-model-to-names /
    manifest-path-not-reparseable).  Returns the path of the witness file, or None."""
    rows = getattr(ctx, "_c13_rows", None)
    if not rows or not os.path.exists(ctx.oracle_bin()):
        return None
    probes = []   # (pkg, kind, bytes, real answer)
    for pk, kinds in (("M", 5), ("N", 4)):
        for k in range(kinds):
            first, rest = set(rows[(pk, k, "first")]), set(rows[(pk, k, "rest")])
            for b in range(256):
                probes.append((pk, k, bytes([b]), b in first))
                probes.append((pk, k, bytes([97, b]), b in rest))
            lo, hi = rows[(pk, k, "len")][0], rows[(pk, k, "len")][1]
            for n in {max(lo - 1, 0), lo, hi, hi + 1, 1, 80, 81, 350, 351}:
                probes.append((pk, k, b"a" * n, lo <= n <= hi))
            for h in rows.get((pk, k, "odd"), []):
                probes.append((pk, k, bytes.fromhex(h), None))
    ops = os.path.join(ctx.tmp, "tie-ops.txt")
    res = os.path.join(ctx.tmp, "tie-model.txt")
    with open(ops, "w") as f:
        for pk, k, bs, _ in probes:
            f.write(f"vpart {pk} {k} {bs.hex() or '-'}\n")
    ctx.oracle(ops, res)
    answers = [l.strip() for l in open(res)]
    lines, seen = [], set()
    for (pk, k, bs, real), model in zip(probes, answers):
        if real is not None and ("1" if real else "0") == model:
            continue
        if (pk, k, bs) in seen or len(seen) >= 24:
            continue
        seen.add((pk, k, bs))
        lines.append(f"vpart {pk} {k} {bs.hex() or '-'}")
        if k < 4 and bs:
            parts = [b"h", b"n", b"m", b"t"]
            parts[k] = bs
            name = parts[0] + b"/" + parts[1] + b"/" + parts[2] + b":" + parts[3]
            lines += [f"nname {name.hex()}", f"mname {name.hex()}", f"n2p {name.hex()}"]
    if not lines:
        return None
    path = os.path.join(ctx.tmp, "tie-witnesses.txt")
    with open(path, "w") as f:
        f.write("\n".join(lines) + "\n")
    ctx.coverage["tie_witness_lines"] = len(lines)
    return path


# Branches of the model the theorems talk about, each counted by the driver that exercised it on the REAL code (the
# counters are incremented from the real functions' results, and L1 is exact, so a non-zero counter = that branch of
# the model was compared with the code in this run).  A run in which one of them is zero fails closed.
REQUIRED_COUNTERS = [
    # types/model: accept / reject, Filepath defined, relative paths, part rule, the third printer's two outcomes
    "name_accepted", "name_rejected", "relpath_accepted", "relpath_rejected", "part_accepted", "bare_valid", "model_valid",
    "display_roundtrip_exact", "display_roundtrip_case_only", "nfold_equal", "nfold_different",
    # names: both directions of disagreement between the packages' acceptance are seen (valid-but-unqualified forms)
    "accept_model_only", "accept_names_only", "merged_fq", "merged_rejected", "maxnamelength_probe",
    # legacy server: ParseModelPath / GetManifestPath / GetBlobsPath (three outcomes) / odd roots / enumeration / copy
    "mp_accepted", "mp_rejected", "mp_and_model_accept", "mp_accepts_model_rejects", "mp_odd_root_accepted",
    "blobs_accepted", "blobs_rejected", "blobs_empty_digest", "blobs_odd_root",
    "enum_loaded", "enum_skipped_invalid", "copy_done", "copy_refused_invalid",
    # digests, new cache: nameToPath / manifestPath (existing link vs would-be path) / Resolve's three targets / Links
    "digest_accepted", "digest_rejected", "manifest_accepted", "manifest_rejected", "reparse_checked",
    "fold_pairs_existing", "links_non_ascii", "resolve_digest", "resolve_manifest", "resolve_invalid",
    "p2n_cases", "links_names_valid",
    # histories: every operation kind, twins on disk
    "hist_op_R", "hist_op_L", "hist_op_U", "hist_op_W", "hist_op_X", "hist_twins_seen",
    # registry client: every error class and the digest-only form
    "ext_accepted", "ext_digest_only", "ext_rejected_scheme", "ext_rejected_digest", "ext_rejected_name",
    # the regression corpus of every driver that has one was read (corpus/C13/{model,names,blob}.txt)
    "corpus_model", "corpus_names", "corpus_blob",
    # the real HTTP handlers over a scratch store with decoys outside
    "handler_requests", "handler_names_valid", "handler_names_invalid", "handler_found", "handler_blob_found", "handler_fs_changes", "registry_handler_calls", "registry_unlinked",
    # directed families
    "fold_family", "fold_direct", "utf8_names", "utf8_sample_2byte", "utf8_sample_3byte", "utf8_sample_4byte",
]


def coverage_required(ctx):
    missing = [c for c in REQUIRED_COUNTERS if not ctx.stats.get(c)]
    ctx.coverage["model_branches_required"] = len(REQUIRED_COUNTERS)
    ctx.coverage["model_branches_missing"] = missing
    if missing:
        ctx.violation("correspondence-coverage", "", "branches of the model never exercised on the real code in this run: "
                      + ", ".join(missing), no_input=True)


def variant_expected(ctx):
    """N1 is `fixed` in KNOWN_FINDINGS: the tree must show the repaired behaviour.  The names driver probes the variant (and
    hands it to the oracle so that L1 stays exact on a pinned tree); a probe that says `pinned` while the finding is listed
    as fixed is a regression and is reported with the finding's witness as the failing input."""
    fixed = any(f.get("id") == "N1" and f.get("status") == "fixed" for f in ctx.findings)
    ctx.coverage["variant_n1"] = "repaired" if ctx.stats.get("variant_n1_fixed_1") else "pinned"
    if fixed and (ctx.stats.get("variant_n1_fixed_0") or not ctx.stats.get("variant_n1_fixed_1")):
        ctx.violation("variant-regression", "nname 0 682f2f6d",
                      "finding N1 is listed as fixed, but names.Parse(\"h//m\").IsValid() is true on this tree: a host without "
                      "a namespace is valid again (String() prints h/m, which parses back with the host as namespace)")


def run(ctx):
    regenerate(ctx)
    ctx.lean_check(MODULES, THEOREMS)
    witness = tie_witnesses(ctx)
    corpus = os.path.join(core.ROOT, "corpus", "C13")
    sizes = {
        #          quick: (VERIF_N, exhaustive len)   thorough
        "model": ((4000, 3), (200000, 5)),
        "names": ((4000, 3), (200000, 5)),
        "blob": ((3000, 3), (60000, 4)),
        "server": ((3000, 3), (60000, 4)),
        "client": ((3000, 3), (60000, 4)),
    }
    only = os.environ.get("VERIF_C13_ONLY")
    replayed = False
    if only:
        # a debugging switch: the run is NOT a verdict on the property (drivers and the coverage gate are skipped)
        ctx.coverage["VERIF_C13_ONLY"] = only
        ctx.violation("machinery-error", "", f"VERIF_C13_ONLY={only} is set: only part of the check ran; unset it", no_input=True)
    for label, pkg, overlay in DRIVERS:
        if only and label not in only.split(","):
            continue
        if not os.path.exists(os.path.join(core.OVERLAY, list(overlay.values())[0])):
            ctx.violation("driver-failed", "", f"[{label}] overlay file missing: {list(overlay.values())[0]}", no_input=True)
            continue
        n, exh = sizes[label][1 if ctx.thorough else 0]
        env = {"VERIF_N": n, "VERIF_EXH": exh, "VERIF_HIST": 4000 if ctx.thorough else 300, "VERIF_EXH_PATH": 3 if not ctx.thorough else 4,
               "VERIF_CORPUS": os.path.join(corpus, label + ".txt")}
        if witness:
            env["VERIF_WITNESS"] = witness
        if ctx.replay:
            toks = open(ctx.replay_line_file()).read().split()
            opname = toks[0] if toks else ""
            if opname == "vpart":   # vpart M … belongs to types/model, vpart N … to names
                opname = "vpart" + (toks[1] if len(toks) > 1 else "")
            if opname not in OPS_OF[label]:
                continue
            replayed = True
            env["VERIF_REPLAY"] = ctx.replay_line_file()
        rc, out, outdir = ctx.go_test(pkg, ov(overlay), "^TestVerifC13$", env=env)
        if rc != 0:
            ctx.violation("driver-failed", "", f"[{label}] " + out[-1500:], no_input=True)
        st = ctx.read_stats(outdir)
        if st.get("corpus"):
            ctx.stats["corpus_" + label] = ctx.stats.get("corpus_" + label, 0) + st["corpus"]
        ctx.l1(outdir, label=label)
        ctx.classify(ctx.l2(outdir))
        if label == "names" and not ctx.replay:
            variant_expected(ctx)
    if ctx.replay and not replayed:
        # a replay of an input-less violation (theorem / table / coverage) has re-run the Lean side above; a case line that
        # names an operation no driver owns re-ran nothing and must not read as "fixed"
        raw = open(ctx.replay).read()
        inputless = '"no_failing_input_found": true' in raw
        if not inputless:
            ctx.violation("machinery-error", "", "the replay case matches no driver's operations: nothing was re-run", no_input=True)
    if not ctx.replay and not only:
        coverage_required(ctx)
    if ctx.thorough:
        ctx.leanchecker(MODULES)
    ctx.assumptions += [
        "unix build: path separator '/', filepath.Clean/Join as modelled (differentially tested)",
        "models directory: any non-empty string for the legacy manifest / blob paths (manifest_path_confined_anyroot, "
        "blob_path_confined_anyroot; envconfig.Var trims spaces and quotes before); an absolute clean path (CleanComp components, "
        "e.g. /home/u/.ollama/models) for the new cache's theorems",
        "fs.Glob(manifests/*/*/*/*) returns manifests/ + four directory-entry names (GlobLink); link names may be any bytes",
    ]
    return ctx.finish(
        level="proof",
        rule="every string of length ≤ 3 (quick) / ≤ 4, ≤ 5 for the two name parsers (thorough) over a 16-symbol alphabet of class representatives "
             "(/ \\ : @ . - _ NUL 0x80 0xFF A a b 0 ~ space) as a name (both parsers, legacy ModelPath, extended name), "
             "as a name relative path and as a digest; 300 (quick) / 4000 (thorough) random histories of 3-12 operations "
             "(Resolve/Link/Unlink under random case spellings, foreign create/remove of manifest files incl. case "
             "twins and non-ASCII spellings) on one DiskCache; parts on and around every length limit with an offending byte "
             "at start/middle/end; seeded structured names (well-formed / 1–3 mutations / with digest / many "
             "separators / raw bytes); distinct = distinct oracle command lines",
        explanation="Lean theorems over the byte-level model of both parsers and the path derivation; the model is "
                    "tied to the code by exact comparison of every parsed field, validity flag, printed string and "
                    "returned path (L1) in the five real packages and by regenerated isValidPart tables; the property "
                    "clauses (confinement at fixed depth, round trips, cross-parser agreement, case-fold ⇒ same path) "
                    "are evaluated on the real code's results independently of the model (L2)")


OPS_OF = {
    "model": {"mname", "mpath", "vpartM", "nfold"},
    "names": {"nname", "vpartN"},
    "blob": {"digest", "getfile", "n2p", "mfpath", "snd", "resolve", "fold", "hist", "p2n"},
    "server": {"mp", "blobs", "clean", "join", "canon", "enum", "copy", "hname", "hreq", "hblob"},
    "client": {"ext", "split"},
}
