"""C19 — chat prompt keeps the newest messages that fit, system messages, each image once."""
import os

from vlib import core
from vlib.registry import COMMON_NOTE

REGISTRATION = {
    "engine": "lean-prompt",
    "technique": "Lean 4 proof over an executable model of chatPrompt, template.Execute/collate/deleteNode, the "
                 "ChatHandler conversation and the runner's tag lookup + differential correspondence with the "
                 "real code at three levels (chatPrompt, POST /api/chat, runner inputs)",
    "category": "proof",
    "text": "Kernel-checked theorems, for every conversation, context length, cost function and failure pattern, "
            "over a Lean model that mirrors chatPrompt's backward loop, the image renumbering / [img] rewriting, "
            "collate and template.Execute (an interpreter for the parse tree the real template.Parse built: "
            ".Messages path, legacy loop, the .Response cut): latest message kept; retained = suffix in order; cut = "
            "first failure and, for monotone cost, the longest fitting suffix; every system message before the run is "
            "passed (full statement on the current tree, guard + witness for the pinned variant); images = retained "
            "images, id = position, each tagged exactly once in its owner; dropped images not sent; every tag "
            "resolves in the runner's lookup; ChatHandler's conversation ends with the request's latest message and "
            "the model SYSTEM always reaches the template; collate loses nothing; the join-repaired legacy loop loses "
            "nothing and equals the pinned one wherever nothing is lost today. Tie: real chatPrompt on generated "
            "conversations x harness/shipped/randomly generated templates x tokenizers x models (exact: calls, images, "
            "rewritten contents, prompt string, error class), real CreateHandler+ChatHandler end to end, real "
            "ollamarunner inputs() on the pairs chatPrompt produced; every clause also evaluated on the real prompt.",
    "design_ref": "DESIGN.md §5 C19, §6 F4",
    "note": COMMON_NOTE + "Modelled, not verified: templates outside the executed subset (variables, assignments, "
            "printf/slice/len, continue, with, pipelines; e.g. alpaca, gemma-instruct, llama2-chat) stay a measured "
            "cost vector + template-agnostic L2; tokenizers are the two harness functions; mllama.Preprocess is a "
            "success flag; the cgo llamarunner inputs() (same lookup loop) is not executed. Message text that spells "
            "`[img-N]` is finding F5 (known; theorems about the runner's scan are `_partial` with guard cleanPieces). "
            "\"Longest run that fits\" holds for every input only as \"first over-budget candidate stops the walk\" "
            "(retained_first_failure / cut_is_spec); longest-fitting needs a monotone measured total (proved for the "
            "in-place template with the byte tokenizer, witness first_failure_not_longest_nonmonotone otherwise). Variant bits (F4, legacy loop, deleteNode) are probed on the tree under test.",
}

MODULES = ["OllamaVerif.Properties.C19", "OllamaVerif.Tie.C19"]
THEOREMS = [
    "OllamaVerif.C19.latest_kept",
    "OllamaVerif.C19.retained_is_suffix_in_order",
    "OllamaVerif.C19.retained_first_failure",
    "OllamaVerif.C19.retained_longest_fitting",
    "OllamaVerif.C19.tokenizer_calls",
    "OllamaVerif.C19.images_once_indexed",
    "OllamaVerif.C19.tags_in_owner",
    "OllamaVerif.C19.pieces_faithful",
    "OllamaVerif.C19.dropped_images_not_sent",
    "OllamaVerif.C19.system_kept_fixed",
    "OllamaVerif.C19.system_kept_partial",
    "OllamaVerif.C19.system_pinned_exact",
    "OllamaVerif.C19.measured_prompt_fits_fixed",
    "OllamaVerif.C19.F4_system_at_cut_dropped",
    "OllamaVerif.C19.F4b_legacy_overwrite",
    "OllamaVerif.C19.F4c_cut_else_panics",
    "OllamaVerif.C19.runner_resolves_every_tag",
    "OllamaVerif.C19.handler_latest",
    "OllamaVerif.C19.handler_model_system_first",
    "OllamaVerif.C19.handler_model_system_reaches_template",
    "OllamaVerif.C19.templ_ok_generic",
    "OllamaVerif.C19.collate_keeps_everything",
    "OllamaVerif.Prompt.legacy_join_nothing_lost",
    "OllamaVerif.C19.legacy_join_nothing_lost_tLegacy",
    "OllamaVerif.C19.join_step_conservative",
    "OllamaVerif.C19.inplace_renders_all",
    "OllamaVerif.C19.prompt_contains_system_and_retained_inplace",
    "OllamaVerif.C19.handler_limit_is_request",
    "OllamaVerif.C19.final_prompt_fits",
    "OllamaVerif.C19.templ_ok_exact",
    "OllamaVerif.C19.requestNumCtx_precedence",
    "OllamaVerif.C19.handler_runner_opts_would_overflow",
    "OllamaVerif.Tie.C19.legacy_tree_is_parsed",
    "OllamaVerif.Tie.C19.inPlace_tree_is_parsed",
    "OllamaVerif.Tie.C19.header_tree_is_parsed",
    "OllamaVerif.Tie.C19.default_tree_touch_up",
    # round 7
    "OllamaVerif.C19.chatPrompt_total",
    "OllamaVerif.C19.cut_is_spec",
    "OllamaVerif.C19.images_are_spec",
    "OllamaVerif.Prompt.collate_refines",
    "OllamaVerif.Prompt.collate_system_inorder",
    "OllamaVerif.Prompt.legacy_join_in_order",
    "OllamaVerif.C19.legacy_join_in_order_tLegacy",
    "OllamaVerif.C19.inplace_in_order",
    "OllamaVerif.C19.header_in_order",
    "OllamaVerif.C19.prompt_in_order_inplace",
    "OllamaVerif.C19.prompt_in_order_header",
    "OllamaVerif.C19.prompt_in_order_legacy",
    "OllamaVerif.Prompt.scanTags_renderPieces",
    "OllamaVerif.C19.runner_scan_is_tags_partial",
    "OllamaVerif.C19.F5_literal_tag_duplicates_image",
    "OllamaVerif.C19.F5_literal_tag_invalid_index",
    "OllamaVerif.C19.first_failure_not_longest_nonmonotone",
    "OllamaVerif.C19.inplace_exact",
    "OllamaVerif.C19.prompt_tags_inplace_partial",
    "OllamaVerif.C19.total_antitone_inplace_bytes",
    "OllamaVerif.C19.retained_longest_fitting_inplace_bytes",
    "OllamaVerif.Prompt.fromOpenAI_images",
    "OllamaVerif.Prompt.fromOpenAI_one_image",
    "OllamaVerif.C19.no_too_many",
    "OllamaVerif.C19.openai_chat_images",
    "OllamaVerif.Tie.C19.image_tokens_and_guard_plain",
    "OllamaVerif.Tie.C19.image_tokens_and_guard_mllama",
    "OllamaVerif.Tie.C19.image_tokens_projector_nil_vs_empty",
    "OllamaVerif.Tie.C19.latest_never_measured",
    "OllamaVerif.Tie.C19.collate_separators",
    "OllamaVerif.Tie.C19.legacy_loop_is_join_repaired",
    "OllamaVerif.Tie.C19.tree_is_current_variant",
    "OllamaVerif.C19.F5_repaired_witnesses",
]
# branches of the model (scan / total / finalSystem / stepImg / imgData / execute path / legacyStep / cutNode) that
# the theorems talk about; counted by the driver per generated case (zz_verif_c19cov_test.go); a run in which one
# of them is never exercised does not support the correspondence claim -> `correspondence-coverage`
REQUIRED_BRANCHES = [
    "br_chat_empty_conversation_panics", "br_scan_single_message_never_measured",
    "br_scan_every_candidate_fits", "br_scan_break_at_first_candidate", "br_scan_break_in_the_middle",
    "br_scan_err_too_many_images", "br_scan_fail_tokenizer", "br_scan_fail_template_or_final_exec_error",
    "br_rewrite_preprocess_error",
    "br_total_image_cost_charged", "br_total_image_cost_not_charged_nil_projector",
    "br_final_system_before_cut_nonempty", "br_final_system_before_cut_several", "br_final_system_at_cut",
    "br_final_system_none_before_cut",
    "br_stepimg_fill_slot", "br_stepimg_prefix_tag", "br_rewrite_placeholder_without_image_kept",
    "br_rewrite_more_placeholders_than_images",
    "br_imgdata_plain", "br_imgdata_mllama_raw", "br_imgdata_mllama_preprocessed",
    "br_execute_messages_path", "br_execute_legacy_path", "br_cut_else_list_after_cut_dropped",
    "br_collate_merge_adjacent",
    "br_legacy_system_flush", "br_legacy_system_noflush", "br_legacy_user_flush", "br_legacy_user_noflush",
    "br_legacy_assistant", "br_legacy_ignored_role",
    "br_legacy_join_occupied_system", "br_legacy_join_occupied_prompt", "br_legacy_join_occupied_response",
]

OVERLAY = {"server/zz_verif_c19_test.go": "server/zz_verif_c19_test.go",
           "server/zz_verif_c19tmpl_test.go": "server/zz_verif_c19tmpl_test.go",
           "server/zz_verif_c19handler_test.go": "server/zz_verif_c19handler_test.go",
           "server/zz_verif_c19cov_test.go": "server/zz_verif_c19cov_test.go"}
OVERLAY_RUNNER = {"runner/ollamarunner/zz_verif_c19_test.go": "runner_ollamarunner/zz_verif_c19_test.go"}


def regenerate(ctx):
    """Tie 1: the parse trees the real template.Parse builds for the harness templates, as Lean terms."""
    rc, out, outdir = ctx.go_test("./server/", OVERLAY, "^TestVerifC19Trees$")
    defs = []
    if rc == 0:
        for line in open(os.path.join(outdir, "trees.txt")):
            name, _, term = line.rstrip("\n").partition(" := ")
            defs.append(f"def {name} : List Node := {term}\n")
    body = ("-- REGENERATED on every run by vlib/checks/c19.py from the tree under test. Do not edit.\n"
            "import OllamaVerif.Model.Prompt\n"
            "namespace OllamaVerif.Generated.C19\n"
            "open OllamaVerif.Prompt\n"
            "/-! parse trees of the harness templates as built by the real template.Parse -/\n"
            + "".join(defs) +
            "end OllamaVerif.Generated.C19\n")
    core.write_generated("OllamaVerif/Generated/C19_Trees.lean", body)
    # Tie 1, round 7: constants / guards obtained by executing the real chatPrompt and template.Execute on
    # probe inputs (consts.txt of the same driver run): `name : Type := term`
    cdefs = []
    cpath = os.path.join(outdir, "consts.txt")
    if rc == 0 and os.path.exists(cpath):
        for line in open(cpath):
            line = line.rstrip("\n")
            if " := " in line:
                cdefs.append(f"def {line}\n")
    cbody = ("-- REGENERATED on every run by vlib/checks/c19.py from the tree under test. Do not edit.\n"
             "import OllamaVerif.Model.Prompt\n"
             "namespace OllamaVerif.Generated.C19\n"
             "open OllamaVerif OllamaVerif.Prompt\n"
             "/-! facts obtained by executing the real chatPrompt / template.Execute on probe inputs (c19WriteConsts) -/\n"
             + "".join(cdefs) +
             "end OllamaVerif.Generated.C19\n")
    core.write_generated("OllamaVerif/Generated/C19_Consts.lean", cbody)


def run(ctx):
    regenerate(ctx)
    ctx.lean_check(MODULES, THEOREMS)
    env = {"VERIF_N": ctx.scale(6000, 150000), "VERIF_CORPUS": os.path.join(core.ROOT, "corpus", "C19"),
           "VERIF_PAIRS": ctx.scale(4000, 40000)}
    if ctx.replay:
        env["VERIF_REPLAY"] = ctx.replay_line_file()
    rc, out, outdir = ctx.go_test("./server/", OVERLAY, "^TestVerifC19$", env=env)
    if rc != 0:
        ctx.violation("driver-failed", "", out[-1500:], no_input=True)
    st = ctx.read_stats(outdir)
    ctx.l1(outdir)
    ctx.classify(ctx.l2(outdir))
    if not ctx.replay:
        missing = [b for b in REQUIRED_BRANCHES if st.get(b, 0) == 0]
        ctx.coverage["model_branches_required"] = len(REQUIRED_BRANCHES)
        ctx.coverage["model_branches_exercised"] = len(REQUIRED_BRANCHES) - len(missing)
        if missing:
            ctx.violation("correspondence-coverage", "", "model branches never exercised by the generated cases: "
                          + ", ".join(missing), no_input=True)
        # the variant of the tree under test is PROBED by the driver (the model follows it so that L1 stays exact); a
        # finding recorded as fixed must be probed as repaired, and a probe that matches no known variant is a failure
        status = {f.get("id"): f.get("status") for f in ctx.findings}
        for fid, key, want in (("F4", "variant_f4_fixed", 1), ("F4b-legacy-overwrite", "variant_legacy_mode", 2),
                               ("F4c-cut-else-panic", "variant_cut_else_fixed", 1)):
            if status.get(fid) == "fixed" and st.get(key) != want:
                ctx.violation("fixed-finding-regressed", "", f"finding {fid} is recorded as fixed but the tree under test is "
                              f"probed as {key}={st.get(key)} (repaired = {want}); see the probes in c19NewEnv", no_input=True)
        if status.get("F5-literal-image-tag") == "fixed" and st.get("variant_f5_literal_tag_fixed") != 1:
            ctx.violation("fixed-finding-regressed", "", "finding F5-literal-image-tag is recorded as fixed but the tree under "
                          "test passes a typed `[img-N]` through", no_input=True)
        if st.get("variant_probe_unexpected", 0) > 0:
            ctx.violation("variant-probe-unexpected", "", f"{st.get('variant_probe_unexpected')} variant probe(s) of c19NewEnv "
                          "matched neither the pinned nor the repaired behaviour", no_input=True)
        # share of cases whose template is outside the executed subset (prompt string / costs / tokenizer inputs not
        # compared by L1 there)
        opaque, executed = st.get("template_opaque_to_model", 0), st.get("template_executed_by_model", 0)
        ctx.coverage["template_opaque_share_percent"] = round(100.0 * opaque / max(1, opaque + executed), 1)
        if opaque * 4 > opaque + executed:
            ctx.violation("correspondence-coverage", "", f"{opaque} of {opaque + executed} generated cases use a template "
                          "outside the executed subset (ceiling 25 %)", no_input=True)

    # handler level: POST /api/chat through the real CreateHandler + ChatHandler with a mock runner
    if not ctx.replay or "hchat " in open(env["VERIF_REPLAY"]).read() or "ochat " in open(env["VERIF_REPLAY"]).read():
        henv = {"VERIF_N": ctx.scale(400, 4000)}
        if ctx.replay:
            henv["VERIF_REPLAY"] = env["VERIF_REPLAY"]
        rc, out, houtdir = ctx.go_test("./server/", OVERLAY, "^TestVerifC19Handler$", env=henv)
        if rc != 0:
            ctx.violation("driver-failed", "", out[-1500:], no_input=True)
        st = ctx.read_stats(houtdir)
        ctx.coverage["handler_level_cases"] = st.get("cases", 0)
        ctx.l1(houtdir, label="L1-handler")
        ctx.classify(ctx.l2(houtdir))
        if not ctx.replay:
            need = ["handler_ok", "handler_via_openai_entry", "handler_openai_message_with_parts", "handler_l2_limit_truncating",
                    "handler_latest_has_images", "handler_model_has_system", "handler_model_has_messages"]
            miss = [k for k in need if st.get(k, 0) == 0]
            if st.get("cases", 0) == 0 or miss:
                ctx.violation("correspondence-coverage", "", f"handler level: {st.get('cases', 0)} cases; never exercised: "
                              + ", ".join(miss), no_input=True)

    # runner side: the REAL ollamarunner `inputs` on the (prompt, images) pairs the real chatPrompt just
    # produced, plus generated adversarial pairs
    if not ctx.replay or "resolve " in open(env["VERIF_REPLAY"]).read():
        renv = {"VERIF_N": ctx.scale(1500, 30000), "VERIF_C19_PAIRS": os.path.join(outdir, "pairs.txt")}
        if ctx.replay:
            renv["VERIF_REPLAY"] = env["VERIF_REPLAY"]
        rc, out, routdir = ctx.go_test("./runner/ollamarunner/", OVERLAY_RUNNER, "^TestVerifC19Runner$", env=renv)
        if rc != 0:
            ctx.violation("driver-failed", "", out[-1500:], no_input=True)
        st = ctx.read_stats(routdir)
        ctx.coverage["runner_side_cases"] = st.get("cases", 0)
        ctx.l1(routdir, label="L1-runner")
        ctx.classify(ctx.l2(routdir))
        if not ctx.replay:
            need = ["pairs_from_real_chatPrompt", "ok_with_images_consumed", "outcome_err", "l2_literal_tag_in_text_evaluated"]
            miss = [k for k in need if st.get(k, 0) == 0]
            if st.get("cases", 0) == 0 or miss:
                ctx.violation("correspondence-coverage", "", f"runner level: {st.get('cases', 0)} cases; never exercised: "
                              + ", ".join(miss), no_input=True)
    ctx.assumptions += [
        "templates inside the executed subset are run by the model on the tree the real Parse built; other templates "
        "enter as the cost vector measured on the real code",
        "message text that spells `[img-N]` is evaluated by the monitors and reported as known finding F5-literal-image-tag "
        "(signature: the failure is exactly what the typed tag explains); theorems about the runner's scan carry the guard cleanPieces",
        "`retained = longest run that fits` is proved for every cost only as first-failure (cut_is_spec); the longest-fitting "
        "reading needs a measured total that is monotone in the run: proved for the in-place template + byte tokenizer, not guaranteed "
        "by real tokenizers / collate (spec_nonmonotone_cost counts such generated conversations)",
        "image token accounting (768 per image, 1 for mllama) is taken from the code, not from the runner",
    ]
    if ctx.thorough:
        ctx.leanchecker(MODULES)
    return ctx.finish(
        level="proof",
        rule="seeded random conversations (0-9 messages; roles system/user/assistant/tool/other in any order; "
             "empty, multi-line and placeholder-bearing contents; 0-3 images per message) x 4 harness templates "
             "(system-header messages style, legacy, default, in-place messages style; also rendered by the oracle) "
             ", 6 templates shipped in /repo/template and randomly generated templates of both styles (if/else, "
             "eq/ne/and/or/not, $.System, range forms, trim markers, missing keys, exec errors) x 2 tokenizers (+ injected "
             "tokenizer failure) x 0-3 request tools of varying size (harness/generated/shipped templates rendering .Tools) x {plain, projector, mllama} x context lengths aimed at every measured total +-1; "
             "plus 400/4000 POST /api/chat requests (real Scheduler load path, OLLAMA_NUM_PARALLEL 1/2/4/unset, num_ctx from request / model PARAMETER / default, sized around num_ctx and num_ctx x parallel) against freshly created models and 5500/70000 runner-side "
             "(prompt, images) pairs; distinct = distinct oracle command lines",
        explanation="Lean theorems about the model of chatPrompt for all conversations/limits/cost functions; model "
                    "tied to the real chatPrompt + template.Execute by exact comparison of tokenizer calls, images, "
                    "in-place rewritten contents and prompt string (L1) and by evaluating each property clause on "
                    "the real prompt (L2)")
