"""C16 — the memory estimate never plans more on a GPU than it has free."""
import os

from vlib import core
from vlib.registry import COMMON_NOTE

REGISTRATION = {
    "engine": "lean-memory",
    "technique": "Lean 4 proof over an executable model of the estimator + exact differential correspondence",
    "category": "proof",
    "text": "Kernel-checked theorems over a Lean model of llm.EstimateGPULayers / PredictServerFit (admission "
            "filter, round-robin placement with GPUs dropping out, output layer, full/partial graph switch, "
            "overflow accounting, summaries; GpuInfoList.ByLibrary grouping; llmServer.EstimatedVRAMByGPU) and of "
            "the scheduler's Scheduler.updateFreeSpace, with uint64 wrap-around made explicit: per-GPU allocation + "
            "overhead <= free, layer-count bounds, split sums to the layer count, total >= VRAM part, CPU => 0 "
            "layers, fit => all REQUESTED layers placed (every layer of the model for num_gpu < 0 or >= blocks+1; "
            "with a user limit 0 < num_gpu < blocks+1 the code declares a complete fit with num_gpu layers placed: "
            "the clause as stated is false there, finding N1, Lean witness N1_fit_with_partial_offload, and is proved "
            "under the guard that excludes that class), ByLibrary partitions the list into non-empty groups, the "
            "scheduler's adjusted free figure never exceeds the reported one, and the composition (estimate on "
            "adjusted GPUs => allocation + overhead <= REPORTED free; planned + predicted <= total). The model is "
            "tied to the code on every run: synthetic GGUFs through the real WriteGGUF/Decode/GraphSize/GroupLayers, "
            "full MemoryEstimate (incl. unexported fields), EstimatedVRAMByGPU and PredictServerFit compared exactly "
            "with the oracle, boundaries of the estimator's comparisons found by bisection on the real code; the "
            "real Scheduler.updateFreeSpace on generated GPU lists / loaded runners compared exactly; the real "
            "pickBestFullFitByLibrary / pickBestPartialFitByLibrary on generated inventories compared exactly "
            "(returned ids in order + numParallel); the GPU branch of the real Scheduler.processPending (under "
            "testing/synctest, loadFn recorded) on histories of requests compared exactly with the model of its glue "
            "(filterGPUsWithoutLoadingModels, updateFreeSpace, full/partial pick, numParallel forcing: load on which "
            "GPUs with which adjusted free figures | evict | delay), with theorems that discharge the correspondence "
            "hypothesis of the composition on that model (load_sound, load_alloc_within_reported) and lift it to every "
            "reachable state; the CPU branch (cpuDecision: next to loaded models only if TotalSize <= free system memory) likewise "
            "(TestVerifC16Cpu); (history_within_total: after any history of requests, load completions and unloads the sizes "
            "planned on a GPU for all loaded models sum to at most its total memory); every clause "
            "is also evaluated on the real results (estimator alone, and estimator on the scheduler-adjusted list).",
    "design_ref": "DESIGN.md §5 C16",
    "note": COMMON_NOTE + "GGML.GraphSize (KV-cache figures incl. the float64 detour, the per-architecture graph formulas) "
            "is inside the model (graphSize, tied exactly by the c16graph stream on all architectures of its switch, q8_0/q4_0 "
            "cache types, wrapping products), and so are llm.projectorMemoryRequirements and GGML.VisionGraphSize (projReq, "
            "visionGraphSize: weight sums, patch arithmetic, the mllama / gemma3 graph formulas, the division by a zero patch "
            "size; c16proj / c16vision streams); the estimator stream still receives these figures from the real functions. "
            "Inputs of the model, recomputed by the driver with the functions the estimator calls: tensor / layer sizes "
            "(GroupLayers, Tensor.Size), OLLAMA_GPU_OVERHEAD. Flash attention is off "
            "in the estimator driver (GPU discovery); the cache types are exercised on GraphSize directly. The allocation "
            "theorems hold under an explicit no-wrap-around guard (noWrap_of_small_raw gives it from bounds on the raw "
            "inputs); without it the clause is false of the code (finding W1, repaired in /repo by cdbdf6013, and the "
            "remaining wraps W2 for figures near 2^64). The fit clause is proved for 'all REQUESTED layers'; as literally "
            "stated it fails for a user limit 0 < num_gpu < blocks+1 (finding N1, by design of num_gpu). The load-path model "
            "takes one snapshot of the loaded runners (the code reads s.loaded three times; only unloads can intervene).",
}

MODULES = ["OllamaVerif.Properties.C16", "OllamaVerif.Tie.C16"]
THEOREMS = [
    "OllamaVerif.C16.layers_le",
    "OllamaVerif.C16.split_sum",
    "OllamaVerif.C16.cpu_zero",
    "OllamaVerif.C16.alloc_le_free_partial",
    "OllamaVerif.C16.total_ge_vram_partial",
    "OllamaVerif.C16.fit_only_if_placed",
    "OllamaVerif.C16.W1_overhead_wraps",
    "OllamaVerif.C16.counts_sum",
    "OllamaVerif.C16.noWrap_of_small",
    "OllamaVerif.C16.noWrap_of_small_raw",
    "OllamaVerif.C16.fit_never_when_numGPU_huge",
    "OllamaVerif.C16.noWrap_fixed_any_overhead",
    "OllamaVerif.C16.alloc_le_free_fixed",
    "OllamaVerif.C16.W1_fixed_variant",
    "OllamaVerif.C16.W2_graph_wraps_fixed",
    "OllamaVerif.C16.W3_minimum_wraps_fixed",
    "OllamaVerif.C16.free_never_raised",
    "OllamaVerif.C16.free_within_total",
    "OllamaVerif.C16.sched_alloc_le_reported",
    "OllamaVerif.C16.planned_plus_predicted_le_total",
    "OllamaVerif.C16.byLibrary_partition",
    "OllamaVerif.C16.fit_all_only_if_placed",
    "OllamaVerif.C16.vramByGPU_is_planned_size",
    "OllamaVerif.C16.full_fit_places_all",
    "OllamaVerif.C16.pickPartial_is_group",
    # the clause "fits completely only if ALL layers placed" as stated (guard: no user limit below the layer count) + finding N1
    "OllamaVerif.C16.fit_only_if_every_layer_placed_partial",
    "OllamaVerif.C16.full_fit_places_every_layer_partial",
    "OllamaVerif.C16.N1_fit_with_partial_offload",
    # the scheduler's load path (processPending glue): the i -> j hypothesis of sched_alloc_le_reported discharged
    "OllamaVerif.C16.load_sound",
    "OllamaVerif.C16.load_alloc_within_reported",
    "OllamaVerif.C16.load_not_on_loading_gpu",
    "OllamaVerif.C16.effParallel_forced",
    # every reachable state of the load path (induction over the history of requests / load completions / unloads)
    "OllamaVerif.C16.history_within_total",
    "OllamaVerif.C16.history_from_empty",
    # GGML.GraphSize inside the model
    "OllamaVerif.C16.graphSize_kv_length",
    "OllamaVerif.C16.kvBytes_exact",
    "OllamaVerif.C16.layers_le_block_count",
    # the bound the code really enforces (reservation of the larger graph); no empty list reaches the estimator
    "OllamaVerif.C16.alloc_with_reserve_partial",
    "OllamaVerif.C16.load_list_nonempty",
    "OllamaVerif.C16.cpu_load_within_system_memory",
    "OllamaVerif.C16.projReq_panics_iff",
    "OllamaVerif.C16.visionGraphSize_no_blocks",
    # Tie 1: the estimator variant found in the tree (compile only while fix cdbdf6013 of finding W1 is in the tree)
    "OllamaVerif.Tie.C16.tree_subtracts_overhead",
    "OllamaVerif.Tie.C16.tree_alloc_le_free",
    "OllamaVerif.Tie.C16.tree_W1_input_plans_nothing",
]
# The estimator variant of the tree (0 = pinned overhead comparisons, 1 = with fix C16-W1, which /repo has: finding W1 is
# `fixed`) is probed on every run (TestVerifC16Probe: the real estimator on the W1 input) and written to
# Generated/C16_Variant.lean, which Tie/C16.lean consumes by `decide`.  The drivers run the model at the EXPECTED variant (1):
# a tree that lost the fix fails closed three ways: `fixed-finding-regressed` with the W1 witness input, lost Tie theorems,
# and L1 / L2 (`alloc-exceeds-free … wraps=none`) failures with concrete inputs.  VERIF_C16_VARIANT / VERIF_C16_ONLY are
# development aids, honoured only with VERIF_DEV=1, recorded in the evidence, and such a run never passes.
EXPECTED_VARIANT = 1

VARIANT_LEAN = """-- REGENERATED on every run by vlib/checks/c16.py from /repo's working tree (TestVerifC16Probe). Do not edit.
namespace OllamaVerif.Generated.C16
/-- does the estimator of the tree subtract OLLAMA_GPU_OVERHEAD from the free memory (true: fix cdbdf6013 of finding W1
    is in the tree) or add it to the requirement (false: the sums wrap for an overhead near 2^64)?  Obtained by
    executing the real `EstimateGPULayers` on the W1 input (overhead 2^64-1, one GPU with 1 GiB free). -/
def overheadSubtracted : Bool := %s
end OllamaVerif.Generated.C16
"""

# Branches of the model that the theorems talk about; every one must be exercised by the drivers on every
# non-replay run (counters printed by the Go drivers into stats.txt), else the check fails closed with
# `correspondence-coverage` (a generator that silently stops reaching a branch would leave the L1 tie vacuous there).
REQUIRED_BRANCHES = {
    "estimate": ["layers_all", "layers_all_but_output", "layers_partial", "layers_none", "some_gpu_without_layers",
                 "lib_cpu", "lib_metal", "numgpu_auto", "numgpu_0", "numgpu_lt_blocks", "numgpu_blocks+1",
                 "numgpu_gt_blocks+1", "fit_true", "fit_false", "with_projectors", "model_with_vision",
                 "model_block_without_tensors", "model_arch_verifarch", "model_without_output", "groups_2",
                 "gpus_duplicate_id", "overhead_nonzero", "gen_admit_boundary", "gen_first_layer_boundary",
                 "gen_bisect_boundary", "ngpus_1", "ngpus_2", "ngpus_8",
                 "br_admit_reject", "br_admit_accept", "br_gzo_on_later_gpu", "br_output_placed", "br_output_not_placed",
                 "br_output_not_considered", "br_graph_full", "br_graph_partial",
                 "br_gpu_dropped_midway", "br_cap_hit", "code_variant_1", "model_variant_1"],
    "sched": ["sched_some_lowered", "sched_some_zeroed", "sched_unchanged", "sched_compositions_with_layers",
              "sched_runners_0", "sched_runners_2"],
    "pick": ["pick_full_nil", "pick_full_single", "pick_full_multi", "pick_full_multi_reordered", "pick_full_p_1",
             "pick_full_p_4", "pick_partial_groups_1", "pick_partial_groups_2"],
    "graph": ["graph_arch_llama", "graph_arch_mllama", "graph_arch_gemma", "graph_arch_gemma2", "graph_arch_gemma3",
              "graph_arch_command-r", "graph_arch_qwen2", "graph_arch_phi2", "graph_arch_stablelm", "graph_arch_deepseek2",
              "graph_arch_chatglm", "graph_arch_verifarch", "graph_kvct_q8_0", "graph_kvct_q4_0", "graph_kv_float_rounding",
              "graph_wrap_likely"],
    "vision": ["vision_arch_clip", "vision_arch_mllama", "vision_arch_gemma3", "vision_arch_mistral3", "vision_arch_llama",
               "vision_proj_panic_patch0", "vision_patch0", "vision_with_blocks", "vision_class_embd"],
    "cpu": ["cpu_decision_load", "cpu_decision_evict", "cpu_load_next_to_loaded", "cpu_runners_0", "cpu_runners_2",
            "cpu_p_1", "cpu_p_4"],
    "load": ["load_decision_full", "load_decision_partial", "load_decision_evict", "load_decision_delay",
             "load_on_lowered_free", "load_multi_gpu", "load_with_loading_runner", "load_runners_0", "load_runners_2",
             "load_p_1", "load_p_4", "load_forced_parallel_1"],
}


def coverage_gate(ctx, which, st):
    missing = [k for k in REQUIRED_BRANCHES[which] if not st.get(k)]
    ctx.coverage.setdefault("branches_required", 0)
    ctx.coverage["branches_required"] += len(REQUIRED_BRANCHES[which])
    if missing:
        ctx.violation("correspondence-coverage", "", "driver '%s' never exercised: %s" % (which, ", ".join(missing)),
                      no_input=True)


OVERLAY = {"llm/zz_verif_c16_test.go": "llm/zz_verif_c16_test.go"}
OVERLAY_SCHED = {"server/zz_verif_c16_test.go": "server/zz_verif_c16_test.go"}


def run(ctx):
    dev = os.environ.get("VERIF_DEV") == "1"
    only = os.environ.get("VERIF_C16_ONLY", "") if dev else ""      # development aid: run one driver only
    pinned_variant = os.environ.get("VERIF_C16_VARIANT", "") if dev else ""
    env = {"VERIF_N": ctx.scale(6000, 150000), "VERIF_C16_VARIANT": pinned_variant,
           "VERIF_C16_LITERAL": "1",      # also evaluate the fit clause as literally stated (finding N1); off inside C11's check
           "VERIF_CORPUS": os.path.join(core.ROOT, "corpus", "C16")}
    # Tie 1: probe the estimator variant of the tree, regenerate the fact, then check the theorems (incl. Tie/C16.lean)
    probed = None
    if not ctx.replay:
        rc, out, outdir = ctx.go_test("./llm/", OVERLAY, "^TestVerifC16Probe$", env=env, timeout=900)
        pst = ctx.read_stats(outdir)
        probed = 1 if pst.get("code_variant_1") else 0 if pst.get("code_variant_0") else None
        if rc != 0 or probed is None:
            ctx.violation("driver-failed", "", "variant probe: " + out[-1200:], no_input=True)
        else:
            core.write_generated("OllamaVerif/Generated/C16_Variant.lean", VARIANT_LEAN % ("true" if probed == 1 else "false"))
            ctx.coverage["code_variant"] = "fixed (C16-W1 applied)" if probed == 1 else "pinned (fix of W1 LOST)"
            if probed != EXPECTED_VARIANT:
                w1 = open(os.path.join(core.ROOT, "corpus", "C16", "w1-overhead-wrap.json")).read().strip()
                ctx.violation("fixed-finding-regressed", w1,
                              "finding W1 (fixed by cdbdf6013) is back: the real EstimateGPULayers offloads layers for "
                              "OLLAMA_GPU_OVERHEAD=2^64-1 on a GPU with 1 GiB free (the overhead is added to the requirement "
                              "again, the uint64 sums wrap)")
    ctx.lean_check(MODULES, THEOREMS)
    if ctx.replay:
        env["VERIF_REPLAY"] = ctx.replay_line_file()
    sched_only = pick_only = load_only = graph_only = vision_only = cpu_only = False
    if ctx.replay:
        raw = open(env["VERIF_REPLAY"]).read().replace(" ", "")
        cpu_only = raw.startswith('{"kind":"cpu"')
        load_only = raw.startswith('{"kind":"load"') or cpu_only      # (skips the other drivers below)
        graph_only = raw.startswith('{"kind":"graph"')
        vision_only = raw.startswith('{"kind":"vision"')
        graph_only = graph_only or vision_only      # (skips the estimator / scheduler drivers below)
        sched_only = not load_only and not graph_only and '"kind":"sched"' in raw
        pick_only = not load_only and not graph_only and '"kind":"pick"' in raw
    if only == "load":
        load_only = True
    if only == "graph":
        graph_only = True
    if only or pinned_variant:
        ctx.coverage["development_switches"] = {"VERIF_C16_ONLY": only, "VERIF_C16_VARIANT": pinned_variant}
        ctx.violation("development-run", "", "VERIF_DEV=1 with VERIF_C16_ONLY=%r VERIF_C16_VARIANT=%r: drivers skipped / model "
                      "variant pinned; not a verdict about the tree" % (only, pinned_variant), no_input=True)
    # GGML.GraphSize: the derived inputs kv[i] / partialOffload / fullOffload as a function of the model file
    if not ctx.replay and only in ("", "graph") or vision_only:
        envv = dict(env)
        envv["VERIF_N"] = ctx.scale(1500, 30000)
        rc, out, outdir = ctx.go_test("./llm/", OVERLAY, "^TestVerifC16Vision$", env=envv, timeout=1500)
        if rc != 0:
            ctx.violation("driver-failed", "", out[-1500:], no_input=True)
        st = ctx.read_stats(outdir)
        ctx.l1(outdir, label="L1-vision")
        ctx.classify(ctx.l2(outdir))
        if not ctx.replay:
            coverage_gate(ctx, "vision", st)
    if (not ctx.replay and only in ("", "graph") or graph_only) and not vision_only:
        envg = dict(env)
        envg["VERIF_N"] = ctx.scale(3000, 60000)
        rc, out, outdir = ctx.go_test("./llm/", OVERLAY, "^TestVerifC16Graph$", env=envg, timeout=1500)
        if rc != 0:
            ctx.violation("driver-failed", "", out[-1500:], no_input=True)
        st = ctx.read_stats(outdir)
        ctx.l1(outdir, label="L1-graph")
        ctx.classify(ctx.l2(outdir))
        if not ctx.replay:
            coverage_gate(ctx, "graph", st)
    if not sched_only and not pick_only and not load_only and not graph_only:
        rc, out, outdir = ctx.go_test("./llm/", OVERLAY, "^TestVerifC16$", env=env, timeout=1500)
        if rc != 0:
            ctx.violation("driver-failed", "", out[-1500:], no_input=True)
        st = ctx.read_stats(outdir)
        ctx.l1(outdir)
        ctx.classify(ctx.l2(outdir))
        if not ctx.replay:
            coverage_gate(ctx, "estimate", st)
    # scheduler side: the real Scheduler.updateFreeSpace + composition with the real estimator
    if (not ctx.replay or sched_only) and not pick_only and not load_only and not graph_only:
        env2 = dict(env)
        env2["VERIF_N"] = ctx.scale(4000, 60000)
        rc, out, outdir = ctx.go_test("./server/", OVERLAY_SCHED, "^TestVerifC16Sched$", env=env2, timeout=1500)
        if rc != 0:
            ctx.violation("driver-failed", "", out[-1500:], no_input=True)
        st = ctx.read_stats(outdir)
        ctx.l1(outdir, label="L1-sched")
        ctx.classify(ctx.l2(outdir))
        if not ctx.replay:
            coverage_gate(ctx, "sched", st)
    # scheduler's fit decisions: the real pickBestFullFitByLibrary / pickBestPartialFitByLibrary + the real
    # estimator on the returned list
    if (not ctx.replay or pick_only) and not load_only and not graph_only:
        env3 = dict(env)
        env3["VERIF_N"] = ctx.scale(1500, 20000)
        rc, out, outdir = ctx.go_test("./server/", OVERLAY_SCHED, "^TestVerifC16Pick$", env=env3, timeout=1500)
        if rc != 0:
            ctx.violation("driver-failed", "", out[-1500:], no_input=True)
        st = ctx.read_stats(outdir)
        ctx.l1(outdir, label="L1-pick")
        ctx.classify(ctx.l2(outdir))
        if not ctx.replay:
            coverage_gate(ctx, "pick", st)
    # the scheduler's load path: the real Scheduler.processPending (GPU branch) on histories of requests
    if (not ctx.replay and not graph_only and only in ("", "load")) or cpu_only:
        env5 = dict(env)
        env5["VERIF_N"] = ctx.scale(600, 12000)
        rc, out, outdir = ctx.go_test("./server/", OVERLAY_SCHED, "^TestVerifC16Cpu$", env=env5, timeout=1500)
        if rc != 0:
            ctx.violation("driver-failed", "", out[-1500:], no_input=True)
        st = ctx.read_stats(outdir)
        ctx.l1(outdir, label="L1-cpu")
        ctx.classify(ctx.l2(outdir))
        if not ctx.replay:
            coverage_gate(ctx, "cpu", st)
    if (not ctx.replay or load_only) and not graph_only and not cpu_only:
        env4 = dict(env)
        env4["VERIF_N"] = ctx.scale(1200, 20000)
        rc, out, outdir = ctx.go_test("./server/", OVERLAY_SCHED, "^TestVerifC16Load$", env=env4, timeout=1500)
        if rc != 0:
            ctx.violation("driver-failed", "", out[-1500:], no_input=True)
        st = ctx.read_stats(outdir)
        ctx.l1(outdir, label="L1-load")
        ctx.classify(ctx.l2(outdir))
        if not ctx.replay:
            coverage_gate(ctx, "load", st)
    ctx.assumptions.append("load path: `loadDecision` takes ONE snapshot of the loaded runners; the code reads s.loaded three "
                           "times (loadedCount, filterGPUsWithoutLoadingModels, updateFreeSpace), each under its own lock hold; "
                           "only unloads can happen in between (one-sided: fewer predictions, never a raised free figure beyond the "
                           "reported one); eviction choice and CPU branch are C11's")
    ctx.assumptions.append("derived inputs (GraphSize, tensor/KV sizes, projector requirements, overhead) are "
                           "recomputed by the driver with the functions the estimator calls; flash attention off")
    if ctx.thorough:
        ctx.leanchecker(MODULES)
    return ctx.finish(
        level="proof",
        rule="seeded synthetic GGUFs (9 architectures, 0-80 blocks, uniform/uneven/wild layer sizes, blocks "
             "without tensors, with/without output/token_embd, vision keys, projector files) x 1-8 GPUs (7 "
             "libraries, mixed groups) x num_gpu classes x overhead x ctx/batch/parallel; free memory random, at "
             "analytic admission/first-layer thresholds -1/0/+1, and at boundaries found by bisection on the real "
             "estimator; a wrap-around stream (quantities near 2^64); up to 3 interleaved Library[_Variant] groups, "
             "repeated GPU IDs. Scheduler driver: 1-8 GPUs (repeated/empty IDs, same ID in two libraries, free > "
             "total), 0-4 loaded runners (nil llama, per-GPU predictions at total-free -1/0/+1, > total, wrapping "
             "sums), composition with the real estimator on 3 synthetic models. Pick driver: synthetic models (uneven "
             "blocks, projectors) x inventories of 1-8 GPUs (mixed libraries, enumeration order != size order, ties) "
             "x free memory in six modes scaled to the model's need x parallel auto/1/2 x spread x num_gpu classes. "
             "Load driver: histories of 2-8 requests on one scheduler state (inventories of 1-8 GPUs in four size modes "
             "relative to the model's need, reported free = total / fraction / accurate, runners loading or loaded, "
             "embedding / mllama models, parallel auto/1/2, spread, overhead), one case per scheduling attempt; "
             "GraphSize driver: synthetic GGUFs of all 11 architectures of the switch + an unknown one (both mixtral branches, "
             "cross-attention layers, rope_freqs, sliding window, attn_qkv.bias, head counts 0..64, optional key/value length) "
             "x context / batch up to 2^64 (products beyond 2^53 and 2^64) x parallel x cache type f16/q8_0/q4_0/junk; "
             "distinct = distinct oracle command lines",
        explanation="Lean theorems about the executable model of EstimateGPULayers/PredictServerFit; model tied "
                    "to the code by exact comparison of the whole MemoryEstimate and fit result (L1) and every "
                    "property clause evaluated on the real estimate against the real GPU list (L2); same for "
                    "Scheduler.updateFreeSpace (L1 exact; L2 free-raised, sched-alloc-exceeds-reported) and for the load "
                    "path of the real processPending on request histories (L1 exact on the decision; L2 load-exceeds-reported, "
                    "load-exceeds-total, load-on-loading-gpu, load-partial-with-loaded, load-parallel); branch counters of "
                    "every driver are gated (correspondence-coverage)")
