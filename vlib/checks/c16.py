"""C16 — the memory estimate never plans more on a GPU than it has free."""
import os

from vlib import core
from vlib.registry import COMMON_NOTE

REGISTRATION = {
    "engine": "lean-memory",
    "technique": "Lean 4 proof over an executable model of the estimator + exact differential correspondence",
    "category": "proof",
    "text": "Kernel-checked theorems over a Lean model of llm.EstimateGPULayers / PredictServerFit (admission "
            "filter, round-robin placement with GPUs dropping out, output layer, full/partial graph switch, "
            "overflow accounting, summaries; GpuInfoList.ByLibrary grouping; llmServer.EstimatedVRAMByGPU) and of "
            "the scheduler's Scheduler.updateFreeSpace, with uint64 wrap-around made explicit: per-GPU allocation + "
            "overhead <= free, layer-count bounds, split sums to the layer count, total >= VRAM part, CPU => 0 "
            "layers, fit => all requested layers placed, ByLibrary partitions the list into non-empty groups, the "
            "scheduler's adjusted free figure never exceeds the reported one, and the composition (estimate on "
            "adjusted GPUs => allocation + overhead <= REPORTED free; planned + predicted <= total). The model is "
            "tied to the code on every run: synthetic GGUFs through the real WriteGGUF/Decode/GraphSize/GroupLayers, "
            "full MemoryEstimate (incl. unexported fields), EstimatedVRAMByGPU and PredictServerFit compared exactly "
            "with the oracle, boundaries of the estimator's comparisons found by bisection on the real code; the "
            "real Scheduler.updateFreeSpace on generated GPU lists / loaded runners compared exactly; the real "
            "pickBestFullFitByLibrary / pickBestPartialFitByLibrary on generated inventories compared exactly "
            "(returned ids in order + numParallel); every clause "
            "is also evaluated on the real results (estimator alone, and estimator on the scheduler-adjusted list).",
    "design_ref": "DESIGN.md §5 C16",
    "note": COMMON_NOTE + "Modelled, not verified: the quantities the estimator derives from the model file and "
            "the environment (GraphSize formulas, tensor sizes, KV sizes incl. float64 arithmetic, projector "
            "requirements, OLLAMA_GPU_OVERHEAD) enter the model as inputs; the driver recomputes them with the "
            "same functions the estimator calls. Flash attention / KV cache type are off in the driver (they "
            "only change those inputs). The allocation theorems hold under an explicit no-wrap-around guard on "
            "the derived inputs; without it the clause is false of the code (finding W1, repaired in /repo by cdbdf6013, and the remaining wraps W2 for figures near 2^64).",
}

MODULES = ["OllamaVerif.Properties.C16"]
THEOREMS = [
    "OllamaVerif.C16.layers_le",
    "OllamaVerif.C16.split_sum",
    "OllamaVerif.C16.cpu_zero",
    "OllamaVerif.C16.alloc_le_free_partial",
    "OllamaVerif.C16.total_ge_vram_partial",
    "OllamaVerif.C16.fit_only_if_placed",
    "OllamaVerif.C16.W1_overhead_wraps",
    "OllamaVerif.C16.counts_sum",
    "OllamaVerif.C16.noWrap_of_small",
    "OllamaVerif.C16.fit_never_when_numGPU_huge",
    "OllamaVerif.C16.noWrap_fixed_any_overhead",
    "OllamaVerif.C16.alloc_le_free_fixed",
    "OllamaVerif.C16.W1_fixed_variant",
    "OllamaVerif.C16.W2_graph_wraps_fixed",
    "OllamaVerif.C16.W3_minimum_wraps_fixed",
    "OllamaVerif.C16.free_never_raised",
    "OllamaVerif.C16.free_within_total",
    "OllamaVerif.C16.sched_alloc_le_reported",
    "OllamaVerif.C16.planned_plus_predicted_le_total",
    "OllamaVerif.C16.byLibrary_partition",
    "OllamaVerif.C16.fit_all_only_if_placed",
    "OllamaVerif.C16.vramByGPU_is_planned_size",
    "OllamaVerif.C16.full_fit_places_all",
    "OllamaVerif.C16.pickPartial_is_group",
]
# The code variant the model must mirror (0 = pinned overhead comparisons, 1 = with fix C16-W1) is detected
# by the driver on every run by probing the real estimator with the W1 input; it is the first argument of
# every oracle command and is reported as driver_stats code_variant_<n>.  VERIF_C16_VARIANT overrides.
OVERLAY = {"llm/zz_verif_c16_test.go": "llm/zz_verif_c16_test.go"}
OVERLAY_SCHED = {"server/zz_verif_c16_test.go": "server/zz_verif_c16_test.go"}


def run(ctx):
    ctx.lean_check(MODULES, THEOREMS)
    env = {"VERIF_N": ctx.scale(6000, 150000), "VERIF_C16_VARIANT": os.environ.get("VERIF_C16_VARIANT", ""),
           "VERIF_CORPUS": os.path.join(core.ROOT, "corpus", "C16")}
    if ctx.replay:
        env["VERIF_REPLAY"] = ctx.replay_line_file()
    sched_only = pick_only = load_only = False
    if ctx.replay:
        try:
            raw = open(env["VERIF_REPLAY"]).read().replace(" ", "")
            load_only = raw.startswith('{"kind":"load"')
            sched_only = not load_only and '"kind":"sched"' in raw
            pick_only = not load_only and '"kind":"pick"' in raw
        except OSError:
            pass
    only = os.environ.get("VERIF_C16_ONLY", "")      # development aid: run one driver only
    if only == "load":
        load_only = True
    if not sched_only and not pick_only and not load_only:
        rc, out, outdir = ctx.go_test("./llm/", OVERLAY, "^TestVerifC16$", env=env, timeout=1500)
        if rc != 0:
            ctx.violation("driver-failed", "", out[-1500:], no_input=True)
        st = ctx.read_stats(outdir)
        ctx.coverage["code_variant"] = ("fixed (C16-W1 applied)" if st.get("code_variant_1") else
                                        "pinned" if st.get("code_variant_0") else "undetected")
        ctx.l1(outdir)
        ctx.classify(ctx.l2(outdir))
    # scheduler side: the real Scheduler.updateFreeSpace + composition with the real estimator
    if (not ctx.replay or sched_only) and not pick_only and not load_only:
        env2 = dict(env)
        env2["VERIF_N"] = ctx.scale(4000, 60000)
        rc, out, outdir = ctx.go_test("./server/", OVERLAY_SCHED, "^TestVerifC16Sched$", env=env2, timeout=1500)
        if rc != 0:
            ctx.violation("driver-failed", "", out[-1500:], no_input=True)
        ctx.read_stats(outdir)
        ctx.l1(outdir, label="L1-sched")
        ctx.classify(ctx.l2(outdir))
    # scheduler's fit decisions: the real pickBestFullFitByLibrary / pickBestPartialFitByLibrary + the real
    # estimator on the returned list
    if (not ctx.replay or pick_only) and not load_only:
        env3 = dict(env)
        env3["VERIF_N"] = ctx.scale(1500, 20000)
        rc, out, outdir = ctx.go_test("./server/", OVERLAY_SCHED, "^TestVerifC16Pick$", env=env3, timeout=1500)
        if rc != 0:
            ctx.violation("driver-failed", "", out[-1500:], no_input=True)
        ctx.read_stats(outdir)
        ctx.l1(outdir, label="L1-pick")
        ctx.classify(ctx.l2(outdir))
    # the scheduler's load path: the real Scheduler.processPending (GPU branch) on histories of requests
    if not ctx.replay or load_only:
        env4 = dict(env)
        env4["VERIF_N"] = ctx.scale(1200, 20000)
        rc, out, outdir = ctx.go_test("./server/", OVERLAY_SCHED, "^TestVerifC16Load$", env=env4, timeout=1500)
        if rc != 0:
            ctx.violation("driver-failed", "", out[-1500:], no_input=True)
        ctx.read_stats(outdir)
        ctx.l1(outdir, label="L1-load")
        ctx.classify(ctx.l2(outdir))
    ctx.assumptions.append("derived inputs (GraphSize, tensor/KV sizes, projector requirements, overhead) are "
                           "recomputed by the driver with the functions the estimator calls; flash attention off")
    if ctx.thorough:
        ctx.leanchecker(MODULES)
    return ctx.finish(
        level="proof",
        rule="seeded synthetic GGUFs (9 architectures, 0-80 blocks, uniform/uneven/wild layer sizes, blocks "
             "without tensors, with/without output/token_embd, vision keys, projector files) x 1-8 GPUs (7 "
             "libraries, mixed groups) x num_gpu classes x overhead x ctx/batch/parallel; free memory random, at "
             "analytic admission/first-layer thresholds -1/0/+1, and at boundaries found by bisection on the real "
             "estimator; a wrap-around stream (quantities near 2^64); up to 3 interleaved Library[_Variant] groups, "
             "repeated GPU IDs. Scheduler driver: 1-8 GPUs (repeated/empty IDs, same ID in two libraries, free > "
             "total), 0-4 loaded runners (nil llama, per-GPU predictions at total-free -1/0/+1, > total, wrapping "
             "sums), composition with the real estimator on 3 synthetic models. Pick driver: synthetic models (uneven "
             "blocks, projectors) x inventories of 1-8 GPUs (mixed libraries, enumeration order != size order, ties) "
             "x free memory in six modes scaled to the model's need x parallel auto/1/2 x spread x num_gpu classes; "
             "distinct = distinct oracle command lines",
        explanation="Lean theorems about the executable model of EstimateGPULayers/PredictServerFit; model tied "
                    "to the code by exact comparison of the whole MemoryEstimate and fit result (L1) and every "
                    "property clause evaluated on the real estimate against the real GPU list (L2); same for "
                    "Scheduler.updateFreeSpace (L1 exact; L2 free-raised, sched-alloc-exceeds-reported)")
