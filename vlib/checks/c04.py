"""C04 — every listed model is complete; operations on one model never damage another."""
from vlib import core
from vlib.registry import COMMON_NOTE

REGISTRATION = {
    "engine": "lean-store",
    "technique": "Lean 4 invariant proofs over an executable model of the model store + differential "
                 "correspondence against the real gin handlers on a scratch store",
    "category": "proof",
    "text": "Kernel-checked theorems over a Lean model of the model store (blob files keyed by digest, every other "
            "file of the blobs directory by name class, manifests readable/corrupt) and of blob upload, pull (download+verify "
            "loop with cache hits, against an in-memory registry whose blobs are honest or corrupted), create (FROM / "
            "files, auto-detected template+params layers, TEMPLATE/SYSTEM/LICENSE/PARAMETERS/MESSAGE overrides in the real "
            "drop-then-store order, OLLAMA_NOPRUNE), copy, delete and the startup sequence (fixBlobs, NOPRUNE and corrupt-manifest gates, "
            "PruneLayers per file-name class), for all stores, requests and Go-map iteration orders: the completeness "
            "invariant and the frame property are preserved; every listed model is complete and show answers 200 "
            "along every history; a model that is the target of no operation of a history keeps its manifest and its "
            "blobs, and the target of an operation is the requested name up to letter case (frame property stated on "
            "the request); after the startup prune exactly the referenced blobs remain and no file of any "
            "other name class (OLLAMA_NOPRUNE: nothing is removed by the start-up sequence or a pull); no operation of "
            "the model's alphabet creates a case twin (NOT covered: the pull inside `create ... from` of a model that is "
            "not in the store, which is tied by L1 as pullAt-then-createAt but is no operation of the step function — "
            "before the repair of finding N4 it created a twin; a residual remains: `create Foo from foo` with neither stored); a failed create changes no manifest. The theorems "
            "are stated for the pinned and for the repaired variants of five findings (F16a, F16b, N1, N2, N3; N4 is a flag of the oracle); the "
            "driver probes which variant the tree under test implements and the check requires every finding recorded "
            "as fixed to be probed as repaired. The model is tied to the real gin handlers "
            "(streaming and non-streaming create) by random operation histories compared after every operation "
            "(result, listing, every manifest, every file of blobs/), and the property is evaluated on the real "
            "files (every blob re-hashed).",
    "design_ref": "DESIGN.md §5 C04, §6 F16",
    "note": COMMON_NOTE + "Parameters of the model, fed from the real functions by the driver: SHA-256 (oracle: real "
            "SHA-256; theorems: any collision-free hash, HashInj), GGUF decoding and template.Named (metadata and "
            "auto-detected template/params bytes per pool file), template validity. Guards that remain on the "
            "repaired tree: files planted under a blob name hold that content (LitterOk/LegacyOk, non-API faults "
            "only). Registry manifests are assumed truthful about SIZES (PullOk; PullModel never checks them). Outside the model: the "
            "pull protocol itself (C03), the `adapters` field of a create request, safetensors, quantize, directories "
            "inside blobs/, case-insensitive file systems. Tie 1 (decide over facts regenerated from the source): the "
            "behaviour of GetBlobsPath on every class of digest string (the real function executed by the driver, compared "
            "with the model's reading of digest strings) and the startup sequence of Serve, which the driver transcribes.",
}

MODULES = ["OllamaVerif.Properties.C04", "OllamaVerif.Proofs.Store", "OllamaVerif.Proofs.StoreShow", "OllamaVerif.Model.Store",
           "OllamaVerif.Tie.C04"]
THEOREMS = [
    # pinned tree (guards)
    "OllamaVerif.C04.op_preserves_NameInv",
    "OllamaVerif.C04.op_frame",
    "OllamaVerif.C04.history_preserves_Inv",
    "OllamaVerif.C04.prune_exact",
    "OllamaVerif.C04.no_case_twins_partial",
    "OllamaVerif.C04.reachable_no_twins",
    # repaired variants (no guards)
    "OllamaVerif.C04.op_preserves_NameInv_fixed",
    "OllamaVerif.C04.op_frame_fixed",
    "OllamaVerif.C04.history_preserves_Inv_fixed",
    "OllamaVerif.C04.prune_exact_fixed",
    "OllamaVerif.C04.prune_skipped",
    "OllamaVerif.C04.prune_no_empty_dir",
    "OllamaVerif.C04.pruneStartup_no_empty_dir",
    "OllamaVerif.C04.prune_classes_witness",
    "OllamaVerif.C04.pull_witness",
    "OllamaVerif.C04.no_new_case_twins_fixed",
    "OllamaVerif.C04.no_case_twins_fixed",
    "OllamaVerif.C04.reachable_no_twins_fixed",
    "OllamaVerif.C04.failed_create_changes_nothing_fixed",
    # the first clause literally: listed => complete and show answers 200
    "OllamaVerif.C04.listed_can_be_shown",
    "OllamaVerif.C04.op_preserves_ShowInv",
    "OllamaVerif.C04.history_listed_complete_and_shown_fixed",
    "OllamaVerif.C04.op_preserves_NameInv_fixedAlias",
    # round 7: the frame property along every history; OLLAMA_NOPRUNE; MESSAGE layers
    "OllamaVerif.C04.history_frame_fixed",
    "OllamaVerif.C04.pullLayers_blob_mono",
    "OllamaVerif.C04.pull_noPrune_keeps_every_blob",
    "OllamaVerif.C04.startup_noPrune",
    "OllamaVerif.C04.gcOld_noPrune",
    "OllamaVerif.C04.noPrune_witness",
    "OllamaVerif.C04.messages_witness",
    # what each operation does to its own target (manifest-level specification)
    "OllamaVerif.C04.copy_spec",
    "OllamaVerif.C04.delete_spec",
    "OllamaVerif.C04.pull_spec",
    "OllamaVerif.C04.create_spec",
    # review (notes/review/C04.md): the target is the requested name up to letter case, hence the frame property
    # stated on the REQUEST; non-vacuity of the history theorems on the repaired tree (a history with a successful
    # pull, from the empty store); the size guard PullOk is needed; failed create with every guard discharged
    "OllamaVerif.C04.resolveName_equalFold",
    "OllamaVerif.C04.pullTarget_equalFold",
    "OllamaVerif.C04.targets_equalFold",
    "OllamaVerif.C04.op_frame_request_fixed",
    "OllamaVerif.C04.empty_Inv",
    "OllamaVerif.C04.empty_ShowInv",
    "OllamaVerif.C04.litterOk_pull_witness",
    "OllamaVerif.C04.history_listed_shown_instance",
    "OllamaVerif.C04.pull_size_witness",
    "OllamaVerif.C04.pull_size_breaks_NameInv",
    "OllamaVerif.C04.failed_create_changes_nothing_repaired",
    "OllamaVerif.C04.N4_from_pull_witness",
    # `create ... from` with the pull inside parseFromModel (composed by the oracle, not an Op of `step`): invariant +
    # frame for the two names it may write, whatever they are
    "OllamaVerif.Store.createFromPull_good",
    "OllamaVerif.C04.create_from_pull_good",
    "OllamaVerif.C04.N4_createFromPull_witness",
    # N6: a GGUF of kind adapter / projector gives an adapter / projector layer; the show theorems carry the guard
    # ModelKinds (no such GGUF); without it an adapter-only create is listed and cannot be shown
    "OllamaVerif.C04.N6_witness",
    "OllamaVerif.C04.rEnv_kinds",
    # the guard about auto-detected layers (N2): met by every `from` create, void once N2 is repaired, decidable
    "OllamaVerif.C04.apartOp_of_from",
    "OllamaVerif.C04.apartOp_of_fixKeep",
    "OllamaVerif.C04.runGuard_of_B",
    # witnesses (pinned defects; the same histories with the repairs in)
    "OllamaVerif.C04.F16a_delete_witness",
    "OllamaVerif.C04.F16a_breaks_NameInv",
    "OllamaVerif.C04.F16a_prune_witness",
    "OllamaVerif.C04.F16b_twin_witness",
    "OllamaVerif.C04.F16b_breaks_NoTwins",
    "OllamaVerif.C04.N1_create_continues_witness",
    "OllamaVerif.C04.N2_witness",
    "OllamaVerif.C04.N3_witness",
    "OllamaVerif.C04.N2_breaks_NameInv",
    "OllamaVerif.C04.auto_template_override_ok",
    "OllamaVerif.C04.F16a_repaired_witness",
    "OllamaVerif.C04.F16b_repaired_witness",
    "OllamaVerif.C04.N1_repaired_witness",
    "OllamaVerif.C04.wEnv_inj",
    # Tie 1: facts regenerated from the source of the tree under test
    "OllamaVerif.Tie.C04.blobs_path_inputs",
    "OllamaVerif.Tie.C04.blobs_path_table",
    "OllamaVerif.Tie.C04.serve_startup_sequence",
]
# theorems whose hypotheses name the PINNED (upstream, unrepaired) variant of a finding that is fixed in /repo: kept
# as the record of what was true of that code, listed apart in the evidence (`theorems_pinned_variant`)
PINNED_VARIANT = ["op_preserves_NameInv", "op_frame", "history_preserves_Inv", "prune_exact", "no_case_twins_partial",
                  "reachable_no_twins", "F16a_delete_witness", "F16a_breaks_NameInv", "F16a_prune_witness",
                  "F16b_twin_witness", "F16b_breaks_NoTwins", "N1_create_continues_witness", "N2_witness",
                  "N2_breaks_NameInv", "N3_witness", "apartOp_of_from", "runGuard_of_B"]
OVERLAY = {"server/zz_verif_c04_test.go": "server/zz_verif_c04_test.go"}

# Branches of the model that the theorems talk about, named by the driver from what the REAL code did
# (`branchCounters`, `res_*`, `show_*`): the check fails closed (`correspondence-coverage`) when the generator of
# this run never reached one of them — the L1 comparison would then say nothing about it.
REQUIRED_BRANCHES = [
    # every operation of the alphabet, with each of its results
    "res_upload_h200", "res_upload_h201", "res_upload_h400",
    "res_create_s", "res_create_e400", "res_create_e500",
    "res_copy_h200", "res_copy_h404", "res_delete_h200", "res_delete_h404", "res_delete_h500",
    "res_prune_ok", "res_prune_skip", "res_pull_s", "res_pull_e500",
    "op_plant", "op_corrupt", "op_dashify", "op_litter", "op_litterman", "op_noprune",
    # create: base layers, overrides (drop-then-store per media type), auto-detected layers, the replaced manifest
    "br_create_fresh", "br_create_replaced", "br_create_old_layer_removed", "br_create_old_layer_kept_in_use",
    "br_create_old_layer_kept_noprune", "br_create_template_override", "br_create_system_override",
    "br_create_params", "br_create_license", "br_create_messages", "br_create_messages_over_old_messages",
    "br_create_bad_template", "br_create_auto_template_layer", "br_create_auto_params_layer",
    # delete / copy / pull
    "br_delete_replaced", "br_delete_old_layer_removed", "br_delete_old_layer_kept_in_use",
    "br_delete_removed_directories", "br_copy_fresh", "br_copy_over_existing", "br_copy_same",
    "br_copy_404_made_directories", "br_pull_fresh", "br_pull_replaced", "br_pull_old_layer_removed",
    "br_pull_layer_cache_hit", "br_pull_layer_fetched", "br_pull_failed_leaves_orphans",
    # start-up sequence: fixBlobs renames, PruneLayers removes per name class, PruneDirectory, OLLAMA_NOPRUNE
    "br_fixblobs_renamed", "br_prune_removed_files", "br_prune_removed_directories", "prune_checked",
    "noprune_checked_prune", "noprune_checked_pull",
    "prune_saw_nonblob_partial", "prune_saw_nonblob_sha256-other", "prune_saw_nonblob_other",
    "prune_saw_nonblob_colon-legacy",
    # listing / show, sharing
    "show_h200", "steps_with_shared_blobs", "steps_removing_blobs", "steps_mixed_spelling",
]


SERVE_SEQUENCE = ["fixBlobs(blobsDir)", "envconfig.NoPrune()", "Manifests(false)", "PruneLayers()",
                  "PruneDirectory(manifestsPath)"]
CREATE_MODEL_CALLS = ["setTemplate(", "setSystem(", "setLicense(", "setParameters(", "setMessages(",
                      "createConfigLayer(", "WriteManifest("]
PRUNE_LAYERS_CALLS = ["os.ReadDir(", "strings.ReplaceAll(name, \"-\", \":\")", "GetBlobsPath(name)",
                      "ErrInvalidDigestFormat", "os.Remove(", "deleteMap[name]", "deleteUnusedLayers(deleteMap)"]


def _func_body(src, name):
    import re
    m = re.search(r"^func (?:\([^)]*\) )?" + re.escape(name) + r"\(.*?^}", src, flags=re.S | re.M)
    return m.group(0) if m else ""


def _order(body, calls):
    """the given call texts in the order of their FIRST occurrence in body (absent ones are dropped)"""
    found = [(body.find(c), c) for c in calls if body.find(c) >= 0]
    return [c for _, c in sorted(found)]


def _lean_list(xs):
    return "[" + ", ".join('"' + x.replace("\\", "\\\\").replace('"', '\\"') + '"' for x in xs) + "]"


def regenerate(ctx):
    """Tie 1: facts read from the source of the tree under test on every run, consumed by `decide` theorems in
    Tie/C04.lean: the digest pattern of GetBlobsPath, the startup sequence of Serve, the order in which PruneLayers
    classifies / removes, the order of the override steps in createModel and drop-before-store inside each."""
    import os
    import re

    def read(rel):
        try:
            return open(os.path.join(core.REPO, rel)).read()
        except OSError:
            return ""
    modelpath, routes, images, create = (read("server/modelpath.go"), read("server/routes.go"),
                                         read("server/images.go"), read("server/create.go"))
    m = re.search(r'pattern := "([^"]*)"', _func_body(modelpath, "GetBlobsPath"))
    pattern = m.group(1) if m else ""
    facts = {
        "serveCalls": _order(_func_body(routes, "Serve"), SERVE_SEQUENCE),
        "pruneLayersCalls": _order(_func_body(images, "PruneLayers"), PRUNE_LAYERS_CALLS),
        "createModelCalls": _order(_func_body(create, "createModel"), CREATE_MODEL_CALLS),
        "setTemplateOrder": _order(_func_body(create, "setTemplate"), ["removeLayer(", "template.Parse(", "NewLayer("]),
        "setSystemOrder": _order(_func_body(create, "setSystem"), ["removeLayer(", "NewLayer("]),
        "setParametersOrder": _order(_func_body(create, "setParameters"), ["removeLayer(", "NewLayer("]),
        "removeLayerCalls": _order(_func_body(create, "removeLayer"), ["kept[", "layer.Remove()"]),
    }
    body = ("-- REGENERATED on every run by vlib/checks/c04.py from the working tree under test. Do not edit.\n"
            "namespace OllamaVerif.Generated.C04\n"
            "/-- the regular expression of GetBlobsPath (server/modelpath.go) -/\n"
            f"def blobPattern : String := {_lean_list([pattern])[1:-1]}\n")
    # only what the machinery itself relies on becomes a proof obligation (the driver transcribes the startup
    # sequence; model and driver classify file names by this pattern); the other shape facts are recorded in the
    # evidence, not enforced: a refactor that keeps the behaviour must not fail the check (L1/L2 judge behaviour)
    for k in ("serveCalls",):
        body += f"def {k} : List String := {_lean_list(facts[k])}\n"
    # what GetBlobsPath DOES: the real function executed on one digest string of every class (behaviour, not syntax)
    table = []
    rc, out, outdir = ctx.go_test("./server/", OVERLAY, "^TestVerifC04Facts$", timeout=900)
    try:
        for line in open(os.path.join(outdir, "facts.txt")):
            f = line.rstrip("\n").split("\t")
            if len(f) == 3 and f[0] == "blobspath":
                table.append((f[1], f[2]))
    except OSError:
        pass
    body += ("/-- `GetBlobsPath` EXECUTED by this run's driver on one digest string of every class: the file name it "
             "answers, or `none` for an error -/\n"
             "def blobsPathTable : List (String × Option String) := ["
             + ", ".join("(%s, %s)" % (_lean_list([i])[1:-1], "none" if o == "ERR" else "some " + _lean_list([o])[1:-1])
                         for i, o in table) + "]\n")
    facts["blobsPathTable"] = [list(x) for x in table]
    body += "end OllamaVerif.Generated.C04\n"
    core.write_generated("OllamaVerif/Generated/C04_Source.lean", body)
    ctx.coverage["tie1_source_facts"] = dict(facts, blobPattern=pattern)


# finding id -> the flag of the model's variant that its repair switches on (probed on the real handlers)
REPAIR_FLAG = {"F16a": "fixAlias", "F16b": "fixResolve", "N1": "fixReturn", "N2": "fixKeep", "N3": "fixPullName",
               "N4": "fixFromResolve"}


def expected_fixed(ctx):
    """the repairs the tree under test MUST contain: every C04 finding recorded as `fixed` in KNOWN_FINDINGS.jsonl
    (a `known` finding may or may not be repaired in the tree: both variants are modelled)"""
    return sorted(REPAIR_FLAG[f["id"]] for f in ctx.findings
                  if f.get("property") == "C04" and f.get("status") == "fixed" and f.get("id") in REPAIR_FLAG)


def run(ctx):
    regenerate(ctx)
    if ctx.lean_check(MODULES, THEOREMS) is False:
        # banned construct / axiom or closure audit failed: never exit 0 on that
        ctx.violation("proof-obligation", "lean audit", "; ".join(ctx.notes)[:1500], no_input=True)
    import os
    must = expected_fixed(ctx)
    env = {"VERIF_N": ctx.scale(300, 3000), "VERIF_OPS": 40, "VERIF_C04_EXPECT_FIXED": ",".join(must),
           "VERIF_CORPUS": os.path.join(core.ROOT, "corpus", "C04")}
    if ctx.replay:
        env["VERIF_REPLAY"] = ctx.replay_line_file()
    rc, out, outdir = ctx.go_test("./server/", OVERLAY, "^TestVerifC04$", env=env, timeout=4000)
    if rc != 0:
        ctx.violation("driver-failed", "", out[-1500:], no_input=True)
    st = ctx.read_stats(outdir)
    if not ctx.replay:
        missing = [b for b in REQUIRED_BRANCHES if st.get(b, 0) == 0]
        ctx.coverage["model_branches_required"] = len(REQUIRED_BRANCHES)
        ctx.coverage["model_branches_reached"] = len(REQUIRED_BRANCHES) - len(missing)
        if missing and rc == 0:
            ctx.violation("correspondence-coverage", "",
                          "branches of the model never exercised by this run's histories: " + ", ".join(missing), no_input=True)
    ctx.coverage["variant_under_test"] = {k: bool(st.get("variant_" + k, 0)) for k in sorted(REPAIR_FLAG.values())}
    ctx.coverage["theorems_pinned_variant"] = ["OllamaVerif.C04." + t for t in PINNED_VARIANT]
    ctx.coverage["variant_expected_fixed"] = must   # a probe that disagrees is the L2 failure `variant-regressed`
    ctx.l1(outdir)
    ctx.classify(ctx.l2(outdir))
    ctx.assumptions += [
        "HashInj: the theorems assume a collision-free hash (false of SHA-256 in principle; the oracle runs the real SHA-256)",
        "PullOk: a registry manifest spells digests sha256:<hex> and states the true SIZE of every blob (PullModel never "
        "compares them; Lean witness pull_size_witness shows what a lying registry leaves) and has a decodable model layer (PullShowOk)",
        "LitterOk / LegacyOk: a file planted by other means under a blob name (sha256-<hex> or legacy sha256:<hex>) holds that content",
        "`create ... from` of a model that is not in the store (the pull inside parseFromModel) is the model function "
        "createFromPull (invariant + frame proved, L1 exact) but not an operation of `step`: the history theorems, in "
        "particular the case-twin ones, do not quantify over it (finding N4, fixed db13baf30: the FROM name is resolved first; residual: `create Foo from foo` with neither in the store pulls foo and then writes Foo — never generated)",
        "ModelKinds: `listed can be shown` is proved for worlds without adapter / projector GGUFs; with one, a create from "
        "files that hold nothing else is listed and show answers 404 (known finding N6, Lean witness N6_witness)",
        "GGUF decoding, template.Named and template.Parse are parameters of the model, fed per pool file / per request from the real functions",
        "valid name parts are ASCII, so the model's ASCII case folding agrees with strings.EqualFold",
        "outside the model: pull protocol (C03), resume of interrupted pulls, adapters/projectors, safetensors, quantize, "
        "directories inside blobs/, symlinks at manifest depth, case-insensitive file systems, concurrent requests (C15), crashes (C12)",
    ]
    if ctx.thorough:
        ctx.leanchecker(MODULES)
    return ctx.finish(
        level="proof",
        rule="directed histories + seeded random histories (<= 40 operations) of upload/create/copy/delete/startup "
             "prune over case-variant names, 2 hosts, 2 namespaces, 3 tags and a pool of 8 GGUF files; distinct = "
             "distinct (operation, observation) lines",
        explanation="Lean theorems about the store model; model tied to the real handlers by exact comparison of "
                    "result + listing + manifests + blob set after every operation (L1, membership where Go map "
                    "order is involved) and by evaluating the property on the real files (L2)")
