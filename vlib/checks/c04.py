"""C04 — every listed model is complete; operations on one model never damage another."""
from vlib import core
from vlib.registry import COMMON_NOTE

REGISTRATION = {
    "engine": "lean-store",
    "technique": "Lean 4 invariant proofs over an executable model of the model store + differential "
                 "correspondence against the real gin handlers on a scratch store",
    "category": "proof",
    "text": "Kernel-checked theorems over a Lean model of the blob/manifest store and of create, copy, delete, "
            "blob upload and the startup prune (all stores, all requests, all Go-map iteration orders): the "
            "completeness invariant and the frame property are preserved, startup prune leaves exactly the "
            "referenced blobs, case twins cannot appear from a consistently spelled store. The model is tied to "
            "the real handlers by running random operation histories through the real gin engine and comparing "
            "result, listing, manifests and blob set after every operation; the property is also evaluated "
            "directly on the files the real code leaves behind (re-hashing every blob).",
    "design_ref": "DESIGN.md §5 C04, §6 F16",
    "note": COMMON_NOTE + "Modelled, not verified: SHA-256 and GGUF decoding are uninterpreted parameters of the "
            "model (the oracle instantiates them with real SHA-256 and the metadata the real decoder reported); "
            "template validity is an input flag; pull, safetensors conversion, quantization, adapters, licenses "
            "and messages are outside the model; the startup sequence of Serve is transcribed in the driver "
            "(fixBlobs, Manifests(false) gate, PruneLayers, PruneDirectory) and checked textually against "
            "routes.go on every run; a case-sensitive file system is assumed.",
}

MODULES = ["OllamaVerif.Properties.C04", "OllamaVerif.Proofs.Store", "OllamaVerif.Model.Store", "OllamaVerif.Tie.C04"]
THEOREMS = [
    # pinned tree (guards)
    "OllamaVerif.C04.op_preserves_NameInv",
    "OllamaVerif.C04.op_frame",
    "OllamaVerif.C04.history_preserves_Inv",
    "OllamaVerif.C04.prune_exact",
    "OllamaVerif.C04.no_case_twins_partial",
    "OllamaVerif.C04.reachable_no_twins",
    # repaired variants (no guards)
    "OllamaVerif.C04.op_preserves_NameInv_fixed",
    "OllamaVerif.C04.op_frame_fixed",
    "OllamaVerif.C04.history_preserves_Inv_fixed",
    "OllamaVerif.C04.prune_exact_fixed",
    "OllamaVerif.C04.prune_skipped",
    "OllamaVerif.C04.prune_classes_witness",
    "OllamaVerif.C04.no_new_case_twins_fixed",
    "OllamaVerif.C04.no_case_twins_fixed",
    "OllamaVerif.C04.reachable_no_twins_fixed",
    "OllamaVerif.C04.failed_create_changes_nothing_fixed",
    "OllamaVerif.C04.op_preserves_NameInv_fixedAlias",
    # the guard about auto-detected layers (N2): met by every `from` create, void once N2 is repaired, decidable
    "OllamaVerif.C04.apartOp_of_from",
    "OllamaVerif.C04.apartOp_of_fixKeep",
    "OllamaVerif.C04.runGuard_of_B",
    # witnesses (pinned defects; the same histories with the repairs in)
    "OllamaVerif.C04.F16a_delete_witness",
    "OllamaVerif.C04.F16a_breaks_NameInv",
    "OllamaVerif.C04.F16a_prune_witness",
    "OllamaVerif.C04.F16b_twin_witness",
    "OllamaVerif.C04.F16b_breaks_NoTwins",
    "OllamaVerif.C04.N1_create_continues_witness",
    "OllamaVerif.C04.N2_witness",
    "OllamaVerif.C04.N2_breaks_NameInv",
    "OllamaVerif.C04.auto_template_override_ok",
    "OllamaVerif.C04.F16a_repaired_witness",
    "OllamaVerif.C04.F16b_repaired_witness",
    "OllamaVerif.C04.N1_repaired_witness",
    "OllamaVerif.C04.wEnv_inj",
    # Tie 1: facts regenerated from the source of the tree under test
    "OllamaVerif.Tie.C04.blob_pattern",
    "OllamaVerif.Tie.C04.serve_startup_sequence",
]
OVERLAY = {"server/zz_verif_c04_test.go": "server/zz_verif_c04_test.go"}


SERVE_SEQUENCE = ["fixBlobs(blobsDir)", "envconfig.NoPrune()", "Manifests(false)", "PruneLayers()",
                  "PruneDirectory(manifestsPath)"]
CREATE_MODEL_CALLS = ["setTemplate(", "setSystem(", "setLicense(", "setParameters(", "setMessages(",
                      "createConfigLayer(", "WriteManifest("]
PRUNE_LAYERS_CALLS = ["os.ReadDir(", "strings.ReplaceAll(name, \"-\", \":\")", "GetBlobsPath(name)",
                      "ErrInvalidDigestFormat", "os.Remove(", "deleteMap[name]", "deleteUnusedLayers(deleteMap)"]


def _func_body(src, name):
    import re
    m = re.search(r"^func (?:\([^)]*\) )?" + re.escape(name) + r"\(.*?^}", src, flags=re.S | re.M)
    return m.group(0) if m else ""


def _order(body, calls):
    """the given call texts in the order of their FIRST occurrence in body (absent ones are dropped)"""
    found = [(body.find(c), c) for c in calls if body.find(c) >= 0]
    return [c for _, c in sorted(found)]


def _lean_list(xs):
    return "[" + ", ".join('"' + x.replace("\\", "\\\\").replace('"', '\\"') + '"' for x in xs) + "]"


def regenerate(ctx):
    """Tie 1: facts read from the source of the tree under test on every run, consumed by `decide` theorems in
    Tie/C04.lean: the digest pattern of GetBlobsPath, the startup sequence of Serve, the order in which PruneLayers
    classifies / removes, the order of the override steps in createModel and drop-before-store inside each."""
    import os
    import re

    def read(rel):
        try:
            return open(os.path.join(core.REPO, rel)).read()
        except OSError:
            return ""
    modelpath, routes, images, create = (read("server/modelpath.go"), read("server/routes.go"),
                                         read("server/images.go"), read("server/create.go"))
    m = re.search(r'pattern := "([^"]*)"', _func_body(modelpath, "GetBlobsPath"))
    pattern = m.group(1) if m else ""
    facts = {
        "serveCalls": _order(_func_body(routes, "Serve"), SERVE_SEQUENCE),
        "pruneLayersCalls": _order(_func_body(images, "PruneLayers"), PRUNE_LAYERS_CALLS),
        "createModelCalls": _order(_func_body(create, "createModel"), CREATE_MODEL_CALLS),
        "setTemplateOrder": _order(_func_body(create, "setTemplate"), ["removeLayer(", "template.Parse(", "NewLayer("]),
        "setSystemOrder": _order(_func_body(create, "setSystem"), ["removeLayer(", "NewLayer("]),
        "setParametersOrder": _order(_func_body(create, "setParameters"), ["removeLayer(", "NewLayer("]),
        "removeLayerCalls": _order(_func_body(create, "removeLayer"), ["kept[", "layer.Remove()"]),
    }
    body = ("-- REGENERATED on every run by vlib/checks/c04.py from the working tree under test. Do not edit.\n"
            "namespace OllamaVerif.Generated.C04\n"
            "/-- the regular expression of GetBlobsPath (server/modelpath.go) -/\n"
            f"def blobPattern : String := {_lean_list([pattern])[1:-1]}\n")
    # only what the machinery itself relies on becomes a proof obligation (the driver transcribes the startup
    # sequence; model and driver classify file names by this pattern); the other shape facts are recorded in the
    # evidence, not enforced: a refactor that keeps the behaviour must not fail the check (L1/L2 judge behaviour)
    for k in ("serveCalls",):
        body += f"def {k} : List String := {_lean_list(facts[k])}\n"
    body += "end OllamaVerif.Generated.C04\n"
    core.write_generated("OllamaVerif/Generated/C04_Source.lean", body)
    ctx.coverage["tie1_source_facts"] = dict(facts, blobPattern=pattern)


def run(ctx):
    regenerate(ctx)
    ctx.lean_check(MODULES, THEOREMS)
    import os
    env = {"VERIF_N": ctx.scale(300, 5000), "VERIF_OPS": 40,
           "VERIF_CORPUS": os.path.join(core.ROOT, "corpus", "C04")}
    if ctx.replay:
        env["VERIF_REPLAY"] = ctx.replay_line_file()
    rc, out, outdir = ctx.go_test("./server/", OVERLAY, "^TestVerifC04$", env=env, timeout=1500)
    if rc != 0:
        ctx.violation("driver-failed", "", out[-1500:], no_input=True)
    st = ctx.read_stats(outdir)
    ctx.coverage["variant_under_test"] = {k: bool(st.get("variant_" + k, 0)) for k in ("fixAlias", "fixResolve", "fixReturn", "fixKeep")}
    ctx.l1(outdir)
    ctx.classify(ctx.l2(outdir))
    if ctx.thorough:
        ctx.leanchecker(MODULES)
    return ctx.finish(
        level="proof",
        rule="directed histories + seeded random histories (<= 40 operations) of upload/create/copy/delete/startup "
             "prune over case-variant names, 2 hosts, 2 namespaces, 3 tags and a pool of 8 GGUF files; distinct = "
             "distinct (operation, observation) lines",
        explanation="Lean theorems about the store model; model tied to the real handlers by exact comparison of "
                    "result + listing + manifests + blob set after every operation (L1, membership where Go map "
                    "order is involved) and by evaluating the property on the real files (L2)")
