"""C04 — every listed model is complete; operations on one model never damage another."""
from vlib import core
from vlib.registry import COMMON_NOTE

REGISTRATION = {
    "engine": "lean-store",
    "technique": "Lean 4 invariant proofs over an executable model of the model store + differential "
                 "correspondence against the real gin handlers on a scratch store",
    "category": "proof",
    "text": "Kernel-checked theorems over a Lean model of the blob/manifest store and of create, copy, delete, "
            "blob upload and the startup prune (all stores, all requests, all Go-map iteration orders): the "
            "completeness invariant and the frame property are preserved, startup prune leaves exactly the "
            "referenced blobs, case twins cannot appear from a consistently spelled store. The model is tied to "
            "the real handlers by running random operation histories through the real gin engine and comparing "
            "result, listing, manifests and blob set after every operation; the property is also evaluated "
            "directly on the files the real code leaves behind (re-hashing every blob).",
    "design_ref": "DESIGN.md §5 C04, §6 F16",
    "note": COMMON_NOTE + "Modelled, not verified: SHA-256 and GGUF decoding are uninterpreted parameters of the "
            "model (the oracle instantiates them with real SHA-256 and the metadata the real decoder reported); "
            "template validity is an input flag; pull, safetensors conversion, quantization, adapters, licenses "
            "and messages are outside the model; the startup sequence of Serve is transcribed in the driver "
            "(fixBlobs, Manifests(false) gate, PruneLayers, PruneDirectory) and checked textually against "
            "routes.go on every run; a case-sensitive file system is assumed.",
}

MODULES = ["OllamaVerif.Properties.C04", "OllamaVerif.Proofs.Store", "OllamaVerif.Model.Store"]
THEOREMS = [
    # pinned tree (guards)
    "OllamaVerif.C04.op_preserves_NameInv",
    "OllamaVerif.C04.op_frame",
    "OllamaVerif.C04.history_preserves_Inv",
    "OllamaVerif.C04.prune_exact",
    "OllamaVerif.C04.no_case_twins_partial",
    "OllamaVerif.C04.reachable_no_twins",
    # repaired variants (no guards)
    "OllamaVerif.C04.op_preserves_NameInv_fixed",
    "OllamaVerif.C04.op_frame_fixed",
    "OllamaVerif.C04.history_preserves_Inv_fixed",
    "OllamaVerif.C04.prune_exact_fixed",
    "OllamaVerif.C04.no_new_case_twins_fixed",
    "OllamaVerif.C04.no_case_twins_fixed",
    "OllamaVerif.C04.reachable_no_twins_fixed",
    "OllamaVerif.C04.failed_create_changes_nothing_fixed",
    "OllamaVerif.C04.op_preserves_NameInv_fixedAlias",
    # the guard about auto-detected layers (N2): met by every `from` create, void once N2 is repaired, decidable
    "OllamaVerif.C04.apartOp_of_from",
    "OllamaVerif.C04.apartOp_of_fixKeep",
    "OllamaVerif.C04.runGuard_of_B",
    # witnesses (pinned defects; the same histories with the repairs in)
    "OllamaVerif.C04.F16a_delete_witness",
    "OllamaVerif.C04.F16a_breaks_NameInv",
    "OllamaVerif.C04.F16a_prune_witness",
    "OllamaVerif.C04.F16b_twin_witness",
    "OllamaVerif.C04.F16b_breaks_NoTwins",
    "OllamaVerif.C04.N1_create_continues_witness",
    "OllamaVerif.C04.N2_witness",
    "OllamaVerif.C04.N2_breaks_NameInv",
    "OllamaVerif.C04.auto_template_override_ok",
    "OllamaVerif.C04.F16a_repaired_witness",
    "OllamaVerif.C04.F16b_repaired_witness",
    "OllamaVerif.C04.N1_repaired_witness",
    "OllamaVerif.C04.wEnv_inj",
]
OVERLAY = {"server/zz_verif_c04_test.go": "server/zz_verif_c04_test.go"}


SERVE_SEQUENCE = ["fixBlobs(blobsDir)", "envconfig.NoPrune()", "Manifests(false)", "PruneLayers()",
                  "PruneDirectory(manifestsPath)"]


def serve_sequence_tie(ctx):
    """Tie 1 (textual): the driver's `prune` operation transcribes the startup sequence of Serve; check that
    routes.go still performs exactly these calls in this order before it starts serving."""
    import os
    import re
    try:
        src = open(os.path.join(core.REPO, "server", "routes.go")).read()
    except OSError as e:
        ctx.violation("serve-sequence", "", f"cannot read routes.go: {e}", no_input=True)
        return
    m = re.search(r"^func Serve\(.*?^}", src, flags=re.S | re.M)
    body = m.group(0) if m else ""
    pos = -1
    for call in SERVE_SEQUENCE:
        nxt = body.find(call, pos + 1)
        if nxt < 0:
            ctx.violation("serve-sequence", "", f"Serve no longer contains `{call}` after the previous startup "
                          f"call; the driver's transcription of the startup prune is stale", no_input=True)
            return
        pos = nxt
    ctx.coverage["serve_sequence_tie"] = "ok: " + " -> ".join(SERVE_SEQUENCE)


def run(ctx):
    serve_sequence_tie(ctx)
    ctx.lean_check(MODULES, THEOREMS)
    import os
    env = {"VERIF_N": ctx.scale(300, 5000), "VERIF_OPS": 40,
           "VERIF_CORPUS": os.path.join(core.ROOT, "corpus", "C04")}
    if ctx.replay:
        env["VERIF_REPLAY"] = ctx.replay_line_file()
    rc, out, outdir = ctx.go_test("./server/", OVERLAY, "^TestVerifC04$", env=env, timeout=1500)
    if rc != 0:
        ctx.violation("driver-failed", "", out[-1500:], no_input=True)
    st = ctx.read_stats(outdir)
    ctx.coverage["variant_under_test"] = {k: bool(st.get("variant_" + k, 0)) for k in ("fixAlias", "fixResolve", "fixReturn", "fixKeep")}
    ctx.l1(outdir)
    ctx.classify(ctx.l2(outdir))
    if ctx.thorough:
        ctx.leanchecker(MODULES)
    return ctx.finish(
        level="proof",
        rule="directed histories + seeded random histories (<= 40 operations) of upload/create/copy/delete/startup "
             "prune over case-variant names, 2 hosts, 2 namespaces, 3 tags and a pool of 8 GGUF files; distinct = "
             "distinct (operation, observation) lines",
        explanation="Lean theorems about the store model; model tied to the real handlers by exact comparison of "
                    "result + listing + manifests + blob set after every operation (L1, membership where Go map "
                    "order is involved) and by evaluating the property on the real files (L2)")
