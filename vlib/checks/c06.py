"""C06 — KV cache exposes exactly the causal history of each sequence."""
import os

from vlib import core
from vlib.registry import COMMON_NOTE

# model variant the oracle is asked for: bit 1 = F14 repaired (defrag coalescing), bit 2 = F15b
# repaired (CanResume coverage check), bit 4 = F23 repaired (defrag with no layers).  0 = pinned tree.
VARIANT = int(os.environ.get("VERIF_C06_VARIANT", "31"))  # bits: 1 = F14 fixed (37fec0de7), 2 = F15b fixed (86ff119f0), 4 = F23 (84b6c6966), 8 = SWA capacity (cfec8e229), 16 = F28 atomic Remove (524980fd8)

REGISTRATION = {
    "engine": "lean-kvcache",
    "technique": "Lean 4 refinement proof (cell/row model -> location-free spec) + differential correspondence "
                 "on the real kvcache.Causal / WrapperCache / EncoderCache with an identity-carrying fake backend + "
                 "decision tables regenerated from the tree",
    "category": "proof",
    "text": "Kernel-checked theorems over an executable Lean model of kvcache.Causal (cells, cellRanges, rows). "
            "The property itself is history_exposes_spec_total (repaired tree = /repo, NO guard: rejected batches and refused "
            "removals included; the spec is told the cache's answers: rejected batch = eviction only, refused Remove = no-op) "
            "and history_exposes_spec: from any configuration, after any history of ACCEPTED operations "
            "(stores with any placement, window eviction, defrag-and-retry, CopyPrefix, Remove with shift, SetCausal, reserve "
            "passes), every token of the next accepted batch is shown exactly (multiset of position, data identity, shift) the "
            "entries the location-free specification computes for that history plus the batch, filtered by sequence, position "
            "<= own and window (composition of refines_all_histories: abs(state) ~ runSpec, with forward_exposes_all_histories). "
            "Lemmas: refines_step / refines_run (every accepted op changes the abstract state as the spec prescribes), "
            "defrag_abs_perm (repaired defrag only relocates; loop invariant over deferred block copies), defragCore_compact + "
            "full_only_without_room (ErrKvCacheFull only with fewer free cells than tokens), rejected_forward_abs, "
            "forward_abs_perm (placement only uses unowned cells), mask_exact* (the mask agrees with the cell metadata and the "
            "padded range covers the sequence; with SetCausal/Except: mask_exact_pass), reserve_mask_exact, canResume_sound / "
            "canResume_sound_on_contract / approved_resume_on_contract (repaired CanResume approves only complete windows; along "
            "contract-keeping histories with no hypothesis on the state; the resumed token is then shown every position of its "
            "window), posBound_run, inv_run. WrapperCache: wrapper_forward_refines, wrapper_copyPrefix_abs, wrapper_remove_ok_refines, "
            "wrapper_rejected_batch_spec (a rejected wrapped batch leaves every wrapped cache's abstract state = before minus "
            "eviction), wrapper_mask_exact; EncoderCache: encoder_cached_exact. The pinned Remove left a half-done removal when it "
            "refused (finding F28, fixed 524980fd8; witnesses F28_*; refused_remove_then_clear for the pinned code; the repaired "
            "Remove is proved atomic, removeV_error_unchanged); windowed caches refine a spec that contains the eviction (F15 known). "
            "Tie: decision tables regenerated from the tree on every run (mask bit, eviction threshold, Remove outcome, CopyPrefix "
            "owners, StartForward placement over all 5-cell occupancy patterns, CanResume over every subset of held positions) consumed "
            "by Tie/C06.lean with decide, and the probed variant pinned (variant_is_all_fixed); model = code "
            "on thousands of generated histories per run (exposed entries + data per batch token, abstraction and exact "
            "cell/row/range layout after every operation), and the property evaluated on the real cache against a pure-Go "
            "shadow specification (mask through Cache.Get, K and V rows of every layer); required-branch coverage fails closed.",
    "design_ref": "DESIGN.md §5 C06",
    "note": COMMON_NOTE + "Modelled, not verified: int32 position arithmetic as unbounded Int (positions far from "
            "2^31), data movement applied at once in the model (the driver's backend defers every Copy to ctx.Compute in Forward order, so "
            "a forgotten Forward/Compute shows up as an L1/L2 failure), all layers Put on every pass (one "
            "abstract row array; the driver compares every layer), the cached curMask between passes (SetCausal is observed "
            "only inside an accepted pass). Theorems about defrag / refinement are for the repaired coalescing (fixDefrag, "
            "in the tree; F14 witness shows the pinned one is wrong). canResume_sound assumes the sequence holds no position "
            "twice; canResume_sound_on_contract discharges that for every history that keeps the contract (batches bring new, distinct "
            "positions for their sequences; removals go to the end). The model variant (which repairs the tree carries: F14, F15b, F23, SWA capacity, "
            "F28 atomic Remove) is probed from the real code on every run; the F14/F15b/F23 witnesses are historical "
            "(fixed in /repo), F15, F28 and F3 are live. WrapperCache.Remove stops at the first failing wrapped cache after "
            "earlier ones succeeded (finding F29, known, by contract: wrapper.go / cache.go oblige the caller to clear the sequence with "
            "Remove(seq, 0, MaxInt32) after an error, and the runner does; patch proposed, not applied). The WrapperCache theorems are "
            "therefore under that guard: wrapper_forward_refines / wrapper_rejected_batch_spec speak about StartForward, the no-guard "
            "refinement (history_exposes_spec_total) is for a single Causal; F29_wrapper_remove_half_done is the witness, "
            "wRemoveV_error_unchanged the statement for the proposed repair, and wrapper_remove_then_clear the contract as a theorem: "
            "whatever WrapperCache.Remove answered, the prescribed recovery cannot fail and leaves every wrapped cache exactly as a "
            "plain clear of the sequence would.",
}

MODULES = ["OllamaVerif.Properties.C06", "OllamaVerif.Tie.C06"]
THEOREMS = [
    "OllamaVerif.C06.history_exposes_spec_total",
    "OllamaVerif.C06.refines_run_total",
    "OllamaVerif.C06.refines_step_total",
    "OllamaVerif.C06.refines_total_nonvacuous",
    "OllamaVerif.C06.specStepT_perm",
    "OllamaVerif.C06.window_exact_on_contract",
    "OllamaVerif.C06.visible_complete_eq",
    "OllamaVerif.C06.subQ_runT",
    "OllamaVerif.C06.nonNegS_runT",
    "OllamaVerif.C06.window_contract_nonvacuous",
    "OllamaVerif.C06.window_exact_append_only",
    "OllamaVerif.C06.window_exact_append_only_ops",
    "OllamaVerif.C06.runS_visible_eq_runI",
    "OllamaVerif.C06.specSlide_invisible_of_le",
    "OllamaVerif.C06.window_exact_nonvacuous",
    "OllamaVerif.C06.startForward_not_ok_abs",
    "OllamaVerif.C06.history_exposes_spec",
    "OllamaVerif.C06.refines_all_histories",
    "OllamaVerif.C06.forward_exposes_all_histories",
    "OllamaVerif.C06.refines_run",
    "OllamaVerif.C06.refines_step",
    "OllamaVerif.C06.refines_nonvacuous",
    "OllamaVerif.C06.mask_exact",
    "OllamaVerif.C06.mask_exact_all_histories",
    "OllamaVerif.C06.mask_exact_pass",
    "OllamaVerif.C06.mask_exact_plain_after_reset",
    "OllamaVerif.C06.mask_exact_except_of_covers",
    "OllamaVerif.C06.startForward_except",
    "OllamaVerif.C06.setCausal_covers",
    "OllamaVerif.C06.visE_false",
    "OllamaVerif.C06.forward_exposes_stored_history",
    "OllamaVerif.C06.forward_exposes_stored_history_defrag",
    "OllamaVerif.C06.defrag_abs_perm",
    "OllamaVerif.C06.placeBase_abs_perm",
    "OllamaVerif.Causal.defragCore_perm",
    "OllamaVerif.Causal.defragCore_compact",
    "OllamaVerif.Causal.defragCore_freeCount",
    "OllamaVerif.Causal.findStart_compact_none",
    "OllamaVerif.C06.full_only_without_room",
    "OllamaVerif.C06.full_only_over_capacity",
    "OllamaVerif.C06.posBound_run",
    "OllamaVerif.C06.posBoundS_specStepT",
    "OllamaVerif.C06.freshEmpty_run",
    "OllamaVerif.C06.rejected_forward_abs",
    "OllamaVerif.C06.specStep_perm",
    "OllamaVerif.C06.rowsFresh_run",
    "OllamaVerif.C06.defrag_abs_perm_layers",
    "OllamaVerif.Causal.defragCore_rows_sub",
    "OllamaVerif.C06.startForward_unwind_abs_pre",
    "OllamaVerif.C06.wrapper_rejected_batch_spec",
    "OllamaVerif.C06.wrapper_forward_refines",
    "OllamaVerif.C06.wrapper_reserve_mask_exact",
    "OllamaVerif.C06.placeBase_shrunk",
    "OllamaVerif.C06.removeV_error_unchanged",
    "OllamaVerif.C06.wRemoveV_error_unchanged",
    "OllamaVerif.C06.wrapper_remove_then_clear",
    "OllamaVerif.C06.wrapper_remove_ok_refines",
    "OllamaVerif.C06.wrapper_copyPrefix_abs",
    "OllamaVerif.C06.wrapper_setCausal_abs",
    "OllamaVerif.C06.wrapper_canResume_sound",
    "OllamaVerif.C06.remove_then_clear",
    "OllamaVerif.C06.specRemove_then_clear",
    "OllamaVerif.C06.wrapper_clear_nonvacuous",
    "OllamaVerif.C06.F29_wrapper_remove_half_done",
    "OllamaVerif.C06.remove_ok_of_guard_none",
    "OllamaVerif.C06.removeV_ok_eq",
    "OllamaVerif.C06.removeV_inv",
    "OllamaVerif.C06.refused_remove_then_clear",
    "OllamaVerif.C06.F28_refused_remove_shared",
    "OllamaVerif.C06.F28_refused_remove_notsup",
    "OllamaVerif.C06.canResume_sound",
    "OllamaVerif.C06.canResume_sound_on_contract",
    "OllamaVerif.C06.approved_resume_sees_complete_window",
    "OllamaVerif.C06.approved_resume_on_contract",
    "OllamaVerif.C06.mem_abs_remove_inf",
    "OllamaVerif.C06.nodupPos_runT",
    "OllamaVerif.C06.nodupPos_specStepT",
    "OllamaVerif.C06.canResume_contract_nonvacuous",
    "OllamaVerif.C06.window_present",
    "OllamaVerif.C06.pigeon",
    "OllamaVerif.C06.reserve_state",
    "OllamaVerif.C06.reserve_inv",
    "OllamaVerif.C06.reserve_covers",
    "OllamaVerif.C06.reserve_mask_exact",
    "OllamaVerif.Tie.C06.variant_is_all_fixed",
    "OllamaVerif.Tie.C06.mask_table",
    "OllamaVerif.Tie.C06.evict_table",
    "OllamaVerif.Tie.C06.remove_table",
    "OllamaVerif.Tie.C06.copy_table",
    "OllamaVerif.Tie.C06.place_table",
    "OllamaVerif.Tie.C06.resume_table",
    "OllamaVerif.Tie.C06.encoder_table",
    "OllamaVerif.C06.startForward_put_abs_perm",
    "OllamaVerif.C06.forward_abs_perm",
    "OllamaVerif.C06.slideSeq_abs",
    "OllamaVerif.C06.slide_abs",
    "OllamaVerif.C06.evict_invisible",
    "OllamaVerif.C06.specSlide_invisible",
    "OllamaVerif.C06.encoder_cached_exact",
    "OllamaVerif.C06.swa_capacity_variants",
    "OllamaVerif.C06.inv_run",
    "OllamaVerif.C06.startForward_inv",
    "OllamaVerif.C06.wrapper_mask_exact",
    "OllamaVerif.C06.wrapper_rejected_batch_leaves_history",
    "OllamaVerif.C06.startForward_unwind_abs",
    "OllamaVerif.C06.unwind_finishForward_abs",
    "OllamaVerif.C06.wStart_ok",
    "OllamaVerif.C06.wStart_full",
    "OllamaVerif.C06.mask_exact_of_covers",
    "OllamaVerif.C06.startForward_covers",
    "OllamaVerif.C06.inv_init",
    "OllamaVerif.C06.inv_defrag",
    "OllamaVerif.C06.copyPrefix_abs",
    "OllamaVerif.C06.remove_abs",
    "OllamaVerif.C06.findStart_fits",
    "OllamaVerif.C06.F14_defrag_swaps_rows",
    "OllamaVerif.C06.F15_window_entry_missing",
    "OllamaVerif.C06.F15b_canResume_unsound",
    "OllamaVerif.C06.F23_defrag_without_layers",
    "OllamaVerif.C06.F3_remove_minus_one_is_not_infinity",
]
OVERLAY = {"kvcache/zz_verif_c06_test.go": "kvcache/zz_verif_c06_test.go",
           "kvcache/zz_verif_c06_tables_test.go": "kvcache/zz_verif_c06_tables_test.go"}


def matcher(finding, failure):
    return core.default_matcher(finding, failure)


BIT_NAMES = {1: "F14 (defrag coalescing)", 2: "F15b (CanResume coverage)", 4: "F23 (defrag without layers)",
             8: "C07 F-SWA-capacity (sliding-window cache sized per sequence)",
             16: "F28 (Remove leaves the cache unchanged when it returns an error)",
             32: "F29 (WrapperCache.Remove asks every wrapped cache before changing any)"}


def lean_tables(lines, variant):
    """tables.txt (written by TestVerifC06Tables: the real code executed over small finite domains) ->
    Generated/C06_Tables.lean"""
    rows = {"mask": [], "evict": [], "remove": [], "copy": [], "place": [], "resume": [], "encoder": []}
    for ln in lines:
        kind, _, rest = ln.strip().partition(" ")
        if kind not in rows:
            continue
        if kind in ("copy", "place", "resume"):
            lst = rest[rest.index("["):rest.index("]") + 1]
            f = (rest[:rest.index("[")] + " @ " + rest[rest.index("]") + 1:]).split()
            f = [lst if x == "@" else x for x in f]
        else:
            f = rest.split()
        f = [("(" + x + ")") if x.startswith("-") else x for x in f]
        rows[kind].append("(" + ", ".join(f) + ")")

    def lst(name, ty, doc):
        body = ",\n  ".join(rows[name])
        return f"/-- {doc} -/\ndef {name}Rows : List ({ty}) := [\n  {body}]\n"

    return ("-- GENERATED by vlib/checks/c06.py from the tree under test (TestVerifC06Tables); do not edit\n"
            "namespace OllamaVerif.Generated.C06\n\n"
            f"/-- model variant bits probed from the tree (1 F14, 2 F15b, 4 F23, 8 SWA capacity per sequence, 16 F28 atomic Remove, 32 F29 atomic WrapperCache.Remove) -/\n"
            f"def variantBits : Nat := {variant}\n\n"
            + lst("mask", "Nat × Bool × Bool × Int × Int × Bool",
                  "window (0 = none), the cell is owned by the query's sequence, causal test enabled, cell position, "
                  "query position ↦ mask element is 0 (exposed)")
            + lst("evict", "Nat × Int × Int × Bool",
                  "window, cell position, position of the one-token batch of the same sequence ↦ the cell was evicted")
            + lst("remove", "Int × Int × Int × Bool × Nat × Int",
                  "Remove(0, begin, end (−1 = MaxInt32)) on one cell at the position, shared with another sequence ↦ "
                  "outcome (0 keep, 1 drop, 2 refuse, 3 shift), position afterwards")
            + lst("copy", "Int × Int × Bool × Bool × List Nat",
                  "CopyPrefix(0, 1, len) on one cell at the position owned by src / dst (neither: by sequence 2) ↦ owners afterwards")
            + lst("place", "List Bool × Nat × Nat",
                  "occupancy of 5 cells, batch size ↦ curLoc of the accepted batch, 100 = ErrKvCacheFull, 101 = panic")
            + lst("resume", "Nat × List Bool × Int × Bool",
                  "window, which of the positions 0..4 sequence 0 holds (cell i = position i), queried position ↦ CanResume")
            + lst("encoder", "Bool × Int × Int × Int × Bool",
                  "EncoderCache: reserve pass, position of the stored encoder output, Remove(0, begin, end (−1 = MaxInt32)) ↦ EncoderCached()")
            + "\nend OllamaVerif.Generated.C06\n")


def probe_variant(ctx):
    """Tie 1: run the real code on the three witness histories and derive which repairs the tree
    carries; the oracle is asked for exactly that model variant.  An explicit VERIF_C06_VARIANT wins.
    The same `go test` run executes the real code over the finite domains of the cell-level decisions
    (tables.txt -> Generated/C06_Tables.lean, consumed by Tie/C06.lean with `decide`)."""
    rc, out, outdir = ctx.go_test("./kvcache/", OVERLAY, "^TestVerifC06(Probe|Tables)$")
    try:
        variant, how = int(open(os.path.join(outdir, "variant.txt")).read().strip()), "probed"
    except Exception:
        # fail closed: a tree that could not be probed must not be checked against an assumed model
        ctx.violation("driver-failed", "variant probe", "TestVerifC06Probe wrote no variant.txt; go test said: " + out[-1200:],
                      no_input=True)
        variant, how = VARIANT, "constant"
    if rc != 0:
        ctx.violation("driver-failed", "variant probe / tables", f"go test exit {rc}: " + out[-1200:], no_input=True)
    ctx.witness = {}
    try:
        for ln in open(os.path.join(outdir, "witness.txt")).read().splitlines():
            b, _, line = ln.partition("\t")
            ctx.witness[int(b)] = line
    except Exception:
        pass
    if "VERIF_C06_VARIANT" in os.environ:
        variant, how = VARIANT, "env"
        ctx.assumptions.append(f"model variant {variant} forced by VERIF_C06_VARIANT (the probe of the tree was overridden)")
    try:
        lines = open(os.path.join(outdir, "tables.txt")).read().splitlines()
        core.write_generated("OllamaVerif/Generated/C06_Tables.lean", lean_tables(lines, variant))
        ctx.coverage["tie_table_rows"] = len(lines)
    except Exception as ex:
        ctx.violation("tie-tables-missing", "", f"TestVerifC06Tables produced no tables.txt ({ex}); go test said: {out[-800:]}",
                      no_input=True)
    return variant, how


# Branches of the model the theorems talk about; each must have been taken by the REAL code in this run
# (counters printed by the driver into stats.txt), otherwise exact L1 agreement says nothing about it and the
# check fails closed (`correspondence-coverage`).
REQUIRED_COUNTERS = [
    # generators / configurations
    "gen_valid", "gen_defrag", "gen_wild", "corpus_histories", "exhaustive_histories", "wrapper_histories", "encoder_histories",
    "cfg_windowed", "cfg_cache_padding", "cfg_batch_padding", "cfg_permuted_v", "cfg_no_shiftfn", "cfg_sparse_layer_numbers",
    # StartForward: direct fit, defrag-and-retry accepted / rejected, full error, window eviction
    "fwd_ok_without_moves", "fwd_ok_after_defrag_moves", "fwd_rejected_after_defrag_moves", "fwd_rejected_without_moves",
    "fwd_err_full", "fwd_with_window_eviction", "histories_with_defrag", "defrag_row_moves", "defrag_multirow_moves",
    # Remove / CopyPrefix / CanResume / SetCausal / reserve
    "remove_ok_to_end", "remove_ok_with_shift", "remove_err:shared", "remove_err:notsup",
    "copyprefix_ops", "copyprefix_left_shared_cells", "canresume_true", "canresume_false", "setcausal_judged",
    "reserve_passes_observed", "reserve_passes_before_first_put",
    # WrapperCache: rejected by the first cache (nothing to unwind) and by the second (unwind)
    "wrapper_fwd_rejected_by_cache_0", "wrapper_fwd_rejected_by_cache_1", "wrapper_unwinds",
    # WrapperCache.Remove refused by the first / by a later wrapped cache (F29's situation)
    "wrapper_remove_refused_by_cache_0", "wrapper_remove_refused_by_cache_1",
]


def coverage_required(ctx):
    missing = [c for c in REQUIRED_COUNTERS if not ctx.stats.get(c)]
    ctx.coverage["model_branches_required"] = len(REQUIRED_COUNTERS)
    ctx.coverage["model_branches_missing"] = missing
    # floors on the share of the run the property monitors actually judge (L1 is exact regardless)
    st = ctx.stats
    gen = st.get("gen_valid", 0) + st.get("gen_defrag", 0) + st.get("gen_wild", 0)
    floors = {
        "histories_off_contract_share": (st.get("histories_off_contract", 0) / max(1, gen), "<=", 0.15),
        "tokens_judged_share": (st.get("tokens_judged", 0) / max(1, st.get("tokens_observed", 0)), ">=", 0.70),
        "window_misuse_skip_share": (st.get("l2_skip_window_misuse", 0) / max(1, st.get("tokens_judged", 0)), "<=", 0.02),
    }
    ctx.coverage["l2_floors"] = {k: round(v[0], 4) for k, v in floors.items()}
    bad = [f"{k}={v[0]:.3f} (must be {v[1]} {v[2]})" for k, v in floors.items()
           if (v[1] == "<=" and v[0] > v[2]) or (v[1] == ">=" and v[0] < v[2])]
    if bad:
        ctx.violation("correspondence-coverage", "", "the property monitors judge too small a share of the run: " + ", ".join(bad),
                      no_input=True)
    if missing:
        ctx.violation("correspondence-coverage", "", "branches of the model never exercised on the real code in this run: "
                      + ", ".join(missing), no_input=True)


def source_hashes():
    """sha256 of the anchored sources and of this check's own driver files (recorded in the evidence)"""
    import hashlib
    out = {}
    for f in ("kvcache/causal.go", "kvcache/wrapper.go", "kvcache/encoder.go", "kvcache/cache.go"):
        try:
            out[f] = hashlib.sha256(open(os.path.join(core.REPO, f), "rb").read()).hexdigest()[:16]
        except OSError:
            out[f] = "missing"
    for f in ("harness/overlay/kvcache/zz_verif_c06_test.go", "harness/overlay/kvcache/zz_verif_c06_tables_test.go",
              "vlib/checks/c06.py"):
        out[f] = hashlib.sha256(open(os.path.join(core.ROOT, f), "rb").read()).hexdigest()[:16]
    return out


def run(ctx):
    ctx.coverage["sources_sha256_16"] = source_hashes()
    variant, how = probe_variant(ctx)
    ctx.lean_check(MODULES, THEOREMS)
    ctx.coverage["model_variant"] = variant
    ctx.coverage["model_variant_source"] = how
    ctx.coverage["model_variant_expected"] = VARIANT
    lost = [BIT_NAMES[b] for b in BIT_NAMES if (VARIANT & b) and not (variant & b)]
    if lost:
        # a repair that this tree is expected to carry is gone = a regression of a fixed finding.  It is
        # reported as a violation whose input is the finding's witness history (replayable); the model
        # follows the probed tree so that L1 stays exact and the L2 monitors add concrete generated inputs.
        core.log(f"[C06] tree lacks expected repair(s): {', '.join(lost)}")
        ctx.coverage["repairs_missing_in_tree"] = lost
        for b in BIT_NAMES:
            if (VARIANT & b) and not (variant & b):
                ctx.violation("variant-regression", getattr(ctx, "witness", {}).get(b, ""),
                              f"the tree no longer carries the repair of {BIT_NAMES[b]}: the real code, run on this "
                              f"witness history by TestVerifC06Probe, shows the pinned (defective) behaviour")
    env = {"VERIF_N": ctx.scale(2500, 60000), "VERIF_EXH_DEPTH": ctx.scale(3, 5),
           "VERIF_C06_VARIANT": variant, "VERIF_CORPUS": os.path.join(core.ROOT, "corpus", "C06")}
    if ctx.replay:
        env["VERIF_REPLAY"] = ctx.replay_line_file()
    rc, out, outdir = ctx.go_test("./kvcache/", OVERLAY, "^TestVerifC06$", env=env)
    if rc != 0:
        ctx.violation("driver-failed", "", out[-1500:], no_input=True)
    ctx.read_stats(outdir)
    if not ctx.replay:
        coverage_required(ctx)
    ctx.l1(outdir)
    ctx.classify(ctx.l2(outdir), matcher)
    if ctx.thorough:
        ctx.leanchecker(MODULES)
    ctx.assumptions += [
        "positions stay far from the int32 limits (the model uses unbounded integers)",
        "every layer is Put on every forward pass; the fake backend executes a Copy when its context is computed, in Forward order "
        "(a node never forwarded / a context closed without Compute moves no data: L2 graph-node-never-computed); the Lean model "
        "applies data movement at once",
        "the runner calls CanResume immediately before a suffix Remove on windowed caches (histories that do "
        "not are counted as l2_skip_window_misuse, not judged)",
        "WrapperCache: after a refused Remove the caller clears the sequence in every wrapped cache (cache.go / wrapper.go "
        "contract; until then the wrapped caches may disagree about the sequence: F29)",
    ]
    return ctx.finish(
        level="proof",
        rule="seeded random histories (valid runner-like / defrag-aimed fill-punch-refill / wild streams) over "
             "capacity 1-32 cells, 1-4 sequences, batch 1-8, cache padding {1,2,4,32}, batch padding {1,3,8}, "
             "window {inf,1,2,4,8}, with/without shiftFn, PermutedV, F16 mask; real WrapperCache(SWA+causal, both "
             "orders) histories sized so one wrapped cache rejects (kw-x/kw-l lines); EncoderCache traces; exhaustive op sequences over "
             "<= 5 cells; corpus of minimised findings. Two L1 lines per history: exposed entries + abstraction "
             "(kv-x) and exact layout (kv-l, sub-correspondence C06.layout)",
        explanation="Lean theorems about the cell/row model of kvcache.Causal and its abstraction to a "
                    "location-free spec; model tied to the code by exact comparison of per-token exposed "
                    "(pos,id,shift) multisets, abs and layout after every operation (L1) and by a pure-Go shadow "
                    "spec evaluated against the real mask/K/V returned by Get (L2)")
