"""C03 — a successful pull leaves exactly the published, digest-verified model (legacy pull path)."""
import os
import re

from vlib import core
from vlib.registry import COMMON_NOTE

REGISTRATION = {
    "engine": "lean-pull",
    "technique": "Lean 4 proof over an executable model of PullModel/downloadBlob against an adversarial "
                 "registry (per-request fault scripts) + differential correspondence on the real PullModel "
                 "driven in memory under fake time",
    "category": "proof",
    "text": "Kernel-checked theorems over a Lean model of PullModel -> downloadBlob -> Prepare/run/downloadChunk "
            "-> verifyBlob -> manifest write -> prune, with SHA-256 uninterpreted and the registry/CDN/token "
            "server as an adversary (every request stream has a fault script): success implies every layer is "
            "stored with the manifest's digest and the served manifest is installed (for manifests without "
            "repeated digests); a failed pull never changes an existing blob or manifest; an honest registry "
            "succeeds from any clean state; challenge parsing is total once bounds-checked. Defects the code "
            "has are mirrored in the model with Lean-checked witnesses. The model is tied to the real code by "
            "exact comparison of outcome class, request counts and the whole store (blob bytes, -partial data, "
            "part records, manifests) after every attempt of thousands of scripted multi-attempt histories, "
            "and the property itself is evaluated on the real store with real SHA-256. The fault alphabet covers "
            "5xx/404/401 with arbitrary challenges, token failures, a registry that really validates and expires bearer tokens, "
            "manifest and token answers that are JSON of the wrong shape / type / encoding / size, 10 MB error bodies, "
            "transport errors, wrong Content-Length, truncated / "
            "reset / stalled / flipped / Range-ignoring / error-page bodies, malformed and looping redirects with the "
            "client's redirect budget, redirects to dead hosts, caller cancellation inside a chunk read, at the last byte of a "
            "layer and at the progress callbacks between PullModel's store effects, two overlapping pulls sharing a layer "
            "(joining a transfer in flight / arriving during verification, either cancelled), resume from 1-17 "
            "part records (Glob order) and from a real interrupted > 1 GB multi-part download. A death of the process "
            "running the pull is an L2 failure with the running case as replay (the driver is restarted after it).",
    "design_ref": "DESIGN.md §5 C03",
    "note": COMMON_NOTE + "Modelled, not verified: HTTP (net/http client behaviour enters through an in-memory "
            "RoundTripper), JSON encoding of manifests/part records, file-system semantics (program order, "
            "atomic rename), wall-clock behaviour (run in fake time; stalls that are never detected, i.e. a "
            "peer that sends no byte at all, hang the real code forever and are excluded), goroutine "
            "interleavings of concurrent parts (parts are independent in the model; scripts with stalls are "
            "only generated for single-part layers), concurrent pulls beyond the scripted two-pull interleavings, "
            "caller cancellation before the download goroutine has started (F21: replayed by a dedicated probe, not in the "
            "model). Multi-part plans from HEAD are "
            "compared with the real Prepare as a table; multi-part downloads are exercised through resume "
            "records of small blobs (1-17 parts) and one real > 1 GB virtual blob per quick run.",
}

MODULES = ["OllamaVerif.Properties.C03", "OllamaVerif.Tie.C03"]
THEOREMS = [
    "OllamaVerif.C03.pull_success_complete",
    "OllamaVerif.C03.pull_success_sizes",
    "OllamaVerif.C03.pull_fail_preserves_store",
    "OllamaVerif.C03.pull_fail_preserves_names",
    "OllamaVerif.C03.pull_fail_blobs_partial",
    "OllamaVerif.C03.pull_fail_preserves",
    "OllamaVerif.C03.pull_success_complete_fixed",
    "OllamaVerif.C03.pull_no_panic_fixed",
    "OllamaVerif.C03.F6_repaired",
    "OllamaVerif.C03.dup_and_empty_repaired",
    "OllamaVerif.C03.retry_can_succeed",
    "OllamaVerif.C03.resume_plan_order_independent",
    "OllamaVerif.C03.glob_order_12",
    "OllamaVerif.C03.malformed_redirect_outcomes",
    "OllamaVerif.C03.joining_pull_verifies",
    "OllamaVerif.C03.pull2_joiner_success_verified",
    "OllamaVerif.C03.concurrent_pull_during_verification_installs_missing_layer",
    "OllamaVerif.C03.stuck_plan_never_recovers",
    "OllamaVerif.C03.challenge_panics_iff",
    "OllamaVerif.C03.challenge_total_fixed",
    "OllamaVerif.C03.challenge_total_partial",
    "OllamaVerif.C03.F5_challenge_panics",
    "OllamaVerif.C03.F6_failed_pull_then_honest_retry_installs_corrupt_layer",
    "OllamaVerif.C03.dup_digest_skips_verification",
    "OllamaVerif.C03.empty_digest_panics",
    "OllamaVerif.C03.size_lie_accepted",
    "OllamaVerif.C03.pull_success_preserves_names",
    "OllamaVerif.C03.history_every_state_intact",
    "OllamaVerif.C03.history_inv",
    "OllamaVerif.C03.history_resolves",
    "OllamaVerif.C03.republished_tag_installs_each_version",
    "OllamaVerif.Tie.C03.tree_is_repaired",
    "OllamaVerif.Tie.C03.model_reproduces_probes",
    "OllamaVerif.Tie.C03.tree_pull_success_complete",
    "OllamaVerif.Tie.C03.tree_history_every_state_intact",
    "OllamaVerif.Tie.C03.tree_pull_no_panic",
]
FILES = ["zz_verif_c03_test.go", "zz_verif_c03net_test.go", "zz_verif_c03gen_test.go", "zz_verif_c03big_test.go", "zz_verif_c03two_test.go", "zz_verif_c03json_test.go", "zz_verif_c03rep_test.go"]
OVERLAY = {"server/" + f: "server/" + f for f in FILES}


def normalize(line):
    """The store left by a process that died of a panic on the download goroutine is racy (the dying
    process may still run the verify loop): such an attempt is always the last of its history and only its
    outcome class and request counts are compared."""
    segs = line.split(" || ")
    if segs and segs[-1].startswith("panic:challenge "):
        segs[-1] = " ".join(segs[-1].split(" ")[:2])
    return " || ".join(segs)


MAX_RESTARTS = 5


def crash_site(out):
    """(function of this repo on top of the panicking goroutine, panic message) from a Go crash dump."""
    msg = re.search(r"^(?:panic|fatal error): (.*)$", out, re.M)
    fn = re.search(r"^(github\.com/ollama/ollama/[\w/]+\.[^\s(]*(?:\([^)]*\))?[\w.]*)\(", out[msg.end():] if msg else out, re.M)
    return (fn.group(1).replace("github.com/ollama/ollama/", "") if fn else "unknown"), (msg.group(1)[:160] if msg else "no panic message")


PROBES = ["getvalue-realm", "empty-digest", "f6-errorpage-then-404", "dup-digest-flip", "flip-single",
          "flip-single-verifying-announced"]


def regenerate_variant(ctx):
    """Tie 1: WHICH variant of the model the tree under test is.  The real getValue / downloadBlob / PullModel are
    executed on the witness inputs of the findings (TestVerifC03Variant); the observations become
    Generated/C03_Variant.lean; Tie/C03.lean computes the model's variant flags from them, decides that the model under
    those flags reproduces every observation, that the flags are the repaired ones, and instantiates the property
    theorems for the tree.  A regression (e.g. back to the verify loop after all downloads) leaves those theorems
    unprovable."""
    rc, out, outdir = ctx.go_test("./server/", OVERLAY, "^TestVerifC03Variant$", timeout=900)
    obs = {}
    p = os.path.join(outdir, "variant.txt")
    if rc == 0 and os.path.exists(p):
        for line in open(p):
            f = line.split()
            if len(f) == 2:
                obs[f[0]] = f[1]
    if rc != 0 or any(k not in obs for k in PROBES):
        # a probe that kills the process is reported by the main driver (probe marker in progress.txt); here the
        # facts simply stay those of the last good run and the run is marked
        ctx.notes.append("variant probes did not complete; Generated/C03_Variant.lean not rewritten: " + out[-300:])
        return
    body = ("-- REGENERATED on every run by vlib/checks/c03.py: the real getValue / downloadBlob / PullModel of the tree under\n"
            "-- test EXECUTED on the witness inputs of the findings F5, C03-emptydigest, F6, C03-dupdigest, C03-verifywindow\n"
            "-- (harness/overlay/server/zz_verif_c03gen_test.go TestVerifC03Variant). Do not edit.\n"
            "namespace OllamaVerif.Generated.C03\n"
            "/-- (probe, what the real code did) -/\n"
            "def probes : List (String × String) := [\n  "
            + ",\n  ".join(f'("{k}", "{obs[k]}")' for k in PROBES) + "]\n"
            "end OllamaVerif.Generated.C03\n")
    core.write_generated("OllamaVerif/Generated/C03_Variant.lean", body)
    ctx.coverage["variant_probes"] = {k: obs[k] for k in PROBES}


def run(ctx):
    regenerate_variant(ctx)
    ctx.lean_check(MODULES, THEOREMS)
    env = {"VERIF_N": ctx.scale(400, 12000), "VERIF_NCH": ctx.scale(2000, 60000),
           "VERIF_NPLAN": ctx.scale(40, 2000), "VERIF_NTWO": ctx.scale(40, 1500), "VERIF_NREP": ctx.scale(150, 4000), "VERIF_CORPUS": os.path.join(core.ROOT, "corpus", "C03")}
    if ctx.replay:
        env["VERIF_REPLAY"] = ctx.replay_line_file()
    # The driver announces every case before it runs.  If the code under test kills the process (a panic on a
    # goroutine nothing recovers = what would kill the server), the announced case is an L2 failure with the
    # case as its replay, and the driver is restarted at the next case.
    start, restarts = 0, 0
    while True:
        env["VERIF_C03_START"] = start
        rc, out, outdir = ctx.go_test("./server/", OVERLAY, "^TestVerifC03$", env=env, timeout=ctx.scale(600, 2400))
        ctx.read_stats(outdir)
        ctx.l1(outdir, normalize=normalize)
        ctx.classify(ctx.l2(outdir))
        if rc == 0:
            break
        prog = []
        try:
            prog = open(os.path.join(outdir, "progress.txt")).read().split("\n")
        except OSError:
            pass
        if re.search(r"^(panic|fatal error): ", out, re.M) and len(prog) >= 2 and prog[0] == "probe":
            fn, msg = crash_site(out)   # died before the first case: during the variant probes
            ctx.classify([{"kind": "process-death", "case": prog[1],
                           "detail": f"site={fn} the process died during the variant probes: {msg}"}])
            break
        crashed = re.search(r"^(panic|fatal error): ", out, re.M) and len(prog) >= 2 and prog[0].isdigit()
        if not crashed:
            ctx.violation("driver-failed", "", out[-1500:], no_input=True)
            break
        fn, msg = crash_site(out)
        ctx.classify([{"kind": "process-death", "case": prog[1],
                       "detail": f"site={fn} the process running the pull died: {msg}"}])
        ctx.coverage["process_deaths"] = ctx.coverage.get("process_deaths", 0) + 1
        restarts += 1
        if ctx.replay or restarts > MAX_RESTARTS:
            ctx.notes.append(f"driver restarted {restarts} times after process deaths; exploration stopped at case {prog[0]}")
            break
        start = int(prog[0]) + 1
    if not ctx.replay:
        for extra in ("^TestVerifC03Liveness$", "^TestVerifC03F21$"):
            rc2, out2, outdir2 = ctx.go_test("./server/", OVERLAY, extra, timeout=600)
            if rc2 != 0:
                ctx.violation("driver-failed", "", out2[-1500:], no_input=True)
            ctx.read_stats(outdir2)
            ctx.classify(ctx.l2(outdir2))
    if ctx.thorough:
        ctx.leanchecker(MODULES)
    ctx.assumptions += [
        "SHA-256 is an uninterpreted function hash : Bytes -> Digest (no injectivity assumed)",
        "POSIX program-order file effects, atomic rename; no crash inside an attempt (crash points are C12)",
        "at most two overlapping pulls, sharing only their first layer, in four scripted interleavings; caller cancellation at chunk reads and progress callbacks",
        "a stalling peer eventually sends an error or is detected (a peer that never sends a byte hangs the code)",
    ]
    return ctx.finish(
        level="proof",
        rule="directed finding scenarios + enumeration of {fault kind} x {stream: manifest, HEAD, direct URL, chunk of "
             "every part} x {once, until retries are exhausted} x {6 resume states} for manifests of 1-2 layers "
             "(3 in thorough), each followed by two honest attempts + seeded random multi-attempt histories "
             "(0-3 layers + config, repeated/empty/malformed digests, lying sizes, corrupt or missing registry "
             "blobs, pre-existing blobs/partials/manifests, prune on/off) + challenge-header fuzz + part-plan "
             "table; distinct = distinct oracle command lines",
        explanation="Lean theorems about the model of the pull state machine; model tied to the real PullModel by "
                    "exact comparison after every attempt (L1) and the property evaluated on the real store with "
                    "real SHA-256, process liveness checked in child processes (L2)")
