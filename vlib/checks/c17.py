"""C17 — streaming, non-streaming and OpenAI-compatible responses carry the same result."""
import os

from vlib import core
from vlib.registry import COMMON_NOTE

REGISTRATION = {
    "engine": "lean-stream",
    "technique": "Lean 4 proof over a model of the response paths + differential correspondence through the real router",
    "category": "proof",
    "text": "Kernel-checked theorems over a Lean model of GenerateHandler/ChatHandler end to end (runner callback, channel, "
            "NDJSON stream vs non-stream aggregation, the streaming tool-call buffer, every point at which the runner can "
            "fail: scheduler/load, Detokenize of a supplied context, Tokenize in chatPrompt, Completion after k chunks, "
            "Tokenize for the context field after the done chunk), the OpenAI ChatWriter/CompleteWriter and "
            "api.Client.stream, of llmServer.Completion's scan loop over the runner's body (so the runner protocol is proved of that "
            "model, not assumed), of waitForStream (non-streamed pull/push/create replies) and of everything the handlers answer before the runner is started (unload/load replies, "
            "400 raw+context, 400 tools without template support, handleScheduleError's status by class of scheduler error), "
            "for every chunk list: stream concatenation = non-stream reply, re-splitting does not "
            "change the reply, streamed and non-streamed requests fail together with the same error, OpenAI content = "
            "native content, exactly one final message or one error, api.Client delivers what is on the wire (with the "
            "scanner's line limit: F17e). Model = code "
            "is checked on 68 request shapes x every split of a set of outputs x endings x fault points through the real "
            "gin router with a scripted runner, and the property itself is evaluated on the real responses; the "
            "DoneReason strings, the two fixed error texts and the variant of the tree (which of the repaired behaviours the "
            "real code shows on the findings' own inputs) are regenerated on every run and re-checked by decide; the check "
            "fails closed when a branch of the model was not exercised on the real code. llmServer.Completion is driven against a "
            "scripted HTTP runner (package llm overlay), waitForStream/streamResponse over scripted progress channels.",
    "design_ref": "DESIGN.md §5 C17",
    "note": COMMON_NOTE + "Modelled, not verified: parseToolCalls is a parameter whose observed values (real function, "
            "every concatenation of consecutive chunks) are supplied per case (tools equivalence is proved under the "
            "decidable guard PrefixStable; false without it: F17a/b); Tokenize/Detokenize are the harness's (s -> [len s], "
            "fixed text) and a fault makes a method fail for the whole request; JSON encoding/decoding of the bodies and "
            "gin's writer are exercised by the tie, not modelled (the wire length of each line is an input of the client model);  chunks are valid UTF-8 (the runner guarantees it); request "
            "binding (JSON decode errors, unknown model), scheduling beyond 'returns the runner or a classified error', options (handed to the runner "
            "untouched; varied by the generator) and client disconnects are out of scope. Theorems about the repaired "
            "variants (proposed_fixes/C17-*.patch) concern code that is not in /repo unless VARIANT says so.",
}

MODULES = ["OllamaVerif.Properties.C17", "OllamaVerif.Tie.C17"]
# Theorems that are statements about the code path /repo runs (variant ⟨toolsStream := false, toolsIndex := true,
# oaErr := true, incomplete := true⟩ + repaired client — pinned by Tie.C17.tree_variant — or every variant).
THEOREMS_TREE = [
    "OllamaVerif.C17.generate_equiv_H",
    "OllamaVerif.C17.chat_equiv_H",
    "OllamaVerif.C17.handlers_eq_base",
    "OllamaVerif.C17.generate_equiv",
    "OllamaVerif.C17.generate_resplit",
    "OllamaVerif.C17.generate_error",
    "OllamaVerif.C17.chat_equiv",
    "OllamaVerif.C17.chat_resplit",
    "OllamaVerif.C17.chat_error",
    "OllamaVerif.C17.chatCallback_calls_exact",
    "OllamaVerif.C17.tools_index_all",
    "OllamaVerif.C17.tools_equiv_iff",
    "OllamaVerif.C17.one_final_all",
    "OllamaVerif.C17.one_final_every_request",
    "OllamaVerif.C17.one_final_generate_faults",
    "OllamaVerif.C17.generate_outcome_equiv",
    "OllamaVerif.C17.one_final_chat_faults",
    "OllamaVerif.C17.chat_outcome_equiv",
    "OllamaVerif.C17.one_final_generate_fixedD",
    "OllamaVerif.C17.one_final_chat_fixedD",
    "OllamaVerif.C17.one_final_generate",
    "OllamaVerif.C17.one_final_chat",
    "OllamaVerif.C17.runner_protocol_needed",
    "OllamaVerif.C17.completion_shape",
    "OllamaVerif.C17.one_final_from_runner_body",
    "OllamaVerif.C17.tokenize_failure_after_done",
    "OllamaVerif.C17.progress_once_is_first_terminal",
    "OllamaVerif.C17.progress_equiv",
    "OllamaVerif.C17.prestream_reply_same",
    "OllamaVerif.C17.prestream_reply_single",
    "OllamaVerif.C17.unload_before_scheduling",
    "OllamaVerif.C17.genPreH_plain",
    "OllamaVerif.C17.chatPreH_plain",
    "OllamaVerif.C17.generateR_go",
    "OllamaVerif.C17.chatR_go",
    "OllamaVerif.C17.oaStreamFixed_eq_pinned",
    "OllamaVerif.C17.openai_stream_once_agree",
    "OllamaVerif.C17.oaChatStreamFF_erase",
    "OllamaVerif.C17.openai_chat_stream_equiv_FF",
    "OllamaVerif.C17.openai_finish_agree_FF",
    "OllamaVerif.C17.openai_once_equiv",
    "OllamaVerif.C17.openai_chat_stream_equiv",
    "OllamaVerif.C17.openai_cmpl_stream_equiv",
    "OllamaVerif.C17.openai_chat_stream_finish_usage",
    "OllamaVerif.C17.openai_cmpl_stream_finish_usage",
    "OllamaVerif.C17.openai_stream_one_done",
    "OllamaVerif.C17.openai_stream_failure_reported_fixed",
    "OllamaVerif.C17.openai_prestream",
    "OllamaVerif.C17.client_generate_equiv",
    "OllamaVerif.C17.client_chat_equiv",
    "OllamaVerif.C17.client_view_fits",
    "OllamaVerif.C17.client_long_line",
    "OllamaVerif.C17.client_one_final",
    "OllamaVerif.C17.client_every_reply",
    "OllamaVerif.C17.F17a_split_loses_call",
    "OllamaVerif.C17.F17f_repaired_finish_reason",     # the writer /repo runs since 9e8f7fa39
    "OllamaVerif.Tie.C17.tree_variant",
    "OllamaVerif.Tie.C17.client_limit_documented",
    "OllamaVerif.Tie.C17.reason_table_complete",
    "OllamaVerif.Tie.C17.reason_table_matches",
    "OllamaVerif.Tie.C17.error_texts_match",
]
# Theorems about behaviour /repo no longer shows (defects repaired since: F17b/c/d/e) or does not show yet
# (proposed_fixes/C17-F17ab.patch); kept as the record of the findings and of what the patch achieves.
THEOREMS_HISTORICAL_OR_PATCH = [
    "OllamaVerif.C17.tools_equiv_partial",              # pinned chatOnce (before F17b): calls up to index
    "OllamaVerif.C17.tools_index",                      # before F17b
    "OllamaVerif.C17.openai_stream_failure_swallowed",  # before F17c
    "OllamaVerif.C17.F17b_index_mismatch",
    "OllamaVerif.C17.F17c_openai_stream_error_swallowed",
    "OllamaVerif.C17.F17d_silent_end_no_final",
    "OllamaVerif.C17.F17e_client_drops_long_reply",
    "OllamaVerif.C17.finish_reason_on_done_chunk",       # before F17f (9e8f7fa39)
    "OllamaVerif.C17.openai_finish_agree",               # the writer before F17f: agreement needed an empty final message
    "OllamaVerif.C17.tools_equiv_fixed",                # C17-F17ab.patch, not in /repo
    "OllamaVerif.C17.tools_equiv_fixed_monotone",
]
THEOREMS = THEOREMS_TREE + THEOREMS_HISTORICAL_OR_PATCH
# Which behaviour the oracle models (bit set = that proposed fix is in the tree under test):
#   1 = proposed_fixes/C17-F17ab.patch (streaming tool path + call numbering), 2 = C17-F17c.patch (in /repo),
#   4 = C17-F17b.patch alone (non-stream call numbering), 8 = C17-F17d.patch (run without done -> error),
#   16 = C17-F17e.patch (api.Client returns the scanner's error), 32 = C17-F17f.patch (finish_reason of a final message
#   that carries the tool call; NOT in /repo).
# One edit when the lead applies a fix (or VERIF_C17_VARIANT for a scratch worktree).
VARIANT = 62  # fixed in /repo: F17c (499276761, bit 2), F17b (bit 4), F17d (bit 8), F17e (2a881f3aa, bit 16), F17f (9e8f7fa39, bit 32)
OVERLAY = {"server/zz_verif_c17_test.go": "server/zz_verif_c17_test.go"}
OVERLAY_LLM = {"llm/zz_verif_c17_llm_test.go": "llm/zz_verif_c17_llm_test.go"}


# Branches of the model (= of the handlers / writers / client, L1 being exact) that the theorems talk about; the
# driver reads them off the real replies (`br_*` in stats.txt).  A run in which one of them was never exercised
# says nothing about it: fail closed.
REQUIRED_COUNTERS = [
    # where the runner can fail (one_final_*_faults, *_outcome_equiv, *_fixedD)
    "br_native_stream_prefail_load", "br_native_stream_prefail_detok", "br_native_stream_prefail_tok",
    "br_native_stream_completion_error", "br_native_stream_incomplete_error", "br_gen_stream_context_tokenize_error",
    "br_native_once_fault_load", "br_native_once_fault_detok", "br_native_once_fault_tok", "br_native_once_completion_error",
    "br_native_once_incomplete_error", "br_gen_stream_final_with_context", "br_gen_stream_final_raw",
    # the streaming tool path (chatCallback: every branch) and the non-stream tools step
    "br_tools_stream_calls_then_reset", "br_tools_stream_calls_in_final_message", "br_tools_stream_final_after_calls",
    "br_tools_stream_final_flushes_buffer", "br_tools_stream_final_plain", "br_tools_stream_several_call_messages",
    "br_tools_stream_index_above_0", "br_tools_once_several_calls", "br_tools_once_one_call", "br_tools_once_no_call",
    # OpenAI writers
    "br_openai_stream_error_event", "br_openai_error_body", "br_openai_stream_usage_chunk", "br_openai_stream_finish_tool_calls",
    "br_openai_stream_finish_native", "br_openai_stream_delta_with_calls", "br_openai_cmpl_stream_finish_native",
    "br_openai_cmpl_chunk_zero_usage", "br_openai_once_finish_tool_calls",
    # api.Client
    "br_client_line_at_or_above_limit", "br_client_returns_error_line", "br_client_delivers_all",
    # requests answered before the runner is started (genPreH / chatPreH: every outcome, both endpoints; OpenAI and client views)
    "br_pre_gen_reply_load", "br_pre_gen_reply_unload", "br_pre_chat_reply_load", "br_pre_chat_reply_unload",
    "br_pre_gen_status_400", "br_pre_gen_status_404", "br_pre_gen_status_499", "br_pre_gen_status_503", "br_pre_gen_status_500",
    "br_pre_chat_status_400", "br_pre_chat_status_404", "br_pre_chat_status_499", "br_pre_chat_status_503", "br_pre_chat_status_500",
    "br_pre_openai_stream_of_single_body", "br_pre_openai_once_of_single_body", "br_pre_client_error", "br_pre_client_final_message",
    "fault_load/cap", "fault_load/cancel", "fault_load/queue", "fault_load/notexist", "groups_with_prestream_shapes",
    # L2 comparisons that must have taken place
    "l2_openai_compared_stream", "l2_openai_compared_once",
    # llmServer.Completion (scripted runner): every ending, every shape of outcome, the content+done quirk
    "completion_end_0", "completion_end_3", "completion_end_4", "completion_end_5", "completion_end_6", "completion_end_7",
    "completion_dones_1_ret_nil", "completion_dones_0_ret_nil", "completion_dones_0_ret_err",
    "completion_content_and_done_line_delivered_twice", "completion_token_repeat_abort",
    # waitForStream: every kind of first terminal item, and none
    "progress_first_terminal_success", "progress_first_terminal_error", "progress_first_terminal_other", "progress_no_terminal",
    "progress_once_200", "progress_once_400", "progress_once_418", "progress_once_500",
    # generator classes
    "end_ok", "end_err", "end_silent", "done_chunk_has_content", "tools_early_parse", "tools_whole_parses", "long_groups",
    "conv_last_t", "conv_last_A", "conv_last_a", "conv_last_s", "conv_last_u", "texts_all_splits", "corpus_groups",
]
# not required: br_native_stream_empty / br_openai_once_zero_value_reply (a run that delivers nothing and ends
# silently: only reachable without the F17d repair, i.e. VARIANT bit 8 clear)


def coverage_required(ctx):
    missing = [c for c in REQUIRED_COUNTERS if not ctx.stats.get(c)]
    ctx.coverage["model_branches_required"] = len(REQUIRED_COUNTERS)
    ctx.coverage["model_branches_missing"] = missing
    if missing and not ctx.replay:
        ctx.violation("correspondence-coverage", "", "branches of the model never exercised on the real code in this run: "
                      + ", ".join(missing), no_input=True)


def regenerate(ctx):
    """Tie 1: execute the real llm.DoneReason(i).String() for i = 0..7 and emit the table."""
    rc, out, outdir = ctx.go_test("./server/", OVERLAY, "^TestVerifC17(Table|Variant)$", env={"VERIF_C17_CLIENT_MAX": client_max_line(ctx)})
    rows = []
    if rc != 0:
        ctx.violation("driver-failed", "", "TestVerifC17Table/Variant (regenerated facts): " + out[-1200:], no_input=True)
    if rc == 0:
        for line in open(outdir + "/table.txt"):
            i, h = line.split()
            bs = [] if h == "-" else list(bytes.fromhex(h))
            rows.append(f"({i}, [{', '.join(map(str, bs))}])")
    consts = {"incomplete": "[]", "toolong": "[]"}
    if rc == 0 and os.path.exists(outdir + "/consts.txt"):
        for line in open(outdir + "/consts.txt"):
            k, h = line.split()
            consts[k] = "[" + ", ".join(map(str, [] if h == "-" else list(bytes.fromhex(h)))) + "]"
    body = ("-- REGENERATED on every run by vlib/checks/c17.py from /repo's working tree. Do not edit.\n"
            "import OllamaVerif.Model.Bytes\n"
            "namespace OllamaVerif.Generated.C17\n"
            "/-- (i, bytes of llm.DoneReason(i).String()) as returned by the real method -/\n"
            "def reasonTable : List (Nat × OllamaVerif.Bytes) := [" + ", ".join(rows) + "]\n"
            "/-- server.errIncompleteResponse.Error() as evaluated in the tree under test -/\n"
            "def incompleteMsg : OllamaVerif.Bytes := " + consts["incomplete"] + "\n"
            "/-- bufio.ErrTooLong.Error() of the toolchain the tree is built with -/\n"
            "def tooLongMsg : OllamaVerif.Bytes := " + consts["toolong"] + "\n"
            "end OllamaVerif.Generated.C17\n")
    core.write_generated("OllamaVerif/Generated/C17_Reasons.lean", body)
    # which repaired behaviours the tree shows, probed on the real code with the findings' own inputs
    probe = {}
    if rc == 0 and os.path.exists(outdir + "/variant.txt"):
        for line in open(outdir + "/variant.txt"):
            k, b = line.split()
            probe[k] = b == "1"
    ctx.coverage["variant_probed"] = probe or "probe failed"
    lb = lambda k: "true" if probe.get(k) else "false"
    core.write_generated("OllamaVerif/Generated/C17_Variant.lean",
                         "-- REGENERATED on every run by vlib/checks/c17.py (TestVerifC17Variant on /repo's working tree). Do not edit.\n"
                         "import OllamaVerif.Model.Stream\n"
                         "namespace OllamaVerif.Generated.C17\n"
                         "/-- which repairs the tree under test shows on the findings' own inputs (F17a, F17b, F17c, F17d) -/\n"
                         f"def treeVariant : OllamaVerif.Stream.Variant := ⟨{lb('toolsStream')}, {lb('toolsIndex')}, {lb('oaErr')}, {lb('incomplete')}⟩\n"
                         "/-- api.Client returns the scanner's error for a line it cannot hold (F17e) -/\n"
                         f"def treeClientFixed : Bool := {lb('clientFixed')}\n"
                         "/-- a tool call delivered by the done message ends the OpenAI stream with tool_calls (F17f) -/\n"
                         f"def treeFinishFixed : Bool := {lb('oaFinish')}\n"
                         "end OllamaVerif.Generated.C17\n")
    if probe:
        bits = (1 if probe.get("toolsStream") else 0) | (2 if probe.get("oaErr") else 0) | \
               (4 if probe.get("toolsIndex") and not probe.get("toolsStream") else 0) | (8 if probe.get("incomplete") else 0) | \
               (16 if probe.get("clientFixed") else 0) | (32 if probe.get("oaFinish") else 0)
        ctx.coverage["variant_probed_bits"] = bits
        ctx.coverage["variant_expected_bits"] = VARIANT


def client_max_line(ctx):
    """Tie 1: api.Client's scanner limit read from the source (`const maxBufferSize = <n> * format.<Unit>`)."""
    import re
    units = {"Byte": 1, "KiloByte": 1000, "MegaByte": 1000 ** 2, "GigaByte": 1000 ** 3,
             "KibiByte": 1024, "MebiByte": 1024 ** 2, "GibiByte": 1024 ** 3}
    try:
        src = open(os.path.join(core.REPO, "api", "client.go")).read()
    except OSError:
        src = ""
    m = re.search(r"maxBufferSize\s*=\s*(\d+)\s*\*\s*format\.(\w+)", src)
    uses = bool(re.search(r"scanner\.Buffer\(\s*\w+\s*,\s*maxBufferSize\s*\)", src))
    if m and m.group(2) in units and uses:
        n = int(m.group(1)) * units[m.group(2)]
        ctx.coverage["client_max_line"] = n
    else:
        # the constant is gone / not used: bufio.Scanner's own limit applies
        ctx.coverage["client_max_line"] = "not found in api/client.go: bufio.MaxScanTokenSize (65536) assumed"
        n = 64 * 1024
    core.write_generated("OllamaVerif/Generated/C17_Client.lean",
                         "-- REGENERATED on every run by vlib/checks/c17.py from /repo's api/client.go. Do not edit.\n"
                         "namespace OllamaVerif.Generated.C17\n"
                         "/-- the size of the bufio.Scanner buffer of api.Client.stream, in bytes -/\n"
                         f"def clientMaxLine : Nat := {n}\n"
                         "end OllamaVerif.Generated.C17\n")
    return n


def variant_under_test(ctx):
    """The variant the oracle models: the constant above; VERIF_C17_VARIANT overrides it only together with VERIF_C17_DEV=1
    (validating a proposed fix on a patched scratch worktree) and is recorded in the evidence."""
    ov = os.environ.get("VERIF_C17_VARIANT")
    if ov is not None and os.environ.get("VERIF_C17_DEV") == "1":
        ctx.coverage["variant_override"] = int(ov)
        return int(ov)
    if ov is not None:
        ctx.coverage["variant_override_ignored"] = ov
    return VARIANT


def run(ctx):
    regenerate(ctx)
    climit = client_max_line(ctx)
    ctx.lean_check(MODULES, THEOREMS)
    ctx.coverage["theorems_about_the_tree"] = len(THEOREMS_TREE)
    ctx.coverage["theorems_historical_or_patch"] = THEOREMS_HISTORICAL_OR_PATCH
    env = {"VERIF_C17_CLIENT_MAX": climit, "VERIF_CORPUS": os.path.join(core.ROOT, "corpus", "C17"), "VERIF_C17_VARIANT": variant_under_test(ctx), "VERIF_N": ctx.scale(7, 9), "VERIF_TEXTS": ctx.scale(12, 60), "VERIF_SAMPLES": ctx.scale(12, 64)}
    if ctx.replay:
        env["VERIF_REPLAY"] = ctx.replay_line_file()
    rc, out, outdir = ctx.go_test("./server/", OVERLAY, "^TestVerifC17$", env=env, timeout=1500)
    if rc != 0:
        ctx.violation("driver-failed", "", out[-1500:], no_input=True)
    ctx.read_stats(outdir)
    # the runner protocol the theorems assume (CompletionShape), on the real llmServer.Completion with a scripted HTTP runner
    rc2, out2, outdir2 = ctx.go_test("./llm/", OVERLAY_LLM, "^TestVerifC17Completion$", env={"VERIF_N": ctx.scale(400, 4000)}, timeout=900)
    if rc2 != 0:
        ctx.violation("driver-failed", "", "TestVerifC17Completion: " + out2[-1500:], no_input=True)
    ctx.read_stats(outdir2)
    # waitForStream / streamResponse on scripted progress channels (pull / push / create replies)
    rc3, out3, outdir3 = ctx.go_test("./server/", OVERLAY, "^TestVerifC17Progress$", env={"VERIF_N": ctx.scale(600, 6000)}, timeout=600)
    if rc3 != 0:
        ctx.violation("driver-failed", "", "TestVerifC17Progress: " + out3[-1500:], no_input=True)
    ctx.read_stats(outdir3)
    coverage_required(ctx)
    ctx.l1(outdir)
    ctx.l1(outdir2, label="L1-completion")
    ctx.l1(outdir3, label="L1-progress")
    ctx.classify(ctx.l2(outdir) + ctx.l2(outdir2) + ctx.l2(outdir3))
    if ctx.thorough:
        ctx.leanchecker(MODULES)
    ctx.assumptions += [
        "the shipped runner's final message is empty (llmServer.Completion delivers a content+done runner line as two callbacks, "
        "so its content would reach the client twice: recorded by the llm driver, outside the anchored files)",
        "llmServer.Completion: JSON decoding of runner lines, the error texts and non-ASCII white space in the token-repeat guard "
        "are inputs of its model; context cancellation is not driven",
        "error texts are not the empty string (api.Client and the OpenAI stream writers treat {\"error\":\"\"} as a message)",
        "model names contain no character that %q escapes (handleScheduleError's not-found text)",
        "runner chunks are valid UTF-8 strings (splits are taken at rune boundaries)",
        "parseToolCalls is deterministic on the generated outputs (no two sibling JSON members both holding calls)",
    ]
    return ctx.finish(
        level="proof",
        rule="14 fixed + seeded random model outputs (plain text, JSON, tool calls, nested/array calls, unicode, empty "
             "pieces) x all 2^(n-1) splits up to the tier's n (sampled beyond) x endings (done chunk, done chunk with "
             "content, runner error after k chunks, nil return without done); long outputs (60 KiB .. 600 KiB as one chunk and as "
             "totals, huge tool-call argument); conversations of 1-6 messages over system/user/assistant/assistant+tool_calls/"
             "tool; tool-call arguments with numbers beyond float64; x 68 request shapes (24 of them answered before the runner is started: empty prompt / no messages with and "
             "without keep_alive 0, raw+context, tools on a template without tool support; five classes of scheduler error) (generate/chat, "
             "stream true/false/absent, raw, format, tools, /v1/chat/completions and /v1/completions with stream and "
             "include_usage, api.Client) x fault points outside Completion (load, Detokenize, Tokenize) with request "
             "shapes that reach them (generate with context, chat with earlier turns), options/system/stop varied; "
             "corpus/C17 first; distinct = distinct oracle command lines",
        explanation="Lean theorems about the model of the handlers' aggregation and the OpenAI writers; model tied to "
                    "the code by exact comparison of canonicalised real HTTP bodies with the oracle (L1) and the "
                    "property predicates evaluated on the real bodies (L2)")
