"""C12 — a crash at any point leaves a store in which every resolvable model is intact."""
from vlib import core
from vlib.registry import COMMON_NOTE

REGISTRATION = {
    "engine": "lean-storecrash",
    "technique": "Lean 4 proof over an effect-list crash model of the store + syscall-trace correspondence + "
                 "kill injection at every store syscall of the real code",
    "category": "proof",
    "text": "Kernel-checked theorems over a Lean model in which every store operation (blob upload, create, copy, "
            "delete, pull from an honest registry) is its ordered list of primitive file-system effects computed "
            "against the evolving store: for EVERY store satisfying the invariant, every operation and every crash "
            "prefix of its effect list (last data write cut at any byte), the start-up sequence of Serve leaves "
            "every readable manifest with all layers present and hashing to their names, and leaves uninvolved "
            "names and their blobs untouched; repeating the operation yields the readable manifests of an "
            "uninterrupted run when no manifest was torn before. The effect lists are tied to the code by "
            "comparing them with the real syscall trace of each operation (ptrace, canonicalised to the same "
            "alphabet), and crash points are enumerated on the REAL code by killing a child process at the entry "
            "of every store syscall, running the real start-up sequence, re-hashing everything readable "
            "manifests name, and re-running the operation.",
    "design_ref": "DESIGN.md §5 C12, §6 F19",
    "note": COMMON_NOTE + "Modelled, not verified: POSIX order = program order, rename/unlink atomic, one write(2) "
            "of a manifest or part record is all-or-nothing at a readable/unreadable level (checked on the real "
            "decoder: every proper prefix of the JSON texts the run wrote is rejected), directories, multi-part "
            "downloads (blobs >= 100 MB), fsync/disk ordering. SHA-256 is an uninterpreted function in the "
            "theorems. Kill points are syscall entries (bodies arrive in small pieces so that each piece is one "
            "write).",
}

MODULES = ["OllamaVerif.Properties.C12"]
THEOREMS = [
    "OllamaVerif.C12.effect_preserves_inv",
    "OllamaVerif.C12.seq_preserves_inv",
    "OllamaVerif.C12.restart_preserves_inv",
    "OllamaVerif.C12.restart_untouched",
    "OllamaVerif.C12.exec_seqOK",
    "OllamaVerif.C12.crash_safe",
    "OllamaVerif.C12.atomic_manifest_old_or_new",
    "OllamaVerif.C12.atomic_never_torn",
    "OllamaVerif.C12.atomic_replaced_model_kept",
    "OllamaVerif.C12.rerun_converges_partial",
    "OllamaVerif.C12.rerun_converges_pull_partial",
    "OllamaVerif.C12.F19a_replaced_model_lost",
    "OllamaVerif.C12.F19b_torn_part_record_blocks_repull",
]
OVERLAY = {"server/zz_verif_c12_test.go": "server/zz_verif_c12_test.go"}


def normalize(line):
    """Go's map iteration order decides the order of the unlinks of deleteUnusedLayers: compare
    runs of consecutive `rm B:` effects as sets."""
    if " ; " not in line and not line.startswith("rm "):
        return line
    body, sep, tail = line.rpartition(" | ")
    if not sep:
        body, tail = line, ""
    items = body.split(" ; ")
    out, run = [], []
    for it in items:
        if it.startswith("rm B:"):
            run.append(it)
        else:
            out += sorted(run)
            run = []
            out.append(it)
    out += sorted(run)
    return " ; ".join(out) + (sep + tail if sep else "")


def run(ctx):
    ctx.lean_check(MODULES, THEOREMS)
    env = {}
    if ctx.thorough:
        env["VERIF_N"] = 6
    if ctx.replay:
        env["VERIF_REPLAY"] = ctx.replay_line_file()
    rc, out, outdir = ctx.go_test("./server/", OVERLAY, "^TestVerifC12$", env=env, timeout=ctx.scale(600, 2400))
    if rc != 0:
        ctx.violation("driver-failed", "", out[-1500:], no_input=True)
    st = ctx.read_stats(outdir)
    # which variant of the code this tree is (detected by the driver from the real syscall trace of a copy
    # and of a pull; the oracle runs the same variant of the model)
    ctx.coverage["variant"] = {"atomic_manifest_writes": bool(st.get("variant_atomic_manifest", 0)),
                               "atomic_part_record_writes": bool(st.get("variant_atomic_part_record", 0))}
    ctx.l1(outdir, normalize=normalize, keep_samples=3)
    ctx.classify(ctx.l2(outdir))
    if not ctx.replay and st.get("cases", 0) < ctx.scale(100, 600):
        ctx.violation("too-few-crash-points", "", f"only {st.get('cases', 0)} crash points were exercised", no_input=True)
    if ctx.thorough:
        ctx.leanchecker(MODULES)
    ctx.assumptions += [
        "POSIX order = program order; rename and unlink are atomic; no fsync/disk reordering",
        "a manifest / part record is written by ONE write(2); a crash leaves it complete or unreadable "
        "(every proper prefix of each JSON text written in this run was fed to the real decoder and rejected)",
        "kill points are syscall entries; bodies arrive in pieces of a few bytes so each piece is one write",
        "registry is honest (serves bytes that hash to the digest); blobs < 100 MB (one part)",
        "directories are not modelled (MkdirAll / PruneDirectory only add/remove empty directories)",
    ]
    return ctx.finish(
        level="proof",
        rule="crash points = every store-modifying file syscall (openat for writing, write, pwrite64, ftruncate, rename, "
             "unlink, chmod, copy_file_range, mkdir, rmdir) of one operation run in a child process on a prepared "
             "store (2-3 models sharing layers; stores with a manifest torn by an earlier real crash and with real "
             "partial-download debris); distinct = distinct oracle command lines (effects / crash-state / rerun)",
        explanation="Lean theorems over the effect-list model; L1: the real syscall trace of each operation, the real "
                    "store after each kill and the real outcome of the repeated operation equal the model's effect "
                    "list, crash state and rerun result; L2: the property predicate evaluated on the real store after "
                    "each real kill + real start-up sequence + real rerun",
        extra_cov={"exhaustive": False})
