"""C12 — a crash at any point leaves a store in which every resolvable model is intact."""
from vlib import core
from vlib.registry import COMMON_NOTE

REGISTRATION = {
    "engine": "lean-storecrash",
    "technique": "Lean 4 proof over an effect-list crash model of the store + syscall-trace correspondence + "
                 "kill injection at every store syscall of the real code",
    "category": "proof",
    "text": "Kernel-checked theorems over a Lean model in which every store operation (blob upload, create, copy, "
            "delete, pull from an honest registry incl. resume from part records) is its ordered list of primitive "
            "file-system effects computed against the evolving store, for both variants of the code (manifests / part "
            "records written in place or by temp+rename; the check detects the tree's variant from the real trace) and "
            "both start-up configurations (prune / OLLAMA_NOPRUNE): for EVERY store satisfying the invariant, every "
            "operation and every crash prefix of its effect list (last data write cut at any byte), the start-up "
            "sequence leaves every readable manifest with all layers present and hashing to their names, and leaves "
            "uninvolved names and their blobs untouched (crash_safe). For the tree's current variant (atomic manifest "
            "writes) additionally: after any crash every manifest file is the old or the completed one, no manifest is "
            "ever torn, a replaced model stays resolvable; repeating upload/copy/delete yields exactly the manifest "
            "files of an uninterrupted run, and the repeated pull SUCCEEDS and converges (prune configuration, "
            "registry serves the layers). The effect lists are tied to the code by comparing them with the real "
            "syscall trace of each operation (ptrace, canonicalised to the same alphabet), the model's crash states "
            "and rerun outcomes with the real ones, and crash points are enumerated on the REAL code by killing a "
            "child process at the entry of every store syscall (single-part pulls, create, copy, delete, upload under "
            "both configurations; a 2-part pull of a >100 MB layer with parts completing out of order under "
            "OLLAMA_NOPRUNE), running the real start-up sequence, re-hashing everything readable manifests name, "
            "and re-running the operation.",
    "design_ref": "DESIGN.md §5 C12, §6 F19",
    "note": COMMON_NOTE + "Modelled, not verified: POSIX order = program order, rename/unlink atomic, one write(2) "
            "of a manifest or part record is all-or-nothing at a readable/unreadable level (checked on the real "
            "decoder: every proper prefix of the JSON texts the run wrote is rejected), directories, multi-part "
            "downloads (blobs >= 100 MB: exercised on the real code by kill enumeration + L2 monitors only, no "
            "Lean model), rerun convergence of create (L1/L2 only), re-establishment of debris consistency "
            "(PullPre) by crashes of pull (monitored on every real crash state: debris-inconsistent), "
            "fsync/disk ordering. SHA-256 is an uninterpreted function in the "
            "theorems. Kill points are syscall entries (bodies arrive in small pieces so that each piece is one "
            "write).",
}

MODULES = ["OllamaVerif.Properties.C12", "OllamaVerif.Tie.C12"]
THEOREMS = [
    "OllamaVerif.C12.effect_preserves_inv",
    "OllamaVerif.C12.seq_preserves_inv",
    "OllamaVerif.C12.restart_preserves_inv",
    "OllamaVerif.C12.restart_untouched",
    "OllamaVerif.C12.exec_seqOK",
    "OllamaVerif.C12.crash_safe",
    "OllamaVerif.C12.atomic_manifest_old_or_new",
    "OllamaVerif.C12.atomic_never_torn",
    "OllamaVerif.C12.atomic_replaced_model_kept",
    "OllamaVerif.C12.rerun_converges_partial",
    "OllamaVerif.C12.rerun_converges_pull_partial",
    "OllamaVerif.C12.atomic_never_torn_run",
    "OllamaVerif.C12.rerun_converges_pull",
    "OllamaVerif.C12.prune_clears_partials",
    "OllamaVerif.C12.F26_blind_lister_prunes_every_blob",
    "OllamaVerif.Tie.C12.serve_repair_order",
    "OllamaVerif.Tie.C12.serve_repair_is_synchronous",
    "OllamaVerif.Tie.C12.serve_repair_gating",
    "OllamaVerif.C12.F19a_replaced_model_lost",
    "OllamaVerif.C12.F19b_torn_part_record_blocks_repull",
]
OVERLAY = {"server/zz_verif_c12_test.go": "server/zz_verif_c12_test.go"}


def normalize(line):
    """Go's map iteration order decides the order of the unlinks of deleteUnusedLayers: compare
    runs of consecutive `rm B:` effects as sets."""
    if " ; " not in line and not line.startswith("rm "):
        return line
    body, sep, tail = line.rpartition(" | ")
    if not sep:
        body, tail = line, ""
    items = body.split(" ; ")
    out, run = [], []
    for it in items:
        if it.startswith("rm B:"):
            run.append(it)
        else:
            out += sorted(run)
            run = []
            out.append(it)
    out += sorted(run)
    return " ; ".join(out) + (sep + tail if sep else "")


def regenerate(ctx):
    """Tie 1: go/ast over func Serve (server/routes.go): every call of the start-up store repair and of the call that
    starts serving, in source order, with (inside go/defer/func literal?, conditions of the enclosing ifs)."""
    rc, out, outdir = ctx.go_test("./server/", OVERLAY, "^TestVerifC12Facts$")
    rows = []
    try:
        for line in open(outdir + "/facts.txt"):
            line = line.rstrip("\n")
            if not line:
                continue
            name, asyn, conds = (line.split("\t") + ["", ""])[:3]
            q = lambda x: '"' + x.replace("\\", "\\\\").replace('"', '\\"') + '"'
            rows.append(f"({q(name)}, {'true' if asyn == 'true' else 'false'}, {q(conds)})")
    except OSError:
        pass
    body = ("-- REGENERATED on every run by vlib/checks/c12.py from the working tree under test. Do not edit.\n"
            "namespace OllamaVerif.Generated.C12\n"
            "/-- func Serve (server/routes.go): (call, inside a go statement / function literal / defer, conditions of the\n"
            "enclosing ifs) for every call of the start-up store repair and of the call that starts serving, in source order -/\n"
            "def serveCalls : List (String × Bool × String) := [\n  " + ",\n  ".join(rows) + "]\n"
            "end OllamaVerif.Generated.C12\n")
    core.write_generated("OllamaVerif/Generated/C12_Serve.lean", body)


def run(ctx):
    regenerate(ctx)
    ctx.lean_check(MODULES, THEOREMS)
    env = {}
    if ctx.thorough:
        env["VERIF_N"] = 6
    if ctx.replay:
        env["VERIF_REPLAY"] = ctx.replay_line_file()
    rc, out, outdir = ctx.go_test("./server/", OVERLAY, "^TestVerifC12$", env=env, timeout=ctx.scale(600, 2400))
    if rc != 0:
        ctx.violation("driver-failed", "", out[-1500:], no_input=True)
    st = ctx.read_stats(outdir)
    # which variant of the code this tree is (detected by the driver from the real syscall trace of a copy
    # and of a pull; the oracle runs the same variant of the model)
    ctx.coverage["variant"] = {"atomic_manifest_writes": bool(st.get("variant_atomic_manifest", 0)),
                               "atomic_part_record_writes": bool(st.get("variant_atomic_part_record", 0))}
    ctx.l1(outdir, normalize=normalize, keep_samples=3)
    ctx.classify(ctx.l2(outdir))
    ctx.coverage["configurations"] = {"noprune_scenarios": st.get("noprune_scenarios", 0),
                                      "multipart_body_writes_sampled_from": st.get("multipart_body_writes", 0),
                                      "debris_records_checked": st.get("debris_records_checked", 0)}
    if not ctx.replay and st.get("cases", 0) < ctx.scale(100, 600):
        ctx.violation("too-few-crash-points", "", f"only {st.get('cases', 0)} crash points were exercised", no_input=True)
    if ctx.thorough:
        ctx.leanchecker(MODULES)
    ctx.assumptions += [
        "POSIX order = program order; rename and unlink are atomic; no fsync/disk reordering",
        "a manifest / part record is written by ONE write(2); a crash leaves it complete or unreadable "
        "(every proper prefix of each JSON text written in this run was fed to the real decoder and rejected)",
        "kill points are syscall entries; bodies arrive in pieces of a few bytes so each piece is one write",
        "registry is honest (serves bytes that hash to the digest); the Lean model covers blobs < 100 MB (one part); "
        "multi-part pulls are covered by real kill enumeration + L2 monitors only",
        "debris of earlier pulls is consistent (PartOK/PullPre): evaluated on the real files of every crash state of a "
        "pull (debris-inconsistent monitor)",
        "directories are not modelled (MkdirAll / PruneDirectory only add/remove empty directories); symbolic links to "
        "directories are transparent in the model because the unchanged code follows them everywhere (Glob+Stat lister, "
        "open by name, ReadDir of blobs/): tied by exact L1 (effects, crash state, state after start-up) on stores with "
        "symlinked model / host / blobs / manifests directories, and by L2 on names resolved BY NAME",
        "the models path contains no glob metacharacter (otherwise F26: the lister is blind; mirrored as pruneBlind with a "
        "Lean witness, exercised on the real code as an L2-only scenario)",
    ]
    return ctx.finish(
        level="proof",
        rule="crash points = every store-modifying file syscall (openat for writing, write, pwrite64, ftruncate, rename, "
             "unlink, chmod, copy_file_range, mkdir, rmdir) of one operation run in a child process on a prepared "
             "store (2-3 models sharing layers; stores with a torn manifest and with real partial-download debris; "
             "the same operations under OLLAMA_NOPRUNE=1; one 2-part pull of a 100 MB + 40..90 byte layer whose part 1 "
             "completes before part 0 starts, body writes sampled, under NOPRUNE and under the default configuration; "
             "store SHAPES: model directory / host directory / blobs and manifests directories as symbolic links, "
             "files at depth 2 and 5 under manifests/, an empty model directory, junk in blobs/ and in the models "
             "directory, a models path containing `[`); distinct = distinct oracle "
             "command lines (effects / crash-state / rerun)",
        explanation="Lean theorems over the effect-list model; L1: the real syscall trace of each operation, the real "
                    "store after each kill and the real outcome of the repeated operation equal the model's effect "
                    "list, crash state and rerun result; L2: the property predicate evaluated on the real store after "
                    "each real kill + real start-up sequence + real rerun",
        extra_cov={"exhaustive": False})
