"""C14 — Streamed text stops before stop sequences and is always whole UTF-8."""
import os

from vlib import core
from vlib.registry import COMMON_NOTE

REGISTRATION = {
    "engine": "lean-stop",
    "technique": "Lean 4 proof over a byte-level model of stop.go + flushPending + the per-token loop; "
                 "differential correspondence against the real processBatch of BOTH runners (ollamarunner behind a scripted "
                 "model, llamarunner on the real llama.cpp context behind a generated GGUF model)",
    "category": "proof",
    "text": "Kernel-checked theorems, for every list of generated pieces/EOS, every stop list and every prediction limit, "
            "over a Lean model of FindStop (first-listed and earliest variant)/ContainsStopSuffix/TruncateStop/IncompleteUnicode, "
            "utf8.ValidString (byte automaton), flushPending, the per-token loop of processBatch, the cache-length arithmetic "
            "next to TruncateStop, the buffered response channel with a lagging reader, and calls in which a sequence is not "
            "sampled because of its batch-mates. c14_script / c14_streamed_text state the whole property (hypothesis on the "
            "script: its pieces spell a prefix of valid UTF-8): chunks valid UTF-8, output a prefix of the generated text cut "
            "on character boundaries, no stop inside, ends right before the earliest stop with reason stop, otherwise at "
            "EOS/limit with everything streamed, and the reader receives exactly these chunks whatever its schedule; "
            "c14_tree is that statement for the FindStop variant the tree was MEASURED to have on this run (the real "
            "FindStop/TruncateStop executed on distinguishing inputs -> Generated/C14_Variant.lean -> tree_findstop_repaired by "
            "decide); consumer_schedule_independent, batch_mates_independent and disconnect_prefix say that the stream is a "
            "function of (pieces, stops, limit) only; cacheKeep_spec: at a stop string the cache keeps exactly the inputs of the "
            "tokens streamed in full; cache_at_stop_is_streamed_tokens: for the whole run (scripts of non-empty pieces spelling a "
            "prefix of valid UTF-8) the cache length at a stop is promptLen + the number of generated tokens lying entirely "
            "within the streamed text; cache_reslice_in_range: along every history the reslice seq.cache.Inputs[:tokenLen] is in "
            "range (0 <= tokenLen <= inputs submitted so far). For the first-listed FindStop the multi-stop clause is false "
            "(finding F7, fixed in /repo; Lean witness) and proved under a guard. The model is compared exactly with the real "
            "functions of runner/common, with the real ollamarunner loop (NewSequence, LoadCacheSlot, processBatch, "
            "removeSequence, flushPending; scripted model + greedy sampler behind the Server) run with a prompt reader, with "
            "lagging/disconnecting readers (testing/synctest) and with 2-3 sequences per Server, with the real completion HTTP "
            "handler one level up (request JSON as the llm client sends it; streamed JSON lines compared exactly), and with the "
            "real llamarunner loop (loadModel, NewSequence, LoadCacheSlot, processBatch, removeSequence, flushPending on the real "
            "llama.cpp llama_decode / sampler / token_to_piece / is_eog; only the weights and the vocabulary of a generated tiny "
            "GGUF file are scripted) and llamarunner's completion handler in front of it; the go/ast skeleton of the output "
            "statements of both runners and handlers is regenerated on every run.",
    "design_ref": "DESIGN.md §5 C14, §6 F7/F20",
    "note": COMMON_NOTE + "Modelled, not verified: what the decode loop does after the client disconnected (the select "
            "in flushPending is then nondeterministic; disconnect_prefix covers what the client holds, L2 monitors the rest), "
            "stop strings reach the runner through JSON and are therefore valid UTF-8 (the stop clauses are stated for valid "
            "non-empty stops, where the streamed text is exactly the text before the stop; for non-empty stops of ARBITRARY bytes "
            "c14_any_stops / stop_found_any give the same clauses with 'the valid part of the text before the stop' "
            "(trimValid), and a stop list with an empty member streams nothing: empty_stop_streams_nothing — together every "
            "stop list), "
            "llamarunner's loop and completion handler are executed with greedy sampling only, with pieces free of NUL bytes "
            "and behind a generated one-layer model. Two clauses of the statement are "
            "refuted as written and proved in the weaker true form: 'prefix of the generated text' holds for valid-UTF-8 "
            "generations only (F20a), 'the reason says which of the three' is a two-valued map (F20b).",
}

PROP_MODULES = ["OllamaVerif.Properties.C14"]
VARIANT_MODULES = ["OllamaVerif.Tie.C14Variant"]
VARIANT_THEOREMS = [
    "OllamaVerif.Tie.C14.tree_findstop_repaired",
    "OllamaVerif.Tie.C14.c14_tree",
]
TIE_MODULES = ["OllamaVerif.Tie.C14"]
MODULES = PROP_MODULES + VARIANT_MODULES + TIE_MODULES
TIE_THEOREMS = [
    "OllamaVerif.Tie.C14.ollama_skeleton_matches",
    "OllamaVerif.Tie.C14.llama_skeleton_matches",
]
THEOREMS = [
    "OllamaVerif.C14.chunks_valid",
    "OllamaVerif.C14.reason_map",
    "OllamaVerif.C14.cause_spec",
    "OllamaVerif.C14.out_sublist_gen",
    "OllamaVerif.C14.prefix_valid",
    "OllamaVerif.C14.no_split",
    "OllamaVerif.C14.stop_found",
    "OllamaVerif.C14.ends_at_eos_or_limit",
    "OllamaVerif.C14.stop_honoured",
    "OllamaVerif.C14.no_stop_in_output_partial",
    "OllamaVerif.C14.no_stop_in_output_fixed",
    "OllamaVerif.C14.single_stop",
    "OllamaVerif.C14.consumer_schedule_independent",
    "OllamaVerif.C14.c14_streamed_text",
    "OllamaVerif.C14.batch_mates_independent",
    "OllamaVerif.C14.disconnect_prefix",
    "OllamaVerif.C14.client_receives",
    "OllamaVerif.C14.eos_on_last_permitted_token",
    "OllamaVerif.C14.F7_first_listed_not_earliest",
    "OllamaVerif.C14.F20_invalid_bytes_dropped",
    "OllamaVerif.C14.F20_reason_not_injective",
    "OllamaVerif.Stop.run_main",
    "OllamaVerif.Stop.valid_of_not_incomplete",
    "OllamaVerif.Stop.valid_before_valid",
    "OllamaVerif.Stop.truncateStop_flatten",
    "OllamaVerif.Stop.findStopEarliest_spec",
    "OllamaVerif.Stop.consumed_gen",
    "OllamaVerif.Stop.runSched_eq_run",
    "OllamaVerif.Stop.truncateStop_shape",
    "OllamaVerif.Stop.run_append",
    "OllamaVerif.Stop.runN_eq_run",
    "OllamaVerif.Stop.client_view",
    "OllamaVerif.C14.c14_script",
    "OllamaVerif.C14.genText_prefix_script",
    "OllamaVerif.C14.cacheKeep_spec",
    "OllamaVerif.C14.shape_whole",
    "OllamaVerif.C14.empty_stop_streams_nothing",
    "OllamaVerif.C14.cacheLen_in_range",
    "OllamaVerif.C14.cache_reslice_in_range",
    "OllamaVerif.C14.cacheLenRun_isSome_iff",
    "OllamaVerif.C14.cache_is_streamed_tokens",
    "OllamaVerif.C14.cache_at_stop_is_streamed_tokens",
    "OllamaVerif.C14.splitBack_whole",
    "OllamaVerif.C14.c14_any_stops",
    "OllamaVerif.C14.stop_found_any",
    "OllamaVerif.C14.ends_at_eos_or_limit_any",
    "OllamaVerif.Stop.run_mainG",
    "OllamaVerif.Stop.step_mainG",
]
# Model variant the oracle is asked to run: 1 = first listed stop (finding F7, fixed in /repo 6e9857ebf), 0 = earliest
# occurrence.  NOT a constant any more: decided on every run by executing the real FindStop (regenerate_variant), and
# the same answers are checked in Lean (Tie.C14.tree_findstop_repaired), from which the tree-level theorem is derived.
PINNED_FINDSTOP = 0

OV_COMMON = {
    "runner/common/zz_verif_c14_test.go": "runner_common/zz_verif_c14_test.go",
    "runner/common/zz_verif_c14_extract_test.go": "runner_common/zz_verif_c14_extract_test.go",
}
OV_OLLAMA = {
    "runner/ollamarunner/zz_verif_c14_test.go": "runner_ollamarunner/zz_verif_c14_test.go",
    "runner/ollamarunner/zz_verif_c14_sched_test.go": "runner_ollamarunner/zz_verif_c14_sched_test.go",
    "runner/ollamarunner/zz_verif_c14_multi_test.go": "runner_ollamarunner/zz_verif_c14_multi_test.go",
    "runner/ollamarunner/zz_verif_c14_handler_test.go": "runner_ollamarunner/zz_verif_c14_handler_test.go",
}
OV_LLAMA = {"runner/llamarunner/zz_verif_c14_test.go": "runner_llamarunner/zz_verif_c14_test.go",
            "runner/llamarunner/zz_verif_c14_loop_test.go": "runner_llamarunner/zz_verif_c14_loop_test.go",
            "runner/llamarunner/zz_verif_c14_llhandler_test.go": "runner_llamarunner/zz_verif_c14_llhandler_test.go",
            "runner/llamarunner/zz_verif_c14_llmulti_test.go": "runner_llamarunner/zz_verif_c14_llmulti_test.go"}


def lean_str(s):
    return '"' + s.replace("\\", "\\\\").replace('"', '\\"') + '"'


def _lean_strings(text):
    """{def name: [string, …]} of a generated skeleton file"""
    import re
    cur, d = None, {}
    for line in text.splitlines():
        m = re.match(r'def (\w+) : List String', line)
        if m:
            cur = m.group(1)
            d[cur] = []
            line = line.split(":=", 1)[1] if ":=" in line else ""
        m = re.match(r'^\[?\s*"(.*)"[,\]]*$', line.strip()) if cur else None
        if m:
            d[cur].append(m.group(1).replace('\\"', '"').replace('\\\\', '\\'))
    return d


def _unify_locals(tmpl, recorded, cur_names=None):
    """tmpl: tokens of one function with every local as a marker zzL<k>zz; recorded: the tokens of the recorded skeleton.
    Returns {k: name} if the template equals the recorded tokens under an injective naming of the locals that captures no
    other identifier of the function, else None."""
    import re
    if len(tmpl) != len(recorded):
        return None
    bind = {}
    for t, c in zip(tmpl, recorded):
        parts = re.split(r'zzL(\d+)zz', t)
        rx, order = "", []
        for i, part in enumerate(parts):
            if i % 2 == 0:
                rx += re.escape(part)
            else:
                rx += r'([A-Za-z_]\w*)'
                order.append(int(part))
        m = re.fullmatch(rx, c)
        if not m:
            return None
        for k, name in zip(order, m.groups()):
            if bind.setdefault(k, name) != name:
                return None
    # the renaming must be a bijection on NAMES (two objects may share a name in different scopes, e.g. the `seq` of
    # the two loops of processBatch: then they must share it before and after)
    fwd, bwd = {}, {}
    for k, name in bind.items():
        cur = cur_names[k] if cur_names and k < len(cur_names) else f"#{k}"
        if fwd.setdefault(cur, name) != name or bwd.setdefault(name, cur) != cur:
            return None
    others = set()
    for t in tmpl:
        others |= set(re.findall(r'(?<![\w.])[A-Za-z_]\w*', re.sub(r'zzL\d+zz', ' ', t)))   # not field / method selectors
    if any(n in others for n in bind.values()):
        return None
    return bind


def regenerate(ctx):
    """Tie 1: go/ast skeleton of the output statements of processBatch/removeSequence/flushPending in both runners."""
    rc, out, outdir = ctx.go_test("./runner/common/", OV_COMMON, "^TestVerifC14Extract$")
    rows = {"ollamarunner": [], "llamarunner": []}
    p = os.path.join(outdir, "skeleton.txt")
    if rc == 0 and os.path.exists(p):
        for line in open(p):
            r, fn, tok = line.rstrip("\n").split("\t", 2)
            rows[r].append(f"{fn}: {tok}")
    # a skeleton that differs from the recorded one only by the NAMES of local variables is the same skeleton: the
    # extractor also prints every function with its locals as markers (by object, not by name); if the markers can be
    # named so that the recorded tokens come out (injective, no capture), the recorded tokens are written
    import subprocess
    recorded = _lean_strings(subprocess.run(["git", "show", "HEAD:lean/OllamaVerif/Generated/C14_Skeleton.lean"], cwd=core.ROOT,
                                            stdout=subprocess.PIPE, stderr=subprocess.DEVNULL, text=True).stdout)
    pt = os.path.join(outdir, "skeleton_tmpl.txt")
    renamed = []
    if rc == 0 and os.path.exists(pt):
        tmpl = {}
        names = {}
        for line in open(pt):
            r, fn, tok = line.rstrip("\n").split("\t", 2)
            if tok.startswith("#locals\t"):
                names[(r, fn)] = tok.split("\t", 1)[1].split(",")
                continue
            tmpl.setdefault((r, fn), []).append(tok)
        for r, key in (("ollamarunner", "ollama"), ("llamarunner", "llama")):
            rec = recorded.get(key, [])
            if rows[r] == rec:
                continue
            out_rows, ok = [], True
            fns = []
            for x in rows[r]:
                fn = x.split(": ", 1)[0]
                if fn not in fns:
                    fns.append(fn)
            for fn in fns:
                cur = [x for x in rows[r] if x.startswith(fn + ": ")]
                want = [x for x in rec if x.startswith(fn + ": ")]
                if cur == want:
                    out_rows += cur
                    continue
                b = _unify_locals([f"{fn}: {t}" for t in tmpl.get((r, fn), [])], want, names.get((r, fn)))
                if b is None:
                    ok = False
                    break
                out_rows += want
                nm = names.get((r, fn), [])
                renamed += [f"{r}.{fn}: {nm[k]} -> {v}" for k, v in sorted(b.items()) if k < len(nm) and nm[k] != v]
            if ok and out_rows == rec:
                rows[r] = rec
    if renamed:
        ctx.coverage["skeleton_equal_up_to_local_names"] = renamed[:20]

    def lst(xs):
        return "[\n  " + ",\n  ".join(lean_str(x) for x in xs) + "]" if xs else "[]"
    body = ("-- REGENERATED on every run by vlib/checks/c14.py from /repo's working tree (go/ast). Do not edit.\n"
            "namespace OllamaVerif.Generated.C14\n"
            "/-- output skeleton of runner/ollamarunner/runner.go -/\n"
            "def ollama : List String := " + lst(rows["ollamarunner"]) + "\n"
            "/-- output skeleton of runner/llamarunner/runner.go -/\n"
            "def llama : List String := " + lst(rows["llamarunner"]) + "\n"
            "end OllamaVerif.Generated.C14\n")
    # what changed w.r.t. the committed skeleton (the one Tie/C14.lean was written against) — for the report only
    import difflib
    import subprocess
    old = subprocess.run(["git", "show", "HEAD:lean/OllamaVerif/Generated/C14_Skeleton.lean"], cwd=core.ROOT,
                         stdout=subprocess.PIPE, stderr=subprocess.DEVNULL, text=True).stdout
    diff = [l for l in difflib.unified_diff(old.splitlines(), body.splitlines(), lineterm="", n=0)
            if l[:1] in "+-" and l[:3] not in ("+++", "---")]
    core.write_generated("OllamaVerif/Generated/C14_Skeleton.lean", body)
    ctx.coverage["skeleton_tokens"] = len(rows["ollamarunner"]) + len(rows["llamarunner"])
    return diff


def lean_bytes(h):
    b = bytes.fromhex("" if h == "-" else h)
    return "[" + ", ".join("0x%02x" % x for x in b) + "]"


def regenerate_variant(ctx):
    """Tie 1: which FindStop the tree has.  The real common.FindStop/TruncateStop are executed on the inputs that tell
    the model's two variants apart; the answers become Generated/C14_Variant.lean, Tie/C14Variant.lean decides by
    `decide` which variant agrees with them (tree_findstop_repaired) and derives the tree-level theorem c14_tree.
    Returns the variant flag the oracle is asked to run (1 = first listed stop, 0 = earliest occurrence)."""
    rc, out, outdir = ctx.go_test("./runner/common/", OV_COMMON, "^TestVerifC14Variant$")
    rows = []
    p = os.path.join(outdir, "variant.txt")
    if rc == 0 and os.path.exists(p):
        for line in open(p):
            seq, stops, res, kept = line.rstrip("\n").split("\t")
            stops = [x for x in stops.split(",") if x]
            r = "none" if res == "none" else "some " + lean_bytes(res.split()[1])
            rows.append((seq, stops, res, f"({lean_bytes(seq)}, [{', '.join(lean_bytes(x) for x in stops)}], {r}, "
                                           f"{lean_bytes(kept)})"))
    body = ("-- REGENERATED on every run by vlib/checks/c14.py: the real common.FindStop / TruncateStop of /repo's working\n"
            "-- tree EXECUTED on the inputs that tell the model's variants apart (TestVerifC14Variant). Do not edit.\n"
            "namespace OllamaVerif.Generated.C14\n"
            "/-- (sequence, stops, what FindStop returned, text TruncateStop([sequence], stop) kept) -/\n"
            "def findStopProbe : List (List UInt8 × List (List UInt8) × Option (List UInt8) × List UInt8) := [\n  "
            + ",\n  ".join(r[3] for r in rows) + "]\n"
            "end OllamaVerif.Generated.C14\n")
    core.write_generated("OllamaVerif/Generated/C14_Variant.lean", body)
    ctx.coverage["findstop_probe_rows"] = len(rows)
    # the F7 witness row decides what the oracle is asked to run: first listed ("\n\n") or earliest ("}")
    pinned = 0
    for seq, stops, res, _ in rows:
        if seq == "7d0a0a" and stops == ["0a0a", "7d"]:
            pinned = 1 if res == "some 0a0a" else 0
    ctx.coverage["findstop_variant_of_tree"] = "first-listed (pinned, F7)" if pinned else "earliest (repaired)"
    return pinned


def run(ctx):
    global PINNED_FINDSTOP
    PINNED_FINDSTOP = regenerate_variant(ctx)
    if PINNED_FINDSTOP and not ctx.replay:
        # the EXPECTED variant is the repaired one: a tree that answers like the first-listed FindStop has lost the F7 fix
        ctx.violation("variant-regression", "loop 1 0 2 0a0a 7d 2 7d0a0a E",
                      "the tree's FindStop answers like the first-listed variant (finding F7, fixed in 6e9857ebf): "
                      "FindStop(\"}\\n\\n\", [\"\\n\\n\", \"}\"]) returned \"\\n\\n\"; one token \"}\\n\\n\" streams \"}\"")
    skel_diff = regenerate(ctx)
    # The skeleton tie is built on its own so that a change of either runner's output statements is reported as
    # exactly that (with the changed statements), and the property theorems are still checked.
    tie_ok, _ = ctx.lake_build(TIE_MODULES)
    var_ok, _ = ctx.lake_build(VARIANT_MODULES)
    mods = PROP_MODULES + (VARIANT_MODULES if var_ok else []) + (TIE_MODULES if tie_ok else [])
    ctx.lean_check(mods, THEOREMS + (VARIANT_THEOREMS if var_ok else []) + (TIE_THEOREMS if tie_ok else []))
    if not var_ok:
        ctx.obligations += VARIANT_THEOREMS      # stay undischarged
        ctx.notes.append("the tree's FindStop no longer answers like the repaired model variant (findStopV false) on the "
                         "probe inputs (Generated/C14_Variant.lean): the F7 repair regressed or FindStop/TruncateStop changed; "
                         "c14_tree no longer applies to this tree (the oracle was asked for variant pinned=%d)" % PINNED_FINDSTOP)
    if not tie_ok:
        ctx.obligations += TIE_THEOREMS          # stay undischarged
        ctx.notes.append("output skeleton of runner/{ollamarunner,llamarunner}/runner.go no longer the one the model was "
                         "written against; changed statements: " + " | ".join(skel_diff[:12]))
    env_replay = {}
    if ctx.replay:
        env_replay["VERIF_REPLAY"] = ctx.replay_line_file()

    # (1) pure functions of runner/common + the UTF-8 decoder
    env = {"VERIF_N": ctx.scale(3000, 200000), "VERIF_EXH": ctx.scale(4, 5), "VERIF_C14_PINNED": PINNED_FINDSTOP}
    env.update(env_replay)
    rc, out, outdir = ctx.go_test("./runner/common/", OV_COMMON, "^TestVerifC14$", env=env)
    if rc != 0:
        ctx.violation("driver-failed", "", out[-1500:], no_input=True)
    ctx.read_stats(outdir)
    ctx.l1(outdir, label="L1-common")
    ctx.classify(ctx.l2(outdir))

    # (2) the real per-token loop of ollamarunner.Server.processBatch
    env = {"VERIF_N": ctx.scale(4000, 600000), "VERIF_EXH": ctx.scale(5, 8), "VERIF_C14_PINNED": PINNED_FINDSTOP}
    env.update(env_replay)
    rc, out, outdir = ctx.go_test("./runner/ollamarunner/", OV_OLLAMA, "^TestVerifC14Loop$", env=env, timeout=2400)
    if rc != 0:
        ctx.violation("driver-failed", "", out[-1500:], no_input=True)
    ctx.read_stats(outdir)
    ctx.l1(outdir, label="L1-loop")
    ctx.classify(ctx.l2(outdir))

    # (2b) the same real loop with a lagging reader of seq.responses (consumer schedules, synctest bubble)
    env = {"VERIF_N": ctx.scale(500, 20000), "VERIF_C14_PINNED": PINNED_FINDSTOP}
    env.update(env_replay)
    rc, out, outdir = ctx.go_test("./runner/ollamarunner/", OV_OLLAMA, "^TestVerifC14Sched$", env=env, timeout=2400)
    if rc != 0:
        ctx.violation("driver-failed", "", out[-1500:], no_input=True)
    ctx.read_stats(outdir)
    ctx.l1(outdir, label="L1-sched")
    ctx.classify(ctx.l2(outdir))

    # (2c) 2-3 sequences in one Server (join/leave at different times, small batch sizes): every sequence against the
    # single-sequence model, and against itself running alone on the real code
    env = {"VERIF_N": ctx.scale(600, 30000), "VERIF_C14_PINNED": PINNED_FINDSTOP}
    env.update(env_replay)
    rc, out, outdir = ctx.go_test("./runner/ollamarunner/", OV_OLLAMA, "^TestVerifC14Multi$", env=env, timeout=2400)
    if rc != 0:
        ctx.violation("driver-failed", "", out[-1500:], no_input=True)
    ctx.read_stats(outdir)
    ctx.l1(outdir, label="L1-multi")
    ctx.classify(ctx.l2(outdir))

    # (2d) one level up: the real `completion` HTTP handler (request JSON in, streamed JSON lines out)
    env = {"VERIF_N": ctx.scale(1500, 60000), "VERIF_C14_PINNED": PINNED_FINDSTOP}
    env.update(env_replay)
    rc, out, outdir = ctx.go_test("./runner/ollamarunner/", OV_OLLAMA, "^TestVerifC14Handler$", env=env, timeout=2400)
    if rc != 0:
        ctx.violation("driver-failed", "", out[-1500:], no_input=True)
    ctx.read_stats(outdir)
    ctx.l1(outdir, label="L1-handler")
    ctx.classify(ctx.l2(outdir))

    # (3) llamarunner's own copy of flushPending
    if not ctx.replay:
        rc, out, outdir = ctx.go_test("./runner/llamarunner/", OV_LLAMA, "^TestVerifC14LlamaFlush$",
                                      env={"VERIF_N": ctx.scale(2000, 100000)}, timeout=2400)
        if rc != 0:
            ctx.violation("driver-failed", "", out[-1500:], no_input=True)
        ctx.read_stats(outdir)
        ctx.l1(outdir, label="L1-llama-flush")
        ctx.classify(ctx.l2(outdir))

    # (3b) llamarunner's own per-token loop, executed: the real llamarunner.Server.processBatch on the real llama.cpp
    # context, behind it a generated GGUF model whose greedy continuation follows the script
    env = {"VERIF_N": ctx.scale(1500, 40000), "VERIF_EXH": ctx.scale(4, 5), "VERIF_C14_PINNED": PINNED_FINDSTOP}
    env.update(env_replay)
    rc, out, outdir = ctx.go_test("./runner/llamarunner/", OV_LLAMA, "^TestVerifC14LlamaLoop$", env=env, timeout=2400)
    if rc != 0:
        ctx.violation("driver-failed", "", out[-1500:], no_input=True)
    ctx.read_stats(outdir)
    ctx.l1(outdir, label="L1-llama-loop")
    ctx.classify(ctx.l2(outdir))

    # (3c) llamarunner's own completion HTTP handler (request JSON in, streamed JSON lines out) in front of that loop
    env = {"VERIF_N": ctx.scale(400, 6000), "VERIF_C14_PINNED": PINNED_FINDSTOP}
    env.update(env_replay)
    rc, out, outdir = ctx.go_test("./runner/llamarunner/", OV_LLAMA, "^TestVerifC14LlamaHandler$", env=env, timeout=2400)
    if rc != 0:
        ctx.violation("driver-failed", "", out[-1500:], no_input=True)
    ctx.read_stats(outdir)
    ctx.l1(outdir, label="L1-llama-handler")
    ctx.classify(ctx.l2(outdir))

    # (3d) two sequences in one llamarunner Server / one llama.cpp context (one batch, two output rows per call)
    if not ctx.replay:
        env = {"VERIF_N": ctx.scale(300, 8000), "VERIF_C14_PINNED": PINNED_FINDSTOP}
        rc, out, outdir = ctx.go_test("./runner/llamarunner/", OV_LLAMA, "^TestVerifC14LlamaMulti$", env=env, timeout=2400)
        if rc != 0:
            ctx.violation("driver-failed", "", out[-1500:], no_input=True)
        ctx.read_stats(outdir)
        ctx.l1(outdir, label="L1-llama-multi")
        ctx.classify(ctx.l2(outdir))

    # fail closed when a branch the theorems speak about was never exercised on the real code
    if not ctx.replay and not ctx.violations:
        need = ["cause_eos", "cause_limit", "cause_stopstring", "running", "branch_hold_stop_suffix",
                "branch_hold_incomplete_unicode", "branch_flush_all", "branch_final_flush_trims", "multi_chunk",
                "trunc_token_truncated", "f20_dropped_bytes", "has_empty_stop", "cachelen_cases",
                "sched_forced_reads", "sched_backpressure_runs", "sched_quit_cases", "handler_cancelled",
                "handler_end_at_limit", "handler_reason_length", "handler_reason_stop", "multi_reason_stop",
                "multi_reason_length", "llama_cause_eos", "llama_cause_limit", "llama_cause_stopstring",
                "llama_reason_running", "llama_skip_calls", "llama_pending_at_end", "llama_multi_chunk",
                "llama_f20_dropped_bytes", "llama_cachelen_cases", "llama_handler_cancelled", "llama_handler_end_at_limit",
                "llama_handler_reason_length", "llama_handler_reason_stop", "llama_multi_calls_with_two_sequences",
                "llama_multi_reason_stop", "llama_multi_reason_length", "llama_multi_reason_running"]
        missing = [k for k in need if ctx.stats.get(k, 0) <= 0]
        # floors on the size of every phase (a generator that silently shrinks must not pass)
        floors = {"cases": 10000, "exhaustive_cases": 3000, "gen_invalid": 500, "gen_valid_prefix": 8000,
                  "handler_cases": 1000, "sched_cases": 400, "multi_cases": 400, "llama_loop_cases": 1500,
                  "llama_models": 20, "llama_handler_cases": 400, "llama_multi_pairs": 300, "llama_gen_invalid": 100, "cachelen_cases": 5000, "llama_cachelen_cases": 1000,
                  "stops_overlap_in_window": 100, "find_hit": 5000, "trunc_hit": 5000, "suffix_hit": 2000}
        missing += [f"{k}<{v}" for k, v in floors.items() if ctx.stats.get(k, 0) < v]
        if missing:
            ctx.violation("correspondence-coverage", "", "branches the theorems speak about were never exercised on the "
                          "real code by this run's generators: " + ", ".join(missing), no_input=True)

    ctx.assumptions += [
        "after a client disconnect (seq.quit closed) the decode loop's behaviour is not modelled (nondeterministic select); "
        "only what the client already holds is (disconnect_prefix, L2 disconnect-*)",
        "stop strings are valid UTF-8 when they reach the runner (they arrive through encoding/json); the L2 stop monitors "
        "are evaluated for valid, non-empty stops (the theorems cover every stop list: c14_script for valid non-empty "
        "stops, c14_any_stops for non-empty stops of any bytes, empty_stop_streams_nothing for a list with an empty member)",
        "llamarunner's loop is executed with a generated GGUF model (one layer, one-hot embeddings, greedy sampling): what "
        "llama.cpp computes for real weights / other samplers is outside",
        "for generated bytes that are not (a prefix of) valid UTF-8 the L2 monitors keep chunk validity, the reason map, "
        "stop-in-output and the narrowed byte-dropping class on; 'ends right before the stop' and 'everything streamed at "
        "EOS/limit' are evaluated for valid generations only (what is dropped after an undecodable byte is F20a)",
        "Chan.send's back-pressure semantics (a full buffered channel blocks the sender until one receive) is the Go memory "
        "model's, exercised under testing/synctest, not proved",
    ]
    if ctx.thorough:
        ctx.leanchecker(MODULES)
    return ctx.finish(
        level="proof",
        rule="pure functions: exhaustive over all byte strings of length <= 5 (thorough 6) on a 9-symbol alphabet "
             "(ASCII, stop characters, 2/3/4-byte leads, continuation bytes) and <= 3 (4) on the 24 boundary bytes of the "
             "well-formed UTF-8 table, x 10 stop sets, all splits into pieces x 9 stops, + seeded random longer texts; "
             "loop: the F7/F20 corpus, every split of up to 8 short texts x 11 stop sets x 4 limits x EOS/no EOS, + seeded "
             "random scripts (4 000 quick / 600 000 thorough) (multi-byte characters and stops split across tokens, glued tokens, invalid bytes, empty pieces, "
             "EOS anywhere, limits -1..n+2); consumer schedules: scripts of 1..2*cap+40 streamed chunks x readers stalled for "
             "k tokens around/above the channel capacity, until the end, one read per token, bursts, every other token, "
             "disconnect at some token (500 quick / 20 000 thorough); 2-3 sequences per Server x batch sizes 1,2,3,4,512 x join "
             "times 0..8 x prompt lengths 1..5 (600 / 30 000 cases); completion handler: request JSON x scripts whose terminating "
             "event (EOS, one-token stop, stop split over 2-3 tokens) is token j with limit j-1, j, j+1, none, far, + the wide loop "
             "generator, + cancelled requests (1 500 / 60 000 cases); llamarunner loop: corpus (byte-fallback characters, chat-style stop "
             "split over tokens, limit inside a character) + every split of short texts x 9 stop sets x 3 limits + seeded random "
             "scripts (1 500 / 40 000) packed ~20 per generated GGUF model, with limit-check-only calls between tokens; cache "
             "length at removal compared on both runners; llamarunner handler: 400 / 6 000 requests; llamarunner with two sequences in "
             "one context: 300 / 8 000 pairs, the second joining after 0..3 calls; distinct = distinct oracle command lines",
        explanation="Lean theorems about the model of stop.go/flushPending/processBatch's output logic; the model is tied "
                    "to the code by exact comparison with the real functions and the real processBatch loop (L1), by the "
                    "property predicates evaluated on the real loop's output (L2) and by the regenerated go/ast skeleton "
                    "of both runners (Tie 1)")
