"""C15 — concurrent API use causes no data race, panic or torn view of running models."""
import glob
import json
import os
import re
import subprocess

from vlib import core
from vlib.checks import sched_common
from vlib.registry import COMMON_NOTE

REGISTRATION = {
    "engine": "lean-lockset",
    "technique": "Lean 4 lockset theorem over access facts regenerated from the source + race-detector witness search",
    "category": "proof",
    "text": "Kernel-checked general theorems (any number of threads, mutexes, locations; every well-formed interleaving): "
            "(1) lockset: if every pair of conflicting accesses of a location class holds a common mutex (or is by one "
            "singleton thread, or read-only), no two conflicting accesses are unordered — also stated from the thread-local "
            "syntactic lockset; (2) object life cycle: a pointer found in the registry under the registry lock, or re-checked "
            "non-nil under the object's lock, is never seen torn down while that lock stays held (a reader that snapshots under "
            "loadedMu and reads under refMu is race-free yet observes an unloaded runner: Lean witness); lifted to the static rule: "
            "a fact table without stale reads admits no history in which a use event sees a torn-down object (stale_rule_sound, "
            "instantiated for the tree's table); (3) spawn order: with fork events and Go's spawn semantics, two accesses exempted "
            "by pre/post spawn tags are ordered access < fork < access in every trace (no longer a hypothesis). A go/ast+go/types "
            "translator regenerates on every run, from the working tree, one fact per read/write of the scheduler's loaded map, "
            "every runnerRef field, Server.sched, the transfer managers, blobDownload/blobUpload fields and intermediateBlobs, "
            "with the mutexes syntactically held (call-graph propagated) and, for uses of fields unload() clears, whether the "
            "pointer is still live / re-validated (lock wrappers, local aliases, closures run under a helper's lock and local "
            "copies of cleared fields are followed); Lean re-evaluates both rules on that table by `decide`; the rule "
            "implementations (Go vs Lean) are compared exactly on thousands of random tables per run (L1), and the run fails "
            "closed when a branch of either rule never decided on a random table or the tree's table stops exercising the "
            "branches the tie theorems rest on. The holder "
            "ordering is taken from C01's theorems for the scheduler variant extracted from the tree. An in-process server is "
            "then hammered under `go test -race` (random mix incl. failing loads and clients that go away, plus a directed "
            "ps-during-failed-load search, and a directed store-race search: a reader of a model stalled on a named pipe "
            "at every blob of its manifest while delete / re-create / copy-over runs on the same name); every race report must fall on a statically flagged pair, and HTTP results are "
            "monitored for recovered panics, process crashes, /api/ps 5xx, /api/ps that never returns and torn /api/ps views; "
            "one more -race process issues concurrent /api/pull requests for the same model (two tags sharing their blobs) against an "
            "in-memory registry + CDN, with ps / tags / delete alongside (transfer manager, blobDownload, parts). The translator's "
            "lockset claims themselves are cross-checked at run time: the hammer also runs on a build where every claimed mutex is "
            "TryLock'ed in front of the statement containing the access (about 100 sites; a success refutes the claim). Lock order: the "
            "translator lists every site that takes a tracked mutex while holding another one (call-graph resolved); Lean checks by "
            "`decide` that the regenerated relation has a rank function and a general theorem turns that into: no wait cycle among "
            "blocked acquisitions (no AB-BA deadlock); witness for the order the pinned scheduler had (F12c).",
    "design_ref": "DESIGN.md §5 C15",
    "note": COMMON_NOTE + "Partial by nature: the theorem is about lock-granularity traces and takes the non-lock "
            "orderings as named hypotheses (atomics/sync.Map, close(done), two accesses before the same "
            "once-spawn; spawn order pre/post and fresh-object publication are proved from fork / publish semantics given the "
            "meaning of the tags (what is left: exemptRest = atomics, pre/pre, holder, doneclose); a mapDelete on a map class with no "
            "insertion site counts as a read although Go's race detector instruments it as a write (only intermediateBlobs, whose "
            "delete is dynamically dead); a mutex held through RLock protects reads only; runnerRef.gpus is set to nil by unload but "
            "left out of the cleared classes as slice-like (a stale reader sees an empty list, not a panic); unloadAllRunners "
            "closes llama at shutdown without clearing it (no clear event); the "
            "holder ordering is discharged through C01's tie except for F13f); `live`/`valid`/locksets are syntactic "
            "(continuity of a hold is judged on the text); the translator is syntactic (aliasing of "
            "runner variables, accesses through pointers taken with &, state outside the property's anchors are not "
            "seen); the race detector is a schedule-dependent witness search, not a proof.",
}

MODULES = ["OllamaVerif.Properties.C15", "OllamaVerif.Tie.C15"]
THEOREMS = [
    "OllamaVerif.Lockset.mutex_handover",
    "OllamaVerif.Lockset.localHeld_sound",
    "OllamaVerif.Lockset.lockset_discipline_race_free",
    "OllamaVerif.Lockset.lockset_discipline_race_free_local",
    "OllamaVerif.Lockset.race_free_under_sync_hypotheses",
    "OllamaVerif.Lockset.checkAll_checkClass",
    "OllamaVerif.Lockset.unlocked_reader_races",
    "OllamaVerif.Lockset.live_pointer_not_torn_down",
    "OllamaVerif.Lockset.validated_pointer_not_torn_down",
    "OllamaVerif.Lockset.stale_pointer_witness",
    "OllamaVerif.Lockset.liveAt_not_cleared",
    "OllamaVerif.Lockset.validAt_not_cleared",
    "OllamaVerif.Lockset.stale_rule_sound",
    "OllamaVerif.Lockset.no_nil_deref_panic",
    "OllamaVerif.Lockset.no_wait_cycle",
    "OllamaVerif.Lockset.ranked_lock_order_no_deadlock",
    "OllamaVerif.Lockset.abba_deadlock_witness",
    "OllamaVerif.Lockset.rw_writer_excludes_readers",
    "OllamaVerif.Lockset.desc_after_fork",
    "OllamaVerif.Lockset.fork_tagged_pair_ordered",
    "OllamaVerif.Lockset.lockset_discipline_race_free_fork",
    "OllamaVerif.Lockset.init_tagged_pair_ordered",
    "OllamaVerif.Lockset.lockset_discipline_race_free_ordered",
    "OllamaVerif.Tie.C15.violations_exact",
    "OllamaVerif.Tie.C15.discipline_holds",
    "OllamaVerif.Tie.C15.classes_partition",
    "OllamaVerif.Tie.C15.bad_classes_exact",
    "OllamaVerif.Tie.C15.bad_classes_known",
    "OllamaVerif.Tie.C15.bad_class_names",
    "OllamaVerif.Tie.C15.race_free_good_classes",
    "OllamaVerif.Tie.C15.race_free_good_classes_fork",
    "OllamaVerif.Tie.C15.race_free_good_classes_ordered",
    "OllamaVerif.Tie.C15.registry_entries_are_open",
    "OllamaVerif.Tie.C15.lock_order_ranked",
    "OllamaVerif.Tie.C15.lock_order_acyclic",
    "OllamaVerif.Tie.C15.no_deadlock_among_tracked_mutexes",
    "OllamaVerif.Tie.C15.stale_exact",
    "OllamaVerif.Tie.C15.no_stale_reads",
    "OllamaVerif.Tie.C15.no_use_of_torn_down_runner",
    "OllamaVerif.Tie.C15.no_panic_on_torn_down_runner",
    "OllamaVerif.Tie.C15.teardown_locks",
    "OllamaVerif.Tie.C15.holder_granted_runner_is_open",
    "OllamaVerif.Tie.C15.holder_runner_not_closed_while_used",
]
OVERLAY = {"server/zz_verif_c15_test.go": "server/zz_verif_c15_test.go",
           "server/zz_verif_c15pull_test.go": "server/zz_verif_c15pull_test.go"}
LOCKSET_DIR = os.path.join(core.ROOT, "harness", "cmd", "lockset")


# branches of Lockset.compat / Lockset.staleRead as named by harness/cmd/lockset (pairBranch / staleBranch)
RULE_BRANCHES = ["pair_both_reads", "pair_reads_delete_on_never_inserted_map", "pair_same_single_thread", "pair_common_lock",
                 "pair_exempt_init", "pair_exempt_atomic", "pair_exempt_fork_pre_post", "pair_exempt_fork_pre_pre", "pair_exempt_hb",
                 "pair_violation", "pair_violation_init_vs_racy_reference",
                 "stale_na_not_a_read", "stale_na_class_not_cleared", "stale_ok_nil_comparison_only", "stale_ok_live", "stale_ok_valid",
                 "stale_ok_fresh", "stale_ok_holder", "stale_flag_not_honoured_a_write_lacks_the_lock", "stale_unprotected"]
# what the tie theorems for the TREE speak about: if the tree's own table stops exercising these, `discipline_holds`,
# `no_stale_reads` and `no_use_of_torn_down_runner` hold for an empty reason (e.g. the translator lost the lock
# operations or the registry look-ups) -> fail closed.  (holder / atomic / fork / doneclose are reported only: a
# repair of F13f legitimately removes the last holder-exempted read.)
TREE_BRANCHES = ["pair_common_lock", "pair_same_single_thread", "pair_exempt_init", "stale_ok_live", "stale_ok_valid"]


def regenerate(ctx):
    """Tie 1: run the translator on the working tree -> Generated/C15_Accesses.lean + facts JSON."""
    env = dict(os.environ)
    env.update(core.GO_ENV)
    binp = os.path.join(ctx.tmp, "lockset")
    p = subprocess.run(["go", "build", "-o", binp, "."], cwd=LOCKSET_DIR, env=env,
                       stdout=subprocess.PIPE, stderr=subprocess.STDOUT, text=True)
    if p.returncode != 0:
        raise RuntimeError("lockset build failed: " + p.stdout[-2000:])
    lean_tmp = os.path.join(ctx.tmp, "C15_Accesses.lean")
    js = os.path.join(ctx.tmp, "facts.json")
    ctx.inst_dir = os.path.join(ctx.tmp, "instrumented")
    p = subprocess.run([binp, "-repo", core.REPO, "-lean", lean_tmp, "-json", js, "-instrument", ctx.inst_dir], env=env,
                       stdout=subprocess.PIPE, stderr=subprocess.STDOUT, text=True)
    if p.returncode != 0:
        raise RuntimeError("lockset failed: " + p.stdout[-2000:])
    core.write_generated("OllamaVerif/Generated/C15_Accesses.lean", open(lean_tmp).read())
    ctx.lockset_bin = binp
    return json.load(open(js))


def sched_variant(ctx):
    """regenerate C01's tree facts (Generated/C01_SchedFacts.lean) the way the scheduler checks do: since round 7 the
    variant flags also need the behavioural probe (witness schedules on the real scheduler)"""
    if hasattr(sched_common, "regenerate_probed"):
        return sched_common.regenerate_probed(ctx)
    if hasattr(sched_common, "probe"):
        overlay = dict(sched_common.OVERLAY)
        overlay.update(sched_common.runtime_overlay(ctx))
        probed = sched_common.probe(ctx, overlay)
        ctx.stats["sched_probe_ran"] = int(bool(probed[0]))
        return sched_common.regenerate(ctx, probed)
    return sched_common.regenerate(ctx)


def claims_check(ctx, facts):
    """Run-time cross-check of the translator's lockset claims (the `Conforms` hypothesis of the theorems): the request
    hammer runs on a build in which every claimed mutex is TryLock'ed in front of the statement that contains the access
    (copies of the source files written by `lockset -instrument`, added with -overlay; line numbers unchanged).  A TryLock
    that succeeds refutes the claim: the translator is unsound for that site."""
    overlay = {"server/zz_verif_c15_test.go": "server/zz_verif_c15_test.go"}
    for fn in sorted(os.listdir(ctx.inst_dir)):
        if fn.endswith(".go"):
            overlay["server/" + fn] = os.path.join(ctx.inst_dir, fn)   # absolute: kept as is by core.overlay_json
    n_sites = len({(c["site"], c["lock"]) for c in facts.get("claims") or []})
    ctx.stats["claims_instrumented_sites"] = n_sites
    executed, false_sites, built = 0, set(), True
    for i in range(ctx.scale(2, 4)):
        outdir = os.path.join(ctx.tmp, f"claims-{i}")
        os.makedirs(outdir)
        env = {"VERIF_SECS": ctx.scale(4, 20), "VERIF_ROUNDS": 2, "VERIF_WORKERS": 8, "VERIF_TRIALS": ctx.scale(30, 200),
               "VERIF_STORE_SWEEPS": 0, "VERIF_SEED": ctx.seed * 1000 + 500 + i}
        rc, out, _ = ctx.go_test("./server/", overlay, "^TestVerifC15$", env=env, timeout=400, outdir=outdir)
        if rc != 0 and ("[build failed]" in out or "[setup failed]" in out):
            built = False
            ctx.notes.append("instrumented build failed (claims not cross-checked): " + out[-400:])
            break
        cp = os.path.join(outdir, "claims.txt")
        for ln in (open(cp) if os.path.exists(cp) else []):
            if ln.startswith("tick "):
                executed += 1000
            elif ln.startswith("false "):
                false_sites.add(ln[6:].strip())
    ctx.stats["claims_executed_at_least"] = executed
    ctx.coverage["claims_instrumented_build"] = built
    for site in sorted(false_sites):
        ctx.violation("lockset-claim-false", site, "the translator says this mutex is held at this access, but at run time it was "
                      "free (TryLock succeeded in front of the statement): the access facts are unsound for this site", no_input=False)
    if built and executed == 0 and n_sites > 0:
        ctx.violation("correspondence-coverage", "claims", "no lockset claim was exercised at run time", no_input=True)


def rule_l1(ctx):
    """L1 for the RULE: random fact tables, the translator's evaluation vs the Lean oracle's, exact."""
    outdir = os.path.join(ctx.tmp, "rule-l1")
    os.makedirs(outdir)
    n = ctx.scale(3000, 60000)
    p = subprocess.run([ctx.lockset_bin, "-selftest", str(n), "-seed", str(ctx.seed), "-out", outdir],
                       stdout=subprocess.PIPE, stderr=subprocess.STDOUT, text=True)
    if p.returncode != 0:
        raise RuntimeError("lockset selftest failed: " + p.stdout[-1000:])
    st = ctx.read_stats(outdir)
    ctx.l1(outdir, label="rule")
    # every branch of the two rules (first accepting disjunct of `compat` / `staleRead`, or rejection) must have
    # decided on some random table: exact agreement says nothing about a branch that was never taken
    missing = [b for b in RULE_BRANCHES if st.get(b, 0) == 0]
    ctx.coverage["rule_branches_random_tables"] = {b: st.get(b, 0) for b in RULE_BRANCHES}
    if missing:
        ctx.violation("correspondence-coverage", "rule", "branches of the lockset / stale-pointer rule never decided on any "
                      "random table of the rule correspondence: " + ", ".join(missing), no_input=True)


def pair_case(cls, ua, ub):
    a, b = sorted([ua, ub])
    return f"{cls}|{a}|{b}"


def static_failures(facts):
    out, seen = [], set()
    F = facts["facts"]
    for v in facts["violations"]:
        a, b = F[v["a"]], F[v["b"]]
        case = pair_case(v["cls"], a["func"], b["func"])
        if case in seen:
            continue
        seen.add(case)

        def show(f):
            return f"{f['site']}[{f['kind']} locks={','.join(f['locks']) or '-'} @{f['thread']}]"
        out.append({"kind": "lockset", "case": case, "detail": f"no common lock / ordering: {show(a)} vs {show(b)}"})
    return out


def lock_order_failures(facts):
    """a cycle in the "acquires B while holding A" relation of the tracked mutexes: two sites that take the same two mutex
    classes in opposite orders (AB-BA deadlock), or a site that takes a second mutex of the class it already holds"""
    return [{"kind": "lock-order", "case": c,
             "detail": f"mutex classes {c.split('|')[0]} and {c.split('|')[1]} are taken in opposite orders: {c.split('|')[2]} takes the second "
                       f"while holding the first, {c.split('|')[3] or '?'} closes the cycle: two requests can block each other for ever "
                       f"(every later request that needs either mutex, /api/ps included, hangs)"}
            for c in (facts.get("lock_cycles") or [])]


def stale_failures(facts):
    """uses of a field the teardown clears through a pointer that is neither live, re-validated, fresh nor held"""
    return [{"kind": "stale-pointer", "case": f"{s['cls']}|{s['func']}",
             "detail": f"{s['site']} uses {s['cls']} (cleared by runnerRef.unload) through a runner pointer that was found in "
                       f"Scheduler.loaded but is used after loadedMu was released, without a nil re-check under refMu: "
                       f"the runner may have been unloaded in between (torn view / nil dereference)"}
            for s in (facts.get("stale_reads") or [])]


class Locator:
    """file:line of package server -> innermost function unit of the translator's table."""

    def __init__(self, facts):
        self.units = facts["units"]
        self.sites = {}
        for s in facts["sites_all"]:
            self.sites.setdefault((s["unit"], s["line"]), set()).add(s["cls"])
        self.viol_units = {}
        F = facts["facts"]
        for v in facts["violations"]:
            key = frozenset([F[v["a"]]["func"], F[v["b"]]["func"]])
            self.viol_units.setdefault(key, set()).add(v["cls"])
        self.exempt_units = {}
        for e in facts.get("exempt_pairs") or []:
            self.exempt_units.setdefault(frozenset([e["a"], e["b"]]), []).append((e["cls"], e["reason"]))
        # units that read through a reference obtained by an unsynchronised read, with the class
        # of that read (everything reachable through the reference is unsynchronised too)
        self.racy_units = {}
        for i, f in enumerate(F):
            if f["racy"]:
                origin = next((g["cls"] for g in F if g["func"] == f["func"] and g["kind"] in ("mapIter", "mapRead")
                               and not g["locks"]), "?")
                self.racy_units[f["func"]] = origin

    def unit(self, fname, line):
        best = None
        for u in self.units:
            if u["file"] == fname and u["start"] <= line <= u["end"]:
                if best is None or (u["end"] - u["start"]) < (best["end"] - best["start"]):
                    best = u
        return best["name"] if best else None


FRAME = re.compile(r"^\s+(\S+):(\d+)(?: \+0x[0-9a-f]+)?\s*$")


def server_frame(lines, repo):
    """first frame (file, line) inside <repo>/server that is not test/harness code; else first repo frame"""
    fallback = None
    for ln in lines:
        m = FRAME.match(ln)
        if not m:
            continue
        path, line = m.group(1), int(m.group(2))
        base = os.path.basename(path)
        if base.endswith("_test.go") or base.startswith("zz_verif"):
            if fallback is None:
                fallback = ("<harness>" + base, line)
            continue
        if path.startswith(os.path.join(repo, "server") + os.sep):
            return (base, line)
        if path.startswith(repo + os.sep) and fallback is None:
            fallback = ("<" + os.path.relpath(path, repo) + ">", line)
    return fallback or ("<external>", 0)


def parse_races(text, repo):
    """-> list of ((file,line),(file,line)) per WARNING: DATA RACE block"""
    out = []
    for blk in text.split("WARNING: DATA RACE")[1:]:
        blk = blk.split("==================")[0]
        parts = re.split(r"^(?:Read|Write|Previous read|Previous write|Atomic read|Atomic write|Previous atomic read|Previous atomic write) at .*$",
                         blk, flags=re.M)
        if len(parts) < 3:
            continue
        stacks = []
        for p in parts[1:3]:
            p = re.split(r"^(?:Goroutine|Location|Mutex) ", p, flags=re.M)[0]
            stacks.append(server_frame(p.splitlines(), repo))
        out.append(tuple(stacks))
    return out


def race_failures(races, loc, ctx):
    """match every race report against the static facts; returns (l2 failures, #exact, #unit-level, #derived)"""
    fails, seen = [], set()
    n_exact = n_unit = n_derived = 0
    n_exempt = [0]
    for (fa, la), (fb, lb) in races:
        ua, ub = loc.unit(fa, la), loc.unit(fb, lb)
        detail = f"{fa}:{la} vs {fb}:{lb}"
        if ua is None or ub is None:
            key = ("unlisted", detail)
            if key not in seen:
                seen.add(key)
                ctx.violation("race-unlisted", f"race outside the translator's units: {detail}", detail, no_input=False)
            continue
        ca, cb = loc.sites.get((ua, la), set()), loc.sites.get((ub, lb), set())
        vcls = loc.viol_units.get(frozenset([ua, ub]), set())
        exact = sorted(ca & cb & vcls)
        if exact:
            cls = exact[0]
            n_exact += 1
        elif (ca | cb) & vcls:
            # one of the two reported lines is a tracked access of a class flagged for this function pair
            cls = sorted((ca | cb) & vcls)[0]
            n_unit += 1
        elif frozenset([ua, ub]) in loc.exempt_units:
            # a pair the static facts exempt by a non-lock ordering: the report refutes that hypothesis
            ex = loc.exempt_units[frozenset([ua, ub])]
            pref = [e for e in ex if e[0] in (ca | cb)] or ex
            cls, why = pref[0]
            case = f"{why}:" + pair_case(cls, ua, ub)
            if case not in seen:
                seen.add(case)
                fails.append({"kind": "race-exempt", "case": case, "detail": detail})
            n_exempt[0] += 1
            continue
        elif ua in loc.racy_units or ub in loc.racy_units:
            r = ua if ua in loc.racy_units else ub
            cls = "derived:" + loc.racy_units[r]
            n_derived += 1
        else:
            key = ("unlisted", ua, ub)
            if key not in seen:
                seen.add(key)
                ctx.violation("race-unlisted", f"{ua} vs {ub}",
                              f"the race detector reports {detail} but the static lockset facts flag no pair between "
                              f"these functions: extractor unsound or state outside the tracked classes", no_input=False)
            continue
        case = pair_case(cls, ua, ub)
        if case not in seen:
            seen.add(case)
            fails.append({"kind": "race", "case": case, "detail": detail})
    ctx.stats["race_reports_on_hypothesis_exempted_pairs"] = ctx.stats.get("race_reports_on_hypothesis_exempted_pairs", 0) + n_exempt[0]
    return fails, n_exact, n_unit, n_derived


def runner_use(repo, fname, line):
    """does server/<fname>:<line> use the llm runner a handler got from scheduleRunner (`r, … := s.scheduleRunner(…)` …
    `r.Completion(` / `r.Tokenize`), or call chatPrompt's tokenize parameter (bound to r.Tokenize)?  F13f's panic can only
    be raised there; any other panicking line is a different defect."""
    try:
        src = open(os.path.join(repo, "server", fname)).read().splitlines()
    except OSError:
        return False
    if not (1 <= line <= len(src)):
        return False
    text = src[line - 1]
    if fname == "prompt.go":
        return bool(re.search(r"\btokenize\(", text))
    for back in range(line - 1, max(0, line - 700), -1):
        if re.match(r"^func ", src[back - 1]) and back != line:
            break
        m = re.match(r"^\s*(\w+), .*:= s\.scheduleRunner\(", src[back - 1])
        if m:
            return bool(re.search(r"\b%s\.[A-Z]\w*" % re.escape(m.group(1)), text))
    return False


def use_tag(repo, fname, line):
    return " use=scheduled-runner" if runner_use(repo, fname, line) else " use=other"


def crash_failure(out, loc, repo):
    """a panic / fatal error that killed the test process -> one L2 failure (or None)"""
    m = re.search(r"^(panic: .*|fatal error: .*)$", out, flags=re.M)
    if not m or "test timed out" in m.group(1):
        return None
    tail = out[m.end():]
    # the first goroutine dump after the message belongs to the crashing goroutine
    f, l = server_frame(tail.split("\n\n")[1].splitlines() if "\n\n" in tail else tail.splitlines(), repo)
    unit = loc.unit(f, l) or f
    return {"kind": "process-crash", "case": f"unit={unit}" + use_tag(repo, f, l) + _VARIANT_TAG[0], "detail": f"{m.group(1)} at {f}:{l}"}


# unit -> the function it was extracted from / is written in (facts["parents"]), and the unit names of the
# pinned tree (corpus/C15/baseline_units.txt); filled by run()
_ALT = {"parents": {}, "baseline": set(), "unit_classes": set()}
# appended to crash / panic cases when the scheduler is NOT the guarded variant: a nil runner in a handler is then not
# (only) F13f, and the anchored F13f signatures must not swallow it
_VARIANT_TAG = [""]


def origin_unit(u, cls=None):
    """a closure is named after the function it is written in (closure numbering shifts when one is added); a
    declared function that is new w.r.t. the baseline and has exactly one caller is named after that caller, but only
    when the caller itself no longer accesses the class (the access MOVED into the helper: an extraction; new code in a
    new helper next to the caller's own access does not inherit the caller's finding)"""
    for _ in range(8):
        p = _ALT["parents"].get(u)
        if p is None:
            break
        if "$" not in u:
            if u in _ALT["baseline"] or (cls is not None and (p, cls) in _ALT["unit_classes"]):
                break
        u = p
    return u


def alt_case(case):
    if case.startswith("unit="):
        u, sep, rest = case[5:].partition(" ")
        return "unit=" + origin_unit(u) + sep + rest
    parts = case.split("|")
    if len(parts) in (2, 3) and " " not in case:
        cls = parts[0].split(":")[-1]
        return "|".join([parts[0]] + sorted(origin_unit(u, cls) for u in parts[1:]))
    return case


def matcher(finding, failure):
    sig = finding.get("signature", {})
    alts = sig.get("any") or [sig]
    tries = [failure]
    ac = alt_case(failure.get("case", ""))
    if ac != failure.get("case"):
        tries.append(dict(failure, case=ac))
    for f in tries:
        for s in alts:
            if s and core.default_matcher({"signature": s}, f):
                return True
    return False


def run(ctx):
    facts = regenerate(ctx)
    # the holder hypothesis is discharged through the scheduler tie (C01): regenerate its facts too
    variant = sched_variant(ctx)
    if variant != "good":
        # the expected scheduler variant is the all-fixed one (F13d = C01's F12b "grant after unload", F12a "duplicate expired
        # event"): a tree that no longer implements it hands out runners that were unloaded.  The witness schedules the probe
        # ran on the REAL scheduler are the failing inputs (replay: ./check C01 --replay with that sched-trace line).
        vp = ctx.coverage.get("variant_probe") or {}
        wit = (getattr(sched_common, "PROBE_F12B", []) if vp.get("f12b_kinds") else []) + \
              (getattr(sched_common, "PROBE_F12A", []) if vp.get("f12a_kinds") else [])
        ctx.violation("variant-regression", wit[0] if wit else "",
                      f"the scheduler of this tree is not the guarded variant C15's holder ordering rests on (variant={variant}, "
                      f"probe: {json.dumps(vp)}): on the witness schedule the real scheduler violates "
                      f"{', '.join((vp.get('f12b_kinds') or []) + (vp.get('f12a_kinds') or [])) or 'the go/ast guard facts'} - a runner can be "
                      f"handed to a request after it was unloaded (F13d) / unloaded while in use", no_input=not wit)
    ctx.lean_check(MODULES, THEOREMS)
    if ctx.lean_ok:
        rule_l1(ctx)
    loc = Locator(facts)
    _VARIANT_TAG[0] = "" if variant == "good" else f" sched-variant={variant}"
    _ALT["parents"] = facts.get("parents") or {}
    _ALT["unit_classes"] = {(f["func"], f["cls"]) for f in facts["facts"]}
    bp = os.path.join(core.ROOT, "corpus", "C15", "baseline_units.txt")
    _ALT["baseline"] = {ln.strip() for ln in open(bp) if ln.strip() and not ln.startswith("#")} if os.path.exists(bp) else set()

    # ---- static: every violating pair must be explained by a listed finding
    st = static_failures(facts)
    ctx.classify(st, matcher)
    sf = stale_failures(facts)
    ctx.classify(sf, matcher)
    lo = lock_order_failures(facts)
    ctx.classify(lo, matcher)
    ctx.stats["static_lock_order_sites"] = len(facts.get("lock_order") or [])
    ctx.stats["static_lock_order_cycles"] = len(lo)
    ctx.coverage["lock_order"] = [f"{e['from']} -> {e['to']} at {e['site']}" + (" (fresh object)" if e["fresh"] else "")
                                  for e in (facts.get("lock_order") or [])]
    ctx.coverage["lock_rank"] = dict(zip(facts.get("lock_refs") or [], facts.get("lock_rank") or []))
    ctx.stats["static_stale_pointer_reads"] = len(sf)
    ctx.stats["static_reads_of_cleared_fields"] = sum(1 for f in facts["facts"]
                                                      if f["kind"] == "read" and f["cls"] in (facts.get("cleared_classes") or []))
    ctx.coverage["cleared_classes"] = facts.get("cleared_classes")
    ctx.stats["static_access_facts"] = len(facts["facts"])
    ctx.stats["static_access_sites"] = len(facts["sites_all"])
    ctx.stats["static_location_classes"] = len(facts["classes"])
    ctx.stats["static_violating_pairs"] = len(st)
    ctx.stats["static_bad_classes"] = len(facts["bad_classes"])
    ctx.coverage["facts_per_class"] = facts["facts_per_class"]
    ctx.coverage["map_insertion_sites"] = facts["map_insertion_sites"]
    ctx.coverage["bad_classes"] = facts["bad_classes"]
    ctx.coverage["translator_notes"] = (facts.get("notes") or [])[:20]
    tb = facts.get("rule_branches") or {}
    ctx.coverage["rule_branches_tree_table"] = tb
    tmissing = [b for b in TREE_BRANCHES if tb.get(b, 0) == 0]
    if tmissing:
        ctx.violation("correspondence-coverage", "tree", "the access table regenerated from the tree never exercises these branches "
                      "of the rules the tie theorems rest on: " + ", ".join(tmissing), no_input=True)

    # ---- dynamic: the translator's lockset claims, checked on the running code
    if not ctx.replay:
        claims_check(ctx, facts)

    # ---- dynamic: witness search under the race detector (several processes: the pinned
    # server can crash the process or wedge its scheduler)
    # (seconds of random hammering, rounds, workers, GOMAXPROCS, directed ps-during-failed-load trials)
    runs = ctx.scale([(6, 2, 12, None, 120), (6, 2, 12, None, 120), (6, 2, 6, 4, 120)],
                     [(40, 8, 12, None, 600), (40, 8, 16, 4, 600), (40, 8, 8, 2, 600), (40, 8, 24, 16, 600), (40, 8, 12, 1, 300)])
    if ctx.replay:
        runs = runs[:1]
    # + one process of concurrent pulls against an in-memory registry (transfer manager, blobDownload, parts)
    pulls = ctx.scale(3, 12)
    jobs = [("^TestVerifC15$", r) for r in runs] + ([] if ctx.replay else [("^TestVerifC15Pull$", (pulls * 3, 0, 0, None, 0))])
    races_total = exact = unitlvl = derived = 0
    for i, (test, (secs, rounds, workers, procs, trials)) in enumerate(jobs):
        outdir = os.path.join(ctx.tmp, f"race-{i}")
        os.makedirs(outdir)
        env = {"VERIF_SECS": secs, "VERIF_ROUNDS": rounds, "VERIF_WORKERS": workers, "VERIF_TRIALS": trials,
               "VERIF_STORE_SWEEPS": ctx.scale(1, 3) if i == 0 else 0, "VERIF_PULLS": pulls,
               "VERIF_SEED": ctx.seed * 1000 + i,
               "GORACE": f"log_path={outdir}/race halt_on_error=0 history_size=3"}
        if procs:
            env["GOMAXPROCS"] = procs
        rc, out, _ = ctx.go_test("./server/", OVERLAY, test, env=env, race=True,
                                 timeout=secs + rounds * 8 + trials // 2 + 240, outdir=outdir)
        text = out + "".join(open(p, errors="replace").read() for p in sorted(glob.glob(outdir + "/race.*")))
        races = parse_races(text, core.REPO)
        races_total += len(races)
        rf, a, b, c = race_failures(races, loc, ctx)
        exact, unitlvl, derived = exact + a, unitlvl + b, derived + c
        ctx.classify(rf, matcher)
        crash = crash_failure(out, loc, core.REPO)
        if crash:
            ctx.stats["process_crashes"] = ctx.stats.get("process_crashes", 0) + 1
            ctx.classify([crash], matcher)
        elif rc != 0 and not ("race detected during execution of test" in out and "C15-SETUP" not in out
                              and "test timed out" not in out and len(races) > 0):
            ctx.violation("driver-failed", "", out[-1500:], no_input=True)
        ctx.read_stats(outdir)
        l2 = ctx.l2(outdir)
        sites = []
        for f in l2:
            if f["kind"] == "panic-site":
                m = re.search(r"site=server/([^:]+):(\d+)", f["case"])
                if m:
                    f["case"] = f"unit={loc.unit(m.group(1), int(m.group(2)))}" + use_tag(core.REPO, m.group(1), int(m.group(2))) + _VARIANT_TAG[0]
                sites.append(f)
        # a recovered panic seen on the HTTP side carries no site; it is the F13f panic only if EVERY panic gin recovered in
        # this process was a nil dereference at a use of the scheduled runner
        only_f13f = bool(sites) and all(" use=scheduled-runner" in f["case"] and "nil pointer dereference" in f["detail"]
                                        for f in sites)
        for f in l2:
            if f["kind"] == "panic-recovered":
                f["case"] += " panics=" + ("only-nil-scheduled-runner" if only_f13f else "other-sites") + _VARIANT_TAG[0]
        ctx.classify(l2, matcher)
    ctx.stats["race_reports"] = races_total
    if not ctx.replay:
        floors = {"cases": ctx.scale(300, 3000), "op_ps": 1, "ps_nonempty": 1, "failedload_ps_requests": 1, "storerace_trials": 1,
                  "pull_pull_2xx": 1}
        low = [f"{k}={ctx.stats.get(k, 0)}<{v}" for k, v in floors.items() if ctx.stats.get(k, 0) < v]
        if low:
            ctx.violation("correspondence-coverage", "dynamic", "the witness search did not run as configured: " + ", ".join(low),
                          no_input=True)
    ctx.stats["race_reports_matched_exact_line_and_class"] = exact
    ctx.stats["race_reports_matched_function_pair"] = unitlvl
    ctx.stats["race_reports_derived_from_racy_reference"] = derived
    holder_ok = all(t in ctx.discharged for t in ("OllamaVerif.Tie.C15.holder_granted_runner_is_open",
                                                  "OllamaVerif.Tie.C15.holder_runner_not_closed_while_used"))
    if holder_ok and variant == "good":
        holder_text = ("holder ordering (the handler's read of runner.llama after the hand-over vs unload): not assumed — for the "
                       "scheduler variant extracted from this tree (recheckGrant, guardDelete) it is C01's theorems, instantiated "
                       "in Tie.C15.holder_granted_runner_is_open / holder_runner_not_closed_while_used; what remains assumed is "
                       "C01's model-to-code correspondence (its own differential check). Outside those theorems, and false on "
                       "this tree (known finding F13f): the model's hold ends when the request context is done, but "
                       "scheduleRunner's unlocked read of runner.llama can come after that (client gone between hand-over and read)")
    else:
        holder_text = ("holder hypothesis (C01): no unload of a runner between its hand-over on successCh and the end of the "
                       "request — NOT discharged for this tree (the scheduler tie does not classify it as the guarded variant)")
    ctx.coverage["holder_hypothesis_discharged"] = bool(holder_ok and variant == "good")
    ctx.assumptions += [
        "one Scheduler and one Server per process (their mutexes are treated as global locks)",
        "HTTP handlers start after Serve's srvr.Serve call (spawn order for Server.sched)",
        "a blobDownload/blobUpload is prepared and its Run goroutine spawned by exactly one invocation (the sync.Map LoadOrStore winner)",
        holder_text,
        "the race detector only confirms races on schedules that occurred; absence of a report proves nothing",
    ]
    if ctx.thorough:
        ctx.leanchecker(MODULES)
    return ctx.finish(
        level="proof",
        rule="static: every read/write of the anchored state in package server (facts_per_class); dynamic: seeded mixed "
             "request streams (ps/generate/chat/embed/unload/tags/show/create/copy/delete/blob) from N workers against "
             "fresh server instances under -race, several GOMAXPROCS; evaluations = HTTP requests issued",
        explanation="General lockset theorem (Lean) applied to access facts regenerated from the source; the facts' "
                    "violations are classified against known findings; the race detector's reports must all fall on "
                    "statically flagged pairs (else the translator is unsound and the check fails closed); panics, "
                    "crashes and torn /api/ps views are monitored on the real HTTP results")
