"""C01 — Scheduler never unloads or closes a runner that a request is still using."""
from vlib.checks import sched_common
from vlib.registry import COMMON_NOTE

REGISTRATION = {
    "engine": "lean-sched",
    "technique": "Lean 4 invariant proof over an interleaving model of the scheduler + go/ast tie + trace conformance",
    "category": "proof",
    "text": "Kernel-checked invariants (by induction over every action of an interleaving transition system with one action per "
            "lock-protected region / channel operation of sched.go): in every reachable state a shut-down runner has no user, "
            "a step that shuts a runner down finds it unused, closeCount <= 1, a granted runner is open. Ghost-free form "
            "(Properties/C01Bridge.lean): `gotRunner q = some r and not done q` implies q is a holder of r (bridge invariant), hence "
            "a request in progress never holds a runner that is shut down or removed from `loaded`. The same theorems hold for the "
            "bounded model (channel capacities, sends under mutexes, lock order: Model/SchedChan.lean, refinement reachB_reach). "
            "Which variant of the model the tree implements is decided on every run by running the real scheduler on the F12a/F12b "
            "witness schedules (behavioural probe) together with a go/ast extractor that evaluates what the guarding conditions imply "
            "(Tie/C01.lean: decide); 'shut down at most once' rests on the extracted fact that unload() closes only where llama != nil "
            "and then sets it to nil (close_is_guarded). Kernel-checked witness traces show the statements fail for upstream's "
            "pinned variant (F12). The real Scheduler is run on seeded event "
            "scripts under fake time and every observed trace must be a trace of the model; property monitors run on the real code.",
    "design_ref": "DESIGN.md §5 C01/C02/C11",
    "note": COMMON_NOTE + "Outside the model: preemption inside a locked region, real timers, unloadAllRunners at shutdown (closes every "
            "loaded runner regardless of users, by design), the cuda VRAM-recovery poller; pLookup is one action although Go reads "
            "`loaded` and the victims' refCounts in separate critical sections (the extra Go behaviours are admitted by the conformance "
            "oracle as retries). Channel capacities and lock order are in the bounded layer (safety theorems lifted by refinement).",
}
MODULES = ["OllamaVerif.Properties.C01", "OllamaVerif.Properties.C01Bridge", "OllamaVerif.Properties.C02Chan", "OllamaVerif.Tie.C01"]
THEOREMS = [
    "OllamaVerif.C01.closed_runner_has_no_user",
    "OllamaVerif.C01.close_step_only_when_unused",
    "OllamaVerif.C01.closed_at_most_once",
    "OllamaVerif.C01.closed_at_most_once_any_variant",
    "OllamaVerif.C01.granted_runner_is_open",
    "OllamaVerif.C01.F12a_pinned_closes_runner_in_use",
    "OllamaVerif.C01.F12a_good_refuses",
    "OllamaVerif.C01.F12b_pinned_grants_closed_runner",
    "OllamaVerif.C01.F12b_good_retries",
    "OllamaVerif.Sched.reach_inv",
    "OllamaVerif.Tie.C01.tree_variant_good",
    "OllamaVerif.Tie.C01.wait_unload_is_pure",
    "OllamaVerif.Tie.C01.expired_region_is_atomic",
    "OllamaVerif.Tie.C01.no_other_delete_site",
    "OllamaVerif.Tie.C01.tree_closed_runner_has_no_user",
    "OllamaVerif.C01.reach_bridge",
    "OllamaVerif.C01.in_progress_request_uses",
    "OllamaVerif.C01.closed_runner_only_granted_to_finished",
    "OllamaVerif.C01.used_runner_is_loaded",
    "OllamaVerif.C01.in_progress_runner_is_loaded_and_open",
    "OllamaVerif.C01.twice_expired_closes_once",
    "OllamaVerif.Tie.C01.close_is_guarded",
    "OllamaVerif.Tie.C01.tree_in_progress_runner_is_loaded_and_open",
    "OllamaVerif.C02Chan.bounded_closed_runner_has_no_user",
    "OllamaVerif.C02Chan.bounded_closed_at_most_once",
    "OllamaVerif.C02Chan.reachB_reach",
    "OllamaVerif.Tie.C01.tree_cfg_repo",
    "OllamaVerif.Tie.C01.chan_caps_are_max_queue",
    "OllamaVerif.Tie.C01.send_sites_match",
]


def run(ctx):
    return sched_common.run_sched(ctx, "C01", MODULES, THEOREMS)
