"""C01 — Scheduler never unloads or closes a runner that a request is still using."""
from vlib.checks import sched_common
from vlib.registry import COMMON_NOTE

REGISTRATION = {
    "engine": "lean-sched",
    "technique": "Lean 4 invariant proof over an interleaving model of the scheduler + go/ast tie + trace conformance",
    "category": "proof",
    "text": "Kernel-checked invariants (by induction over every action of an interleaving transition system with one action per "
            "lock-protected region / channel operation of sched.go): in every reachable state a shut-down runner has no user, "
            "a step that shuts a runner down finds it unused, closeCount <= 1, a granted runner is open. The two guards the proof "
            "needs are extracted from the working tree by go/ast on every run (Tie/C01.lean: decide); kernel-checked witness "
            "traces show the statements fail for upstream's pinned variant (F12). The real Scheduler is run on seeded event "
            "scripts under fake time and every observed trace must be a trace of the model; property monitors run on the real code.",
    "design_ref": "DESIGN.md §5 C01/C02/C11",
    "note": COMMON_NOTE + "Outside the model: preemption inside a locked region, lock-order inversion, channel capacities of "
            "finishedReqCh/expiredCh/unloadedCh, real timers, unloadAllRunners at shutdown, the cuda VRAM-recovery poller.",
}
MODULES = ["OllamaVerif.Properties.C01", "OllamaVerif.Tie.C01"]
THEOREMS = [
    "OllamaVerif.C01.closed_runner_has_no_user",
    "OllamaVerif.C01.close_step_only_when_unused",
    "OllamaVerif.C01.closed_at_most_once",
    "OllamaVerif.C01.closed_at_most_once_any_variant",
    "OllamaVerif.C01.granted_runner_is_open",
    "OllamaVerif.C01.F12a_pinned_closes_runner_in_use",
    "OllamaVerif.C01.F12a_good_refuses",
    "OllamaVerif.C01.F12b_pinned_grants_closed_runner",
    "OllamaVerif.C01.F12b_good_retries",
    "OllamaVerif.Sched.reach_inv",
    "OllamaVerif.Tie.C01.tree_variant_good",
    "OllamaVerif.Tie.C01.wait_unload_is_pure",
    "OllamaVerif.Tie.C01.expired_region_is_atomic",
    "OllamaVerif.Tie.C01.no_other_delete_site",
    "OllamaVerif.Tie.C01.tree_closed_runner_has_no_user",
]


def run(ctx):
    return sched_common.run_sched(ctx, "C01", MODULES, THEOREMS)
