"""C11 — Loaded-runner limit, one runner per model, reuse when compatible."""
from vlib.checks import sched_common
from vlib.registry import COMMON_NOTE

REGISTRATION = {
    "engine": "lean-sched",
    "technique": "Lean 4 invariant proof over an interleaving model of the scheduler + go/ast tie + trace conformance",
    "category": "proof",
    "text": "Kernel-checked for every reachable state of the good variant: every live runner is THE loaded runner of its model "
            "(hence at most one per model) and any duplicate-free set of live runners is no larger than the limit in force; "
            "decision theorems shared with the code's logic: a compatible healthy loaded runner is reused without starting one, "
            "incompatible options / failed ping expire it and the new runner gets the request's options, the eviction victim is "
            "idle whenever an idle runner exists, a new runner is started next to loaded ones only on a predicted fit, otherwise "
            "evict (or wait for loads in progress). Witness for the pinned variant: two live runners of one model (F12a).",
    "design_ref": "DESIGN.md §5 C01/C02/C11",
    "note": COMMON_NOTE + "Outside the model: preemption inside a locked region, lock-order inversion, channel capacities of "
            "finishedReqCh/expiredCh/unloadedCh, real timers, unloadAllRunners at shutdown, the cuda VRAM-recovery poller.",
}
MODULES = ["OllamaVerif.Properties.C11", "OllamaVerif.Tie.C01"]
THEOREMS = [
    "OllamaVerif.C11.live_runner_is_loaded",
    "OllamaVerif.C11.one_runner_per_model",
    "OllamaVerif.C11.live_count_le_max",
    "OllamaVerif.C11.reuse_compatible",
    "OllamaVerif.C11.incompatible_expires",
    "OllamaVerif.C11.started_with_request_options",
    "OllamaVerif.C11.victim_idle_first",
    "OllamaVerif.C11.victim_is_loaded",
    "OllamaVerif.C11.fit_before_load",
    "OllamaVerif.C11.no_fit_evicts",
    "OllamaVerif.C11.at_limit_evicts",
    "OllamaVerif.C11.F12a_two_live_runners_one_model",
    "OllamaVerif.Tie.C01.tree_variant_good",
    "OllamaVerif.Tie.C01.wait_unload_is_pure",
    "OllamaVerif.Tie.C01.expired_region_is_atomic",
    "OllamaVerif.Tie.C01.tree_one_runner_per_model",
    "OllamaVerif.Tie.C01.tree_live_count_le_max",
]


def run(ctx):
    return sched_common.run_sched(ctx, "C11", MODULES, THEOREMS)
