"""C11 — Loaded-runner limit, one runner per model, reuse when compatible."""
from vlib.checks import sched_common
from vlib.registry import COMMON_NOTE

REGISTRATION = {
    "engine": "lean-sched",
    "technique": "Lean 4 invariant proof over an interleaving model of the scheduler + go/ast tie + trace conformance",
    "category": "proof",
    "text": "Kernel-checked for every reachable state of the good variant: every live runner is THE loaded runner of its model "
            "(hence at most one per model) and any duplicate-free set of live runners is no larger than the limit in force; "
            "the limit is the CONFIGURED one (maxRunners never changes once positive: with OLLAMA_MAX_LOADED_MODELS = mr > 0 the number "
            "of live runners is <= mr in every reachable state; unset: fixed for good by the first placement to #GPUs or 3x#GPUs); "
            "the same for the bounded model (channel capacities, lock order). Decision theorems about the decision functions the "
            "model shares with the code (options are an abstract value compared by equality - what counts as equal is decided by "
            "the real needsReload and checked by trace conformance and the c11-no-reuse / c11-wrong-options monitors; the memory-fit "
            "answer is an oracle `Fit` in the scheduler model; its producers and the processPending glue around it are C16's model - "
            "load_sound, load_alloc_within_reported, history_within_total, cpu_load_within_system_memory are audited here too and "
            "C16's five L1 ties (estimate, free space, pick, load glue, cpu branch) run inside this check): a compatible healthy "
            "loaded runner is reused without starting one, incompatible options / failed ping expire it and the new runner gets the "
            "request's options, the eviction victim is idle whenever an idle runner exists, a new runner is started next to loaded "
            "ones only on a predicted fit, otherwise evict (or wait for loads in progress); instances on reachable states. End to end (OptsInv): a step that hands runner r to "
            "request q hands out a runner started with q's model and options. Witness for the pinned variant: two live runners of one model (F12a).",
    "design_ref": "DESIGN.md §5 C01/C02/C11",
    "note": COMMON_NOTE + "Outside the model: preemption inside a locked region, real timers, unloadAllRunners at shutdown, the cuda "
            "VRAM-recovery poller; options are an abstract value compared by equality; the cpu path loads when `loaded` was emptied meanwhile (Go re-reads the count).",
}
MODULES = ["OllamaVerif.Properties.C11", "OllamaVerif.Properties.C02Chan", "OllamaVerif.Properties.C11Limit", "OllamaVerif.Properties.C11Opts", "OllamaVerif.Properties.C16", "OllamaVerif.Tie.C01"]
THEOREMS = [
    "OllamaVerif.C11.live_runner_is_loaded",
    "OllamaVerif.C11.one_runner_per_model",
    "OllamaVerif.C11.live_count_le_max",
    "OllamaVerif.C11.reuse_compatible",
    "OllamaVerif.C11.incompatible_expires",
    "OllamaVerif.C11.started_with_request_options",
    "OllamaVerif.C11.victim_idle_first",
    "OllamaVerif.C11.victim_is_loaded",
    "OllamaVerif.C11.fit_before_load",
    "OllamaVerif.C11.no_fit_evicts",
    "OllamaVerif.C11.at_limit_evicts",
    "OllamaVerif.C11.F12a_two_live_runners_one_model",
    "OllamaVerif.Tie.C01.tree_variant_good",
    "OllamaVerif.Tie.C01.wait_unload_is_pure",
    "OllamaVerif.Tie.C01.expired_region_is_atomic",
    "OllamaVerif.Tie.C01.tree_one_runner_per_model",
    "OllamaVerif.Tie.C01.tree_live_count_le_max",
    "OllamaVerif.C16.load_sound",
    "OllamaVerif.C16.load_alloc_within_reported",
    "OllamaVerif.C16.load_not_on_loading_gpu",
    "OllamaVerif.C16.history_within_total",
    "OllamaVerif.C16.history_from_empty",
    "OllamaVerif.C16.cpu_load_within_system_memory",
    "OllamaVerif.C16.effParallel_forced",
    "OllamaVerif.C16.full_fit_places_all",
    "OllamaVerif.Sched.reach_optsInv",
    "OllamaVerif.C11.granted_runner_has_request_options",
    "OllamaVerif.C11.maxRunners_stable",
    "OllamaVerif.C11.configured_limit",
    "OllamaVerif.C11.live_count_le_configured",
    "OllamaVerif.C11.auto_limit_shape",
    "OllamaVerif.C11.reuse_instance",
    "OllamaVerif.C11.incompatible_instance",
    "OllamaVerif.Tie.C01.evict_region_is_atomic",
    "OllamaVerif.C02Chan.live_count",
    "OllamaVerif.C02Chan.bounded_live_count",
    "OllamaVerif.C02Chan.bounded_one_runner_per_model",
    "OllamaVerif.C02Chan.bounded_live_count_le_max",
    "OllamaVerif.C02Chan.reachB_reach",
    "OllamaVerif.Tie.C01.tree_cfg_repo",
    "OllamaVerif.Tie.C01.chan_caps_are_max_queue",
    "OllamaVerif.Tie.C01.send_sites_match",
]


def run(ctx):
    return sched_common.run_sched(ctx, "C11", MODULES, THEOREMS)
