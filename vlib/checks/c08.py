"""C08 — Blob cache entries of the right size always have the right content."""
from vlib import core
from vlib.registry import COMMON_NOTE

REGISTRATION = {
    "engine": "lean-blobcache",
    "technique": "Lean 4 proof over an effect-level model of the disk cache (crash cuts, writer interleavings) + "
                 "differential correspondence incl. real crash points (strace kill injection) and scripted concurrent writers",
    "category": "proof",
    "text": "Kernel-checked theorems over a Lean model of copyNamedFile/checkWriter/Put/Import/Link/Unlink/Resolve/Chunked "
            "and names.Parse/isValidPart as sequences of primitive file effects, for an uninterpreted hash: every crash cut "
            "of a single writer (any source script, any prior file) and every crash-restart-retry history leaves a file "
            "that, if it has the stored size, hashes to its digest; successful Put is retrievable; Link needs the blob "
            "(full strength for the Link with the zero-length refusal); Resolve returns the hash of the manifest file; "
            "Link-then-Resolve for the tree's Link variant; Link as effects on the manifest file (read + one atomic rename): every "
            "crash cut and every moment a concurrent Resolve can observe leaves the name unresolvable or resolving to a digest "
            "some Link asked for; any interleaving of writers whose sources are the true content "
            "is safe; over every history every blob Get reports hashes to its name; names are confined (any string is "
            "refused or denotes manifests/<h>/<n>/<m>/<t>, name operations never touch a blob). Lean-checked witnesses for "
            "the defects the model shares with the code (zero-length blob link, failing co-writer, chunk holes; F8 fixed). "
            "Tie 1: Link variant and the character classes/length limits of the real isValidPart regenerated from the tree "
            "and consumed by decide. Tie 2: random op histories with hostile names (results + final disk), every syscall-"
            "level crash point of real Put/Import/Chunker.Put/Link calls executed in a child process killed under strace, Link with "
            "a Resolve fired at the code's own yield point (testHookBeforeFinalWrite), seeded deterministic "
            "interleavings of real concurrent Puts (+ -race); L2 after every step: re-hash of every blob Get reports with a "
            "stored size, store-ok-retrievable, acknowledged blobs stay, Link/Resolve agreement, resolved digests were asked for, "
            "Unlink removes the name in every spelling, Links() = disk, directory-tree frame condition of every operation; a share "
            "of the histories runs in cache directories whose path has glob metacharacters/spaces/non-ASCII; the real syscall "
            "trace of stores is compared with the model's effect list and checked for the noEarlyFull shape; blobs of 1-16 MiB "
            "in the kill enumeration and the interleaving driver (L2 only).",
    "design_ref": "DESIGN.md §5 C08",
    "note": COMMON_NOTE + "Modelled, not verified: POSIX semantics of open/write/ftruncate/rename (program order = disk "
            "order, rename atomic, no torn write(2) other than a byte-prefix), io.Copy's 32 KiB buffering (scripts stay "
            "below it), f.Close()/destination I/O errors (not injectable without editing the code; the os.Remove they "
            "trigger is not modelled), os.Stat+os.OpenFile of one writer are separate steps in the Lean model but "
            "adjacent in the real schedules the driver can force (no hook between them). SHA-256 is an uninterpreted "
            "function in every theorem; the oracle's Lean SHA-256 is compared with crypto/sha256 through every digest "
            "of every case.",
}

MODULES = ["OllamaVerif.Properties.C08", "OllamaVerif.Tie.C08"]
THEOREMS = [
    "OllamaVerif.C08.single_writer_crash_safe",
    "OllamaVerif.C08.single_writer_crash_safe_from_garbage",
    "OllamaVerif.C08.import_crash_safe",
    "OllamaVerif.C08.prefixBefore_is_cut",
    "OllamaVerif.C08.put_ok_retrievable",
    "OllamaVerif.C08.empty_put_not_retrievable",
    "OllamaVerif.C08.put_frame",
    "OllamaVerif.C08.link_requires_blob",
    "OllamaVerif.C08.F8zero_link_to_failed_put",
    "OllamaVerif.C08.link_requires_blob_fixed",
    "OllamaVerif.C08.concurrent_good_writers_safe",
    "OllamaVerif.C08.F9_failing_cowriter_breaks_trust",
    "OllamaVerif.C08.good_writers_from_longer_file_transiently_unsafe",
    "OllamaVerif.C08.F10_chunk_holes_present_with_full_size",
    "OllamaVerif.C08.F8_relink_same_size_keeps_old",
    "OllamaVerif.C08.resolve_hash_of_file",
    "OllamaVerif.C08.link_then_resolve_partial",
    "OllamaVerif.C08.link_then_resolve_fixed",
    "OllamaVerif.C08.history_blobs_valid",
    "OllamaVerif.C08.history_get_trusted",
    "OllamaVerif.C08.linkZ_then_resolve_fixed",
    "OllamaVerif.C08.link_requires_blob_zero_checked",
    "OllamaVerif.C08.F8zero_refused_with_zero_check",
    "OllamaVerif.C08.link_confined",
    "OllamaVerif.C08.unlink_confined",
    "OllamaVerif.C08.history_manifests_confined",
    "OllamaVerif.C08.crash_history_trusted",
    "OllamaVerif.C08.linkZ_file_effs",
    "OllamaVerif.C08.link_crash_atomic",
    "OllamaVerif.C08.link_cut_resolves_asked",
    "OllamaVerif.C08.inplace_first_link_exposes_empty_manifest",
    "OllamaVerif.C08.copyNamedEffs_noEarlyFull",
    "OllamaVerif.C08.prealloc_violates_shape_and_safety",
    "OllamaVerif.BlobCache.nameToPath_safe",
    # Tie 1: the Link theorems at the variant found in the tree (compile only for the repaired Link, fix 834f6be9a)
    "OllamaVerif.Tie.C08.tree_link_is_fixed",
    "OllamaVerif.Tie.C08.tree_link_then_resolve",
    "OllamaVerif.Tie.C08.tree_link_requires_blob",
    "OllamaVerif.Tie.C08.tree_relink_same_size_takes_effect",
    "OllamaVerif.Tie.C08.name_first_chars_match",
    "OllamaVerif.Tie.C08.name_rest_chars_match",
    "OllamaVerif.Tie.C08.name_len_limits_match",
    "OllamaVerif.Tie.C08.name_accepted_bytes_safe",
]
# theorems about the PINNED Link (before fix 834f6be9a): kept as the record of finding F8, not claims about the tree
HISTORICAL = ["OllamaVerif.C08.link_then_resolve_partial", "OllamaVerif.C08.F8_relink_same_size_keeps_old"]
OVERLAY = {"server/internal/cache/blob/zz_verif_c08_test.go": "server_internal_cache_blob/zz_verif_c08_test.go"}
NAMES_OVERLAY = {"server/internal/internal/names/zz_verif_c08_names_test.go": "server_internal_internal_names/zz_verif_c08_names_test.go"}
PKG = "./server/internal/cache/blob/"


def link_variant():
    """Tie 1 (source fact): which Link is in the tree?  0 = pinned (copyNamedFile on the manifest name itself),
    1 = repaired (fix 834f6be9a: renames a verified temporary file over the link), 2 = 1 + the zero-length refusal
    of proposed_fixes/C08-F8-zero.patch."""
    import os
    import re
    src = open(os.path.join(core.REPO, "server/internal/cache/blob/cache.go")).read()
    m = re.search(r"\nfunc \(c \*DiskCache\) Link\(.*?\n}\n", src, flags=re.S)
    body = m.group(0) if m else ""
    if "os.Rename(" not in body:
        return 0
    return 2 if re.search(r"info\.Size\(\) == 0\s*&&", body) else 1


def regenerate(ctx, variant):
    body = ("-- REGENERATED on every run by vlib/checks/c08.py from /repo's working tree. Do not edit.\n"
            "namespace OllamaVerif.Generated.C08\n"
            "/-- does `DiskCache.Link` in the tree rename a verified temporary file over the link (true), or copy in place\n"
            "    with copyNamedFile's same-size shortcut (false, finding F8)? -/\n"
            f"def linkFixed : Bool := {'true' if variant >= 1 else 'false'}\n"
            "/-- does it refuse a zero-length blob file unless the digest is that of the empty string? -/\n"
            f"def linkZeroCheck : Bool := {'true' if variant >= 2 else 'false'}\n"
            "end OllamaVerif.Generated.C08\n")
    core.write_generated("OllamaVerif/Generated/C08_LinkVariant.lean", body)
    # character classes / length limits of the real names.isValidPart
    rc, out, outdir = ctx.go_test("./server/internal/internal/names/", NAMES_OVERLAY, "^TestVerifC08NameTable$")
    first, rest, lens = [], [], []
    if rc == 0:
        for line in open(outdir + "/nametable.txt"):
            t = line.split()
            if t[0] == "first":
                first.append(f"({t[1]}, [{', '.join(t[2:])}])")
            elif t[0] == "rest":
                rest.append(f"({t[1]}, [{', '.join(t[2:])}])")
            elif t[0] == "len":
                lens.append(f"({t[1]}, {t[2]}, {t[3]}, {t[4]})")
    else:
        ctx.violation("names-table-failed", "", out[-1500:], no_input=True)
    body = ("-- REGENERATED on every run by vlib/checks/c08.py from /repo's working tree. Do not edit.\n"
            "namespace OllamaVerif.Generated.C08\n"
            "/-- per part kind (0 host, 1 namespace, 2 model, 3 tag): the bytes b with isValidPart(kind, [b]) -/\n"
            "def firstChars : List (Nat × List Nat) := [" + ", ".join(first) + "]\n"
            "/-- the bytes b with isValidPart(kind, ['a', b]) -/\n"
            "def restChars : List (Nat × List Nat) := [" + ", ".join(rest) + "]\n"
            "/-- (kind, largest accepted length of a^n, accepted lengths form [0,max], later bytes position independent) -/\n"
            "def lenLimits : List (Nat × Nat × Nat × Nat) := [" + ", ".join(lens) + "]\n"
            "end OllamaVerif.Generated.C08\n")
    core.write_generated("OllamaVerif/Generated/C08_NameChars.lean", body)


def run(ctx):
    variant = link_variant()
    regenerate(ctx, variant)
    ctx.lean_check(MODULES, THEOREMS)
    ctx.coverage["theorems_for_tree_link"] = [t for t in THEOREMS if ".Tie.C08." in t]
    ctx.coverage["theorems_about_pinned_link_only"] = HISTORICAL
    ctx.coverage["link_variant"] = ["pinned (in place)", "repaired (temp+rename)", "repaired + zero-length refusal"][variant]
    env = {"VERIF_C08_FIXED": variant, "VERIF_N": ctx.scale(1200, 30000), "VERIF_NCONC": ctx.scale(1200, 20000),
           "VERIF_NCRASH": ctx.scale(54, 270), "VERIF_NBIG": ctx.scale(5, 10), "VERIF_NBIGCONC": ctx.scale(2, 3)}
    if ctx.replay:
        env["VERIF_REPLAY"] = ctx.replay_line_file()
    rc, out, outdir = ctx.go_test(PKG, OVERLAY, "^TestVerifC08$", env=env, timeout=3000)
    if rc != 0:
        ctx.violation("driver-failed", "", out[-1500:], no_input=True)
    ctx.read_stats(outdir)
    ctx.l1(outdir)
    ctx.classify(ctx.l2(outdir))
    if not ctx.replay:
        # the same deterministic interleavings under the race detector (the cache documents itself as safe for
        # concurrent use): a DATA RACE report makes the test binary fail
        env2 = {"VERIF_C08_FIXED": variant, "VERIF_C08_PHASES": "conc", "VERIF_NCONC": ctx.scale(150, 1500)}
        rc2, out2, outdir2 = ctx.go_test(PKG, OVERLAY, "^TestVerifC08$", env=env2, race=True, timeout=3000)
        if rc2 != 0:
            ctx.violation("race-run-failed", "", out2[-1500:], no_input=True)
        ctx.read_stats(outdir2)
        ctx.l1(outdir2, label="L1-race")
        ctx.classify(ctx.l2(outdir2))
        ctx.coverage["race_run"] = "ok" if rc2 == 0 else "failed"
    if ctx.thorough:
        ctx.leanchecker(MODULES)
    ctx.assumptions += [
        "POSIX: effects of one process reach the disk in program order; rename(2) is atomic; a killed write(2) leaves a byte-prefix",
        "f.Close() and destination-file I/O errors do not occur (not injectable without editing the code)",
        "manifests are smaller than Resolve's 1 MiB read limit; source chunks are smaller than io.Copy's 32 KiB buffer",
        "sizes are non-negative",
    ]
    return ctx.finish(
        level="proof",
        rule="seeded random histories (4-26 ops of Put/Import/Get/Link/Unlink/Resolve/Chunked over 7 contents with "
             "shared sizes, 20 names incl. case twins and invalid ones, 8 faulty-reader kinds, chunkings 1..n) + "
             "every syscall-level crash point (open/write/ftruncate/rename x N) of generated Put/Import/Chunker.Put "
             "calls run in a strace-killed child from absent/shorter/longer/partial files + seeded interleavings of "
             "2-4 concurrent Puts; distinct = distinct oracle command lines",
        explanation="Lean theorems about the effect-level model of the blob cache for an arbitrary hash function; model "
                    "tied to the code by exact comparison of results, final disk, every crash-point state and every "
                    "intermediate state of scripted interleavings (L1); property predicate re-evaluated on the real "
                    "disk after every step (L2)")
