"""C08 — Blob cache entries of the right size always have the right content."""
from vlib import core
from vlib.registry import COMMON_NOTE

REGISTRATION = {
    "engine": "lean-blobcache",
    "technique": "Lean 4 proof over an effect-level model of the disk cache (crash cuts, writer interleavings) + "
                 "differential correspondence incl. real crash points (strace kill injection) and scripted concurrent writers",
    "category": "proof",
    "text": "Kernel-checked theorems over a Lean model of copyNamedFile/checkWriter/Put/Import/Link/Unlink/Resolve/Chunked "
            "and names.Parse/isValidPart as sequences of primitive file effects, for an uninterpreted hash: every crash cut "
            "of a single writer (any source script, any prior file) and every crash-restart-retry history leaves a file "
            "that, if it has the stored size, hashes to its digest; successful Put is retrievable; Link needs the blob "
            "(full strength for the Link with the zero-length refusal); Resolve returns the hash of the manifest file; "
            "Link-then-Resolve for the tree's Link variant; Link as effects on the manifest file (read + one atomic rename): every "
            "crash cut and every moment a concurrent Resolve can observe leaves the name unresolvable or resolving to a digest "
            "some Link asked for; any interleaving of writers whose sources are the true content "
            "is safe; over every history every blob Get reports hashes to its name; names are confined (any string is "
            "refused or denotes manifests/<h>/<n>/<m>/<t>, name operations never touch a blob). Lean-checked witnesses for "
            "the defects the model shares with the code (zero-length blob link, failing co-writer, chunk holes; F8 fixed). "
            "Tie 1: Link variant and the character classes/length limits of the real isValidPart regenerated from the tree "
            "and consumed by decide. Tie 2: random op histories with hostile names (results + final disk), every syscall-"
            "level crash point of real Put/Import/Chunker.Put/Link calls executed in a child process killed under strace, Link with "
            "a Resolve fired at the code's own yield point (testHookBeforeFinalWrite), seeded deterministic "
            "interleavings of real concurrent Puts (+ -race); L2 after every step: re-hash of every blob Get reports with a "
            "stored size, store-ok-retrievable, acknowledged blobs stay, Link/Resolve agreement, resolved digests were asked for, "
            "Unlink removes the name in every spelling, Links() = disk, directory-tree frame condition of every operation; a share "
            "of the histories runs in cache directories whose path has glob metacharacters/spaces/non-ASCII; the real syscall "
            "trace of stores is compared with the model's effect list and checked for the noEarlyFull shape; blobs of 1-16 MiB "
            "in the kill enumeration and the interleaving driver (L2 only). Round 7: crashes folded into the whole-disk history "
            "theorem (every history of complete disciplined operations and Put/Import/Resolve/Link each cut anywhere keeps every "
            "blob trusted under its size; a stored blob stays retrievable), Resolve's read limit, negative sizes and manifests "
            "written behind the cache's back inside the model (findings F28, F29 with witnesses and variant flags), all variant "
            "facts obtained by executing the tree, fail-closed branch coverage; chunker sessions (one Chunked, several Chunker.Put on "
            "the open file) modelled, a complete in-order tiling proved to store the content, driven on the real code; F9/F10 "
            "signatures narrowed to what those findings explain (failing instant, Go twin of the documented chunk algorithm). NOT claimed: the statement's combination of "
            "faulty sources WITH concurrent writers (refuted: F9); `Get` alone is not the test - a crashed partial file is "
            "reported present under its own length, the theorems speak of the size the digest is stored under.",
    "design_ref": "DESIGN.md §5 C08",
    "note": COMMON_NOTE + "Modelled, not verified: POSIX semantics of open/write/ftruncate/rename (program order = disk "
            "order, rename atomic, no torn write(2) other than a byte-prefix), io.Copy's 32 KiB buffering (scripts stay "
            "below it), f.Close()/destination I/O errors (not injectable without editing the code; the os.Remove they "
            "trigger is not modelled), os.Stat+os.OpenFile of one writer are separate steps in the Lean model but "
            "adjacent in the real schedules the driver can force (no hook between them). SHA-256 is an uninterpreted "
            "function in every theorem; the oracle's Lean SHA-256 is compared with crypto/sha256 through every digest "
            "of every case.",
}

MODULES = ["OllamaVerif.Properties.C08", "OllamaVerif.Properties.C08Hist", "OllamaVerif.Tie.C08"]
THEOREMS = [
    "OllamaVerif.C08.single_writer_crash_safe",
    "OllamaVerif.C08.single_writer_crash_safe_from_garbage",
    "OllamaVerif.C08.import_crash_safe",
    "OllamaVerif.C08.prefixBefore_is_cut",
    "OllamaVerif.C08.put_ok_retrievable",
    "OllamaVerif.C08.empty_put_not_retrievable",
    "OllamaVerif.C08.put_frame",
    "OllamaVerif.C08.F8zero_link_to_failed_put",
    "OllamaVerif.C08.concurrent_good_writers_safe",
    "OllamaVerif.C08.F9_failing_cowriter_breaks_trust",
    "OllamaVerif.C08.good_writers_from_longer_file_transiently_unsafe",
    "OllamaVerif.C08.F10_chunk_holes_present_with_full_size",
    "OllamaVerif.C08.resolve_hash_of_file",
    "OllamaVerif.C08.history_blobs_valid",
    "OllamaVerif.C08.history_get_trusted",
    "OllamaVerif.C08.linkZ_then_resolve_fixed",
    "OllamaVerif.C08.link_requires_blob_zero_checked",
    "OllamaVerif.C08.F8zero_refused_with_zero_check",
    "OllamaVerif.C08.link_confined",
    "OllamaVerif.C08.unlink_confined",
    "OllamaVerif.C08.history_manifests_confined",
    "OllamaVerif.C08.crash_history_trusted",
    "OllamaVerif.C08.linkZ_file_effs",
    "OllamaVerif.C08.link_crash_atomic",
    "OllamaVerif.C08.link_cut_resolves_asked",
    "OllamaVerif.C08.inplace_first_link_exposes_empty_manifest",
    "OllamaVerif.C08.copyNamedEffs_noEarlyFull",
    "OllamaVerif.C08.prealloc_violates_shape_and_safety",
    "OllamaVerif.BlobCache.nameToPath_safe",
    # round 7: crashes folded into the whole-disk history theorem
    "OllamaVerif.C08.stepOp_allTrusted",
    "OllamaVerif.C08.crash_history_all_trusted",
    "OllamaVerif.C08.crash_history_get_trusted",
    "OllamaVerif.C08.allTrusted_empty",
    "OllamaVerif.C08.crash_history_present_persists",
    "OllamaVerif.C08.present_get",
    "OllamaVerif.C08.put_ok_stays_retrievable",
    "OllamaVerif.C08.import_ok_stays_retrievable",
    "OllamaVerif.C08.stepOpL_eq_stepOp",
    # chunker sessions (one Chunked, several Chunker.Put: state reused across calls)
    "OllamaVerif.C08.session_single",
    "OllamaVerif.C08.copyLoop_append",
    "OllamaVerif.C08.tiles_run",
    "OllamaVerif.C08.session_tiling_complete",
    "OllamaVerif.C08.session_complete_present",
    "OllamaVerif.C08.crashHist_nonvacuous",
    "OllamaVerif.C08.size_lie_after_crash_present_wrong_content",
    "OllamaVerif.C08.undisciplined_put_destroys_linked_blob",
    # round 7: Resolve's read limit, negative sizes, manifests written behind the cache's back
    "OllamaVerif.C08.resolveL_eq_resolve",
    "OllamaVerif.C08.resolveL_oversize_prefix_digest",
    "OllamaVerif.C08.resolveL_strict_hash_of_whole_file",
    "OllamaVerif.C08.F28_oversize_manifest_resolves_to_prefix_digest",
    "OllamaVerif.C08.F29_negative_size_put_destroys_blob",
    "OllamaVerif.C08.putNeg_safe",
    "OllamaVerif.C08.edit_then_resolve",
    # Tie 1: the Link theorems at the variant found in the tree (compile only for the repaired Link, fix 834f6be9a)
    "OllamaVerif.Tie.C08.tree_link_is_fixed",
    "OllamaVerif.Tie.C08.tree_link_zero_checked",
    "OllamaVerif.Tie.C08.tree_link_then_resolve",
    "OllamaVerif.Tie.C08.tree_link_requires_blob",
    "OllamaVerif.Tie.C08.tree_relink_same_size_takes_effect",
    "OllamaVerif.Tie.C08.name_first_chars_match",
    "OllamaVerif.Tie.C08.name_rest_chars_match",
    "OllamaVerif.Tie.C08.name_len_limits_match",
    "OllamaVerif.Tie.C08.name_accepted_bytes_safe",
    "OllamaVerif.Tie.C08.read_limits_agree",
    "OllamaVerif.Tie.C08.tree_read_strict_and_neg_refused",
    "OllamaVerif.Tie.C08.tree_resolve_hash_of_whole_file",
    "OllamaVerif.Tie.C08.tree_putNeg_noop",
    "OllamaVerif.Tie.C08.tree_link_then_resolve_limited",
]
# theorems about Link variants the tree no longer has (pinned in-place Link before fix 834f6be9a; temp+rename without the
# zero-length refusal before fix 892890804): still built and axiom-audited as the record of findings F8 / F8-zero, but not
# claims about the tree (evidence field `theorems_about_earlier_link_variants`)
HISTORICAL = ["OllamaVerif.C08.link_requires_blob", "OllamaVerif.C08.link_then_resolve_partial",
              "OllamaVerif.C08.F8_relink_same_size_keeps_old", "OllamaVerif.C08.link_requires_blob_fixed",
              "OllamaVerif.C08.link_then_resolve_fixed"]
OVERLAY = {"server/internal/cache/blob/zz_verif_c08_test.go": "server_internal_cache_blob/zz_verif_c08_test.go"}
NAMES_OVERLAY = {"server/internal/internal/names/zz_verif_c08_names_test.go": "server_internal_internal_names/zz_verif_c08_names_test.go"}
PKG = "./server/internal/cache/blob/"


def tree_facts(ctx):
    """Tie 1, obtained by EXECUTING the tree (TestVerifC08Facts), not by reading its source — a refactoring of Link /
    Resolve / copyNamedFile (helper extracted, constant named) must not confuse the check:
    link variant 0 = pinned (in place, same-size shortcut), 1 = repaired (fix 834f6be9a: a re-Link to a different
    manifest of the same size takes effect), 2 = 1 + refusal of a zero-length blob file (fix 892890804);
    the largest manifest size Resolve hashes completely / Link's already-linked test recognises; whether a larger one is
    an error (proposed_fixes/C08-F28.patch) or cut; whether a negative size is refused (C08-F29.patch)."""
    rc, out, outdir = ctx.go_test(PKG, OVERLAY, "^TestVerifC08Facts$", timeout=1200)
    f = {}
    import os
    if rc == 0 and not os.path.exists(os.path.join(outdir, "facts.txt")):
        rc, out = 1, "TestVerifC08Facts passed but wrote no facts.txt\n" + out
    if rc == 0:
        for line in open(os.path.join(outdir, "facts.txt")):
            k, _, v = line.strip().partition("=")
            if k:
                f[k] = int(v)
    else:
        ctx.violation("tree-facts-failed", "", out[-1500:], no_input=True)
    facts = {"resolve_limit": f.get("resolve_limit", 0), "link_limit": f.get("link_limit", 0),
             "strict": bool(f.get("read_strict", 0)), "refuse": bool(f.get("neg_refused", 0))}
    variant = 0 if not f.get("link_fixed") else (2 if f.get("link_zerocheck") else 1)
    return variant, facts


# The EXPECTED variant is the one with every fix that KNOWN_FINDINGS.jsonl lists as `fixed`: a probed variant that lacks
# one is a regression of that finding, reported with the finding's witness history — the model adapting to the regressed
# tree (L1 stays exact against the earlier variant) must not make a reverted repair pass.
FIX_EXPECTATIONS = {
    "F8": (lambda v, f: v >= 1, "Put A(7 bytes); Put B(7 bytes); Link(n,A); Link(n,B) = nil; Resolve(n) = digest(A)"),
    "F8-clobber": (lambda v, f: v >= 1, "Link(n,A); blob B corrupt (same digest name, other bytes, other size); Link(n,B) fails and the manifest of n is truncated"),
    "F8-zero": (lambda v, f: v == 2, "Put(d, <short source>, size) = ErrUnexpectedEOF (zero-length file stays); Link(n,d) = nil; Resolve(n) = sha256(\"\")"),
    "F28-manifest-read-limit": (lambda v, f: f["strict"], "Put(d, c, 1 MiB + 1); Link(n,d) = nil; Resolve(n) = sha256(c[:1 MiB]) != d"),
    "F29-negative-size-put": (lambda v, f: f["refuse"], "Put(d, c, len(c)) = nil; Put(d, <empty reader>, -1) = nil; Get(d) = ErrNotExist"),
}


def variant_regressions(ctx, variant, facts):
    import json
    import os
    fixed = set()
    for line in open(os.path.join(core.ROOT, "KNOWN_FINDINGS.jsonl")):
        line = line.strip()
        if not line:
            continue
        try:
            e = json.loads(line)
        except Exception:
            continue
        if e.get("property") == "C08" and e.get("status") == "fixed":
            fixed.add(e.get("id"))
    ctx.coverage["fixed_findings_expected_in_tree"] = sorted(fixed & set(FIX_EXPECTATIONS))
    for fid in sorted(fixed & set(FIX_EXPECTATIONS)):
        ok, witness = FIX_EXPECTATIONS[fid]
        if not ok(variant, facts):
            ctx.violation("variant-regression", "witness :: " + witness,
                          f"finding {fid} is listed as fixed, but the tree behaves like the variant before its fix "
                          f"(probed: link variant {variant}, {facts})")


def regenerate(ctx, variant):
    facts = ctx.c08_facts
    body = ("-- REGENERATED on every run by vlib/checks/c08.py from /repo's working tree. Do not edit.\n"
            "namespace OllamaVerif.Generated.C08\n"
            "/-- the limit `Resolve` passes to `readAndSum` (0 = could not be extracted: the Tie theorems fail) -/\n"
            f"def resolveReadLimit : Nat := {facts['resolve_limit'] or 0}\n"
            "/-- the largest manifest size Link's already-linked test recognises = the limit it passes to `readAndSum` -/\n"
            f"def linkReadLimit : Nat := {facts['link_limit'] or 0}\n"
            "/-- does `readAndSum` refuse a file longer than the limit (proposed_fixes/C08-F28.patch) instead of cutting it? -/\n"
            f"def readStrict : Bool := {'true' if facts['strict'] else 'false'}\n"
            "/-- does `copyNamedFile` refuse a negative size (proposed_fixes/C08-F29.patch)? -/\n"
            f"def negRefused : Bool := {'true' if facts['refuse'] else 'false'}\n"
            "end OllamaVerif.Generated.C08\n")
    core.write_generated("OllamaVerif/Generated/C08_ReadLimit.lean", body)
    body = ("-- REGENERATED on every run by vlib/checks/c08.py from /repo's working tree. Do not edit.\n"
            "namespace OllamaVerif.Generated.C08\n"
            "/-- does `DiskCache.Link` in the tree rename a verified temporary file over the link (true), or copy in place\n"
            "    with copyNamedFile's same-size shortcut (false, finding F8)? -/\n"
            f"def linkFixed : Bool := {'true' if variant >= 1 else 'false'}\n"
            "/-- does it refuse a zero-length blob file unless the digest is that of the empty string? -/\n"
            f"def linkZeroCheck : Bool := {'true' if variant >= 2 else 'false'}\n"
            "end OllamaVerif.Generated.C08\n")
    core.write_generated("OllamaVerif/Generated/C08_LinkVariant.lean", body)
    # character classes / length limits of the real names.isValidPart
    rc, out, outdir = ctx.go_test("./server/internal/internal/names/", NAMES_OVERLAY, "^TestVerifC08NameTable$")
    first, rest, lens = [], [], []
    if rc == 0:
        for line in open(outdir + "/nametable.txt"):
            t = line.split()
            if t[0] == "first":
                first.append(f"({t[1]}, [{', '.join(t[2:])}])")
            elif t[0] == "rest":
                rest.append(f"({t[1]}, [{', '.join(t[2:])}])")
            elif t[0] == "len":
                lens.append(f"({t[1]}, {t[2]}, {t[3]}, {t[4]})")
    else:
        ctx.violation("names-table-failed", "", out[-1500:], no_input=True)
    body = ("-- REGENERATED on every run by vlib/checks/c08.py from /repo's working tree. Do not edit.\n"
            "namespace OllamaVerif.Generated.C08\n"
            "/-- per part kind (0 host, 1 namespace, 2 model, 3 tag): the bytes b with isValidPart(kind, [b]) -/\n"
            "def firstChars : List (Nat × List Nat) := [" + ", ".join(first) + "]\n"
            "/-- the bytes b with isValidPart(kind, ['a', b]) -/\n"
            "def restChars : List (Nat × List Nat) := [" + ", ".join(rest) + "]\n"
            "/-- (kind, largest accepted length of a^n, accepted lengths form [0,max], later bytes position independent) -/\n"
            "def lenLimits : List (Nat × Nat × Nat × Nat) := [" + ", ".join(lens) + "]\n"
            "end OllamaVerif.Generated.C08\n")
    core.write_generated("OllamaVerif/Generated/C08_NameChars.lean", body)


# Every branch of the model that the theorems talk about must have been exercised on the real code by this very run
# (driver_stats counters, all judged by the driver from its own observations): the check fails closed otherwise.
REQUIRED_COUNTERS = [
    # copyNamedFile: stat branches, result classes
    "branch_put_same_size_shortcut", "branch_put_over_longer", "branch_put_over_shorter", "branch_put_absent", "branch_put_size0",
    "res_put_ok", "res_put_err:exceeds", "res_put_err:short", "res_put_err:src", "res_put_err:underfoot",
    # Import, Get
    "res_import_dig", "res_import_err:sizemismatch", "res_import_err:src", "res_get_entry", "res_get_err:notexist",
    # Link
    "branch_link_already_linked", "branch_link_replaces", "branch_link_first", "branch_link_zero_length_refused",
    "branch_link_blob_missing", "branch_link_refused_keeps_old", "res_link_err:invalidname", "res_link_err:underfoot",
    "linkr_hook_dig", "linkr_hook_err:notexist", "linkr_hook_nohook",
    # Unlink, Resolve
    "res_unlink_unlinked:true", "res_unlink_unlinked:false", "res_unlink_err:invalidname", "branch_unlink_other_spelling",
    "branch_resolve_at_digest", "branch_resolve_blob_existed", "branch_resolve_creates_blob", "res_resolve_err:invaliddigest",
    "res_resolve_err:invalidname", "res_resolve_err:notexist",
    # Chunked
    "branch_chunk_same_size_shortcut", "branch_chunk_over_shorter", "branch_chunk_absent", "res_chunk_ok", "res_chunk_err:short",
    "res_chunk_err:src", "res_chunk_err:underfoot", "op_session", "branch_session_complete_ok", "res_session_all-ok",
    "res_session_some-refused", "branch_session_same_size_shortcut",
    # crash cuts: every effect kind killed at least once, every store kind, the real traces
    "crash_cases_put", "crash_cases_import", "crash_cases_chunk", "crash_cases_link", "crash_cases_resolve", "l2_chunk_twin_checked", "crash_runs_killed_open",
    "crash_runs_killed_write", "crash_runs_killed_trunc", "crash_runs_killed_rename", "crash_runs_killed_link_open",
    "crash_runs_killed_link_rename", "crash_runs_survived", "crash_full_size_states", "trace_runs",
    # round 7: negative sizes, manifests written behind the cache's back, readAndSum over its small whole domain,
    # manifests around the read limit
    "branch_edit_written", "branch_edit_makes_case_twin", "branch_resolve_creates_blob",
    "readsum_cases", "readsum_cases_over_limit", "edge_cases_size_limit+1", "edge_cases_size_limit+0", "edge_cases_size_limit-1",
    # interleavings, large blobs, odd directories
    "conc_cases_all-good", "conc_cases_bad-cowriter", "conc_full_size_states", "conc_cases_with_import", "big_runs_killed", "hist_cases_weird_dir",
]


def coverage_required(ctx):
    stats = ctx.stats
    required = list(REQUIRED_COUNTERS)
    facts = ctx.c08_facts
    # the variant-dependent branches: what an oversize manifest / a negative size does in THIS tree
    required.append("res_resolve_err:toolarge" if facts["strict"] else "branch_resolve_oversize_prefix")
    required += ["branch_putneg_refused"] if facts["refuse"] else ["branch_putneg_ok_over_file", "branch_putneg_exceeds", "branch_putneg_src"]
    missing = [c for c in required if not stats.get(c)]
    ctx.coverage["model_branches_required"] = len(required)
    ctx.coverage["model_branches_missing"] = missing
    if missing:
        ctx.violation("correspondence-coverage", "", "branches of the model never exercised on the real code in this run: "
                      + ", ".join(missing), no_input=True)


def run(ctx):
    variant, ctx.c08_facts = tree_facts(ctx)
    variant_regressions(ctx, variant, ctx.c08_facts)
    regenerate(ctx, variant)
    ctx.lean_check(MODULES, THEOREMS + HISTORICAL)
    ctx.coverage["theorems_for_tree_link"] = [t for t in THEOREMS if ".Tie.C08." in t]
    ctx.coverage["theorems_about_earlier_link_variants"] = HISTORICAL
    ctx.coverage["link_variant"] = ["pinned (in place)", "repaired (temp+rename)", "repaired + zero-length refusal"][variant]
    facts = ctx.c08_facts
    ctx.coverage["read_limit_facts"] = facts
    if not facts["resolve_limit"] or not facts["link_limit"]:
        ctx.violation("read-limit-not-found", "", f"the read limits of Resolve/Link could not be determined by probing: {facts}", no_input=True)
    vflags = {"VERIF_C08_FIXED": variant, "VERIF_C08_STRICT": int(facts["strict"]), "VERIF_C08_REFUSE": int(facts["refuse"]),
              "VERIF_C08_RLIM": facts["resolve_limit"] or (1 << 20)}
    env = {**vflags, "VERIF_N": ctx.scale(1200, 30000), "VERIF_NCONC": ctx.scale(1200, 20000),
           "VERIF_NCRASH": ctx.scale(54, 270), "VERIF_NBIG": ctx.scale(5, 10), "VERIF_NBIGCONC": ctx.scale(2, 3),
           "VERIF_NEDGE": ctx.scale(4, 8)}
    if ctx.replay:
        env["VERIF_REPLAY"] = ctx.replay_line_file()
    rc, out, outdir = ctx.go_test(PKG, OVERLAY, "^TestVerifC08$", env=env, timeout=3000)
    if rc != 0:
        ctx.violation("driver-failed", "", out[-1500:], no_input=True)
    ctx.read_stats(outdir)
    if not ctx.replay:
        coverage_required(ctx)   # on the counters of THIS run (before the -race run adds its own)
    ctx.l1(outdir)
    ctx.classify(ctx.l2(outdir))
    if not ctx.replay:
        # the same deterministic interleavings under the race detector (the cache documents itself as safe for
        # concurrent use): a DATA RACE report makes the test binary fail
        env2 = {**vflags, "VERIF_C08_PHASES": "conc", "VERIF_NCONC": ctx.scale(150, 1500)}
        rc2, out2, outdir2 = ctx.go_test(PKG, OVERLAY, "^TestVerifC08$", env=env2, race=True, timeout=3000)
        if rc2 != 0:
            ctx.violation("race-run-failed", "", out2[-1500:], no_input=True)
        ctx.read_stats(outdir2)
        ctx.l1(outdir2, label="L1-race")
        ctx.classify(ctx.l2(outdir2))
        ctx.coverage["race_run"] = "ok" if rc2 == 0 else "failed"
    if ctx.thorough:
        ctx.leanchecker(MODULES)
    ctx.assumptions += [
        "POSIX: effects of one process reach the disk in program order; rename(2) is atomic; a killed write(2) leaves a byte-prefix",
        "f.Close() and destination-file I/O errors do not occur (not injectable without editing the code)",
        "source chunks are smaller than io.Copy's 32 KiB buffer",
        "history theorems with crashes: every digest is stored under one size (Put(d) is called with sz d; witnesses of what "
        "happens otherwise: size_lie_after_crash_present_wrong_content, undisciplined_put_destroys_linked_blob)",
        "Link's already-linked test is modelled on the whole manifest; the code hashes its first 1 MiB (differs only for an "
        "oversize manifest whose prefix hashes to the digest asked for)",
    ]
    return ctx.finish(
        level="proof",
        rule="seeded random histories (4-26 ops of Put/Import/Get/Link/Unlink/Resolve/Chunked over 7 contents with "
             "shared sizes, 20 names incl. case twins and invalid ones, 8 faulty-reader kinds, chunkings 1..n) + "
             "every syscall-level crash point (open/write/ftruncate/rename x N) of generated Put/Import/Chunker.Put "
             "calls run in a strace-killed child from absent/shorter/longer/partial files + seeded interleavings of "
             "2-4 concurrent Puts; distinct = distinct oracle command lines",
        explanation="Lean theorems about the effect-level model of the blob cache for an arbitrary hash function; model "
                    "tied to the code by exact comparison of results, final disk, every crash-point state and every "
                    "intermediate state of scripted interleavings (L1); property predicate re-evaluated on the real "
                    "disk after every step (L2)")
