"""C18 — the sampler returns an admissible token, deterministically under a seed."""
import os
import re

from vlib import core
from vlib.registry import COMMON_NOTE

# Variant of the model the tree implements, as a bit mask: 1 = F18 max-shift (in /repo since e3725cd97), 2 = greedy
# "all logits are -Inf" error (F18c, 4a8f8bf0b).  PROBED on every run by the driver on the two witness inputs
# (c18ProbeFix -> variant.txt -> Generated/C18_Variant.lean -> Tie.C18.tree_is_fixed); VERIF_C18_FIX overrides the probe.
FIX_OVERRIDE = os.environ.get("VERIF_C18_FIX")

REGISTRATION = {
    "engine": "lean-sampler",
    "technique": "Lean 4 proof over an order-abstract sampler model + bit-exact stage-by-stage differential "
                 "correspondence with per-run IEEE contracts",
    "category": "proof",
    "text": "Kernel-checked theorems about an executable model of greedy/topK (sort branch and an exact mirror of the "
            "container/heap branch)/temperature/softmax/topP/minP and the cumulative binary-search pick, for every carrier "
            "whose comparison is a strict weak order and — since no carrier with a NaN is one (X_not_OrdLaws) — in `_on` form "
            "for every carrier whose comparison is a strict weak order on its non-NaN values (what IEEE gives), under the "
            "decidable guards `noNaN logits` / `runGood` (no NaN is ever compared in the run), instantiated on a witness "
            "carrier with NaN and +-Inf; for the pinned and the "
            "repaired (max-shift) variant, the tree's variant being probed on every run and pinned by Tie.C18.tree_is_fixed: "
            "argmax at temperature 0, and a token (never an error, never -Inf) as soon as "
            "some logit is above -Inf; topK returns tokens of its input on both branches, so "
            "a returned id is always an index into the logits (unconditional); topK is a correct top-k on both "
            "branches (the heap branch via the heap order of Init/Push/Pop/up/down), hence fewer than k logits are "
            "strictly larger than the returned one (no run contract); every call of every history, seeded or "
            "unseeded, satisfies the single-call theorems; at temperature > 0 the 'all logits are -Inf' error is only "
            "raised when it is true; top-p keeps the smallest non-empty prefix whose accumulated mass exceeds p (an "
            "off-by-one variant provably violates the statement); each filter keeps a non-empty prefix and "
            "minP is exactly the threshold filter; the pick is the first index reaching the target, never a "
            "zero-probability entry, never an index panic; the picked token lies in minP(topP(topK)) and comes from a "
            "logit that is not -Inf; a history of calls on one sampler has no state but the generator (the i-th result "
            "equals the single-call result with the PCG advanced by the number of drawing calls before it) and is a "
            "function of (seed, params, logits) (reproducible_under_seed); PCG-DXSM modelled bit-exactly; every production "
            "call of sample.NewSampler passes the request's options in role order into a sampler of its own "
            "(go/ast fact consumed by Tie.C18.callsites_wired); with a grammar, a call returns either the "
            "accepted first pick or exactly Sample on a fresh token list from the original logits with the grammar mask "
            "applied and a new random number, so the retry is admissible w.r.t. the masked logits and accepted by the "
            "grammar. The same generic code is run at IEEE "
            "Float32 by the oracle and compared with the real package on histories of calls on one real Sampler: stage by "
            "stage on bit patterns, per call with the threaded random number, and the whole history through the model; "
            "the grammar path is driven with the REAL llama.cpp grammar sampler (GBNF grammars over a synthetic vocab-only "
            "GGUF the driver writes; the accepted id set is probed from the real grammar before every call and given to "
            "the model as data; draws counted through a wrapping rand.Source). "
            "What IEEE-754 must provide is checked as decidable contracts on every call, and every clause of the "
            "property is evaluated on the real Sample result of every call, on the float32 values the real transforms "
            "produced.",
    "design_ref": "DESIGN.md §5 C18",
    "note": COMMON_NOTE + "Partial by construction: IEEE-754 rounding/overflow and math.Exp are outside the model "
            "(exp values are taken from the run; contracts re-checked per run); the grammar's own state machine "
            "(llama.cpp) is not modelled: its accepted sets are data probed from the real grammar; slices.SortFunc's order "
            "inside groups of equal logits is not modelled (compared modulo that order). The unseeded sampler (seed -1) "
            "takes its numbers from the process-wide generator, which is an arbitrary external stream in the model: its "
            "calls are tied by a witness number found after the fact (the model must return the same id for it).",
}

MODULES = ["OllamaVerif.Properties.C18", "OllamaVerif.Proofs.Sampler", "OllamaVerif.Proofs.SamplerNaN", "OllamaVerif.Model.Sampler",
           "OllamaVerif.Tie.C18"]
THEOREMS = ["OllamaVerif.C18." + t for t in (
    "greedy_argmax", "filters_nonempty_prefix", "topK_isTopK", "topK_returns_input_tokens", "index_in_range",
    "minP_is_threshold_filter", "pick_first_index", "sample_never_panics", "sample_never_panics_fixed",
    "sample_admissible_partial", "sample_admissible_fixed_partial", "never_neg_inf", "result_mem_filters",
    "pick_search_spec", "greedy_admissible", "hist_each_call", "unseeded_each_call", "newRng_none_iff",
    "every_call_admissible", "hist_every_call_admissible", "ghist_each_call", "maskLogits_length",
    "sample_in_topk", "isTopK_count",
    # after the review: totality on the weighted branch, all clauses at once, top-p specification, reproducibility
    "sample_fixed_no_allNegInf", "sample_fixed_token_or_nan", "sample_admissible_all_fixed", "isTopK_head_max",
    "topP_spec", "topP_one", "topPBad_violates_spec", "reproducible_under_seed", "greedy_admissible_sep",
    # the laws relativised to the NaN-free part of the carrier + instance on the carrier WITH NaN
    "greedy_argmax_on", "greedy_admissible_on", "sample_in_topk_on", "sample_fixed_no_allNegInf_on",
    "every_call_admissible_on", "X_not_OrdLaws", "xLawsOn", "xBeqLawOn", "Sample_totalize_greedy",
    "sample_admissible_fixed_on", "xArithLawsOn", "noNaN_maskLogits", "grammar_retry_greedy_on",
    "grammar_retry_admissible_fixed_on",
    # the admissibility clauses hold for ANY correct top-k stage (pdqsort's order among equal logits is immaterial)
    "SampleWith_topK", "sampleWith_admissible", "sampleWith_admissible_fixed_on",
    "newParams_in_range", "xClampLawsOn", "arith_contracts_of_ranges", "cumsum_nonneg", "xMulLawsOn",
    "scale_contract_of_laws", "guard_of_laws", "contracts_after_shift", "isDesc_head_max", "xScaleLawsOn", "xBeqRefl",
    "shift_desc", "shift_contract_of_laws", "isDesc_of_pairwise", "shift_scale_contracts_of_laws", "xShiftLawsOn",
    "sample_admissible_lawful",
    # any deterministic top-k stage: reproducibility; runGood derived from an input guard + laws + finiteness of the masses
    "sampleHistWith_topK", "reproducible_with_any_sort", "histWith_each_call",
    "runGood_of_laws", "runGood_from_input", "sample_admissible_from_input", "maxScan_desc", "xSoftmaxLawsOn",
    "deterministic", "hist_nth", "Sample_indep_r", "stream_of_seed", "grammar_step_spec",
    "grammar_retry_admissible_partial", "grammar_retry_admissible_fixed_partial", "grammar_retry_greedy",
    "masked_not_neginf_accepted", "maskLogits_get", "F18_nan_instead_of_token", "F18_guard_fails",
    "F18b_greedy_keeps_leading_nan", "F18c_greedy_retry_returns_rejected", "zOps_laws")] + [
    "OllamaVerif.Sampler.pick_spec", "OllamaVerif.Sampler.afterTopK_spec", "OllamaVerif.Sampler.afterTopK_spec_fix", "OllamaVerif.Sampler.bsearch_spec",
    # round 7: heap order of the container/heap mirror -> the heap branch of topK is a correct top-k
    "OllamaVerif.Sampler.hdown_heap", "OllamaVerif.Sampler.hup_heap", "OllamaVerif.Sampler.hinit_heap",
    "OllamaVerif.Sampler.hpop_heap", "OllamaVerif.Sampler.hpush_heap", "OllamaVerif.Sampler.hpopAll_spec",
    "OllamaVerif.Sampler.topKHeap_isTopK", "OllamaVerif.Sampler.topK_isTopK_all",
    "OllamaVerif.Sampler.totalize_laws", "OllamaVerif.Sampler.totalize_beqLaw", "OllamaVerif.Sampler.topK_totalize",
    "OllamaVerif.Sampler.greedy_totalize", "OllamaVerif.Sampler.topK_isTopK_on",
    "OllamaVerif.Sampler.runGood_stages", "OllamaVerif.Sampler.afterTopK_totalize", "OllamaVerif.Sampler.totalize_addZero",
    "OllamaVerif.Sampler.afterTopK_spec_fix_on",
    # Tie 1: call-site wiring (go/ast) and the variant the tree implements (probe)
    "OllamaVerif.Tie.C18.callsites_wired", "OllamaVerif.Tie.C18.tree_request_sampler",
    "OllamaVerif.Tie.C18.tree_request_params_in_range", "OllamaVerif.Tie.C18.tree_is_fixed", "OllamaVerif.Tie.C18.treeSample_eq", "OllamaVerif.Tie.C18.tree_no_spurious_allNegInf",
]
OVERLAY = {"sample/zz_verif_c18_test.go": "sample/zz_verif_c18_test.go",
           "sample/zz_verif_c18_grammar_test.go": "sample/zz_verif_c18_grammar_test.go"}


def normalize(s):
    return re.sub(r"panic:\S+", "panic", s)


def f18c_probe(ctx):
    """Finding F18c kills the process, so its reproduction runs in a go test process of its own.  Fails closed: if the
    reproduction did not execute (no journal, grammar initialisation failed, journal stuck at `begin` although the process
    ended normally, timeout) that is a violation of its own, not silence."""
    rc, out, outdir = ctx.go_test("./sample/", OVERLAY, "^TestVerifC18F18c$", timeout=1800)
    j = os.path.join(outdir, "f18c.txt")
    timed_out = rc == 124 or "test timed out after" in out
    if not os.path.exists(j) or timed_out:
        ctx.violation("f18c-probe-did-not-run", "", "TestVerifC18F18c left no journal (rc=%s%s): %s"
                      % (rc, ", timeout" if timed_out else "", out[-400:].replace("\n", " ")), no_input=True)
        return []
    parts = open(j).read().rstrip("\n").split("\t")
    if parts[0] == "begin" and rc != 0:
        m = re.search(r"what\(\):\s*([^\n]*)", out)
        why = m.group(1) if m else out[-300:].replace("\n", " ")
        return [{"kind": "grammar-accept-rejected-crash", "case": parts[1],
                 "detail": "temperature 0, grammar accepts only a token whose logit is -Inf: the process died inside Sample: " + why}]
    if parts[0] == "returned" and len(parts) > 2 and parts[2].startswith("ok"):
        return [{"kind": "grammar-rejected-token", "case": parts[1],
                 "detail": "temperature 0, every accepted token has logit -Inf, Sample returned " + parts[2]}]
    if parts[0] == "returned" and len(parts) > 2 and rc == 0:
        ctx.coverage["f18c_probe"] = parts[2]       # the repaired tree: an error instead of a rejected token
        return []
    ctx.violation("f18c-probe-did-not-run", parts[1] if len(parts) > 1 else "",
                  "the F18c reproduction did not execute to its end: journal says %r, rc=%s" % (parts[0], rc), no_input=True)
    return []


def big_stack_oracle(ctx):
    """The model's list functions are structurally recursive; on 128256-token vocabularies the compiled oracle
    needs a deeper stack than the default 8 MB."""
    import resource
    import subprocess

    def oracle(ops_path, out_path):
        def lim():
            try:
                resource.setrlimit(resource.RLIMIT_STACK, (resource.RLIM_INFINITY, resource.RLIM_INFINITY))
            except (ValueError, OSError):
                hard = resource.getrlimit(resource.RLIMIT_STACK)[1]
                resource.setrlimit(resource.RLIMIT_STACK, (hard, hard))
        with open(ops_path, "rb") as fin, open(out_path, "wb") as fout:
            p = subprocess.run([ctx.oracle_bin()], stdin=fin, stdout=fout, stderr=subprocess.PIPE, preexec_fn=lim)
        if p.returncode != 0:
            raise RuntimeError("oracle failed: " + p.stderr.decode()[-2000:])
    return oracle


# Branches of the anchored code / of the model the theorems talk about, counted by the driver from what the
# REAL code did (stats.txt `br_*`, grammar_path_*): the check fails closed when one is never taken in a run.
REQUIRED_BRANCHES = [
    "br_empty_input", "br_greedy", "br_greedy_max_not_first",
    "br_topk_sort", "br_topk_heap_replace", "br_topk_heap_keep",
    "br_all_neginf_before_draw", "br_shift_several_maxima",
    "br_topp_shortcut", "br_topp_cut", "br_topp_no_cut", "br_minp_cut", "br_minp_no_cut",
    "br_pick_first", "br_pick_middle", "br_pick_last", "br_nan_guard",
    "br_unseeded_call", "unseeded_witness_found", "rng_draws",
    "grammar_path_fast", "grammar_path_slow", "large_vocab_histories", "env_repro_histories",
    # the comparisons / monitors themselves must have run
    "l2_membership_checked", "contract_ok", "hist_ops", "ghist_ops", "large_hist_ops", "l2_nan_weighted_checked",
    "long_histories", "grammar_unseeded_calls", "topk_determinism_checked",
]
# (skipped, total, maximal share): a skip that grows beyond its usual share means a monitor is being bypassed
BOUNDED_SKIPS = [
    ("hist_ops_skipped_tie_order_or_weird", "cases", 0.30),
    ("l2_skipped_weird_params", "calls", 0.10),
    ("l2_membership_skipped_no_stage_values", "calls", 0.10),      # (unseeded grammar calls: the path is not observable)
    ("grammar_init_failed", "grammar_histories", 0.05),
    ("contract_nan_weird_params", "calls", 0.05),
]


def coverage_required(ctx):
    missing = [c for c in REQUIRED_BRANCHES if not ctx.stats.get(c)]
    ctx.coverage["model_branches_required"] = len(REQUIRED_BRANCHES)
    ctx.coverage["model_branches_missing"] = missing
    if missing:
        ctx.violation("correspondence-coverage", "", "branches of the sampler never taken by the real code in this run: "
                      + ", ".join(missing), no_input=True)
    over = []
    for skip, total, share in BOUNDED_SKIPS:
        n, t = ctx.stats.get(skip, 0), ctx.stats.get(total, 0)
        if t and n > share * t:
            over.append("%s=%d of %s=%d (limit %.0f%%)" % (skip, n, total, t, 100 * share))
    ctx.coverage["skips_over_limit"] = over
    if over:
        ctx.violation("correspondence-coverage", "", "comparisons / monitors skipped more often than their usual share: "
                      + "; ".join(over), no_input=True)


def regenerate_callsites(ctx):
    """Tie 1: every non-test call of sample.NewSampler, argument roles resolved by go/ast (harness/cmd/c18facts)."""
    import subprocess
    env = dict(os.environ)
    env.update(core.GO_ENV)          # the harness toolchain, like every go test of the check
    env.update({"C18_REPO": core.REPO})
    p = subprocess.run(["go", "run", os.path.join(core.ROOT, "harness", "cmd", "c18facts", "main.go")],
                       cwd="/", env=env, stdout=subprocess.PIPE, stderr=subprocess.STDOUT, text=True)
    rows, sites = [], []
    if p.returncode == 0:
        for m in re.finditer(r"^site (\S+) args=(\S*) nargs=(\d+) owner=(\w+)$", p.stdout, re.M):
            args = [a for a in m.group(2).split(",") if a]
            q = lambda x: '"' + x.replace("\\", "\\\\").replace('"', '\\"') + '"'
            rows.append("(%s, [%s], %s, %s)" % (q(m.group(1)), ", ".join(q(a) for a in args), m.group(3), q(m.group(4))))
            sites.append(m.group(0))
    ctx.coverage["newsampler_call_sites"] = sites if p.returncode == 0 else ["extractor failed: " + p.stdout[-300:]]
    # the same fact Tie.C18.callsites_wired decides, said in words
    want = "args=Temperature,TopK,TopP,MinP,Seed nargs=6 owner=local"
    bad = [x for x in sites if not x.endswith(want)]
    if p.returncode != 0 or not sites or bad:
        ctx.violation("tie-callsite-wiring", (bad or ["<no call site of sample.NewSampler found>"])[0],
                      "a production call of sample.NewSampler does not pass (Temperature, TopK, TopP, MinP, Seed, grammar) "
                      "in role order into a sampler owned by the request handler (Tie.C18.callsites_wired fails): "
                      + ("; ".join(bad) if bad else p.stdout[-300:]), no_input=True)
    body = ("-- REGENERATED on every run by vlib/checks/c18.py (harness/cmd/c18facts, go/ast) from the tree under test. Do not edit.\n"
            "namespace OllamaVerif.Generated.C18\n"
            "/-- every `sample.NewSampler(...)` call outside tests: (file:func, option field carried by argument 1..5,\n"
            "    number of arguments, owner of the result) -/\n"
            "def callSites : List (String × List String × Nat × String) :=\n  [" + ",\n   ".join(rows) + "]\n"
            "end OllamaVerif.Generated.C18\n")
    core.write_generated("OllamaVerif/Generated/C18_CallSites.lean", body)


def regenerate_variant(ctx, outdir):
    """Tie 1: the variant the tree implements, probed by the driver on the F18 / F18c witness inputs."""
    probed = None
    try:
        m = re.search(r"probed=(\d+)", open(os.path.join(outdir, "variant.txt")).read())
        probed = int(m.group(1)) if m else None
    except OSError:
        pass
    ctx.coverage["variant_probed"] = probed
    if probed != 3:
        ctx.violation("tie-variant", "temperature 1, logits [+Inf, 0]  /  temperature 0, logits [-Inf, -Inf]",
                      "the tree does not implement the repaired variant (probe = %r; bit 1 = max-shift F18, bit 2 = greedy "
                      "all -Inf error F18c): Tie.C18.tree_is_fixed fails and the fix = true theorems no longer speak about "
                      "this tree" % (probed,), no_input=(probed is None))
    b = lambda x: "true" if x else "false"
    body = ("-- REGENERATED on every run by vlib/checks/c18.py from the driver's probe of the tree under test (c18ProbeFix). Do not edit.\n"
            "namespace OllamaVerif.Generated.C18\n"
            "/-- the tree shifts by the largest logit before scaling (F18 repaired, e3725cd97) -/\n"
            "def fixShift : Bool := " + b(probed is not None and probed & 1) + "\n"
            "/-- the tree's greedy branch reports \"all logits are -Inf\" (F18c repaired, 4a8f8bf0b) -/\n"
            "def fixGreedyErr : Bool := " + b(probed is not None and probed & 2) + "\n"
            "end OllamaVerif.Generated.C18\n")
    core.write_generated("OllamaVerif/Generated/C18_Variant.lean", body)


def run(ctx):
    ctx.oracle = big_stack_oracle(ctx)
    regenerate_callsites(ctx)
    env = {"VERIF_N": ctx.scale(1500, 30000), "VERIF_NG": ctx.scale(250, 5000), "VERIF_NL": ctx.scale(1, 4),
           "VERIF_NLONG": ctx.scale(2, 40),
           "VERIF_CORPUS": core.ROOT + "/corpus/C18"}
    if FIX_OVERRIDE:
        env["VERIF_C18_FIX"] = FIX_OVERRIDE
    if ctx.replay:
        env["VERIF_REPLAY"] = ctx.replay_line_file()
    rc, out, outdir = ctx.go_test("./sample/", OVERLAY, "^TestVerifC18$", env=env, timeout=3000)
    if rc != 0:
        cur = os.path.join(outdir, "current.txt")
        if rc == 124 or "test timed out after" in out:
            # a wall-clock timeout (loaded machine) says nothing about the history that happened to be journalled
            ctx.violation("driver-timeout", "", "the driver did not finish within its (generous) time limit: "
                          + out[-400:].replace("\n", " "), no_input=True)
        elif os.path.exists(cur):
            # the process died inside a real grammar call: the journalled history is the failing input
            ctx.violation("driver-crashed", open(cur).read().strip(),
                          "the test process died inside Sample on this grammar history: " + out[-600:].replace("\n", " "))
        else:
            ctx.violation("driver-failed", "", out[-1500:], no_input=True)
    # the variant fact comes out of the run itself; the theorems (Tie.C18.tree_is_fixed included) are checked after it
    regenerate_variant(ctx, outdir)
    ctx.lean_check(MODULES, THEOREMS)
    ctx.read_stats(outdir)
    if not ctx.replay:
        coverage_required(ctx)
    ctx.l1(outdir, normalize=normalize)
    failures = ctx.l2(outdir)
    if not ctx.replay:
        failures += f18c_probe(ctx)
    ctx.classify(failures)
    ctx.assumptions += [
        "IEEE-754 single precision comparison is a strict weak order on non-NaN values (the theorems' carrier law); "
        "the per-run contracts (scale/softmax order preservation, -Inf->0, max->positive, monotone cumulative sums, "
        "r*total<=total) are evaluated on the bit patterns of every sampled run, not proved",
        "no carrier with a NaN satisfies the total order laws (X_not_OrdLaws); the statements that apply to IEEE floats are the "
        "`_on` forms (relativised laws OrdLawsOn / ArithLawsOn / BeqLawOn, instantiated on the witness carrier with NaN and "
        "+-Inf; guards: noNaN logits for the order-only clauses, the run guard runGood — no NaN is ever compared — for the "
        "weighted path; both guards are evaluated on every sampled run, flag `nan` of the contract status). That IEEE float32 "
        "itself satisfies the relativised laws is not proved in Lean (Float32 is opaque). Named IEEE laws assumed of the "
        "carrier (each with an instance on the witness carrier): OrdLawsOn, BeqLawOn, ArithLawsOn (x+0, NaN absorbing), "
        "ClampLawsOn, MulLawsOn (a*p <= a for 0<=p<=1), ScaleLawsOn (division by a finite positive number is monotone, keeps "
        "-Inf and the sign), ShiftLawsOn (subtraction of the maximum is monotone, non-positive, keeps -Inf, no NaN unless "
        "equal); from them guardOK, both scaleOK contracts, no-NaN-after-the-shift and the two arithmetic contracts are "
        "DERIVED (shift_scale_contracts_of_laws, arith_contracts_of_ranges); with SoftmaxLawsOn (x - max for a finite max, exp of "
        "a non-positive number in [0,1], sums / quotients / products of finite non-negatives not NaN) runGood is DERIVED too "
        "from an input guard (NaN-free logits, finite positive temperature, top_p not NaN, min_p and r in [0,1]) and the "
        "residual finiteness guard massFinite (normaliser positive and finite, probabilities and kept mass below +Inf: flag "
        "`mass` of the contract status, both sides) — runGood_from_input, sample_admissible_from_input; softmaxOK and "
        "massFinite stay per-run contracts",
        "the real top-k stage (slices.SortFunc = pdqsort, container/heap) is DETERMINISTIC, i.e. a function of its input: the "
        "only thing reproducible_with_any_sort / sampleWith_admissible assume of it besides its output being a correct top-k; "
        "checked on every sampled call by running the real topK twice (L2 topk-not-deterministic) and by the IsTopK flag of the "
        "topk op. The order it gives tokens with EQUAL logits (more than 12 sorted candidates) is not modelled (compared modulo "
        "that order); one Sampler is used by one "
        "goroutine (the runner gives every sequence its own, Tie.C18.callsites_wired)",
        "math.Exp is not modelled: the oracle uses the values the run produced",
        "llama.cpp grammar state machine not modelled: accepted id sets are probed from the real grammar per call",
    ]
    if ctx.thorough:
        ctx.leanchecker(MODULES)
    return ctx.finish(
        level="proof",
        rule="seeded random histories: one real Sampler (temperature x topK x topP x minP x seed), 1..8 calls with "
             "related/unrelated logit vectors of 13 classes (ties, -Inf masks, +Inf, 3e38, denormals, raw bit patterns, "
             "NaN, all -Inf, ulp neighbours, peaked, long tail + masks), length 1..4096, plus vocabularies of 16383/16384/"
             "16385/32000/128256 logits; grammar histories on the real llama.cpp grammar; crafted random numbers through a "
             "fixed rand.Source; directed temperature-0 near-tie and special-seed searches; every 6th history and all "
             "large ones re-sampled under GOMAXPROCS 1/2/7/16; distinct = distinct oracle command lines",
        explanation="Lean theorems about the order-abstract sampler model; model tied to the code by bit-exact "
                    "comparison of every stage and of the final token given the seeded random number (L1), by "
                    "per-run IEEE contracts, and by the property clauses evaluated on the real Sample result (L2)")
