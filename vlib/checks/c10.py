"""C10 — Untrusted model files produce an error, never a crash or runaway allocation."""
import os
import re
import resource
import subprocess
import time

from vlib import core
from vlib.registry import COMMON_NOTE

REGISTRATION = {
    "engine": "lean-gguf",
    "technique": "Lean 4 proof (total decoder model with explicit panic/allocation outcomes) + differential correspondence on mutated files",
    "category": "proof",
    "text": "The GGUF decoder is modelled as a total Lean function whose outcomes include every Go panic site and every "
            "input-sized allocation, with one flag per validation the decoder performs. Theorems: with the validations "
            "the working tree has (all eleven, after the fix commits; Guards.tree) the decoder never panics and never makes an "
            "allocation above the budget, for every byte string, array limit and per-allocation budget of at least one byte per input byte "
            "(decode_safe_tree, unconditional; which syntactic sites of the decode path can panic or size an allocation is regenerated from the "
            "source by go/ast on every run and must not exceed what the model accounts for: Tie.C10.risky_sites_accounted); "
            "the same under explicit decidable guards for any subset of validations (decode_safe_partial), with a "
            "kernel-checked witness file for every validation upstream's pinned code lacks; termination by construction. "
            "create's loop over several models in one upload (server/create.go ggufLayers) is modelled on top, with "
            "non-termination as an explicit outcome: it terminates (every successful decode ends after the position it "
            "started at: decodeFrom_progress) and is safe for every byte string (create_terminates_tree, create_safe_tree); "
            "upstream's pinned decoder has a 57-byte witness on which create never answers. Running time and result size as functions of "
            "the input length (decode_total_tree): the decoder model with an iteration counter on every loop is the decoder model "
            "(erasure) and executes at most len+1 loop iterations whatever 64-bit counts the file declares; a returned value retains at "
            "most len+24 cells = at most 128*len+3072 bytes of Go memory (explicit header / interface / map-slot / struct sizes); both for every guard set (decode_steps_any_guards). The typed metadata accessors the "
            "handlers call on the decoded key/values (Kind, Architecture, FileType, ChatTemplate, vision.block_count → media "
            "type) are in the model with the failed type assertion as an outcome: never reached on the tree "
            "(create_upload_safe_tree), 60-byte witness for upstream's unchecked assertion. "
            "Which validations the tree has is not asserted: outcome classes (ok+summary / io.EOF / io.ErrUnexpectedEOF / "
            "other error / panic site / allocation) of model(Guards.tree) and real decoder are compared on thousands of "
            "mutated/truncated/crafted files per run in a memory-limited worker process, with a directed search (length "
            "fields near 2^61..2^64) around any disagreement; uploads (crafted, mutated, several models back to back, cut "
            "or followed by junk) go through the real POST /api/blobs + /api/create + /api/show in child processes and the "
            "answer (error / layer sizes / never answers) is compared with the model.",
    "design_ref": "DESIGN.md §5 C10",
    "note": COMMON_NOTE + "Allocation is observed as TotalAlloc delta / fatal out-of-memory of the worker under RLIMIT_AS "
            "and compared as a class (a request between budget and 16x budget is accepted either way). The API-level "
            "clause is a theorem for create's decoding loop (ggufLayers + the typed accessors), for create-from (parseFromModel + "
            "accessors: create_from_safe_tree) and for show (Capabilities + getModelData: show_safe_tree), each tied by an L1 comparison "
            "of the handler's answer class (ok / err / death / never answers) with the model; the rest of CreateHandler/ShowHandler (gin, "
            "layer files, template detection, JSON rendering) is covered by the API driver only. Modelled, "
            "not verified: bufio/bytes/io library behaviour, the Go allocator.",
}

MODULES = ["OllamaVerif.Properties.C10", "OllamaVerif.Tie.C10"]
THEOREMS = [
    "OllamaVerif.C10.decode_safe_tree",
    "OllamaVerif.C10.decode_safe_hardened",
    "OllamaVerif.C10.decode_safe_partial",
    "OllamaVerif.C10.decode_total_tree",
    "OllamaVerif.C10.decode_steps_any_guards",
    "OllamaVerif.C10.decode_progress",
    "OllamaVerif.C10.alloc_clause_bites",
    "OllamaVerif.C10.tree_rejects_negative_seek_file",
    "OllamaVerif.C10.create_terminates_tree",
    "OllamaVerif.C10.create_safe_tree",
    "OllamaVerif.C10.create_layers_within",
    "OllamaVerif.C10.create_upload_terminates_tree",
    "OllamaVerif.C10.create_upload_safe_tree",
    "OllamaVerif.C10.witness_pinned_accessor_panics",
    "OllamaVerif.C10.create_from_safe_tree",
    "OllamaVerif.C10.show_safe_tree",
    "OllamaVerif.C10.witness_pinned_from_and_show_panic",
    "OllamaVerif.Gguf.decodeFrom_progress",
    "OllamaVerif.C10.witness_pinned_create_never_answers",
    "OllamaVerif.C10.witness_alignment_zero",
    "OllamaVerif.C10.witness_alignment_type",
    "OllamaVerif.C10.witness_string_negative",
    "OllamaVerif.C10.witness_string_huge",
    "OllamaVerif.C10.witness_array_negative",
    "OllamaVerif.C10.witness_dims_huge",
    "OllamaVerif.C10.witness_v1_string_zero",
    "OllamaVerif.C10.witness_v1_array_index",
    "OllamaVerif.C10.witness_end_before_start",
    "OllamaVerif.Tie.C10.risky_sites_accounted",
]
SITE_KINDS = ["assert-unchecked", "div-nonconst", "index-nonconst", "make-unbounded", "slice-nonconst", "truncate"]
SITE_BOUNDS = [0, 3, 0, 0, 1, 1]          # = Tie.C10.modelled (what the decoder model accounts for)
REQUIRED_API = ["api_cases", "api_multi_model_files", "api_rawtype_files"]


def regenerate_sites(ctx):
    """Tie 1: risky syntactic sites of the decode path, regenerated by go/ast (harness/cmd/ggufsites) from the tree under
    test; consumed by Tie/C10.lean (`decide`)."""
    env = dict(os.environ)
    env.update({"GGUF_REPO": core.REPO, "GOFLAGS": "-mod=mod", "GOPROXY": "off"})
    p = subprocess.run(["go", "run", os.path.join(core.ROOT, "harness", "cmd", "ggufsites", "main.go")],
                       cwd="/", env=env, stdout=subprocess.PIPE, stderr=subprocess.STDOUT, text=True)
    counts = {m.group(1): int(m.group(2)) for m in re.finditer(r"^count (\S+) (\d+)$", p.stdout, re.M)}
    sites = [m.group(1) for m in re.finditer(r"^site (.*)$", p.stdout, re.M)]
    ok = p.returncode == 0 and all(k in counts for k in SITE_KINDS)
    row = [counts.get(k, 999) for k in SITE_KINDS] if ok else [999] * len(SITE_KINDS)
    q = lambda x: '"' + x.replace("\\", "\\\\").replace('"', '\\"') + '"'
    body = ("-- REGENERATED on every run by vlib/checks/c10.py (harness/cmd/ggufsites, go/ast) from the tree under test. Do not edit.\n"
            "namespace OllamaVerif.Generated.C10\n"
            "/-- risky syntactic sites in everything reachable from the decoder entry points and keyValue, in the order\n"
            "    " + ", ".join(SITE_KINDS) + " -/\n"
            "def riskyCounts : List Nat := [" + ", ".join(str(n) for n in row) + "]\n"
            "def riskySites : List String := [" + ", ".join(q(x) for x in sites) + "]\n"
            "end OllamaVerif.Generated.C10\n")
    core.write_generated("OllamaVerif/Generated/C10_Sites.lean", body)
    ctx.coverage["decode_path_risky_sites"] = dict(zip(SITE_KINDS, row))
    over = [f"{k}: {n} > {b}" for k, n, b in zip(SITE_KINDS, row, SITE_BOUNDS) if n > b]
    if not ok:
        ctx.violation("tie-risky-sites", "", "site extractor failed: " + p.stdout[-600:], no_input=True)
    elif over:
        ctx.violation("tie-risky-sites", "", "the decode path has risky syntactic sites the decoder model does not account for ("
                      + "; ".join(over) + "): " + " | ".join(x for x in sites if x.split()[0] in {o.split(":")[0] for o in over}),
                      no_input=True)

OVERLAY = {
    "fs/ggml/zz_verif_gguf_test.go": "fs_ggml/zz_verif_gguf_test.go",
    "fs/ggml/zz_verif_c10_test.go": "fs_ggml/zz_verif_c10_test.go",
    "fs/ggml/zz_verif_c10_sites_test.go": "fs_ggml/zz_verif_c10_sites_test.go",
}
# every reader of the decoder model / every outcome class must be reached by this run's inputs (generator counters and
# outcome classes of the REAL decoder); otherwise the L1 comparison says nothing about that branch -> fail closed
REQUIRED_GEN = ["gen_crafted", "gen_valid", "gen_truncate", "gen_field64", "gen_field32", "gen_header", "gen_version",
                "gen_truncate-all", "gen_site_template", "gen_site_alignment-typed", "gen_site_key-len", "gen_site_string-len",
                "gen_site_array-count", "gen_site_array-type", "gen_site_array-string-len", "gen_site_skipped-string-len",
                "gen_site_tensor-name-len", "gen_site_tensor-dims", "gen_site_tensor-dim", "gen_site_tensor-kind",
                "gen_site_tensor-offset", "gen_site_header-tensors", "gen_site_header-kvs", "gen_site_value-type",
                "gen_site_alignment-value"]
REQUIRED_CLASSES = ["ok", "err:eof", "err:ueof", "err:invalid"]
API_OVERLAY = {"server/zz_verif_c10_test.go": "server/zz_verif_c10_test.go"}
RLIMIT = 3 << 30
MAX_HANGS = 6


def norm(s):
    if s == "panic:array-make-negative":
        return "alloc"
    return s


def end_before_start(summary):
    """ok summary `… to=<tensor data start> end=<end offset>`: a successful decode has read at least a 16-byte header"""
    m = re.search(r" end=(-?\d+)$", summary)
    return bool(m) and int(m.group(1)) < 16   # 16 = a version-1 header (magic, version, two 32-bit counts)


def run_worker(ctx, binary, ops, outdir, total, hang_s=60, name="impl.txt"):
    """Run the worker, restarting after every death; returns list of per-input results."""
    impl = os.path.join(outdir, name)
    open(impl, "w").close()
    deaths = 0

    def limit():
        resource.setrlimit(resource.RLIMIT_AS, (RLIMIT, RLIMIT))

    hangs = 0
    while True:
        done = sum(1 for _ in open(impl))
        if done >= total:
            break
        if hangs >= MAX_HANGS:
            # enough non-terminating inputs to report (each is a violation with its input); the rest of this run's inputs
            # are not decoded: `skipped` lines are counted, never compared, and make the run fail closed
            with open(impl, "a") as f:
                f.write("skipped\n" * (total - done))
            ctx.stats["worker_inputs_skipped_after_hangs"] = ctx.stats.get("worker_inputs_skipped_after_hangs", 0) + total - done
            break
        env = ctx.run_env(outdir, {"VERIF_IN": ops, "VERIF_START": done, "GOMEMLIMIT": "3GiB", "VERIF_IMPL_NAME": name})
        # the worker's output goes to a FILE: through a pipe that nobody drains a tree that logs on every decode (slog.Warn)
        # blocks after 64 KiB and looks like a non-terminating input (met in round 7 on a tree with F11a/b reverted)
        logpath = os.path.join(outdir, "worker-" + name + ".log")
        logf = open(logpath, "wb")
        p = subprocess.Popen([binary, "-test.run", "^TestVerifC10Worker$", "-test.timeout", "30m"], env=env,
                             stdout=logf, stderr=subprocess.STDOUT, preexec_fn=limit, cwd=outdir)
        last, last_t = done, time.time()
        hung = False
        while p.poll() is None:
            time.sleep(0.2)
            cur = sum(1 for _ in open(impl))
            if cur != last:
                last, last_t = cur, time.time()
            elif time.time() - last_t > (hang_s if hangs == 0 else min(hang_s, 20)):
                # the first hang of a run is given the full limit; once one input has not answered for that long the
                # later ones are given 20 s (a decode of these inputs takes microseconds; the limit includes the start of the
                # worker process on a loaded machine)
                p.kill()
                hung = True
        p.wait()
        logf.close()
        with open(logpath, "rb") as lf:
            lf.seek(max(0, os.path.getsize(logpath) - 20000))
            out = lf.read().decode(errors="replace")
        # the first lines of a Go crash report are what names the death
        m = re.search(r"(fatal error: [^\n]*|panic: [^\n]*(?:\n[^\n]*)?)", out)
        if m:
            out = m.group(1) + "\n" + out[-2000:]
        now = sum(1 for _ in open(impl))
        if now >= total:
            break
        # the input at index `now` killed the worker
        deaths += 1
        if hung:
            res = "hang"
            hangs += 1
        elif "out of memory" in out or "cannot allocate" in out:
            res = "alloc"
        else:
            res = "death:" + " ".join(out.strip().splitlines()[:2])[:200]
        with open(impl, "a") as f:
            f.write(res + "\n")
        if deaths > 3000:
            raise RuntimeError("too many worker deaths")
    ctx.stats["worker_deaths"] = ctx.stats.get("worker_deaths", 0) + deaths
    return [l.rstrip("\n") for l in open(impl)]


def run(ctx):
    regenerate_sites(ctx)
    ctx.lean_check(MODULES, THEOREMS)
    binary = ctx.go_test_binary("./fs/ggml/", OVERLAY)
    if not binary:
        ctx.violation("driver-failed", "", getattr(ctx, "build_output", "")[-1500:], no_input=True)
        return ctx.finish(rule="driver did not build")
    outdir = os.path.join(ctx.tmp, "run")
    os.makedirs(outdir)
    if ctx.replay and open(ctx.replay_line_file()).read().split(" ")[0] in ("api-create", "api-show", "api-createfrom", "gguf-layers", "gguf-from", "gguf-show"):
        # an API-level case: the recorded upload goes through the real handler again (one child process)
        rc, out, apidir = ctx.go_test("./server/", API_OVERLAY, "^TestVerifC10APIReplay$",
                                      env={"VERIF_REPLAY": ctx.replay_line_file()}, timeout=600)
        if rc != 0:
            ctx.violation("driver-failed", "api-replay", out[-1500:], no_input=True)
        ctx.classify(ctx.l2(apidir))
        return ctx.finish(level="proof", rule="replay of one API-level case", explanation="the recorded upload through the real handler")
    if ctx.replay:
        ops = ctx.replay_line_file()
    else:
        env = ctx.run_env(outdir, {"VERIF_N": ctx.scale(2500, 60000), "VERIF_TRUNC_MAX": ctx.scale(700, 6000),
                                   "VERIF_SITES_MAX": ctx.scale(12000, 1000000)})
        p = subprocess.run([binary, "-test.run", "^TestVerifC10Gen$"], env=env, cwd=outdir,
                           stdout=subprocess.PIPE, stderr=subprocess.STDOUT, text=True)
        if p.returncode != 0:
            ctx.violation("driver-failed", "", p.stdout[-1500:], no_input=True)
            return ctx.finish(rule="generator failed")
        ops = os.path.join(outdir, "ops.txt")
        gst = ctx.read_stats(outdir)
        if gst.get("gen_sites_capped", 0):
            ctx.violation("correspondence-coverage", "", "VERIF_SITES_MAX cut the structured site x value product short", no_input=True)
        gmissing = [k for k in REQUIRED_GEN if gst.get(k, 0) == 0]
        if gmissing:
            ctx.violation("correspondence-coverage", "", "input classes never generated in this run: " + ", ".join(gmissing), no_input=True)
    oplines = [l.rstrip("\n") for l in open(ops)]
    impl = run_worker(ctx, binary, ops, outdir, len(oplines))
    model_path = os.path.join(outdir, "model.txt")
    ctx.oracle(ops, model_path)
    model = [l.rstrip("\n") for l in open(model_path)]
    classes = {}
    distinct = set()
    gray = 0
    failures = []
    for op, a, b in zip(oplines, impl, model):
        ctx.l1_cases += 1
        distinct.add(hash(op))
        cls = a.split(" ")[0] if a.startswith("ok") else a.split(":other")[0]
        classes[cls] = classes.get(cls, 0) + 1
        if a == "skipped":
            continue
        if b == "gray":
            gray += 1
        elif norm(a) != norm(b):
            ctx.l1_disagreements.append({"label": "L1", "op": op, "impl": a, "model": b})
        # L2: the property itself on the real decoder
        if a.startswith("panic:") or a in ("alloc", "hang") or a.startswith("death"):
            failures.append({"kind": a.split(":other")[0], "case": op, "detail": f"maxArray={op.split()[1]} outcome={a}"})
        elif a.startswith("ok ") and end_before_start(a):
            failures.append({"kind": "end-not-after-start", "case": op, "detail": "Decode succeeded with an end offset inside the "
                             "header it has just read (create's `for offset < size { _, n := Decode(); offset = n }` never ends): " + a[-60:]})
        if len(ctx.samples) < 3 and a.startswith("panic"):
            ctx.samples.append({"op": core.clip(op), "impl": a, "model": b})
    if len(impl) != len(model) or len(impl) != len(oplines):
        ctx.l1_disagreements.append({"label": "L1", "op": f"<line counts differ {len(oplines)}/{len(impl)}/{len(model)}>", "impl": "", "model": ""})
    ctx.coverage["l1_distinct_ops"] = len(distinct)
    ctx.coverage["outcome_classes"] = dict(sorted(classes.items()))
    ctx.coverage["gray_zone_inputs"] = gray
    if gray * 100 > max(len(oplines), 1):
        ctx.violation("correspondence-coverage", "", f"{gray} of {len(oplines)} inputs fall into the allocation gray zone (not compared)", no_input=True)
    if any(a == "skipped" for a in impl) and not any(f["kind"] == "hang" for f in failures):
        ctx.violation("correspondence-coverage", "", "inputs skipped without a reported hang", no_input=True)
    if not ctx.replay:
        cmissing = [k for k in REQUIRED_CLASSES if classes.get(k, 0) == 0]
        if cmissing:
            ctx.violation("correspondence-coverage", "", "outcome classes of the real decoder never observed in this run: " + ", ".join(cmissing), no_input=True)
    if not ctx.samples and oplines:
        ctx.samples.append({"op": core.clip(oplines[0]), "impl": core.clip(impl[0]), "model": core.clip(model[0])})
    # Directed search: the model and the decoder disagree on some input but the decoder did not misbehave on
    # it.  Look for a concrete failing input near the disagreements: every large 8-byte field of a diverging
    # input is replaced by values just below 2^61, 2^62, 2^63 and 2^64 (the values at which element counts,
    # byte counts and seek offsets wrap or change sign).
    if ctx.l1_disagreements and not failures and not ctx.replay:
        seeds = sorted((d["op"] for d in ctx.l1_disagreements if d), key=len)[:4]
        cand, seen = [], set()
        for op in seeds:
            toks = op.split()
            raw = bytes.fromhex(toks[3]) if toks[3] != "-" else b""
            for off in range(8, max(8, len(raw) - 7)):
                v = int.from_bytes(raw[off:off + 8], "little")
                if v == 0 or (1 << 16) <= v < (1 << 31):
                    continue        # counts and lengths are small or (already altered) huge
                # values that make "data start + declared offset + size" wrap to 0 / a small number: taken from the real
                # decoder's own summary of this input (tensor data start, end offset, their difference) and its neighbours
                wraps = set()
                for dd in ctx.l1_disagreements:
                    if dd and dd.get("op") == op:
                        m = re.search(r" to=(\d+) end=(-?\d+)", dd.get("impl", ""))
                        if m:
                            to, en = int(m.group(1)), int(m.group(2))
                            for x in (to, en, en - to, en + to):
                                for dl in (-64, -32, -8, 0, 8, 32, 64):
                                    wraps.add(((1 << 64) - x + dl) % (1 << 64))
                for nv in sorted(wraps)[:60]:
                    b = raw[:off] + nv.to_bytes(8, "little") + raw[off + 8:]
                    if b not in seen and len(cand) < 48000:
                        seen.add(b)
                        cand.append(f"gguf-safe {toks[1]} {1048576 + 64 * len(b)} {b.hex()}")
                for base in (1 << 61, 1 << 62, 1 << 63, 1 << 64):
                    for k in range(0, 33):
                        nv = (base - k) % (1 << 64)
                        b0 = raw[:off] + nv.to_bytes(8, "little") + raw[off + 8:]
                        # also with a huge key/value count in the header (a decoder that is thrown back by a
                        # wrapped offset only spins if it still has entries to read)
                        variants = [b0]
                        if off >= 24 and len(b0) >= 24:
                            variants.append(b0[:16] + (1 << 63).to_bytes(8, "little") + b0[24:])
                        for b in variants:
                            if b not in seen and len(cand) < 48000:
                                seen.add(b)
                                cand.append(f"gguf-safe {toks[1]} {1048576 + 64 * len(b)} {b.hex()}")
        # the decoder accepted something the model rejects as an invalid (array element / value) type: if arrays may now
        # hold arrays, nesting is unbounded: try deep nestings (12 bytes of input per level)
        if any(d and d.get("model") == "err:invalid" and d.get("impl") != "err:invalid" for d in ctx.l1_disagreements):
            for depth in (4, 1000, 3000000):
                cand.append(f"gguf-nest 0 {1048576 + 64 * (60 + 12 * depth)} {depth}")
        if cand:
            dops = os.path.join(outdir, "directed_ops.txt")
            with open(dops, "w") as f:
                f.write("\n".join(cand) + "\n")
            dimpl = run_worker(ctx, binary, dops, outdir, len(cand), hang_s=20, name="directed_impl.txt")
            ctx.coverage["directed_search_inputs"] = len(cand)
            for op, a in zip(cand, dimpl):
                if a.startswith("panic:") or a in ("alloc", "hang") or a.startswith("death"):
                    failures.append({"kind": a.split(":other")[0], "case": op, "detail": f"directed search near an L1 disagreement: outcome={a}"})
                elif a.startswith("ok ") and end_before_start(a):
                    failures.append({"kind": "end-not-after-start", "case": op, "detail": "directed search near an L1 disagreement: Decode "
                                     "succeeded with an end offset inside the header (create's loop over the upload never ends): " + a[-60:]})
    # API level: crafted corpus + seeded mutants through upload/create/show in child processes
    if not ctx.replay:
        rc, out, apidir = ctx.go_test("./server/", API_OVERLAY, "^TestVerifC10API$",
                                      env={"VERIF_N": ctx.scale(24, 400)}, timeout=1500)
        if rc != 0:
            ctx.violation("driver-failed", "api", out[-1500:], no_input=True)
        ast_ = ctx.read_stats(apidir)
        amissing = [k for k in REQUIRED_API if ast_.get(k, 0) == 0]
        if amissing and rc == 0:
            ctx.violation("correspondence-coverage", "api", "API-level classes never exercised: " + ", ".join(amissing), no_input=True)
        failures += ctx.l2(apidir)
        # L1 at the API level: what POST /api/create makes of each uploaded file (error / never answers / one layer
        # per model found back to back, with its byte size) vs the model of server/create.go ggufLayers
        ctx.l1(apidir, label="L1-create")
    ctx.classify(failures)
    if ctx.thorough:
        ctx.leanchecker(MODULES)
    ctx.assumptions += [
        "allocation class: TotalAlloc delta > 4x budget, makeslice panic, or fatal out-of-memory under RLIMIT_AS=3GiB",
        "run-time budget = 1 MiB + 64 bytes per input byte per single allocation (the theorems need 1 byte per input byte)",
    ]
    return ctx.finish(
        level="proof",
        rule="crafted per-site files, then seeded mutations of valid v3 files written by the real WriteGGUF and of hand-built "
             "v1/v2/big-endian files (length/count/type/dimension fields set to boundary values, truncations, bit flips, "
             "version/byte-order changes, random tails), plus every truncation of one valid file; distinct = distinct input lines",
        explanation="outcome class (ok+summary / err / panic site / allocation) of the real decoder vs the Lean decoder model "
                    "on every input (L1); any panic, runaway allocation, hang or death of the real decoder is an L2 failure "
                    "matched against the known per-site findings")
