"""Shared check for the three scheduler properties C01 / C02 / C11 (server/sched.go)."""
import os
import re
import subprocess

from vlib import core

OVERLAY = {
    "server/zz_verif_sched_test.go": "server/zz_verif_sched_test.go",
    "server/zz_verif_sched_gen_test.go": "server/zz_verif_sched_gen_test.go",
}
GOROOT = "/opt/veriftools/go1.26.8"
RUNTIME_PATCHES = [
    ("src/runtime/select.go", "j := cheaprandn(uint32(norder + 1))", "j := uint32(norder)"),
    ("src/runtime/time.go", "t.rand = cheaprand()", "t.rand = 0"),
    ("src/internal/runtime/maps/table.go", "it.entryOffset = rand()", "it.entryOffset = 0"),
    ("src/internal/runtime/maps/table.go", "it.dirOffset = rand()", "it.dirOffset = 0"),
    # sync.Mutex switches to direct hand-off after 1 ms of REAL waiting: the only remaining source of run-to-run
    # differences under fake time (1-2 traces in 3000)
    ("src/internal/sync/mutex.go", "starvationThresholdNs = 1e6", "starvationThresholdNs = 1e18"),
]
PROP_KINDS = {"C01": "c01-", "C02": "c02-", "C11": "c11-"}


# Behavioural probe for the two variant parameters of the model: the F12a ("duplicate expired event deletes the NEW
# runner's entry") and F12b ("grant after unload") witness schedules are run on the REAL scheduler of the tree; the
# monitors that fire on them say which variant the tree implements.  Header defSess 2 = F12a family, 1 = F12b family.
PROBE_F12A = [
    "sched-trace 0 8 2 1 1 | submit 0 0 L | submit 0 0 L | loaddone 0 0 | done 1 | submit 0 1 0 | submit 0 0 S | loaddone 1 1 | advance 20 | loaddone 2 1 | done 2 | advance 150",
    "sched-trace 0 8 2 1 1 | submit 0 0 - | submit 0 0 - | done 0 | loaddone 0 0 | submit 0 1 - | done 1 | submit 0 0 - | loaddone 1 1 | advance 20 | loaddone 2 1 | done 2 | advance 20 | done 3 | advance 4000000 | advance 20",
    "sched-trace 0 8 2 0 1 | submit 1 0 L | submit 1 0 L | loaddone 0 0 | done 1 | submit 1 1 0 | submit 1 0 S | loaddone 1 1 | advance 20 | loaddone 2 1 | done 2 | advance 150",
]
PROBE_F12B = [
    "sched-trace 0 8 1 1 1 | submit 0 0 S | loaddone 0 1 | done 0 | ping 0 3 | submit 0 0 - | advance 60 | pingdone 0 1 | loaddone 1 1 | done 1 | advance 200",
    "sched-trace 0 8 1 1 1 | submit 0 0 L | loaddone 0 1 | done 0 | ping 0 3 | submitr 0 0 - | unload 0 | pingdone 0 1 | loaddone 1 1 | done 1 | advance 200",
    "sched-trace 0 8 1 0 1 | submit 2 1 S | loaddone 0 1 | done 0 | ping 0 3 | submit 2 1 - | advance 60 | pingdone 0 1 | loaddone 1 1 | done 1 | advance 200",
]
F12A_KINDS = {"c11-two-per-model", "c01-closed-in-use", "c01-double-close", "c11-over-limit", "c02-not-drained"}
F12B_KINDS = {"c01-grant-closed", "c01-closed-in-use"}


def probe(ctx, overlay):
    """Run the witness schedules on the real scheduler. Returns (ran, guardDelete, recheckGrant, l2 failures)."""
    rp = os.path.join(ctx.tmp, "probe-scripts.txt")
    with open(rp, "w") as f:
        f.write("\n".join(PROBE_F12A + PROBE_F12B) + "\n")
    rc, out, pdir = ctx.go_test("./server/", overlay, "^TestVerifSched$", env={"VERIF_REPLAY": rp}, timeout=900)
    ops = os.path.join(pdir, "ops.txt")
    lines = [l for l in open(ops)] if os.path.exists(ops) else []
    ran = rc == 0 and len(lines) == len(PROBE_F12A) + len(PROBE_F12B)
    fails = ctx.l2(pdir)
    fam = lambda f: (f["case"].split("|")[0].split() + ["", "", "", ""])[3]
    bad_a = sorted({f["kind"] for f in fails if fam(f) == "2" and f["kind"] in F12A_KINDS})
    bad_b = sorted({f["kind"] for f in fails if fam(f) == "1" and f["kind"] in F12B_KINDS})
    ctx.coverage["variant_probe"] = {"ran": ran, "schedules": len(lines), "f12a_kinds": bad_a, "f12b_kinds": bad_b}
    return ran, ran and not bad_a, ran and not bad_b, fails, lines


def regenerate(ctx, probed=None):
    """Tie 1: which variant of the model the tree implements = behaviour on the witness schedules (probe) AND the go/ast
    extractor does not see an unguarded delete / a missing re-check; structural facts (atomic regions) by go/ast."""
    env = dict(os.environ)
    env.update({"SCHED_GO": os.path.join(core.REPO, "server", "sched.go"), "GOFLAGS": "-mod=mod", "GOPROXY": "off"})
    p = subprocess.run(["go", "run", os.path.join(core.ROOT, "harness", "cmd", "schedfacts", "main.go")],
                       cwd="/", env=env, stdout=subprocess.PIPE, stderr=subprocess.STDOUT, text=True)
    facts = dict(re.findall(r"(\w+)=(\w+)", p.stdout))
    ok = p.returncode == 0 and "guardDeleteAst" in facts
    ran, pgd, prg = (probed or (False, False, False))[:3]
    gda, rga = facts.get("guardDeleteAst", "unknown"), facts.get("recheckGrantAst", "unknown")
    b = lambda x: "true" if x else "false"
    gd = b(ok and pgd and gda != "unguarded")
    rg = b(ok and prg and rga != "absent")
    de = facts.get("deletesElsewhere", "99") if ok else "99"
    ea = "true" if facts.get("expiredAtomic") == "true" else "false"
    um = "true" if facts.get("unloadUnderLoadedMu") == "true" else "false"
    eva = "true" if facts.get("evictAtomic") == "true" else "false"
    enq = "true" if facts.get("enqueueNonBlocking") == "true" else "false"
    wup = "true" if facts.get("waitUnloadPure") == "true" else "false"
    caps = [facts.get("cap_" + c, "?") for c in ("pendingReqCh", "finishedReqCh", "expiredCh", "unloadedCh")]
    capq = b(ok and all(c == "envconfigMaxQueue" for c in caps))
    arms = facts.get("unloadedChRecvArms", "0") if ok else "0"
    eof = b(ok and facts.get("expiredOrderFixed") == "true")
    idr = b(ok and facts.get("idleDrains") == "true")
    uco = b(ok and facts.get("unloadClosesOnce") == "true")
    m = re.search(r"^sendSites=(.*)$", p.stdout, re.M)
    sites = []
    for item in (m.group(1).split(",") if m and m.group(1) else []):
        ch, _, locks = item.partition(":")
        sites.append((ch, [x for x in locks.split("+") if x]))
    lean_sites = "[" + ", ".join('("%s", [%s])' % (ch, ", ".join('"%s"' % x for x in locks)) for ch, locks in sites) + "]"
    body = ("-- REGENERATED on every run by vlib/checks/sched_common.py (harness/cmd/schedfacts + behavioural probe) from /repo's sched.go.\n"
            "import OllamaVerif.Model.SchedChan\n"
            "namespace OllamaVerif.Generated.C01\n"
            "open OllamaVerif.Sched\n"
            f"/-- extractor output: {p.stdout.strip().replace(chr(10), '; ')[:700]} -/\n"
            "def extractorOutput : Unit := ()\n"
            "/-- the variant of the model the tree implements: each flag = (the real scheduler stays inside the property on the\n"
            "    F12a resp. F12b witness schedules) AND (go/ast does not find an unguarded delete resp. a missing re-check);\n"
            f"    probe ran={ran} guardDelete={pgd} recheckGrant={prg}; go/ast guardDelete={gda} recheckGrant={rga} -/\n"
            f"def treeVariant : Variant := ⟨{gd}, {rg}⟩\n"
            f"def deletesElsewhere : Nat := {de}\n"
            "/-- the expired handler tests refCount and unloads in ONE critical section of refMu (no check-then-act window) -/\n"
            f"def expiredAtomic : Bool := {ea}\n"
            "/-- unload() and the delete from `loaded` happen while loadedMu is held (the model's atomic `cExp` region) -/\n"
            f"def unloadUnderLoadedMu : Bool := {um}\n"
            "/-- processPending marks its eviction victim (sessionDuration = 0) and tests whether it is idle in ONE critical\n"
            "    section of the victim's refMu (the model's atomic `pExpire` region) -/\n"
            f"def evictAtomic : Bool := {eva}\n"
            "/-- GetRunner enqueues with a non-blocking send (`select … default: ErrMaxQueue`): the model's `submit` never blocks -/\n"
            f"def enqueueNonBlocking : Bool := {enq}\n"
            "/-- the `<-s.unloadedCh` arms of processPending only log and continue (`pDrainUnloaded` / `pWaitUnload` change nothing else) -/\n"
            f"def waitUnloadPure : Bool := {wup}\n"
            "/-- number of selects of processPending that receive from unloadedCh (the idle select = `pDrainUnloaded`, the\n"
            "    wait-for-unload select = `pWaitUnload`) -/\n"
            f"def unloadedChRecvArms : Nat := {arms}\n"
            "/-- InitScheduler makes all four scheduler channels with capacity envconfig.MaxQueue() (the model's `maxQueue`) -/\n"
            f"def chanCapsAreMaxQueue : Bool := {capq}\n"
            "/-- the parameters of the bounded model (Model/SchedChan.lean): ⟨the expired case takes loadedMu before refMu, the idle\n"
            "    select of processPending receives from unloadedCh⟩ -/\n"
            f"def treeCfg : OllamaVerif.SchedChan.Cfg := ⟨{eof}, {idr}⟩\n"
            "/-- unload() calls Close() only where `llama != nil` is implied and sets llama = nil afterwards; no other Close() site\n"
            "    except unloadAllRunners (shutdown): a second unload() of a runner is a no-op (the model's `if x.closed` in `cExp`) -/\n"
            f"def unloadClosesOnce : Bool := {uco}\n"
            "/-- every blocking send on a scheduler channel with the mutexes (textually) held there, as a sorted set -/\n"
            f"def sendSites : List (String × List String) := {lean_sites}\n"
            "end OllamaVerif.Generated.C01\n")
    core.write_generated("OllamaVerif/Generated/C01_SchedFacts.lean", body)
    ctx.coverage["tree_variant"] = {"guardDelete": gd, "recheckGrant": rg, "expiredAtomic": ea,
                                    "unloadUnderLoadedMu": um, "evictAtomic": eva, "enqueueNonBlocking": enq,
                                    "waitUnloadPure": wup, "extractor_ok": ok, "guardDeleteAst": gda, "recheckGrantAst": rga,
                                    "decided_by": "probe+go/ast" if (gda, rga) == ("guarded", "present") else "probe (go/ast inconclusive)",
                                    "unloadedChRecvArms": arms, "chanCapsAreMaxQueue": capq,
                                    "expiredOrderFixed": eof, "idleDrains": idr, "unloadClosesOnce": uco, "sendSites": [f"{c}:{'+'.join(l)}" for c, l in sites],
                                    "inlinedHelpers": facts.get("inlinedHelpers", "")}
    return "good" if (gd, rg) == ("true", "true") else "pinned" if (gd, rg) == ("false", "false") else None


def regenerate_probed(ctx):
    """Entry point for other checks that import Tie.C01 (C15): overlay + probe + regenerate. Returns the variant name."""
    overlay = dict(OVERLAY)
    overlay.update(runtime_overlay(ctx))
    return regenerate(ctx, probe(ctx, overlay))


def runtime_overlay(ctx):
    """Deterministic select order / timer ties / map iteration for the driver (absolute-path overlay entries)."""
    extra = {}
    srcs = {}
    for rel, old, new in RUNTIME_PATCHES:
        path = os.path.join(GOROOT, rel)
        text = srcs.get(path) or open(path).read()
        if old not in text:
            ctx.notes.append(f"runtime patch anchor not found in {rel}: {old}")
            ctx.violation("machinery", "", f"runtime patch anchor not found in {rel}: {old} (the driver would not be deterministic)", no_input=True)
            continue
        srcs[path] = text.replace(old, new)
    for path, text in srcs.items():
        dst = os.path.join(ctx.tmp, "rt-" + os.path.basename(path))
        with open(dst, "w") as f:
            f.write(text)
        extra[path] = dst
    return extra


def run_sched(ctx, prop, modules, theorems):
    prefix = PROP_KINDS[prop]
    overlay = dict(OVERLAY)
    # absolute paths: core.overlay_json joins with REPO, os.path.join keeps an absolute second argument
    for k, v in runtime_overlay(ctx).items():
        overlay[k] = v
    probed = probe(ctx, overlay)
    variant = regenerate(ctx, probed)
    ctx.oracle_name = "C01"
    ctx.lean_check(modules, theorems)
    env = {"VERIF_N": ctx.scale(160, 4000), "VERIF_CORPUS": os.path.join(core.ROOT, "corpus", "C01")}
    run = "^(TestVerifSched|TestVerifSchedWitness|TestVerifSchedDeadlockCorpus)$"
    if ctx.replay:
        env["VERIF_REPLAY"] = ctx.replay_line_file()
        run = "^TestVerifSched$"
    rc, out, outdir = ctx.go_test("./server/", overlay, run, env=env, timeout=3000)
    if rc != 0:
        ctx.violation("driver-failed", "", out[-1500:], no_input=True)
    ctx.read_stats(outdir)
    failures = ctx.l2(outdir) + (probed[3] if not ctx.replay else [])
    # the witness and deadlock corpora write into their own sub-directories (TestVerifSched truncates the shared files)
    sublines = []
    for sub in ("TestVerifSchedWitness", "TestVerifSchedDeadlockCorpus"):
        sd = os.path.join(outdir, sub)
        if ctx.replay:
            continue
        if not os.path.isdir(sd):
            ctx.violation("correspondence-coverage", "", f"{sub} produced no output directory", no_input=True)
            continue
        ctx.read_stats(sd)
        failures += ctx.l2(sd)
        so = os.path.join(sd, "ops.txt")
        sublines += [l.rstrip("\n") for l in open(so)] if os.path.exists(so) else []
    if not ctx.replay:
        for key, n in (("corpus_scripts_TestVerifSchedWitness", 2), ("corpus_scripts_TestVerifSchedDeadlockCorpus", 3)):
            if ctx.stats.get(key, 0) < n:
                ctx.violation("correspondence-coverage", "", f"{key} = {ctx.stats.get(key, 0)} < {n}", no_input=True)
        # (the timer-tie self-test of the driver observes goroutine wake-up order in the multi-threaded parent process and is
        # load-dependent: met as a false alarm on /repo; the patch itself is guaranteed by the anchor check in runtime_overlay)
        for key in ("runtime_select_deterministic", "runtime_map_iteration_deterministic"):
            if not ctx.stats.get(key):
                ctx.violation("machinery", "", f"driver reports {key} = 0 (runtime patches not in effect)", no_input=True)
    known02 = [k for k in core.load_findings("C02") if k.get("status") == "known"]
    wedged = {f["case"].strip() for f in failures if f["kind"].startswith("c02-deadlock")
              and any(core.default_matcher(k, f) for k in known02)}
    # ---- L1: trace conformance (the model must be able to reproduce every observation)
    ops = os.path.join(outdir, "ops.txt")
    lines = [l.rstrip("\n") for l in open(ops)] if os.path.exists(ops) else []
    if not ctx.replay:
        lines += [l.rstrip("\n") for l in probed[4]]       # the probe's traces must conform to the model too
        lines += sublines                                   # and the witness / deadlock corpora's
    if not lines:
        ctx.l1_disagreements.append({"label": "L1", "op": "<driver produced no traces>", "impl": "", "model": ""})
    vname = variant or "good"
    script_of = lambda l: " | ".join(seg.split(";")[0].strip() for seg in l.split("|"))
    compared, budget, skipped = 0, 0, 0
    oin = os.path.join(outdir, "oracle_in.txt")
    keep = []
    with open(oin, "w") as f:
        for l in lines:
            if script_of(l) in wedged:
                skipped += 1          # the real scheduler wedged (known deadlock): outside the model's abstraction
                continue
            keep.append(l)
            f.write(l.replace("sched-trace ", f"sched-trace {vname} ", 1) + "\n")
    oout = os.path.join(outdir, "oracle_out.txt")
    ctx.oracle(oin, oout)
    for l, res in zip(keep, (x.rstrip("\n") for x in open(oout))):
        if res.startswith("budget"):
            budget += 1
            continue
        compared += 1
        if len(ctx.samples) < 2:
            ctx.samples.append({"op": core.clip(l, 400), "impl": "ok", "model": core.clip(res)})
        if res != "ok":
            ctx.l1_disagreements.append({"label": "L1", "op": script_of(l), "impl": "ok", "model": res[:400]})
    ctx.l1_cases += compared
    ctx.coverage["l1_distinct_ops"] = len(set(keep))
    ctx.coverage["traces"] = {"generated": len(lines), "compared": compared, "oracle_budget_exceeded": budget,
                              "skipped_wedged_known_deadlock": skipped}
    # fail closed when the generator stopped exercising a family of model actions (environment events, grant paths,
    # eviction of a busy victim, cancellation while queued / loading, the shutdown monitor)
    if not ctx.replay:
        need = ["ev_submit", "ev_submitr", "ev_done", "ev_loaddone", "ev_unload", "ev_advance", "ev_ping", "ev_pingdone",
                "runners_started", "sc_evict_busy", "sc_cancel_before_reply", "sc_cancel_loading", "gen_cancel_queued",
                "q_mutex_parked", "reqs_explicit_use_mmap", "shutdown_unloadAllRunners"]
        missing = [k for k in need if not ctx.stats.get(k)]
        ctx.coverage["branch_counters_required"] = {k: ctx.stats.get(k, 0) for k in need}
        if missing:
            ctx.violation("correspondence-coverage", "", "generator never exercised: " + ", ".join(missing), no_input=True)
    if lines and compared < 0.6 * len(lines):
        ctx.violation("correspondence-coverage", "", f"only {compared}/{len(lines)} traces compared", no_input=True)
    if lines and budget > max(3, 0.08 * len(lines)):
        ctx.violation("correspondence-coverage", "", f"oracle closure budget exceeded on {budget}/{len(lines)} traces (> 8 %)", no_input=True)
    if lines and skipped > max(3, 0.15 * len(lines)):
        ctx.violation("correspondence-coverage", "", f"{skipped}/{len(lines)} traces wedged by a known deadlock and not compared (> 15 %)", no_input=True)
    # ---- bounded layer, trace level: along a script on which the REAL scheduler wedged on a full channel / a mutex cycle /
    # an unconsumed unloadedCh, can the bounded model (Model/SchedChan.lean, parameters = the tree's extracted Cfg) reach, with
    # the same observations, a state with goroutines parked inside a region and nothing enabled?  (`sched-wedge`)
    wkinds = ("c02-deadlock-queue", "c02-deadlock-lockorder", "c02-deadlock-unconsumed")
    wscripts = {f["case"].strip() for f in failures if f["kind"] in wkinds}
    wl = [l for l in lines if script_of(l) in wscripts]
    if wl and not ctx.replay:
        tv = ctx.coverage.get("tree_variant", {})
        eo, idr = ("1" if tv.get("expiredOrderFixed") == "true" else "0"), ("1" if tv.get("idleDrains") == "true" else "0")
        win, wout = os.path.join(outdir, "wedge_in.txt"), os.path.join(outdir, "wedge_out.txt")
        with open(win, "w") as f:
            for l in wl:
                f.write(l.replace("sched-trace ", f"sched-wedge {vname} {eo} {idr} ", 1) + "\n")
        ctx.oracle(win, wout)
        res = [x.split()[0] if x.strip() else "?" for x in open(wout)]
        cnt = {k: res.count(k) for k in sorted(set(res))}
        ctx.coverage["bounded_layer_traces"] = dict(cnt, real_wedged_scripts=len(wl))
        # informational except: the layer must reproduce at least one of the real wedges it claims to model
        if cnt.get("wedge", 0) == 0 and len(wl) >= 3 and (vname, eo, idr) == ("good", "1", "1"):
            ctx.violation("correspondence-coverage", "", f"bounded model reproduces none of {len(wl)} real wedged traces: {cnt}", no_input=True)
    # ---- directed search: scripts on which the real scheduler left the model's behaviours are re-run with a
    # drain-and-probe suffix (VERIF_EXTEND) so that the end-of-trace monitors get a chance to turn the divergence
    # into a concrete property failure (e.g. a blocked completed loop only shows on the NEXT request)
    div = [d["op"] for d in ctx.l1_disagreements if d and d.get("op", "").startswith("sched-trace")]
    if div and not ctx.replay:
        rp = os.path.join(ctx.tmp, "extend-scripts.txt")
        with open(rp, "w") as f:
            f.write("\n".join(sorted(set(div), key=len)[:12]) + "\n")
        erc, eout, edir = ctx.go_test("./server/", overlay, "^TestVerifSched$",
                                      env={"VERIF_REPLAY": rp, "VERIF_EXTEND": "1"}, timeout=900)
        found = [f for f in ctx.l2(edir) if f["kind"].startswith(prefix)]
        ctx.coverage["directed_search"] = {"diverging_scripts_extended": len(set(div)), "l2_failures_found": len(found)}
        failures += found
    # ---- C11 only: the eviction decision as a pure function (real findRunnerToUnload vs the model's findVictim)
    if prop == "C11" and not ctx.replay:
        vrc, vout, vdir = ctx.go_test("./server/", {"server/zz_verif_c11_victim_test.go": "server/zz_verif_c11_victim_test.go"},
                                      "^TestVerifC11Victim$", env={"VERIF_N": ctx.scale(3000, 60000)}, timeout=600)
        if vrc != 0:
            ctx.violation("driver-failed", "victim", vout[-1500:], no_input=True)
        ctx.read_stats(vdir)
        failures += ctx.l2(vdir)
        ctx.l1(vdir, label="L1-victim")
    # ---- C11 only: "a new runner is started only where it is predicted to fit": the model takes the fit answer from the
    # environment (`Fit`); the functions that PRODUCE the answer (pickBestFullFitByLibrary, PredictServerFit,
    # EstimateGPULayers, updateFreeSpace) are C16's model: run its three ties here too (reduced sizes): exact L1 against
    # oracle-c16 and its L2 clauses, reported under this property
    if prop == "C11" and not ctx.replay:
        ctx.oracle_name = "C16"
        ctx.lake_build(["oracle-c16"])
        env16 = {"VERIF_C16_VARIANT": "", "VERIF_CORPUS": os.path.join(core.ROOT, "corpus", "C16")}
        for pkg, ov, test, n, label in (
                ("./llm/", {"llm/zz_verif_c16_test.go": "llm/zz_verif_c16_test.go"}, "^TestVerifC16$", ctx.scale(2000, 30000), "L1-estimate"),
                ("./server/", {"server/zz_verif_c16_test.go": "server/zz_verif_c16_test.go"}, "^TestVerifC16Sched$", ctx.scale(1000, 15000), "L1-freespace"),
                ("./server/", {"server/zz_verif_c16_test.go": "server/zz_verif_c16_test.go"}, "^TestVerifC16Pick$", ctx.scale(800, 10000), "L1-pick"),
                # the processPending glue around the fit answer (real processPending under synctest, loadFn recorded) and the CPU branch
                ("./server/", {"server/zz_verif_c16_test.go": "server/zz_verif_c16_test.go"}, "^TestVerifC16Load$", ctx.scale(600, 8000), "L1-load"),
                ("./server/", {"server/zz_verif_c16_test.go": "server/zz_verif_c16_test.go"}, "^TestVerifC16Cpu$", ctx.scale(300, 4000), "L1-cpu")):
            rc16, out16, dir16 = ctx.go_test(pkg, ov, test, env=dict(env16, VERIF_N=n), timeout=1200)
            if rc16 != 0:
                ctx.violation("driver-failed", test, out16[-1500:], no_input=True)
            ctx.read_stats(dir16)
            ctx.l1(dir16, label=label)
            for f in ctx.l2(dir16):
                w2 = [k for k in core.load_findings("C16") if k.get("id") == "W2" and k.get("status") == "known"]
                if any(core.default_matcher(k, f) for k in w2):
                    # uint64 wrap-around with figures near 2^64: exactly C16's known finding W2 (its signature), reported by C16's check
                    ctx.coverage["c16_w2_dropped"] = ctx.coverage.get("c16_w2_dropped", 0) + 1
                    continue
                f = dict(f)
                f["kind"] = "c11-fit-" + f["kind"]
                failures.append(f)
        ctx.oracle_name = "C01"
    # ---- L2: this property's monitors
    ctx.classify([f for f in failures if f["kind"].startswith(prefix)])
    ctx.coverage["l2_kinds_other_properties"] = sorted({f["kind"] for f in failures if not f["kind"].startswith(prefix)})
    if ctx.thorough:
        ctx.leanchecker(modules)
    ctx.assumptions += [
        "model granularity: one atomic action per lock-protected region / channel operation (pLookup merges the reads of `loaded` "
        "and of the victims' refCounts); preemption inside a region is outside the model; channel capacities, sends under mutexes "
        "and the loadedMu/refMu acquisition order are in the bounded layer (Model/SchedChan.lean), tied by go/ast facts, not by "
        "trace conformance (traces on which the real scheduler wedges are excluded from L1 and reported by the deadlock monitors)",
        "variant of the model (guardDelete, recheckGrant) = behaviour of the real scheduler on 6 witness schedules AND no unguarded "
        "delete / missing re-check found by go/ast; a guard weakened in a way neither sees is left to trace conformance and monitors",
        "conformance relation: trace inclusion (every observed quiescent observation is reachable in the model); while a load "
        "is in flight the real scheduler may be parked on a mutex, so non-quiescent model states are admitted then",
        "fake time (testing/synctest), scripted LlamaServer mocks, cpu / single-metal GPU lists (no VRAM-recovery polling)",
    ]
    return ctx.finish(
        level="proof",
        rule="seeded event scripts (1-3 models, 1-8 requests, options, keep-alive classes, OLLAMA_MAX_LOADED_MODELS/MAX_QUEUE, "
             "cpu/metal) run on the REAL Scheduler in a synctest bubble; events chosen among those enabled; plus the F12 witness "
             "and deadlock corpora; distinct = distinct trace lines",
        explanation="Lean invariants over an interleaving model of sched.go (every reachable state, every interleaving) + go/ast "
                    "tie for the two guards + trace conformance of the real scheduler against the model + property monitors on the real scheduler")
