"""C09 — registry client: success means every layer verified; manifest committed last."""
from vlib import core
from vlib.registry import COMMON_NOTE

REGISTRATION = {
    "engine": "lean-registry",
    "technique": "Lean 4 proof over an interleaving model of the registry client + scripted-adversary "
                 "differential correspondence (in-memory registry, scripted chunk completion order)",
    "category": "proof",
    "text": "Kernel-checked theorems over a Lean model of Registry.Pull (size shortcut, chunk plans as served, "
            "per-chunk digest check of Chunker.Put, marker blobs, errgroup slots, byte counters, whole-layer "
            "verification before Link, Link last), of the handlePull retry loop and of both push implementations, for "
            "every manifest, chunk plan, fault script (status, short/corrupt/reset body, broken list, cancellation, "
            "read timeout), completion order, MaxStreams and history. Full strength for the tree: Pull = ok implies "
            "every layer file has exactly the manifest's size and whole-file digest (pull_success_verified, any starting "
            "cache), the name is linked last, a failed pull never changes a link (every history, also through the retry "
            "loop; an attempt killed mid-way is Outcome.stuck and counts as failed), manifest PUT last on both push paths "
            "and only after every blob of the manifest, config included, was accepted (push_manifest_after_every_blob). "
            "The completeness invariant 'every linked name's layers are verified' is FALSE on the tree for arbitrary "
            "manifests (finding F10d, witness F10d_breaks_unguarded_invariant_on_tree); it is proved for every history "
            "in which sizes are a function of the digest (history_linked_layers_verified_tree, no assumption on the "
            "hash), and unconditionally for the proposed staged-chunk variant. The tree's variant is pinned in Lean "
            "(tree_verifies, tree_pushes_config over Generated/C09_Variant.lean written from probes of the real code) "
            "and the headline theorems are instantiated for it. The model is tied to the code on every run: the real client is driven against an in-memory "
            "registry whose chunk answers are released in a scripted order under testing/synctest; per-attempt "
            "result, waiting-request counts, link, blob bytes and staging-file bytes are compared exactly with the "
            "model (tree variant selected by probes of the real code; a probe that finds a repaired finding regressed is "
            "a violation); every branch of the Pull model must be reached by an L1-agreeing case of the run "
            "(correspondence-coverage over branch tags of a traced model proved equal to the model); canRetry, "
            "sendRequest's status test, net/http's redirect behaviour and makeRequestWithRetry are tied by tables "
            "regenerated from the real code over their whole finite domains; the property itself (exact size + SHA-256 of every layer of every linked name "
            "after every attempt; manifest PUT last) is evaluated on the real cache and the real request log.",
    "design_ref": "DESIGN.md §5 C09, §6 F10",
    "note": COMMON_NOTE + "Modelled, not verified: SHA-256 as an uninterpreted function (the oracle represents a "
            "digest by its pre-image: exact unless SHA-256 collides on a run's byte strings; the staged-variant "
            "theorems assume no collision between strings of different length); the file system is faithful; one "
            "chunk answer is consumed at a time (true write-write races between overlapping chunks and two "
            "concurrent Pull calls on one blob are not explored); read timeouts are driven in fake time (requests "
            "waiting for headers, and a body that goes silent mid-way); trace callbacks ignored; every "
            "request kind of pull and of both push paths is answered from the whole status alphabet (1xx, 2xx, "
            "3xx with/without Location, 4xx, 5xx) and net/http's redirect handling per method and body kind is "
            "part of the model (`follow`, measured by exact L1 incl. an exhaustive first-answer enumeration); "
            "transport failure as an answer to any push request and cancellation of the caller's context during a "
            "new-client push are driven; the chunksums text parser is modelled for ASCII bodies "
            "(Model/RegistryChunksums.lean, parseBody_valid) and tied by its own L1 leg; "
            "legacy push: single-part uploads only (files < 100 MB); two concurrent pushes sharing one upload "
            "through blobUploadManager are modelled and driven (the second joins while the first one's session POST "
            "is held), more than two or a join at another moment are not; not scripted: 401 (token dance), a final 201 "
            "to the upload POST and a final 307 to a PATCH try (both can block the real code for ever). "
            "Finding F19 (blobUpload.Run died on a nil part hash when its context was cancelled before a part started) is "
            "repaired in /repo (76b38d743), finding F30 (Registry.Push never offered the config blob) in ed2a637ee; known: "
            "finding F18 (legacy push takes every final status < 400 for a success; "
            "proposed_fixes/C09-F18-legacy-push-require-2xx.patch, model flag `strict` selected by a probe) and "
            "finding F10d (Chunked writes into the final blob file) is open on /repo; "
            "proposed_fixes/C09-F10d-stage-chunked-blob.patch repairs it and the check passes on both trees.",
}

MODULES = ["OllamaVerif.Properties.C09", "OllamaVerif.Properties.C09Tree", "OllamaVerif.Properties.C09Chunksums", "OllamaVerif.Tie.C09"]
THEOREMS = [
    "OllamaVerif.C09.put_ok_verified",
    "OllamaVerif.C09.put_whole_layer_verified",
    "OllamaVerif.C09.put_failed_stays_short",
    "OllamaVerif.C09.pull_small_layers_verified",
    "OllamaVerif.C09.pull_links_last",
    "OllamaVerif.C09.failed_pull_keeps_links",
    "OllamaVerif.C09.history_links_only_by_successful_pull",
    "OllamaVerif.C09.handlePull_links_only_by_successful_pull",
    "OllamaVerif.C09.handlePull_exits",
    "OllamaVerif.C09.handlePull_success_verified",
    "OllamaVerif.C09.push_manifest_last",
    "OllamaVerif.C09.layerRun_good_last_2xx",
    "OllamaVerif.C09.exchange_ok_last_2xx",
    "OllamaVerif.C09.F18_legacy_non_2xx_counts_as_accepted",
    "OllamaVerif.C09.legacy_sequential_each_push_manifest_last",
    "OllamaVerif.C09.sharedTransfer_ok_settled",
    "OllamaVerif.C09.shared_joined_success_only_if_transfer_ok",
    "OllamaVerif.C09.shared_owner_success_only_if_transfer_ok",
    "OllamaVerif.C09.shared_prepare_failure_witness",
    "OllamaVerif.C09.legacy_push_manifest_last",
    "OllamaVerif.C09.F10a_holey_file_trusted_on_retry",
    "OllamaVerif.C09.F10b_repeated_chunk_satisfies_counter",
    "OllamaVerif.C09.F10c_chunk_digests_from_registry",
    "OllamaVerif.C09.F10d_size_lie_overwrites_verified_blob",
    "OllamaVerif.C09.F10abc_repaired_variant",
    "OllamaVerif.C09.pull_success_verified",
    "OllamaVerif.C09.oversized_blob_refused_then_refetched",
    "OllamaVerif.C09.pullRun_files",
    "OllamaVerif.C09.pull_preserves_verified_blobs",
    "OllamaVerif.C09.history_linked_layers_verified",
    "OllamaVerif.C09.F10d_staged_variant",
    "OllamaVerif.Tie.C09.retry_table_complete",
    "OllamaVerif.Tie.C09.canRetry_matches_handlePull",
    "OllamaVerif.Tie.C09.outcomeOf_covers",
    "OllamaVerif.Tie.C09.send_table_complete",
    "OllamaVerif.Tie.C09.sendRequest_accepts_exactly_2xx",
    "OllamaVerif.Tie.C09.follow_table_complete",
    "OllamaVerif.Tie.C09.follow_matches_nethttp",
    "OllamaVerif.Tie.C09.mrr_table_complete",
    "OllamaVerif.Tie.C09.mrr_matches_makeRequestWithRetry",
    "OllamaVerif.Tie.C09.begin_table_complete",
    "OllamaVerif.Tie.C09.beginLayer_matches_model",
    "OllamaVerif.Tie.C09.verify_table_complete",
    "OllamaVerif.Tie.C09.verifyLayer_matches_model",
    "OllamaVerif.Tie.C09.tree_verifies",
    "OllamaVerif.Tie.C09.tree_pull_success_verified",
    "OllamaVerif.Tie.C09.tree_history_linked_layers_verified",
    "OllamaVerif.Tie.C09.tree_pushes_config",
    "OllamaVerif.Tie.C09.tree_push_manifest_after_every_blob",
    "OllamaVerif.Tie.C09.tree_legacy_push_manifest_last",
    "OllamaVerif.C09.pull_success_verified_partial",
    # round 7: the invariant on the tree as it is (no staging), guarded by size-consistent manifests
    "OllamaVerif.C09.advance_inv",
    "OllamaVerif.C09.pullRun_keeps_complete_files",
    "OllamaVerif.C09.pull_preserves_verified_blobs_sized",
    "OllamaVerif.C09.history_linked_layers_verified_tree",
    "OllamaVerif.C09.handlePull_linked_layers_verified_tree",
    "OllamaVerif.C09.F10d_breaks_unguarded_invariant_on_tree",
    "OllamaVerif.C09.linkedVerifiedSized_empty",
    "OllamaVerif.C09.pull_links_other",
    "OllamaVerif.C09.handlePull_success_last_attempt_verified",
    "OllamaVerif.C09.shared_hang_no_success",
    # the chunksums response parser
    "OllamaVerif.C09.parseChunk_valid",
    "OllamaVerif.C09.parseDigest_length",
    "OllamaVerif.C09.parseBody_valid",
    # the branch tracing the coverage gate rests on IS the model
    "OllamaVerif.C09.advanceT_fst",
    "OllamaVerif.C09.stepT_fst",
    "OllamaVerif.C09.runStepsT_fst",
    "OllamaVerif.C09.pullRun_traced",
    "OllamaVerif.C09.exchangeTagsFrom_length",
    # which blobs the new-client push offers (finding F30)
    "OllamaVerif.C09.push_covers_all",
    "OllamaVerif.C09.push_omits_config",
    "OllamaVerif.C09.push_manifest_after_every_blob",
    "OllamaVerif.C09.F30_push_never_offers_config",
    "OllamaVerif.C09.F30_config_never_requested",
]
OVERLAY = {"server/internal/client/ollama/zz_verif_c09_test.go": "server_internal_client_ollama/zz_verif_c09_test.go"}
OVERLAY_LEGACY = {"server/zz_verif_c09_push_test.go": "server/zz_verif_c09_push_test.go"}


OVERLAY_CHUNKSUMS = {"server/internal/client/ollama/zz_verif_c09_chunksums_test.go": "server_internal_client_ollama/zz_verif_c09_chunksums_test.go"}
OVERLAY_RETRY = {"server/internal/registry/zz_verif_c09_retry_test.go": "server_internal_registry/zz_verif_c09_retry_test.go"}


def regenerate(ctx):
    """Tie 1: run the real Local.handlePull once per error class of the model (first attempt fails with
    that class, later ones succeed) and emit (class, attempts made) as a Lean table."""
    rc, out, outdir = ctx.go_test("./server/internal/registry/", OVERLAY_RETRY, "^TestVerifC09RetryTable$")
    rows = []
    path = outdir + "/table.txt"
    import os
    if rc == 0 and os.path.exists(path):
        for line in open(path):
            k, n = line.split()
            rows.append(f'("{k}", {int(n)})')
        # a retry decision that differs from the model's is reported with its input (the error class
        # the first attempt fails with), not only as a broken `decide`
        try:
            import subprocess
            ok, _ = ctx.lake_build(["oracle-c09"])
            classes = [l.split()[0] for l in open(path)]
            p = subprocess.run([ctx.oracle_bin()], input="".join(f"canretry {k}\n" for k in classes),
                               stdout=subprocess.PIPE, text=True)
            for line, want in zip(open(path), p.stdout.split()):
                k, n = line.split()
                if (int(n) == 2) != (want == "1") or int(n) not in (1, 2):
                    ctx.violation("retry-decision-differs",
                                  f"handlePull: first Pull attempt ends with class {k}, every later attempt would succeed",
                                  f"real handlePull made {n} attempt(s); the model's canRetry says {'retry' if want == '1' else 'give up'}")
        except Exception as ex:  # the Tie theorem still guards
            ctx.notes.append("canretry comparison skipped: " + str(ex))
    else:
        ctx.notes.append("retry table driver failed: " + out[-400:])
    body = ("-- REGENERATED on every run by vlib/checks/c09.py from /repo's working tree. Do not edit.\n"
            "namespace OllamaVerif.Generated.C09\n"
            "/-- (error class of the first Pull attempt, number of attempts Local.handlePull made) -/\n"
            "def retryTable : List (String × Nat) := [" + ", ".join(rows) + "]\n"
            "end OllamaVerif.Generated.C09\n")
    core.write_generated("OllamaVerif/Generated/C09_RetryTable.lean", body)
    ctx.coverage["retry_table"] = ", ".join(rows)
    regenerate_tables(ctx)


OVERLAY_TABLES = {"server/internal/client/ollama/zz_verif_c09_test.go": "server_internal_client_ollama/zz_verif_c09_test.go",
                  "server/internal/client/ollama/zz_verif_c09_tables_test.go": "server_internal_client_ollama/zz_verif_c09_tables_test.go"}
OVERLAY_TABLES_LEGACY = {"server/zz_verif_c09_push_test.go": "server/zz_verif_c09_push_test.go",
                         "server/zz_verif_c09_tables_test.go": "server/zz_verif_c09_tables_test.go"}


def regenerate_tables(ctx):
    """Tie 1, round 7: execute the real sendRequest / net/http client / makeRequestWithRetry over their whole
    finite status domain, and the variant probes; emit Generated/C09_HttpTables.lean and C09_Variant.lean.
    A driver that fails leaves empty tables: the Tie theorems (completeness) then fail closed."""
    import os
    send, fol, mrr, var, ver, beg = [], [], [], {}, [], []
    rc, out, outdir = ctx.go_test("./server/internal/client/ollama/", OVERLAY_TABLES, "^TestVerifC09Tables$")
    if rc == 0:
        rd = lambda n: [l.split() for l in open(os.path.join(outdir, n))] if os.path.exists(os.path.join(outdir, n)) else []
        send, fol, ver, beg = rd("send.txt"), rd("follow.txt"), rd("verify.txt"), rd("begin.txt")
        var.update({k: v for k, v in rd("variant.txt")})
    else:
        ctx.notes.append("table driver (client) failed: " + out[-400:])
    rc, out, outdir = ctx.go_test("./server/", OVERLAY_TABLES_LEGACY, "^TestVerifC09LegacyTables$", timeout=1800)
    if rc == 0:
        rd = lambda n: [l.split() for l in open(os.path.join(outdir, n))] if os.path.exists(os.path.join(outdir, n)) else []
        mrr = rd("mrr.txt")
        var.update({k: v for k, v in rd("variant_legacy.txt")})
    else:
        ctx.notes.append("table driver (legacy) failed: " + out[-400:])
    b = lambda x: "true" if x == "1" else "false"
    body = ("-- REGENERATED on every run by vlib/checks/c09.py from /repo's working tree (TestVerifC09Tables, TestVerifC09LegacyTables). Do not edit.\n"
            "namespace OllamaVerif.Generated.C09\n"
            "/-- (status answered without Location, did the real sendRequest hand the response to its caller) -/\n"
            "def sendTable : List (Nat × Bool) := [" + ", ".join(f"({s}, {b(o)})" for s, o in send) + "]\n"
            "/-- (hops, method, body kind, first status, first answer has Location, second status (with Location; 0 = none),\n"
            "    method of the request net/http's client sent next, \"-\" = it handed the answer to the caller) -/\n"
            "def followTable : List (Nat × String × String × Nat × Bool × Nat × String) := [" +
            ", ".join(f'({h}, "{m}", "{bd}", {s1}, {b(l1)}, {s2}, "{n}")' for h, m, bd, s1, l1, s2, n in fol) + "]\n"
            "/-- (method, status answered without Location, what the real makeRequestWithRetry returned: ok | notFound | err) -/\n"
            "def mrrTable : List (String × Nat × String) := [" + ", ".join(f'("{m}", {st}, "{c}")' for m, st, c in mrr) + "]\n"
            "/-- (relation of the blob file to the manifest entry, did the real verifyLayer pass, is the file still there) -/\n"
            "def verifyTable : List (String × Bool × Bool) := [" + ", ".join(f'("{n}", {b(o)}, {b(x)})' for n, o, x in ver) + "]\n"
            "/-- (blob file length, -1 = no file; manifest size; size shortcut taken; else: pre-validated Chunker; a blob file exists afterwards) -/\n"
            "def beginTable : List (Int × Nat × Bool × Bool × Bool) := [" + ", ".join(f'({fl}, {sz}, {b(sc)}, {b(pr)}, {b(ex)})' for fl, sz, sc, pr, ex in beg) + "]\n"
            "end OllamaVerif.Generated.C09\n")
    core.write_generated("OllamaVerif/Generated/C09_HttpTables.lean", body)
    for n, o, x in ver:
        if (o == "1") != (n == "exact"):
            ctx.violation("verify-layer-decision-differs", f"verifyLayer: manifest entry `abcdef` size 6, blob file in the cache: {n}",
                          f"the real verifyLayer {'passes' if o == '1' else 'fails'} (file {'kept' if x == '1' else 'removed'}); "
                          "only a file of exactly the manifest's size whose whole-file SHA-256 is the digest may pass")
    # a status the real sendRequest accepts or refuses against the model's is2xx: report it with the input
    for s_, o in send:
        if (o == "1") != (200 <= int(s_) < 300):
            ctx.violation("send-status-acceptance-differs", f"sendRequest: a GET answered {s_} without a Location header",
                          f"the real sendRequest {'hands the response to its caller' if o == '1' else 'returns an error'}; the model's exchangeOk/is2xx says the opposite")
    for m, st, c in mrr:
        want = "notFound" if st == "404" else ("err" if int(st) >= 400 else "ok")
        if c != want:
            ctx.violation("legacy-status-classification-differs", f"makeRequestWithRetry: a {m} answered {st} without a Location header",
                          f"the real makeRequestWithRetry returned {c}; the model's mrr says {want}")
    flag = lambda k: b(var.get(k, "0"))
    vbody = ("-- REGENERATED on every run by vlib/checks/c09.py from /repo's working tree (probes of the real code). Do not edit.\n"
             "namespace OllamaVerif.Generated.C09\n"
             "/-- Pull re-hashes every layer before Link -/\n"
             f"def treeVerify : Bool := {flag('verify')}\n"
             "/-- Chunked assembles into a staging file (F10d repaired) -/\n"
             f"def treeStaged : Bool := {flag('staged')}\n"
             "/-- Link keeps an existing link of the same length (F8 of C08) -/\n"
             f"def treeLinkShortcut : Bool := {flag('linkShortcut')}\n"
             "/-- Registry.Push offers the config blob (F30 repaired) -/\n"
             f"def treePushConfig : Bool := {flag('pushConfig')}\n"
             "/-- the legacy push call sites insist on a 2xx (F18 repaired) -/\n"
             f"def treeStrict : Bool := {flag('strict')}\n"
             "end OllamaVerif.Generated.C09\n")
    core.write_generated("OllamaVerif/Generated/C09_Variant.lean", vbody)
    ctx.coverage["tree_variant"] = dict(sorted(var.items()))
    # Findings F10a-c and F30 are fixed in /repo: the repaired behaviour is EXPECTED.  A tree on which a probe
    # finds the old behaviour has regressed; the probe's scenario is the failing input.
    if var and var.get("verify") != "1":
        ctx.violation("tree-variant-regressed",
                      "pull: threshold 2, one 4-byte layer `abcd`, chunksums served `ab 0-1` twice (both chunks verify, 4/4 bytes counted)",
                      "Registry.Pull reports success and links the name although the blob has 2 of 4 bytes: "
                      "the whole-layer verification before Link (fix of F10a-c) is gone")
    if var and var.get("pushConfig") != "1":
        ctx.violation("tree-variant-regressed",
                      "push: cached manifest with one layer and a config blob, the registry answers 200 to every request",
                      "Registry.Push sends the manifest although no request named the config digest: "
                      "the config blob is no longer offered before the manifest PUT (fix of F30 is gone)")
    ctx.coverage["http_tables"] = {"sendRequest_statuses": len(send), "nethttp_follow_rows": len(fol), "makeRequestWithRetry_rows": len(mrr)}


def l1_inputs(ctx, outdir, normalize=None):
    """Turn L1 disagreements into concrete, replayable inputs: the driver writes the replay header of every
    case to tags.txt (line-aligned with ops.txt); a case on which model and code differ becomes a violation
    whose `case` is `<header> :: <op line>` (honoured by --replay)."""
    import os
    paths = [os.path.join(outdir, n) for n in ("ops.txt", "impl.txt", "model.txt", "tags.txt")]
    if not all(os.path.exists(p) for p in paths):
        return
    n = 0
    with open(paths[0], errors="replace") as fo, open(paths[1], errors="replace") as fi, \
            open(paths[2], errors="replace") as fm, open(paths[3], errors="replace") as ft:
        for op, a, b, tag in zip(fo, fi, fm, ft):
            a, b = a.rstrip("\n"), b.rstrip("\n")
            if normalize:
                a, b = normalize(a), normalize(b)
            if a != b:
                n += 1
                if n <= 5:
                    ctx.violation("model-code-disagreement", tag.strip() + " :: " + op.strip(),
                                  "impl=" + core.clip(a.strip(), 700) + " model=" + core.clip(b.strip(), 700))


# Branches of the Pull model (Model/RegistryCov.lean: advanceT / stepT / putTags / finishTags, proved equal to
# the model's advance / step by advanceT_fst, stepT_fst, runStepsT_fst, pullRun_traced) that every full run must
# reach through L1-compared cases.  A branch the theorems talk about that no generated case exercises means the
# exact agreement says nothing about it: the check fails closed (`correspondence-coverage`).
REQUIRED_BRANCHES = [
    "layer.size-shortcut", "layer.prevalidated-chunker", "layer.create-file", "layer.open-partial-file",
    "layer.open-oversized-file", "layer.chunked", "layer.single-chunk", "layer.chunksums-after-cancel",
    "chunk.of-skipped-layer", "chunk.marker-hit", "chunk.marker-stale", "chunk.blocked-in-go", "chunk.launched",
    "chunk.launched-after-cancel", "waiting-chunk.launched",
    "waiting-chunk.launched-after-cancel", "waiting-chunk.launched-marker-appeared-meanwhile",
    "closer.blocked-in-go", "closer.holds-slot", "closer.returns-at-once", "main.reached-wait",
    "answer.redirect-followed", "answer.request-failed", "answer.body-to-prevalidated-chunker",
    "answer.stall-times-out-other-requests", "answer.after-first-error", "answer.out-of-launch-order",
    "put.ok", "put.digest-mismatch-last-write-refused", "put.short-body", "put.read-error",
    "put.stalled-until-read-timeout", "put.zero-length-chunk", "put.extra-bytes-cut", "put.several-reads",
    "put.beyond-file-end-leaves-hole", "put.overwrites-existing-bytes", "put.failed-after-partial-write",
    "cancel.fails-waiting-requests", "timeout.fails-waiting-requests",
    "finish.goroutine-error", "finish.counter-below-expected", "finish.counter-above-expected", "finish.verified",
    "finish.verification-failed-blob-removed", "verify.blob-short", "verify.blob-oversized",
    "verify.blob-wrong-content", "link.new", "link.replaced",
    "pull.resolve-failed", "pull.no-layers",
]
# Branches the model has only because its functions are total; not behaviours of the code, not required:
BRANCHES_NOT_BEHAVIOURS = {
    "waiting-chunk.still-blocked": "a chunk waiting in g.Go is re-examined only after a goroutine returned, which frees a slot "
                                   "(slots in use never exceed MaxStreams), so it is never found blocked again",
    "cancel.nothing-waiting": "no request waiting at a quiescent point means no goroutine is left and the main goroutine is past "
                              "g.Wait(): Pull has returned, a cancellation has nothing to act on",
    "timeout.nothing-waiting": "same: no request is waiting, no read timer is armed",
    "verify.blob-missing": "every layer that is not taken by the size shortcut has had its blob file created by Chunked before "
                           "verifyLayer runs, and the pass stops at the first removal: os.Open fails only if something outside "
                           "Pull deletes the file (reachable in the model only for the staged variant)",
    "finish.script-incomplete": "the step script of a case ends before the attempt does: not a behaviour (Outcome.stuck)",
    "pull.bad-script": "a step names a request that is not waiting: not a behaviour",
}
# reachable only on a tree where Link still has the same-size shortcut (finding F8 of C08, fixed in /repo)
BRANCHES_IF_LINK_SHORTCUT = ["link.kept-same-size-shortcut"]


def model_branch_coverage(ctx, outdir):
    """Replay every L1-compared pull history through the oracle's `pullcov` (branch tags of the model's own run)
    and count the tags.  Only histories on which model and code agreed are counted."""
    import os, subprocess, collections
    paths = [os.path.join(outdir, n) for n in ("ops.txt", "impl.txt", "model.txt")]
    if not all(os.path.exists(p) for p in paths):
        return
    lines = []
    with open(paths[0], errors="replace") as fo, open(paths[1], errors="replace") as fi, open(paths[2], errors="replace") as fm:
        for op, a, b in zip(fo, fi, fm):
            if op.startswith("pull ") and a == b:
                lines.append("pullcov " + op[5:])
    p = subprocess.run([ctx.oracle_bin()], input="".join(lines), stdout=subprocess.PIPE, text=True)
    cnt = collections.Counter()
    for l in p.stdout.splitlines():
        cnt.update(l.split())
    ctx.coverage["model_branches"] = dict(sorted(cnt.items()))
    ctx.coverage["model_branch_histories"] = len(lines)
    if ctx.replay:
        return
    need = list(REQUIRED_BRANCHES)
    if any(l.split()[3] == "1" for l in lines[:50]):
        need += BRANCHES_IF_LINK_SHORTCUT
    missing = [b for b in need if cnt.get(b, 0) == 0]
    ctx.coverage["model_branches_never_reached"] = missing
    ctx.coverage["model_branches_not_behaviours"] = BRANCHES_NOT_BEHAVIOURS
    if missing:
        ctx.violation("correspondence-coverage", "",
                      "branches of the Pull model that no L1-compared case of this run reached: " + ", ".join(missing),
                      no_input=True)


REQUIRED_PUSH_BRANCHES = [
    "http.no-answer", "http.307-308-not-followed-body-not-resendable", "http.3xx-with-location-not-a-redirect",
    "http.3xx-without-location", "http.final-1xx", "http.final-2xx", "http.final-4xx", "http.final-5xx",
    "http.redirect-limit", "http.307-308-repeats-method-and-body", "http.301-303-keeps-get-head", "http.301-303-becomes-get",
    "push.post-no-response", "push.post-refused", "push.registry-has-blob", "push.upload-accepted", "push.upload-failed",
    "push.manifest-accepted", "push.manifest-failed", "push.manifest-suppressed",
]
REQUIRED_LEGACY_BRANCHES = [
    "http.no-answer", "http.3xx-without-location", "http.final-1xx", "http.final-2xx", "http.final-4xx", "http.final-5xx",
    "http.307-308-repeats-method-and-body", "http.301-303-keeps-get-head", "http.301-303-becomes-get",
    "legacy.head-registry-has-blob", "legacy.head-error", "legacy.post-without-location", "legacy.post-error",   # legacy.post-not-found is counted, too rare (~10 per run) to gate on
    "legacy.patch-try-failed-retried", "legacy.patch-tries-exhausted", "legacy.patch-answer-without-location",
    "legacy.commit-try-failed-retried", "legacy.commit-tries-exhausted", "legacy.layer-committed", "legacy.later-layers-not-started",
    "legacy.manifest-accepted", "legacy.manifest-failed", "legacy.manifest-suppressed",
]


def push_branch_coverage(ctx, outdir, key, subst, required):
    """as model_branch_coverage, for the push models: `subst` maps the op word to its coverage command"""
    import os, subprocess, collections
    paths = [os.path.join(outdir, n) for n in ("ops.txt", "impl.txt", "model.txt")]
    if not all(os.path.exists(p) for p in paths):
        return
    lines = []
    with open(paths[0], errors="replace") as fo, open(paths[1], errors="replace") as fi, open(paths[2], errors="replace") as fm:
        for op, a, b in zip(fo, fi, fm):
            w = op.split(" ", 1)
            if w[0] in subst and a == b and len(w) == 2:
                lines.append(subst[w[0]] + " " + w[1])
    p = subprocess.run([ctx.oracle_bin()], input="".join(lines), stdout=subprocess.PIPE, text=True)
    cnt = collections.Counter()
    for l in p.stdout.splitlines():
        cnt.update(l.split())
    prev = ctx.coverage.get(key, {})
    for k, v in cnt.items():
        prev[k] = prev.get(k, 0) + v
    ctx.coverage[key] = dict(sorted(prev.items()))
    if ctx.replay or required is None:
        return
    missing = [b for b in required if prev.get(b, 0) == 0]
    ctx.coverage[key + "_never_reached"] = missing
    if missing:
        ctx.violation("correspondence-coverage", "",
                      f"branches of the push model ({key}) that no L1-compared case of this run reached: " + ", ".join(missing),
                      no_input=True)


def leg_cases(ctx, leg, n, minimum=1):
    """fail closed: a leg whose driver exits 0 without producing cases proves nothing"""
    ctx.coverage.setdefault("l1_cases_per_leg", {})[leg] = n
    if not ctx.replay and n < minimum:
        ctx.violation("driver-no-cases", "", f"leg `{leg}`: the driver produced {n} L1 case(s), at least {minimum} expected", no_input=True)


def run(ctx):
    if not ctx.replay:
        regenerate(ctx)
    ctx.lean_check(MODULES, THEOREMS)
    env = {"VERIF_N": ctx.scale(4000, 60000), "VERIF_NPUSH": ctx.scale(1000, 10000)}
    replay_kind = None
    if ctx.replay:
        path = ctx.replay_line_file()
        env["VERIF_REPLAY"] = path
        head = open(path).read()
        replay_kind = "chunksums" if "kind=chunksums" in head else "seq" if "kind=seq" in head else "shared" if "kind=shared" in head else "legacy" if "kind=legacy" in head else ("handler" if "kind=handler" in head else "client")
    if replay_kind in (None, "client"):
        rc, out, outdir = ctx.go_test("./server/internal/client/ollama/", OVERLAY, "^TestVerifC09$", env=env)
        if rc != 0:
            ctx.violation("driver-failed", "", out[-1500:], no_input=True)
        ctx.read_stats(outdir)
        leg_cases(ctx, "client", ctx.l1(outdir, label="client"), 1000)
        l1_inputs(ctx, outdir)
        model_branch_coverage(ctx, outdir)
        push_branch_coverage(ctx, outdir, "push_model_branches", {"push": "pushcov", "pushm": "pushmcov"}, REQUIRED_PUSH_BRANCHES)
        ctx.classify(ctx.l2(outdir))
    if replay_kind in (None, "chunksums"):
        # the chunksums response parser: real Registry.chunksums iterator vs Chunksums.parseBody
        rc, out, outdir = ctx.go_test("./server/internal/client/ollama/", OVERLAY_CHUNKSUMS, "^TestVerifC09Chunksums$",
                                      env=dict(env, VERIF_NCS=ctx.scale(1500, 30000)))
        if rc != 0:
            ctx.violation("driver-failed", "", out[-1500:], no_input=True)
        ctx.read_stats(outdir)
        leg_cases(ctx, "chunksums", ctx.l1(outdir, label="chunksums"), 1000)
        l1_inputs(ctx, outdir)
        ctx.classify(ctx.l2(outdir))
    if replay_kind in (None, "legacy"):
        env2 = dict(env)
        env2["VERIF_N"] = ctx.scale(600, 6000)
        rc, out, outdir = ctx.go_test("./server/", OVERLAY_LEGACY, "^TestVerifC09Legacy$", env=env2, timeout=1800)
        if rc != 0:
            ctx.violation("driver-failed", "", out[-1500:], no_input=True)
        ctx.read_stats(outdir)
        leg_cases(ctx, "legacy", ctx.l1(outdir, label="legacy"), 300)
        l1_inputs(ctx, outdir)
        push_branch_coverage(ctx, outdir, "legacy_model_branches", {"legacy": "legacycov"}, None)
        ctx.classify(ctx.l2(outdir))
    if replay_kind in (None, "shared"):
        # two legacy pushes sharing one upload.  First, in a process of its own, the scenario that kills the
        # process on a tree with finding F19 (the joined push leaves while it is the only waiter, then the
        # owner's session POST succeeds: blobUpload.Run dereferences a nil part hash).
        safe = False
        if True:   # also in --replay: the shared generator depends on this flag, a replay must see the same one
            rc, out, outdir0 = ctx.go_test("./server/", OVERLAY_LEGACY, "^TestVerifC09SharedCancelCrash$",
                                            env={k: v for k, v in env.items() if k != "VERIF_REPLAY"}, timeout=900)
            import os
            safe = rc == 0 and os.path.exists(os.path.join(outdir0, "runcancel.txt"))
            if rc != 0:
                if "nil pointer dereference" in out and "blobUpload).Run" in out:
                    ctx.classify([{"kind": "push-cancel-crashes-server",
                                   "case": "shared: push A opens the upload session (POST held); push B joins the upload; B's context ends "
                                           "(only waiter: release() cancels the run context); the POST is answered 202 + Location",
                                   "detail": "blobUpload.Run panics: nil pointer dereference (part hash) " + " ".join(
                                       l.strip() for l in out.splitlines() if "upload.go" in l)[:300]}])
                else:
                    ctx.violation("driver-failed", "", out[-1500:], no_input=True)
            elif not safe:
                ctx.violation("driver-no-cases", "", "TestVerifC09SharedCancelCrash exited 0 without writing runcancel.txt "
                              "(test not run?): the cancel-before-parts scenario was not examined", no_input=True)
        ctx.coverage["shared_run_cancel_safe"] = safe
        env4 = dict(env)
        env4["VERIF_NSHARED"] = ctx.scale(500, 6000)
        if safe:
            env4["VERIF_C09_RUNCANCEL_SAFE"] = "1"
        rc, out, outdir = ctx.go_test("./server/", OVERLAY_LEGACY, "^TestVerifC09LegacyShared$", env=env4, timeout=1800)
        if rc != 0:
            ctx.violation("driver-failed", "", out[-1500:], no_input=True)
        ctx.read_stats(outdir)
        leg_cases(ctx, "shared", ctx.l1(outdir, label="shared"), 200)
        l1_inputs(ctx, outdir)
        ctx.classify(ctx.l2(outdir))
    if replay_kind in (None, "seq"):
        # sequential pushes in one process (models sharing layers, per-repository registry state)
        env5 = dict(env)
        env5["VERIF_NSEQ"] = ctx.scale(400, 5000)
        rc, out, outdir = ctx.go_test("./server/", OVERLAY_LEGACY, "^TestVerifC09LegacySeq$", env=env5, timeout=1800)
        if rc != 0:
            ctx.violation("driver-failed", "", out[-1500:], no_input=True)
        ctx.read_stats(outdir)
        leg_cases(ctx, "seq", ctx.l1(outdir, label="seq"), 400)
        l1_inputs(ctx, outdir)
        # the legacy model's branches: single pushes + sequential pushes together
        push_branch_coverage(ctx, outdir, "legacy_model_branches", {"legacy": "legacycov"}, REQUIRED_LEGACY_BRANCHES)
        ctx.classify(ctx.l2(outdir))
    if replay_kind in (None, "handler"):
        import re
        env3 = dict(env)
        env3["VERIF_N"] = ctx.scale(500, 6000)
        rc, out, outdir = ctx.go_test("./server/internal/registry/", OVERLAY_RETRY, "^TestVerifC09Handler$", env=env3)
        if rc != 0:
            ctx.violation("driver-failed", "", out[-1500:], no_input=True)
        ctx.read_stats(outdir)
        # the HTTP response does not carry the error class: compare success / attempts / link
        strip = lambda s: re.sub(r"^res=\S+ ", "", s)
        leg_cases(ctx, "handler", ctx.l1(outdir, label="handler", normalize=strip), 200)
        l1_inputs(ctx, outdir, normalize=strip)
        ctx.classify(ctx.l2(outdir))
    if ctx.thorough:
        ctx.leanchecker(MODULES)
    ctx.assumptions += [
        "SHA-256 is collision-free on the byte strings of a run (digests are represented by pre-images in the oracle)",
        "one chunk answer is consumed at a time: write-write races between concurrently answered overlapping chunks are not explored",
        "generator: two plan entries with the same range but different digests only with MaxStreams=1 (requests are indistinguishable otherwise)",
        "read timeout: ReadTimeout=10 s, the controller lets 11 s of fake time pass (step `timeout`, body end `stall`); every request waiting at that moment times out together",
        "staged-variant theorems: H has no collision between byte strings of different lengths",
        "the fake transport returns context.Cause(ctx) for a cancelled request, like net/http's transport",
        "chunksums parser model: ASCII response bodies (bufio.ScanWords' multi-byte Unicode spaces are outside), tokens below bufio's 64 KiB limit",
        "push faults: transport failure on every request kind of all push drivers; cancellation of the caller's context only for the new client (the legacy code's no-retry-on-Canceled path is not driven)",
        "history_linked_layers_verified_tree: sizes are a function of the digest across the history (excludes exactly finding F10d's input class)",
    ]
    return ctx.finish(
        level="proof",
        rule="seeded pull histories (1-4 attempts, 1-2 names, manifests over a pool of 2-4 contents of 0-24 bytes, sizes on both "
             "sides of ChunkingThreshold in {2,3,4,6,9}, MaxStreams in {1,2,3,-1}; served chunk plans: exact partition / "
             "repeated / moved / dropped / lying digest / permuted / broken tail / failing; per-request faults: 5xx, 4xx, "
             "transport, short, reset, corrupt byte, extra bytes; cancellation; read timeout (fake time); scripted completion order; history modes: range past the layer end then honest retries (1/6), size lie after a linked honest pull (1/8)) + push cases "
             "for both push implementations with per-request faults (status alphabet with/without Location, no answer, redirect chains up to net/http's limit; new client: manifests with a config blob, context cancelled at the k-th request) + chunksums response bodies (ASCII; separators, sign/zero/int64 forms, mutated digests and ranges, cut tails); every branch tag of the pull and push models must be reached; distinct = distinct oracle command lines",
        explanation="Lean theorems about the model of Pull/Push; the model is tied to the real client by exact comparison of "
                    "per-attempt result class, waiting-request counts, link target and layer file bytes (L1), and the "
                    "property is evaluated directly on the real cache (SHA-256 of every layer of every linked name after "
                    "every attempt) and on the fake registry's request log (L2)")
