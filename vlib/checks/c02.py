"""C02 — Every runner request is answered exactly once and the scheduler drains."""
from vlib.checks import sched_common
from vlib.registry import COMMON_NOTE

REGISTRATION = {
    "engine": "lean-sched",
    "technique": "Lean 4 invariant proof over an interleaving model of the scheduler + go/ast tie + trace conformance",
    "category": "proof",
    "text": "Kernel-checked for every variant of the code and every interleaving: no request is answered twice, a reply is a runner "
            "xor an error, no accepted request is ever lost (answered once / skipped as already cancelled / tracked in exactly "
            "one place), a submit on a full queue is answered busy in the same step without touching anything else. Drain "
            "(good variant): in every reachable state in which no internal or timer action is enabled, all requests are done and "
            "no load is in flight, every started runner is shut down and nothing is loaded (every open runner has a wake-up "
            "pending, every holder a finish event in flight). all_answered (good variant): in every reachable state "
            "in which nothing internal is enabled, no load is in flight and every request holding a runner has finished, the "
            "pending loop is idle and nothing is queued, i.e. every accepted request has its single reply or was skipped as "
            "already cancelled (a pending loop waiting for an unload event always gets one). Fairness (that such states are "
            "reached) is outside the model and covered by end-of-trace monitors on the real scheduler (unanswered / not drained "
            "/ deadlock).",
    "design_ref": "DESIGN.md §5 C01/C02/C11",
    "note": COMMON_NOTE + "Outside the model: preemption inside a locked region, lock-order inversion, channel capacities of "
            "finishedReqCh/expiredCh/unloadedCh, real timers, unloadAllRunners at shutdown, the cuda VRAM-recovery poller.",
}
MODULES = ["OllamaVerif.Properties.C02", "OllamaVerif.Properties.C02Drain", "OllamaVerif.Tie.C01"]
THEOREMS = [
    "OllamaVerif.C02.at_most_one_reply",
    "OllamaVerif.C02.reply_is_runner_xor_error",
    "OllamaVerif.C02.never_lost",
    "OllamaVerif.C02.full_queue_is_busy_error",
    "OllamaVerif.C02.queue_with_room_accepts",
    "OllamaVerif.C02.drain",
    "OllamaVerif.C02.all_answered",
    "OllamaVerif.Sched.reach_invAll8",
    "OllamaVerif.C02.cpc_idle_of_stuck",
    "OllamaVerif.C02.drained_trace_runs",
    "OllamaVerif.Sched.reach_invAll",
    "OllamaVerif.Sched.reach_inv",
    "OllamaVerif.Tie.C01.tree_variant_good",
    "OllamaVerif.Tie.C01.evict_region_is_atomic",
    "OllamaVerif.Tie.C01.submit_never_blocks",
    "OllamaVerif.Tie.C01.wait_unload_is_pure",
    "OllamaVerif.Tie.C01.expired_region_is_atomic",
]


def run(ctx):
    return sched_common.run_sched(ctx, "C02", MODULES, THEOREMS)
