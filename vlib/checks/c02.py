"""C02 — Every runner request is answered exactly once and the scheduler drains."""
from vlib.checks import sched_common
from vlib.registry import COMMON_NOTE

REGISTRATION = {
    "engine": "lean-sched",
    "technique": "Lean 4 invariant proof over an interleaving model of the scheduler + go/ast tie + trace conformance",
    "category": "proof",
    "text": "Kernel-checked for every variant of the code and every interleaving: no request is answered twice, a reply is a runner "
            "xor an error, no accepted request is ever lost (answered once / skipped as already cancelled / tracked in exactly "
            "one place), a submit on a full queue is answered busy in the same step without touching anything else. The liveness "
            "half (tracked requests are eventually answered; drain) is covered for the good variant by the drain theorem where "
            "listed, and by end-of-trace monitors on the real scheduler (unanswered / not drained / deadlock).",
    "design_ref": "DESIGN.md §5 C01/C02/C11",
    "note": COMMON_NOTE + "Outside the model: preemption inside a locked region, lock-order inversion, channel capacities of "
            "finishedReqCh/expiredCh/unloadedCh, real timers, unloadAllRunners at shutdown, the cuda VRAM-recovery poller.",
}
MODULES = ["OllamaVerif.Properties.C02", "OllamaVerif.Tie.C01"]
THEOREMS = [
    "OllamaVerif.C02.at_most_one_reply",
    "OllamaVerif.C02.reply_is_runner_xor_error",
    "OllamaVerif.C02.never_lost",
    "OllamaVerif.C02.full_queue_is_busy_error",
    "OllamaVerif.C02.queue_with_room_accepts",
    "OllamaVerif.Sched.reach_inv",
    "OllamaVerif.Tie.C01.tree_variant_good",
]


def run(ctx):
    return sched_common.run_sched(ctx, "C02", MODULES, THEOREMS)
