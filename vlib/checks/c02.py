"""C02 — Every runner request is answered exactly once and the scheduler drains."""
from vlib.checks import sched_common
from vlib.registry import COMMON_NOTE

REGISTRATION = {
    "engine": "lean-sched",
    "technique": "Lean 4 invariant proof over an interleaving model of the scheduler + go/ast tie + trace conformance",
    "category": "proof",
    "text": "Kernel-checked for every variant of the code and every interleaving: no request is answered twice, a reply is a runner "
            "xor an error, no accepted request is ever lost (answered once / skipped as already cancelled / tracked in exactly "
            "one place), a submit on a full queue is answered busy in the same step without touching anything else. Drain "
            "(good variant): in every reachable state in which no internal or timer action is enabled, all requests are done and "
            "no load is in flight, every started runner is shut down and nothing is loaded (every open runner has a wake-up "
            "pending, every holder a finish event in flight). all_answered (good variant): in every reachable state "
            "in which nothing internal is enabled, no load is in flight and every request holding a runner has finished, the "
            "pending loop is idle and nothing is queued, i.e. every accepted request has its single reply or was skipped as "
            "already cancelled (a pending loop waiting for an unload event always gets one). Both liveness theorems are instantiated on non-trivial reachable stuck "
            "states (one request with keep-alive expiry; two models with OLLAMA_MAX_LOADED_MODELS=1 and a wait for the victim's "
            "unload). They are theorems of the base model with UNBOUNDED event channels, lifted to the bounded model for states in which "
            "nobody is parked inside a region (drain_bounded, all_answered_bounded): the bounded model (Model/SchedChan.lean: "
            "capacity OLLAMA_MAX_QUEUE for all four channels, sends made while holding mutexes, loadedMu/refMu acquisition order, "
            "parameters regenerated from the source) refines the base model (all safety theorems carry over) and exhibits the "
            "deadlocks the base model cannot: F12d (known finding on the current tree: with OLLAMA_MAX_QUEUE=1 expireRunner parks "
            "on the full expiredCh holding loadedMu+refMu, a counterexample to the liveness clause), upstream's lock-order "
            "inversion F12c (refuted for the tree's order: no hold-and-wait on loadedMu in any reachable state), and the "
            "never-drained unloadedCh class (with the idle receive the parked send is always released). Fairness (that stuck states "
            "are reached) is outside the model and covered by end-of-trace monitors on the real scheduler (unanswered / not drained "
            "/ deadlock).",
    "design_ref": "DESIGN.md §5 C01/C02/C11",
    "note": COMMON_NOTE + "unloadAllRunners at shutdown is modelled separately (Properties/C02Shutdown.lean: every started runner has had "
            "exactly one Close() right after it; witnesses: it closes runners in use, and a late expired event closes a second time); "
            "on the real code the driver ends every non-wedged trace with that shutdown and checks that every started runner "
            "has had its Close() (monitor c02-shutdown-not-closed). Outside the model: preemption inside a locked region, real timers, the cuda "
            "VRAM-recovery poller, the unbuffered hand-over on successCh (monitor c02-deadlock-handover), updateFreeSpace's per-runner "
            "refMu acquisitions; drain/all_answered hold in the bounded model only for states in which no goroutine is parked inside a region "
            "(drain_bounded, all_answered_bounded); F12d is a reachable state with a parked goroutine.",
}
MODULES = ["OllamaVerif.Properties.C02", "OllamaVerif.Properties.C02Drain", "OllamaVerif.Properties.C02Live", "OllamaVerif.Properties.C02Shutdown", "OllamaVerif.Properties.C02Chan", "OllamaVerif.Properties.C02ChanDrain", "OllamaVerif.Tie.C01"]
THEOREMS = [
    "OllamaVerif.C02.at_most_one_reply",
    "OllamaVerif.C02.reply_is_runner_xor_error",
    "OllamaVerif.C02.never_lost",
    "OllamaVerif.C02.full_queue_is_busy_error",
    "OllamaVerif.C02.queue_with_room_accepts",
    "OllamaVerif.C02.drain",
    "OllamaVerif.C02.all_answered",
    "OllamaVerif.Sched.reach_invAll8",
    "OllamaVerif.C02.cpc_idle_of_stuck",
    "OllamaVerif.C02.drained_trace_runs",
    "OllamaVerif.Sched.reach_invAll",
    "OllamaVerif.Sched.reach_inv",
    "OllamaVerif.Tie.C01.tree_variant_good",
    "OllamaVerif.Tie.C01.evict_region_is_atomic",
    "OllamaVerif.Tie.C01.submit_never_blocks",
    "OllamaVerif.Tie.C01.wait_unload_is_pure",
    "OllamaVerif.Tie.C01.expired_region_is_atomic",
    "OllamaVerif.C02.drained_state_is_stuck",
    "OllamaVerif.C02.drained_state_reachable",
    "OllamaVerif.C02.drain_instance",
    "OllamaVerif.C02.evicted_state_is_stuck",
    "OllamaVerif.C02.evicted_state_reachable",
    "OllamaVerif.C02.all_answered_instance",
    "OllamaVerif.C02.stuck_but_unanswered_when_holder_runs",
    "OllamaVerif.C02.dropped_witness",
    "OllamaVerif.C02Shutdown.shutdown_closes_every_started_runner",
    "OllamaVerif.C02Shutdown.shutdown_closes_runner_in_use",
    "OllamaVerif.C02Shutdown.shutdown_then_expiry_closes_twice",
    "OllamaVerif.C02Chan.stepB_enabled_of_step",
    "OllamaVerif.C02Chan.drain_bounded",
    "OllamaVerif.C02Chan.all_answered_bounded",
    "OllamaVerif.C02Chan.drained_trace_runs_bounded",
    "OllamaVerif.C02Chan.stepB_refines",
    "OllamaVerif.C02Chan.bounded_at_most_one_reply",
    "OllamaVerif.C02Chan.F12d_expiredCh_capacity_wedges",
    "OllamaVerif.C02Chan.F12d_needs_full_channel",
    "OllamaVerif.C02Chan.no_idle_drain_wedges",
    "OllamaVerif.C02Chan.idle_drain_releases",
    "OllamaVerif.C02Chan.F12c_lock_order_wedges_upstream",
    "OllamaVerif.C02Chan.F12c_repo_order_refuses",
    "OllamaVerif.C02Chan.repo_no_hold_and_wait_on_loadedMu",
    "OllamaVerif.C02Chan.parked_unloaded_send_is_released",
    "OllamaVerif.Tie.C01.tree_no_hold_and_wait_on_loadedMu",
    "OllamaVerif.C02Chan.reachB_reach",
    "OllamaVerif.Tie.C01.tree_cfg_repo",
    "OllamaVerif.Tie.C01.chan_caps_are_max_queue",
    "OllamaVerif.Tie.C01.send_sites_match",
]


def run(ctx):
    return sched_common.run_sched(ctx, "C02", MODULES, THEOREMS)
