"""C05 — GGUF written by Ollama decodes to the same metadata, tensors and tensor bytes."""
from vlib import core
from vlib.registry import COMMON_NOTE

REGISTRATION = {
    "engine": "lean-gguf",
    "technique": "Lean 4 proof over byte-level codec model + byte-exact differential correspondence",
    "category": "proof",
    "text": "Kernel-checked theorems over a byte-level Lean model of WriteGGUF/Decode (all tensor counts, kinds, "
            "sizes, alignments): declared offsets are aligned and the tensor's bytes are found there "
            "(bytes_at_declared_offset); full decoder round trip decode(encode kvs ts) = written keys/values + parameter "
            "count, tensor infos with reversed shapes and declared offsets, aligned data start, end offset = file length "
            "(decode_encode_any_key_order: keys in any order and distinct — the writer's key sort is in the model —, lengths/counts below 2^63); "
            "the whole property as ONE statement whose only size bound is file length < 2^63 (write_decode_full: keys and values as list and "
            "as look-ups, per tensor name/kind/reversed shape, written bytes at the decoded location, location aligned and inside the file, "
            "end offset = file length; per-string/array/count/offset bounds derived from the file length); the same file decoded at any "
            "aligned position inside a bigger file ends at position + length (decode_written_file_at) and several written files uploaded "
            "back to back become exactly one layer per file (create_layers_of_written_files); create's ggufLayers takes a single such file as exactly one layer, the uploaded blob itself (create_takes_written_file_whole). "
            "for the tensor list the CALLER passed (the writer sorts it; any permutation): write_decode_caller_list; for the writer of the tree, "
            "which since c8efab438 refuses a general.alignment that is not a non-zero uint32 (finding F1c: upstream wrote such files and its decoder "
            "rejected them; both writers are in the model, which one the tree has is probed on every run and the strict one is required): "
            "write_decode_full_repaired_writer has no alignment hypothesis left. "
            "ggufPadding is executed over offsets x alignments on every run and compared with the model by decide (padding_table_matches). Model = code is checked byte-for-byte on thousands of generated files per run, and the "
            "property predicate is evaluated on the real decoder's view of the real writer's file.",
    "design_ref": "DESIGN.md §5 C05",
    "note": COMMON_NOTE + "Modelled, not verified: the tensor sort (any permutation is covered by the theorem; "
            "the harness reads the written order from the sequence of WriteTo calls and checks it is a permutation), Tensor.WriterTo writes exactly Size() bytes "
            "(WfT), file-system writes are faithful.",
}

MODULES = ["OllamaVerif.Properties.C05", "OllamaVerif.Tie.C05"]
THEOREMS = [
    "OllamaVerif.C05.bytes_at_declared_offset",
    "OllamaVerif.C05.decode_encode",
    "OllamaVerif.C05.decode_encode_any_key_order",
    "OllamaVerif.C05.write_decode_full",
    "OllamaVerif.C05.write_decode_full_repaired_writer",
    "OllamaVerif.C05.write_decode_caller_list",
    "OllamaVerif.C05.F1c_writer_accepts_what_decoder_rejects",
    "OllamaVerif.C05.F1c_zero_alignment_without_tensors",
    "OllamaVerif.C05.fileOf1_is_encode",
    "OllamaVerif.C05.create_takes_any_written_file_whole",
    "OllamaVerif.C05.file96_written",
    "OllamaVerif.Gguf.encode_strict",
    "OllamaVerif.Gguf.decode_encode_at_sorted",
    "OllamaVerif.C05.decode_written_file_at",
    "OllamaVerif.C05.create_layers_of_written_files",
    "OllamaVerif.C05.end_offset_is_file_length",
    "OllamaVerif.C05.create_takes_written_file_whole",
    "OllamaVerif.C05.create_layers_disjoint",
    "OllamaVerif.Gguf.tensorSize_reverse",
    "OllamaVerif.C05.F1_pinned_offsets_alias",
    "OllamaVerif.Tie.C05.type_table_complete",
    "OllamaVerif.Tie.C05.type_table_matches",
    "OllamaVerif.Tie.C05.padding_table_matches",
    "OllamaVerif.Tie.C05.padding_table_nonempty",
]

# branches of writer / decoder / create's loop the theorems talk about: the L1 generator must have exercised each of them
# in this run (stats.txt counters of the drivers); otherwise the run proves nothing about that branch -> fail closed
REQUIRED_COUNTERS = [
    "kvtype_u32", "kvtype_f32", "kvtype_bool", "kvtype_str", "kvtype_ai32", "kvtype_au32", "kvtype_af32", "kvtype_astr",
    "kv_empty_string", "kv_empty_array", "kv_array_collected", "kv_array_not_collected",
    "kv_array_at_limit", "kv_array_limit_plus_1",
    "cases_no_tensor", "cases_ge3_tensors", "cases_sort_reordered", "cases_alignment_not_32",
    "cases_alignment_not_power_of_two", "cases_alignment_invalid",
    "tensor_size_not_multiple_of_32", "decode_at_offset_cases", "failing_source_cases",
    "tensor_size_checked_independently", "writer_validates_alignment", "write_refused_invalid_alignment",
]
REQUIRED_API_COUNTERS = ["api_multi_model_files", "api_multi_ok", "api_multi_err"]
OVERLAY = {"fs/ggml/zz_verif_gguf_test.go": "fs_ggml/zz_verif_gguf_test.go"}


def regenerate(ctx):
    """Tie 1: execute the real Tensor.typeSize/blockSize for kinds 0..63 and emit the table."""
    rc, out, outdir = ctx.go_test("./fs/ggml/", OVERLAY, "^TestVerifC05Table$")
    rows, prow = [], []
    if rc != 0:
        ctx.violation("driver-failed", "table", "TestVerifC05Table failed: " + out[-800:], no_input=True)
    if rc == 0:
        for line in open(outdir + "/table.txt"):
            k, ts, bs = line.split()
            rows.append(f"({k}, {ts}, {bs})")
        for line in open(outdir + "/padding.txt"):
            off, al, pad = line.split()
            prow.append(f"({off}, {al}, {pad})")
    body = ("-- REGENERATED on every run by vlib/checks/c05.py from /repo's working tree. Do not edit.\n"
            "namespace OllamaVerif.Generated.C05\n"
            "/-- (kind, typeSize, blockSize) as returned by the real methods -/\n"
            "def typeTable : List (Nat × Nat × Nat) := [" + ", ".join(rows) + "]\n"
            "/-- (offset, alignment, ggufPadding(offset, alignment)) as returned by the real function -/\n"
            + "".join(f"def paddingChunk{i} : List (Nat × Nat × Nat) := [" + ", ".join(prow[j:j + 96]) + "]\n"
                      for i, j in enumerate(range(0, len(prow), 96)))
            + "def paddingTable : List (Nat × Nat × Nat) := "
            + (" ++ ".join(f"paddingChunk{i}" for i in range((len(prow) + 95) // 96)) or "[]") + "\n"
            "end OllamaVerif.Generated.C05\n")
    core.write_generated("OllamaVerif/Generated/C05_TypeTable.lean", body)


def run(ctx):
    regenerate(ctx)
    ctx.lean_check(MODULES, THEOREMS)
    overlay = OVERLAY
    env = {"VERIF_N": ctx.scale(1500, 40000)}
    if ctx.replay:
        env["VERIF_REPLAY"] = ctx.replay_line_file()
    rc, out, outdir = ctx.go_test("./fs/ggml/", overlay, "^TestVerifC05$", env=env)
    if rc != 0:
        ctx.violation("driver-failed", "", out[-1500:], no_input=True)
    st = ctx.read_stats(outdir)
    ctx.l1(outdir)
    failures = ctx.l2(outdir)
    if not ctx.replay:
        missing = [k for k in REQUIRED_COUNTERS if st.get(k, 0) == 0]
        ctx.coverage["branch_counters_required"] = len(REQUIRED_COUNTERS) + len(REQUIRED_API_COUNTERS)
        if missing:
            ctx.violation("correspondence-coverage", "", "branches the theorems speak about were never exercised by "
                          "the generator in this run: " + ", ".join(missing), no_input=True)
    # create's use of the end offset (server/create.go ggufLayers is an anchor of C05): uploads of one and of several
    # models back to back through the real POST /api/create; layer sizes and kinds vs the model (L1, oracle-c10) and
    # "every layer cut out of the upload is exactly one model" on the layer blobs the server wrote (L2)
    if not ctx.replay:
        arc, aout, apidir = ctx.go_test("./server/", {"server/zz_verif_c10_test.go": "server/zz_verif_c10_test.go"},
                                        "^TestVerifC10API$", env={"VERIF_N": ctx.scale(12, 200), "VERIF_C10_MODES": "create"}, timeout=1500)
        if arc != 0:
            ctx.violation("driver-failed", "api", aout[-1500:], no_input=True)
        ast = ctx.read_stats(apidir)
        amissing = [k for k in REQUIRED_API_COUNTERS if ast.get(k, 0) == 0]
        if amissing and arc == 0:
            ctx.violation("correspondence-coverage", "api", "create-level branches never exercised: " + ", ".join(amissing), no_input=True)
        failures += [f for f in ctx.l2(apidir) if f["kind"] == "api-create-layer-not-one-model"]
        ctx.oracle_name = "C10"
        built = ctx.lake_build(["oracle-c10"])
        if built is False or (isinstance(built, tuple) and not built[0]):
            ctx.violation("machinery-error", "oracle-c10", "oracle-c10 did not build; L1-create would use a stale binary", no_input=True)
        ctx.l1(apidir, label="L1-create")
        ctx.oracle_name = None
    ctx.classify(failures)
    if ctx.thorough:
        ctx.leanchecker(MODULES)
    return ctx.finish(
        level="proof",
        rule="seeded random KV maps (8 value types, alignment key) x tensor lists (33 kinds, 0-12 tensors, "
             "sizes in every residue class mod alignment); distinct = distinct encoder/decoder command lines",
        explanation="Lean theorems about the byte-level model of WriteGGUF/Decode; model tied to the code by "
                    "byte-exact comparison of the real writer's file and the real decoder's summary (L1) and the "
                    "property predicate evaluated on the real file (L2)")
