"""C05 — GGUF written by Ollama decodes to the same metadata, tensors and tensor bytes."""
from vlib import core
from vlib.registry import COMMON_NOTE

REGISTRATION = {
    "engine": "lean-gguf",
    "technique": "Lean 4 proof over byte-level codec model + byte-exact differential correspondence",
    "category": "proof",
    "text": "Kernel-checked theorems over a byte-level Lean model of WriteGGUF/Decode (all tensor counts, kinds, "
            "sizes, alignments): declared offsets are aligned and the tensor's bytes are found there "
            "(bytes_at_declared_offset); full decoder round trip decode(encode kvs ts) = written keys/values + parameter "
            "count, tensor infos with reversed shapes and declared offsets, aligned data start, end offset = file length "
            "(decode_encode_any_key_order: keys in any order and distinct — the writer's key sort is in the model —, lengths/counts below 2^63); create's ggufLayers takes such a file as exactly one layer, the uploaded blob itself (create_takes_written_file_whole). Model = code is checked byte-for-byte on thousands of generated files per run, and the "
            "property predicate is evaluated on the real decoder's view of the real writer's file.",
    "design_ref": "DESIGN.md §5 C05",
    "note": COMMON_NOTE + "Modelled, not verified: the tensor sort (any permutation is covered by the theorem; "
            "the harness feeds the order the real sort produced), Tensor.WriterTo writes exactly Size() bytes "
            "(WfT), file-system writes are faithful.",
}

MODULES = ["OllamaVerif.Properties.C05", "OllamaVerif.Tie.C05"]
THEOREMS = [
    "OllamaVerif.C05.bytes_at_declared_offset",
    "OllamaVerif.C05.decode_encode",
    "OllamaVerif.C05.decode_encode_any_key_order",
    "OllamaVerif.C05.end_offset_is_file_length",
    "OllamaVerif.C05.create_takes_written_file_whole",
    "OllamaVerif.C05.create_layers_disjoint",
    "OllamaVerif.Gguf.tensorSize_reverse",
    "OllamaVerif.C05.F1_pinned_offsets_alias",
    "OllamaVerif.Tie.C05.type_table_complete",
    "OllamaVerif.Tie.C05.type_table_matches",
]
OVERLAY = {"fs/ggml/zz_verif_gguf_test.go": "fs_ggml/zz_verif_gguf_test.go"}


def regenerate(ctx):
    """Tie 1: execute the real Tensor.typeSize/blockSize for kinds 0..63 and emit the table."""
    rc, out, outdir = ctx.go_test("./fs/ggml/", OVERLAY, "^TestVerifC05Table$")
    rows = []
    if rc == 0:
        for line in open(outdir + "/table.txt"):
            k, ts, bs = line.split()
            rows.append(f"({k}, {ts}, {bs})")
    body = ("-- REGENERATED on every run by vlib/checks/c05.py from /repo's working tree. Do not edit.\n"
            "namespace OllamaVerif.Generated.C05\n"
            "/-- (kind, typeSize, blockSize) as returned by the real methods -/\n"
            "def typeTable : List (Nat × Nat × Nat) := [" + ", ".join(rows) + "]\n"
            "end OllamaVerif.Generated.C05\n")
    core.write_generated("OllamaVerif/Generated/C05_TypeTable.lean", body)


def run(ctx):
    regenerate(ctx)
    ctx.lean_check(MODULES, THEOREMS)
    overlay = OVERLAY
    env = {"VERIF_N": ctx.scale(1500, 40000)}
    if ctx.replay:
        env["VERIF_REPLAY"] = ctx.replay_line_file()
    rc, out, outdir = ctx.go_test("./fs/ggml/", overlay, "^TestVerifC05$", env=env)
    if rc != 0:
        ctx.violation("driver-failed", "", out[-1500:], no_input=True)
    ctx.read_stats(outdir)
    ctx.l1(outdir)
    failures = ctx.l2(outdir)
    # create's use of the end offset (server/create.go ggufLayers is an anchor of C05): uploads of one and of several
    # models back to back through the real POST /api/create; layer sizes and kinds vs the model (L1, oracle-c10) and
    # "every layer cut out of the upload is exactly one model" on the layer blobs the server wrote (L2)
    if not ctx.replay:
        arc, aout, apidir = ctx.go_test("./server/", {"server/zz_verif_c10_test.go": "server/zz_verif_c10_test.go"},
                                        "^TestVerifC10API$", env={"VERIF_N": ctx.scale(12, 200)}, timeout=1500)
        if arc != 0:
            ctx.violation("driver-failed", "api", aout[-1500:], no_input=True)
        ctx.read_stats(apidir)
        failures += [f for f in ctx.l2(apidir) if f["kind"] == "api-create-layer-not-one-model"]
        ctx.oracle_name = "C10"
        ctx.lake_build(["oracle-c10"])
        ctx.l1(apidir, label="L1-create")
        ctx.oracle_name = None
    ctx.classify(failures)
    if ctx.thorough:
        ctx.leanchecker(MODULES)
    return ctx.finish(
        level="proof",
        rule="seeded random KV maps (8 value types, alignment key) x tensor lists (33 kinds, 0-12 tensors, "
             "sizes in every residue class mod alignment); distinct = distinct encoder/decoder command lines",
        explanation="Lean theorems about the byte-level model of WriteGGUF/Decode; model tied to the code by "
                    "byte-exact comparison of the real writer's file and the real decoder's summary (L1) and the "
                    "property predicate evaluated on the real file (L2)")
