"""C07 — prompt caching, slot reuse and context shifting never change what the model sees."""
import os
import re

from vlib import core
from vlib.registry import COMMON_NOTE

REGISTRATION = {
    "engine": "lean-runner-cache",
    "technique": "Lean 4 invariant proof over an executable model of InputCache/processBatch on an abstract "
                 "Causal cache + differential correspondence against the real InputCache, processBatch and "
                 "kvcache.Causal driven over generated request histories",
    "category": "proof",
    "text": "Kernel-checked theorems over a Lean model of runner/ollamarunner/cache.go and the cache bookkeeping of "
            "processBatch on top of a cell-level model of kvcache.Causal's metadata and key rows: Coherent (each "
            "slot's sequence holds exactly the recorded inputs, each at its own position) is an invariant of "
            "every history of load / forward / shift / stop-trim / release operations for every configuration "
            "when the failure path of ShiftCacheSlot clears the sequence (repaired variant); slot exclusivity; "
            "soundness of the reused prefix; what Forward exposes equals what an empty cache exposes for the "
            "effective input (also at token level for the scripted model). The reset value extracted from the tree "
            "is MaxInt32 (F3 fixed in f8dfba76a), so the full-strength invariant is instantiated for the tree "
            "(Tie.C07.tree_coherent_invariant); for the formerly pinned Remove(id,0,-1) the invariant is proved "
            "under the guard that no shift fails, with a Lean-checked counterexample otherwise. The model is "
            "compared event by event with the REAL NewSequence/LoadCacheSlot/processBatch/Causal (fake eager "
            "backend, scripted model whose logits are a function of exactly the exposed key rows), and every "
            "clause is also evaluated directly on the real cache (L2). The invariant is also proved for the EXECUTABLE "
            "model itself (Properties/C07Batch.lean): innerLoop / phase1 / the single store of a mixed batch / phase3 / "
            "processBatch / the admission block / runEvents keep SInv = Coherent + exclusive ownership of slots by live "
            "sequences + records <= numCtx, so every state reachable from a new runner by any event list is coherent and "
            "no two live sequences share a slot (reachable_coherent_owned, Tie.C07.tree_reachable_coherent_owned; plain "
            "causal cache; a layout observed after a defrag is adopted only if the model's own check relocOK accepts it, "
            "so there is no assumption about the hints); every token a processBatch pass samples is the scripted model's "
            "answer to record ++ pending of its slot, i.e. what a fresh runner is shown (processBatch_outputs, "
            "ideal_is_fresh; per pass); chained over a whole generation without overflow for the forward/sample/feed-back "
            "loop on any coherent cache (gen_ideal, fresh_equiv_generation) and by L2 fresh-equiv on the real code; NewSequence truncation (newSequence_spec), "
            "shift-frees-room (shift_ok_shape) and the record cut next to TruncateStop (stop_cut_record; L2 stop-cut) are "
            "theorems. Records of different slots never share "
            "storage (load/forward/shift leave every other slot unchanged: theorems; record-aliasing monitors on "
            "the real slots of both runners).",
    "design_ref": "DESIGN.md §5 C07, §6 F3/F22",
    "note": COMMON_NOTE + "Modelled, not verified: cell placement in kvcache.Causal (findStartLoc is modelled, "
            "the layout after a defrag is taken from the real cache after the model has checked that it is a "
            "relocation of its own cells; C06 owns it; cell ranges are assumed to cover the sequence), multimodal inputs / "
            "SameBatch (text inputs only), which FindStop / CanResume variant the tree has (probed on the real functions; the "
            "repaired variants are expected, an older one is reported as variant-regression), the HTTP layer in the history driver (it replays the slot-loading block of completion; request "
            "lifetimes - admission, client disconnects, who frees a slot when - are driven through the REAL "
            "(*Server).completion by TestVerifC07Handler with L2 monitors only, because flushPending's select "
            "between send and quit is not seeded), sampling beyond greedy. runner/llamarunner/cache.go: findLongestCacheSlot, "
            "findBestCacheSlot (incl. the fork), countCommonPrefix, ShiftDiscard and NewInputCache run for real on "
            "real slots over request histories (records compared exactly with the model after every event; "
            "record-aliasing / coherence / prefix monitors); LoadCacheSlot and ShiftCacheSlot call llama.cpp "
            "unconditionally, so their remaining statements are replayed verbatim by the driver (sha1 of their "
            "source pinned in the check: drift fails closed) and llama.cpp's KV cache is a shadow (modelled, not verified). Panics are outside the property (F22: "
            "findBestCacheSlot dereferences nil when no free slot is older than now; mirrored by the model as "
            "an explicit outcome, the harness advances fake time; the number of cases that pass by panicking on both "
            "sides is stated in the evidence).",
}

MODULES = ["OllamaVerif.Properties.C07", "OllamaVerif.Properties.C07Batch", "OllamaVerif.Properties.C07Stop",
           "OllamaVerif.Tie.C07"]
THEOREMS = [
    "OllamaVerif.C07.slot_exclusive",
    "OllamaVerif.C07.no_free_slot_no_load",
    "OllamaVerif.C07.prefix_reuse_sound",
    "OllamaVerif.C07.coherent_invariant",
    "OllamaVerif.C07.coherent_invariant_partial",
    "OllamaVerif.C07.forward_exposes",
    "OllamaVerif.C07.fresh_equiv",
    "OllamaVerif.C07.nextTok_perm",
    "OllamaVerif.C07.fresh_equiv_tokens",
    "OllamaVerif.C07.coherent_init",
    "OllamaVerif.C07.load_other_records",
    "OllamaVerif.C07.forward_other_records",
    "OllamaVerif.C07.shift_other_records",
    "OllamaVerif.C07.llLoad_other_records",
    "OllamaVerif.C07.llLoad_prefix_sound",
    "OllamaVerif.C07.canResume_sound",
    "OllamaVerif.C07.load_window_present",
    "OllamaVerif.C07.canResume_not_monotone",
    "OllamaVerif.C07.F3_pinned_reset_leaves_stale_entries",
    "OllamaVerif.Tie.C07.tree_reset_end_known",
    "OllamaVerif.Tie.C07.tree_reset_end_repaired",
    "OllamaVerif.Tie.C07.tree_coherent_invariant",
    "OllamaVerif.Tie.C07.tree_trace",
    # the executable model itself (Properties/C07Batch.lean): processBatch / admission / whole histories
    "OllamaVerif.C07.newSequence_spec",
    "OllamaVerif.C07.shift_ok_shape",
    "OllamaVerif.C07.shift_re_shape",
    "OllamaVerif.C07.innerLoop_IL",
    "OllamaVerif.C07.phase1_PInv",
    "OllamaVerif.C07.findStartLoc_free",
    "OllamaVerif.C07.store_PC",
    "OllamaVerif.C07.phase3Seq_R",
    "OllamaVerif.C07.phase3_R",
    "OllamaVerif.C07.processBatch_SInv",
    "OllamaVerif.C07.processBatch_outputs",
    "OllamaVerif.C07.ideal_is_fresh",
    "OllamaVerif.C07.gen_ideal",
    "OllamaVerif.C07.fresh_equiv_generation",
    "OllamaVerif.C07.runEvent_SInv",
    "OllamaVerif.C07.runEvents_SInv",
    "OllamaVerif.C07.SInv_init",
    "OllamaVerif.C07.reachable_coherent_owned",
    "OllamaVerif.C07.relocOK_spec",
    "OllamaVerif.C07.demo_runs",
    "OllamaVerif.C07.demo_mid",
    "OllamaVerif.Tie.C07.tree_reachable_coherent_owned",
    # the cut of the record next to TruncateStop (Properties/C07Stop.lean)
    "OllamaVerif.C07.splitBack_spec",
    "OllamaVerif.C07.truncateStop_spec",
    "OllamaVerif.C07.stop_removes_or_truncates",
    "OllamaVerif.C07.stop_cut_record",
]
OVERLAY = {
    "runner/ollamarunner/zz_verif_c07_test.go": "runner_ollamarunner/zz_verif_c07_test.go",
    "runner/ollamarunner/zz_verif_c07_handler_test.go": "runner_ollamarunner/zz_verif_c07_handler_test.go",
    "kvcache/zz_verif_c07_export.go": "kvcache/zz_verif_c07_export.go",
    "model/zz_verif_c07_export.go": "model/zz_verif_c07_export.go",
}
OVERLAY_LL = {"runner/llamarunner/zz_verif_c07_test.go": "runner_llamarunner/zz_verif_c07_test.go"}

MAXI32 = 2147483647

# Branches of the model that the theorems speak about (Properties/C07.lean, C07Batch.lean, C07Stop.lean), counted on
# what the REAL code did in the history driver: the check fails closed when the generator never reaches one.
REQUIRED_COUNTERS = [
    "req_prefix_reused",          # loadCacheSlot with numPast > 0 (prefix_reuse_sound, load_facts)
    "req_reuse_all_but_one",      # the "leave one input" decrement (loadTail)
    "kv_copyprefix",              # findBest fork (coherent_find, SInv_load)
    "req_prompt_truncated",       # newSequence_spec, prompts longer than the context
    "busy_err", "busy_panic",     # no free slot: noSlots / nilDeref (no_free_slot_no_load)
    "br_shift_ok",                # shiftCacheSlot success path inside innerLoop (shift_ok_shape, innerLoop_IL)
    "br_shift_failed_reprocess",  # failure path + `continue` (shift_re_shape, innerLoop_IL)
    "br_mixed_batch",             # >= 2 sequences in one Forward (store_PC)
    "br_multi_input_run",         # a run of >= 2 inputs of one sequence (positions record + pending)
    "br_batch_full_inputs_left",  # batch-size break with inputs left (innerLoop first branch)
    "step_defrag",                # Forward after a defrag: the adopted layout (AdoptOK / HintsOK)
    "step_empty_batch",           # processBatch with nothing to decode (processBatch_SInv first case)
    "br_done_numpredict",         # removeSequence inside batch assembly (PInv_release)
    "br_done_eos",                # phase3Seq EOS branch (R_finish, plain release)
    "br_done_stop_string",        # phase3Seq stop branch
    "stop_cut_removed_tokens",    # ... with a real cut of the record (stop_cut_record)
    "swa_evicted",                # sliding-window eviction (canResume_sound / load_window_present context)
    # the legs themselves ran and did what they are for (an empty ops.txt / l2.txt must not pass)
    "cases", "corpus_cases", "cfg_swa", "cfg_multiuser", "cfg_noshiftfn", "req_fresh_equiv_checked", "stop_cut_checked",
    "variant_findstop_earliest", "variant_canresume_counted",
    "hh_cases", "hh_cancel", "hh_open_right_after_cancel", "ll_cases", "llh_cases", "llh_fork", "llh_shift_reprocess",
]


def _func_body(src, name):
    m = re.search(r"func (?:\([^)]*\) )?%s\(.*?\n}\n" % re.escape(name), src, flags=re.S)
    return m.group(0) if m else ""


def reset_end(ctx):
    """Tie 1: the end index the failure path of ShiftCacheSlot passes to `Remove(<id>, 0, .)` with the result
    discarded (`_ =`). Looked for in ShiftCacheSlot and in the unexported helpers of cache.go it calls (one level),
    whatever the receiver / id expression is called, so that extracting the reset into a helper or renaming a local
    does not break the tie; anything else (no such call, two different values) fails closed."""
    src = open(os.path.join(core.REPO, "runner/ollamarunner/cache.go")).read()
    body = _func_body(src, "ShiftCacheSlot")
    bodies = [body]
    for callee in sorted(set(re.findall(r"\b(?:\w+\.)?([a-z]\w*)\(", body))):
        b = _func_body(src, callee)
        if b and b != body:
            bodies.append(b)
    calls = []
    for b in bodies:
        calls += re.findall(r"_\s*=\s*\w+(?:\.\w+)*\.Remove\(\s*[\w.]+\s*,\s*0\s*,\s*([^)]+?)\s*\)", b)
    val = None
    if len(set(calls)) == 1:
        a = calls[0]
        if a == "math.MaxInt32":
            val = MAXI32
        elif re.fullmatch(r"-?\d+", a):
            val = int(a)
    if val is None:
        ctx.notes.append("could not extract the reset call of ShiftCacheSlot's failure path: %r" % (calls,))
        val = 0
    body = ("-- REGENERATED on every run by vlib/checks/c07.py from /repo's working tree. Do not edit.\n"
            "namespace OllamaVerif.Generated.C07\n"
            "/-- end index of `_ = c.cache.Remove(slot.Id, 0, ·)` in the failure path of ShiftCacheSlot -/\n"
            f"def resetEnd : Int := {val}\n"
            "end OllamaVerif.Generated.C07\n")
    core.write_generated("OllamaVerif/Generated/C07_Flags.lean", body)
    return val


# sha1 of llamarunner's LoadCacheSlot + ShiftCacheSlot as the driver replays them statement by statement
# (harness/overlay/runner_llamarunner/zz_verif_c07_test.go). A different value means the replay no longer
# mirrors the tree: the check fails closed until the driver's replay is brought up to date and this constant
# is changed with it.
LL_REPLAYED_SHA1 = "3cda1ad343206c204bbf71f37e0f92b4e19379b4"


def ll_replayed_sha():
    """sha1 of the llamarunner functions whose statements the driver replays (they call llama.cpp
    unconditionally and cannot run without a model): recorded in the evidence so that drift is visible."""
    import hashlib
    src = open(os.path.join(core.REPO, "runner/llamarunner/cache.go")).read()
    parts = []
    for name in ("LoadCacheSlot", "ShiftCacheSlot"):
        m = re.search(r"func \(c \*InputCache\) %s\(.*?\n}\n" % name, src, flags=re.S)
        parts.append(m.group(0) if m else "")
    return hashlib.sha1("".join(parts).encode()).hexdigest()


def driver_died(ctx, outdir, out, rc=1):
    """The whole `go test` process died (a fatal error of the real code that recover cannot catch, e.g. a
    deadlock): attribute it to the history the driver announced last, which is then a concrete input."""
    cur = os.path.join(outdir, "current.txt")
    case = open(cur).read().strip() if os.path.exists(cur) else ""
    if rc == 124 or "panic: test timed out" in out:
        # the leg ran out of time (loaded machine): the history announced last is innocent
        ctx.violation("driver-timeout", "", "go test did not finish within its timeout: " + out[-600:], no_input=True)
    elif case:
        ctx.violation("driver-died", case, "the test process died while this history was running: " + out[-1200:])
    else:
        ctx.violation("driver-failed", "", out[-1500:], no_input=True)


def run(ctx):
    rend = reset_end(ctx)
    ctx.lean_check(MODULES, THEOREMS)
    corpus = os.path.join(core.ROOT, "corpus", "C07", "histories.txt")
    replay_file, replay_ll, replay_hh = None, False, False
    if ctx.replay:
        replay_file = ctx.replay_line_file()
        head = open(replay_file).read().lstrip()
        replay_ll = head.startswith("llhist")
        replay_hh = head.startswith("hhist")
    if not ctx.replay or replay_hh:
        # request lifetimes through the real (*Server).completion handler (clients that go away, requests
        # admitted before the batch loop drops the abandoned sequence); L2 only, see the driver's header
        env = {"VERIF_N": ctx.scale(400, 8000), "VERIF_C07_RESET_END": rend, "VERIF_C07_CORPUS": corpus}
        if replay_hh:
            env["VERIF_REPLAY"] = replay_file
        rc, out, outdir = ctx.go_test("./runner/ollamarunner/", OVERLAY, "^TestVerifC07Handler$", env=env, timeout=1500)
        if rc != 0:
            driver_died(ctx, outdir, out, rc)
        ctx.read_stats(outdir)
        ctx.classify(ctx.l2(outdir))
    if not replay_ll and not replay_hh:
        env = {"VERIF_N": ctx.scale(1200, 30000), "VERIF_C07_RESET_END": rend, "VERIF_C07_CORPUS": corpus}
        if replay_file:
            env["VERIF_REPLAY"] = replay_file
        rc, out, outdir = ctx.go_test("./runner/ollamarunner/", OVERLAY, "^TestVerifC07$", env=env, timeout=1500)
        if rc != 0:
            driver_died(ctx, outdir, out, rc)
        ctx.read_stats(outdir)
        ctx.l1(outdir)
        ctx.classify(ctx.l2(outdir))
    if not ctx.replay:
        rc, out, outdir = ctx.go_test("./runner/llamarunner/", OVERLAY_LL, "^TestVerifC07LL$",
                                      env={"VERIF_N": ctx.scale(4000, 100000)}, timeout=1500)
        if rc != 0:
            ctx.violation("driver-failed", "", out[-1500:], no_input=True)
        ctx.read_stats(outdir)
        ctx.l1(outdir, label="L1-llamarunner")
        ctx.classify(ctx.l2(outdir))
    if not ctx.replay or replay_ll:
        # llamarunner slot records over request histories (real slot selection / fork, shadow KV)
        env = {"VERIF_N": ctx.scale(1500, 30000), "VERIF_C07_CORPUS": corpus}
        if replay_ll:
            env["VERIF_REPLAY"] = replay_file
        rc, out, outdir = ctx.go_test("./runner/llamarunner/", OVERLAY_LL, "^TestVerifC07LLHist$", env=env, timeout=1500)
        if rc != 0:
            ctx.violation("driver-failed", "", out[-1500:], no_input=True)
        ctx.read_stats(outdir)
        ctx.l1(outdir, label="L1-llamarunner-histories")
        ctx.classify(ctx.l2(outdir))
    if not ctx.replay and not ctx.violations:
        missing = [k for k in REQUIRED_COUNTERS if ctx.stats.get(k, 0) == 0]
        if missing:
            ctx.violation("correspondence-coverage", "", "branches the theorems speak about were never exercised by "
                          "the history driver on the real code: " + ", ".join(missing), no_input=True)
    # the model takes two probed variants from the tree (FindStop: earliest occurrence, commit 6e9857ebf / C14 F7;
    # CanResume: with the presence count, commit 86ff119f0). The EXPECTED tree has both repairs: a tree that has lost
    # one is reported even though the model follows it (L1 stays exact for the older variant).
    if not ctx.replay:
        for bad, what in (("variant_findstop_first_listed", "common.FindStop returns the first LISTED stop again (fix 6e9857ebf lost)"),
                          ("variant_canresume_uncounted", "Causal.CanResume lost its presence count (fix 86ff119f0): a "
                           "sliding-window slot can be resumed although entries of the window are gone")):
            if ctx.stats.get(bad, 0) > 0:
                ctx.violation("variant-regression", "", what + " (probed on the real function by the driver; %d histories ran "
                              "against the older model variant)" % ctx.stats.get(bad, 0), no_input=True)
    sha = ll_replayed_sha()
    ctx.coverage["llamarunner_replayed_source_sha1"] = sha
    ctx.coverage["llamarunner_replayed_source_sha1_expected"] = LL_REPLAYED_SHA1
    if sha != LL_REPLAYED_SHA1:
        ctx.violation("llamarunner-replayed-source-drift", "",
                      "runner/llamarunner/cache.go LoadCacheSlot/ShiftCacheSlot changed (sha1 %s, the driver replays the "
                      "statements of %s): the llamarunner history leg no longer exercises the tree's code" % (sha, LL_REPLAYED_SHA1),
                      no_input=True)
    # F22: a nil dereference of the real findBestCacheSlot (every slot busy / no slot older than now) is an outcome
    # the model mirrors (Fail.nilDeref); such cases PASS by panicking on both sides. Panics are outside C07, the
    # count is stated here so that the evidence does not hide them.
    ctx.coverage["cases_passed_by_modelled_panic_F22"] = {
        k: ctx.stats.get(k, 0) for k in ("busy_panic", "ll_panic", "llh_load_panic")}
    ctx.assumptions += [
        "cell placement after a defrag is taken from the real kvcache.Causal (C06 owns placement and the data "
        "movement of defrag); the theorems hold for every placement",
        "sliding-window caches: eviction, windowed mask, Init sizing and CanResume are modelled and tied (L1/L2); the "
        "Coherent invariant theorems are for plain causal caches (any CanResume answer); for SWA the proved part is "
        "canResume_sound + load_window_present (leave-one/CanResume ordering)",
        "text inputs only (SameBatch = 0, no multimodal hashes); greedy sampling",
        "SInv / reachable_coherent_owned: plain causal cache (window = none), numCtx < 2^31; a layout handed over after a "
        "defrag is adopted by the model only when it is a relocation of the model's own cells (relocOK, checked on every "
        "adopted layout of every L1 line; otherwise `step:bad-hint` = L1 disagreement), so the theorems carry no hypothesis "
        "about hints; they say nothing when processBatch returns an error (ErrKvCacheFull: run() panics)",
        "load_window_present / canResume_sound assume PosUnique (a sequence holds each position at most once) for SWA "
        "caches: not proved as an invariant there",
        "stop_cut_record assumes the record ends with the tokens of the held-back pieces (true unless a context shift "
        "discarded them; then Go's slice expression may panic: outside C07)",
        "fresh-runner equivalence: per processBatch pass for the executable model (processBatch_outputs); over a whole "
        "generation (fresh_equiv_generation) for the relation Gen = Forward / sample last position / feed back on a "
        "coherent cache with no overflow in between, not for several processBatch passes of the executable model (that "
        "link is the L2 monitor fresh-equiv)",
        "llamarunner: slot selection/fork/ShiftDiscard real over histories; LoadCacheSlot/ShiftCacheSlot statements "
        "replayed by the driver; llama.cpp's KV cache is a shadow (modelled, not verified)",
    ]
    if ctx.thorough:
        ctx.leanchecker(MODULES)
    return ctx.finish(
        level="proof",
        rule="seeded random request histories (8-70 events: requests with shared / diverging prefixes, exact "
             "repeats, follow-up turns built from slot records, prompts longer than the context, generations "
             "that overflow it, stop strings, numPredict, loads with every slot busy) x configurations "
             "(parallel 1-4, ctx 4-64, batch 1-16, keep -1/0/k, single/multi-user policy, with/without "
             "shiftFn, plain causal cache or sliding window 1-8; exact repeats after k cached generated tokens); distinct = distinct history lines",
        explanation="Lean theorems about the model of InputCache + processBatch bookkeeping over a cell-level "
                    "Causal model; model tied to the code by exact comparison of slot records, sequences, cell "
                    "metadata and key rows after every event (L1) and by Coherent / exclusivity / prefix reuse / "
                    "exposed-history / fresh-equivalence evaluated on the real cache (L2)")
