"""Regenerate /verif/MANIFEST.json from vlib/registry.py and properties.jsonl."""
import json
import os
import importlib

ROOT = os.path.dirname(os.path.dirname(os.path.abspath(__file__)))


def enabled():
    p = os.path.join(ROOT, "vlib", "enabled.txt")
    return {l.strip() for l in open(p) if l.strip() and not l.startswith("#")}


def registration(pid):
    if pid not in enabled():
        return None
    path = os.path.join(ROOT, "vlib", "checks", pid.lower() + ".py")
    if not os.path.exists(path):
        return None
    mod = importlib.import_module("vlib.checks." + pid.lower())
    return getattr(mod, "REGISTRATION", None)


def main():
    props = [json.loads(l)["id"] for l in open(os.path.join(ROOT, "properties.jsonl")) if l.strip()]
    checks = []
    engines = {}
    for pid in props:
        c = registration(pid)
        if not c:
            continue
        checks.append({
            "property_id": pid,
            "quick_cmd": f"./check {pid} quick",
            "thorough_cmd": f"./check {pid} thorough",
            "evidence_file": f"/verif/evidence/{pid}.json",
            "replay_cmd_template": f"./check {pid} --replay {{path}}",
            "engine": c["engine"],
            "level_claimed": {"category": c["category"], "text": c["text"], "design_ref": c["design_ref"]},
            "level_note": c["note"],
            "technique": c["technique"],
        })
        engines.setdefault(c["engine"], []).append(pid)
    na = []
    for pid in props:
        if not registration(pid):
            na.append({"property_id": pid,
                       "reason": "no check registered in this revision (machinery under construction; see DESIGN.md §5 for the design)"})
    m = {
        "version": 1,
        "setup_cmd": "./setup.sh",
        "hooks": {
            "guard": "verif-overlay",
            "enable": "no source hooks are committed to /repo: drivers and the zzverif helper package are added at build time with `go test -overlay=<json>` (files under /verif/harness/overlay); with the overlay absent the tree is the plain repository",
            "baseline_off_cmd": "cd /repo && go build ./... && go test -vet=off -count=1 ./...",
            "source_commits": [],
            "add_only": True,
        },
        "engines": [{"name": k, "path": "/verif/lean + /verif/harness/overlay + /verif/vlib", "serves_properties": v,
                     "kind_free_text": "Lean 4 model + theorems, compiled Lean oracle, Go overlay driver (differential correspondence)"}
                    for k, v in sorted(engines.items())],
        "checks": checks,
        "notes": "Every check: (1) regenerates source-derived facts, (2) lake-builds the property's theorems (kernel) and audits their axioms, (3) runs the real code and the Lean oracle on the same seeded cases and compares exactly, (4) evaluates the property predicate on the real code's behaviour. Known genuine defects are listed in KNOWN_FINDINGS.jsonl.",
        "not_applicable": na,
    }
    with open(os.path.join(ROOT, "MANIFEST.json"), "w") as f:
        json.dump(m, f, indent=1)
        f.write("\n")
    print(f"MANIFEST.json: {len(checks)} checks, {len(na)} not claimed")


if __name__ == "__main__":
    main()
