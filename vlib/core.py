"""Shared machinery of the /verif checks.

A check (vlib/checks/cXX.py) is a function run(ctx) that
  1. regenerates Lean facts from /repo's working tree (if the property has any),
  2. builds the property's Lean modules + oracle (kernel-checks the theorems),
  3. audits the axioms of every registered property theorem,
  4. runs the Go driver (added to /repo's packages with `go test -overlay`) which executes the
     REAL code on generated cases and writes ops.txt / impl.txt / l2.txt / stats.txt,
  5. pipes ops.txt through the compiled Lean oracle and diffs against impl.txt  (L1),
  6. classifies L2 failures (property predicate evaluated on the real code) against
     KNOWN_FINDINGS.jsonl,
and then ctx.finish() writes evidence/<id>.json, prints KNOWN-FINDING / VIOLATION lines and
returns the exit code.
"""
import fcntl
import hashlib
import json
import os
import re
import shutil
import subprocess
import sys
import tempfile
import time

ROOT = os.path.dirname(os.path.dirname(os.path.abspath(__file__)))
REPO = os.environ.get("VERIF_REPO", "/repo")
LEAN = os.path.join(ROOT, "lean")
OVERLAY = os.path.join(ROOT, "harness", "overlay")
ALLOWED_AXIOMS = {"propext", "Classical.choice", "Quot.sound"}
GO_ENV = {
    "GOTOOLCHAIN": "go1.26.8",
    "GOFLAGS": "-mod=mod",
    "GOPROXY": "off",
    "CGO_ENABLED": "1",
}
AUDIT_CLOSURE_SRC = r"""
open Lean Elab Command in
elab "#audit_closure" : command => do
  let env ← getEnv
  let mods := env.header.moduleNames
  let mut n : Nat := 0
  for (c, ci) in env.constants.map₁.toList do
    match ci with
    | .thmInfo _ =>
      match env.getModuleIdxFor? c with
      | some idx =>
        let m := mods[idx.toNat]!
        if (`OllamaVerif).isPrefixOf m && !c.isInternal then
          let ax ← liftCoreM <| collectAxioms c
          logInfo m!"AX {m} {c} {ax.toList}"
          n := n + 1
      | none => pure ()
    | _ => pure ()
  logInfo m!"TOTAL {n}"
#audit_closure
"""
BANNED = re.compile(r"\b(sorry|admit|native_decide|bv_decide|implemented_by|unsafe)\b|^\s*axiom\s|maxHeartbeats\s+0")


def log(*a):
    print(*a, file=sys.stderr, flush=True)


class Ctx:
    def __init__(self, prop, tier, seed, replay=None):
        self.prop = prop
        self.tier = tier
        self.seed = seed
        self.replay = replay
        self.t0 = time.time()
        self.tmp = tempfile.mkdtemp(prefix=f"verif-{prop}-")
        self.violations = []      # list of dict(kind, case, detail, no_input)
        self.known_hits = {}      # finding id -> count
        self.coverage = {}
        self.assumptions = []
        self.obligations = []     # theorem names
        self.discharged = []
        self.trusted = set()
        self.samples = []
        self.notes = []
        self.l1_cases = 0
        self.l1_disagreements = []
        self.stats = {}
        self.lean_ok = None
        self.findings = load_findings(prop)
        self.oracle_name = None   # defaults to the property's own oracle executable

    def replay_line_file(self):
        """--replay <file>: a replay JSON written by finish() (field "case") or a raw line file.
        Returns the path of a file holding the raw case line."""
        raw = open(self.replay).read()
        try:
            raw = json.loads(raw)["case"]
        except Exception:
            pass
        path = os.path.join(self.tmp, "replay-case.txt")
        with open(path, "w") as f:
            f.write(raw.strip() + "\n")
        return path

    @property
    def thorough(self):
        return self.tier == "thorough"

    def scale(self, quick, thorough):
        return thorough if self.thorough else quick

    # ---------------------------------------------------------------- Lean side
    def lake_build(self, targets):
        """Build Lean targets under a lock (checks may run concurrently)."""
        os.makedirs(os.path.join(LEAN, ".lake"), exist_ok=True)
        with open(os.path.join(LEAN, ".lake", "verif.lock"), "w") as lk:
            fcntl.flock(lk, fcntl.LOCK_EX)
            p = subprocess.run(["lake", "build"] + list(targets), cwd=LEAN,
                               stdout=subprocess.PIPE, stderr=subprocess.STDOUT, text=True)
        ok = p.returncode == 0
        if not ok:
            log(p.stdout[-4000:])
        return ok, p.stdout

    def lean_check(self, modules, theorems, extra_targets=None):
        """Kernel-check `modules`, audit axioms of `theorems` (fully qualified names).
        Records obligations/discharged. Returns True iff everything is discharged."""
        self.obligations = list(theorems)
        if extra_targets is None:
            extra_targets = ["oracle-" + (self.oracle_name or self.prop).lower()]
        ok, out = self.lake_build(list(modules) + list(extra_targets))
        self.lean_ok = ok
        if not ok:
            errs = [l for l in out.splitlines() if "error" in l][:10]
            self.lean_errors = errs
            self.discharged = []
            return False
        # banned constructs in the sources of the modules (comments stripped crudely)
        for m in modules:
            path = os.path.join(LEAN, m.replace(".", "/") + ".lean")
            for bad in scan_banned(path):
                self.notes.append(f"banned construct in {m}: {bad}")
                self.lean_ok = False
        axioms = self.audit(modules, theorems)
        self.discharged = []
        for t in theorems:
            ax = axioms.get(t)
            if ax is None:
                self.notes.append(f"theorem {t} not found")
                continue
            bad = set(ax) - ALLOWED_AXIOMS
            if bad:
                self.notes.append(f"theorem {t} depends on disallowed axioms {sorted(bad)}")
                continue
            self.trusted.update(ax)
            self.discharged.append(t)
        n, bad = self.audit_closure(modules)
        self.coverage["theorems_in_import_closure_audited"] = n or 0
        for t, ax in bad:
            self.notes.append(f"theorem {t} (import closure) depends on disallowed axioms {ax}")
            self.lean_ok = False
        return self.lean_ok and len(self.discharged) == len(self.obligations)

    def audit(self, modules, theorems):
        src = "".join(f"import {m}\n" for m in modules)
        src += "".join(f"#print axioms {t}\n" for t in theorems)
        path = os.path.join(self.tmp, "Audit.lean")
        with open(path, "w") as f:
            f.write(src)
        p = subprocess.run(["lake", "env", "lean", path], cwd=LEAN, stdout=subprocess.PIPE,
                           stderr=subprocess.STDOUT, text=True)
        res = {}
        text = p.stdout.replace("\n  ", " ")
        for m in re.finditer(r"'([^']+)' depends on axioms: \[([^\]]*)\]", text):
            res[m.group(1)] = [a.strip() for a in m.group(2).replace("\n", " ").split(",") if a.strip()]
        for m in re.finditer(r"'([^']+)' does not depend on any axioms", text):
            res[m.group(1)] = []
        return res

    def audit_closure(self, modules):
        """Axioms of EVERY theorem declared in any OllamaVerif module that `modules` import (helper
        lemmas included), collected by a Lean meta-program (`Lean.collectAxioms`): a `sorry` or an
        added axiom anywhere below a property theorem shows up here even if it is not in a listed
        theorem. Returns (count, [(theorem, bad axioms)])."""
        src = "import Lean\n" + "".join(f"import {m}\n" for m in modules) + AUDIT_CLOSURE_SRC
        path = os.path.join(self.tmp, "AuditClosure.lean")
        with open(path, "w") as f:
            f.write(src)
        p = subprocess.run(["lake", "env", "lean", path], cwd=LEAN, stdout=subprocess.PIPE,
                           stderr=subprocess.STDOUT, text=True)
        text = p.stdout.replace("\n  ", " ")
        n, bad = 0, []
        for m in re.finditer(r"AX (\S+) (\S+) \[([^\]]*)\]", text):
            n += 1
            ax = {a.strip() for a in m.group(3).split(",") if a.strip()}
            if ax - ALLOWED_AXIOMS:
                bad.append((m.group(2), sorted(ax - ALLOWED_AXIOMS)))
        tot = re.search(r"TOTAL (\d+)", text)
        if p.returncode != 0 or not tot or int(tot.group(1)) != n:
            return None, [("<closure audit did not run>", [p.stdout[-300:]])]
        return n, bad

    def leanchecker(self, modules):
        """Independent re-check of compiled .olean files (thorough tier)."""
        p = subprocess.run(["lake", "env", "leanchecker"] + list(modules), cwd=LEAN,
                           stdout=subprocess.PIPE, stderr=subprocess.STDOUT, text=True)
        ok = p.returncode == 0
        self.coverage["leanchecker"] = "ok" if ok else p.stdout[-500:]
        if not ok:
            self.lean_ok = False
            self.notes.append("leanchecker failed: " + p.stdout[-300:])
        return ok

    def oracle_bin(self):
        return os.path.join(LEAN, ".lake", "build", "bin", "oracle-" + (self.oracle_name or self.prop).lower())

    def oracle(self, ops_path, out_path):
        with open(ops_path, "rb") as fin, open(out_path, "wb") as fout:
            p = subprocess.run([self.oracle_bin()], stdin=fin, stdout=fout, stderr=subprocess.PIPE)
        if p.returncode != 0:
            raise RuntimeError("oracle failed: " + p.stderr.decode()[-2000:])

    # ---------------------------------------------------------------- Go side
    def overlay_json(self, mapping):
        """mapping: {path under /repo: path under harness/overlay}. zzverif helper is always added."""
        rep = {}
        for fn in sorted(os.listdir(os.path.join(OVERLAY, "zzverif"))):   # shared helper package
            if fn.endswith(".go"):
                rep[os.path.join(REPO, "zzverif", fn)] = os.path.join(OVERLAY, "zzverif", fn)
        for dst, src in mapping.items():
            rep[os.path.join(REPO, dst)] = os.path.join(OVERLAY, src)
        path = os.path.join(self.tmp, f"overlay-{len(os.listdir(self.tmp))}.json")
        with open(path, "w") as f:
            json.dump({"Replace": rep}, f)
        return path

    def go_test(self, pkg, overlay, run, env=None, race=False, timeout=1200, outdir=None, tags=None,
                extra_args=()):
        """Run `go test -overlay` in /repo for one package; returns (rc, stdout, outdir)."""
        outdir = outdir or tempfile.mkdtemp(prefix="run-", dir=self.tmp)
        e = dict(os.environ)
        e.update(GO_ENV)
        e["VERIF_SEED"] = str(self.seed)
        e["VERIF_TIER"] = self.tier
        e["VERIF_OUT"] = outdir
        if env:
            e.update({k: str(v) for k, v in env.items()})
        cmd = ["go", "test", "-overlay=" + self.overlay_json(overlay), "-count=1", "-vet=off",
               "-run", run, f"-timeout={timeout}s"]
        if race:
            cmd.append("-race")
        if tags:
            cmd.append("-tags=" + tags)
        cmd += list(extra_args)
        cmd.append(pkg)
        try:
            p = subprocess.run(cmd, cwd=REPO, env=e, stdout=subprocess.PIPE, stderr=subprocess.STDOUT,
                               text=True, timeout=timeout + 120)
            rc, out = p.returncode, p.stdout
        except subprocess.TimeoutExpired as ex:
            rc, out = 124, (ex.stdout or b"").decode(errors="replace") if isinstance(ex.stdout, bytes) else (ex.stdout or "")
        if rc != 0:
            log(f"[go test {pkg} -run {run}] rc={rc}\n{out[-3000:]}")
        return rc, out, outdir

    def go_test_binary(self, pkg, overlay, name="driver.test", race=False, tags=None):
        """Compile the test binary of `pkg` (with the overlay) once; returns its path or None."""
        out = os.path.join(self.tmp, name)
        e = dict(os.environ)
        e.update(GO_ENV)
        cmd = ["go", "test", "-c", "-overlay=" + self.overlay_json(overlay), "-vet=off", "-o", out]
        if race:
            cmd.append("-race")
        if tags:
            cmd.append("-tags=" + tags)
        cmd.append(pkg)
        p = subprocess.run(cmd, cwd=REPO, env=e, stdout=subprocess.PIPE, stderr=subprocess.STDOUT, text=True)
        if p.returncode != 0:
            log(f"[go test -c {pkg}] failed\n{p.stdout[-3000:]}")
            self.build_output = p.stdout
            return None
        return out

    def run_env(self, outdir, extra=None):
        e = dict(os.environ)
        e.update(GO_ENV)
        e["VERIF_SEED"] = str(self.seed)
        e["VERIF_TIER"] = self.tier
        e["VERIF_OUT"] = outdir
        if extra:
            e.update({k: str(v) for k, v in extra.items()})
        return e

    # ---------------------------------------------------------------- correspondence
    def read_stats(self, outdir):
        st = {}
        p = os.path.join(outdir, "stats.txt")
        if os.path.exists(p):
            for line in open(p):
                k, _, v = line.strip().rpartition("=")
                if k:
                    st[k] = st.get(k, 0) + int(v)
        for k, v in st.items():
            self.stats[k] = self.stats.get(k, 0) + v
        return st

    def l1(self, outdir, label="L1", normalize=None, keep_samples=2):
        """Run the oracle on ops.txt and compare with impl.txt line by line."""
        ops = os.path.join(outdir, "ops.txt")
        impl = os.path.join(outdir, "impl.txt")
        model = os.path.join(outdir, "model.txt")
        if not os.path.exists(ops):
            self.l1_disagreements.append({"label": label, "op": "<driver produced no ops.txt>", "impl": "", "model": ""})
            return 0
        self.oracle(ops, model)
        n = 0
        distinct = set()
        with open(ops, errors="replace") as fo, open(impl, errors="replace") as fi, open(model, errors="replace") as fm:
            for op, a, b in zip(fo, fi, fm):
                n += 1
                a, b = a.rstrip("\n"), b.rstrip("\n")
                if normalize:
                    a, b = normalize(a), normalize(b)
                distinct.add(hashlib.sha1(op.encode()).digest()[:8])
                if len(self.samples) < keep_samples or (n % 997 == 0 and len(self.samples) < keep_samples + 3):
                    self.samples.append({"op": clip(op.strip()), "impl": clip(a), "model": clip(b)})
                if a != b:
                    if len(self.l1_disagreements) < 20:
                        self.l1_disagreements.append({"label": label, "op": op.strip(), "impl": a, "model": b})
                    else:
                        self.l1_disagreements.append(None)
        # line-count mismatch is itself a disagreement
        cnt = [sum(1 for _ in open(p, errors="replace")) for p in (ops, impl, model)]
        if len(set(cnt)) != 1:
            self.l1_disagreements.append({"label": label, "op": f"<line counts differ: ops/impl/model = {cnt}>", "impl": "", "model": ""})
        self.l1_cases += n
        self.l1_calls = getattr(self, "l1_calls", 0) + 1
        if n == 0:
            self.coverage["l1_empty_legs"] = self.coverage.get("l1_empty_legs", []) + [label]
        self.coverage["l1_distinct_ops"] = self.coverage.get("l1_distinct_ops", 0) + len(distinct)
        return n

    def l2(self, outdir):
        """Read property failures the driver observed on the real code."""
        p = os.path.join(outdir, "l2.txt")
        out = []
        if os.path.exists(p):
            for line in open(p, errors="replace"):
                parts = line.rstrip("\n").split("\t")
                while len(parts) < 3:
                    parts.append("")
                out.append({"kind": parts[0], "case": parts[1], "detail": parts[2]})
        return out

    def classify(self, failures, matcher=None):
        """Split L2 failures into known findings and new violations.
        matcher(finding, failure) -> bool; default: finding['signature']['kind'] == failure['kind']
        (and, if present, every signature['detail_re'] matches)."""
        for f in failures:
            hit = None
            for k in self.findings:
                if k.get("status") != "known":
                    continue
                if (matcher or default_matcher)(k, f):
                    hit = k
                    break
            if hit:
                self.known_hits.setdefault(hit["id"], {"finding": hit, "count": 0, "example": f})
                self.known_hits[hit["id"]]["count"] += 1
            else:
                self.violation(f["kind"], f["case"], f["detail"])

    def violation(self, kind, case, detail, no_input=False):
        self.violations.append({"kind": kind, "case": case, "detail": detail, "no_input": no_input})

    # ---------------------------------------------------------------- finish
    def finish(self, level="proof", rule="", explanation="", checker_cmd=None, extra_cov=None):
        # proof obligations that no longer check / correspondence that no longer holds, with no
        # concrete failing input found
        have_input = any(not v["no_input"] for v in self.violations)
        if self.obligations and len(self.discharged) != len(self.obligations) and not have_input:
            missing = [t for t in self.obligations if t not in self.discharged]
            self.violation("proof-obligation", "theorems no longer checked: " + ", ".join(missing[:8]),
                           "; ".join(self.notes + getattr(self, "lean_errors", []))[:2000], no_input=True)
        # the Lean side failed in a way that leaves every LISTED theorem discharged (banned construct in a
        # module, a disallowed axiom below a helper lemma, closure audit did not run, leanchecker failure):
        # fail closed
        if self.lean_ok is False and not have_input and not any(v["kind"] == "proof-obligation" for v in self.violations):
            self.violation("proof-obligation", "Lean audit failed: " + "; ".join(self.notes[:6]),
                           "; ".join(self.notes + getattr(self, "lean_errors", []))[:2000], no_input=True)
        # the correspondence ran (l1 was called) but compared nothing at all: fail closed
        if getattr(self, "l1_calls", 0) > 0 and self.l1_cases == 0 and not have_input and not self.l1_disagreements:
            self.violation("correspondence-coverage", "<the drivers produced no case to compare>",
                           f"ctx.l1 was called {self.l1_calls} time(s) and compared 0 cases", no_input=True)
        if self.l1_disagreements and not have_input:
            d = next((x for x in self.l1_disagreements if x), None)
            self.violation("correspondence", d["op"] if d else "",
                           f"model/implementation disagree on {len(self.l1_disagreements)} case(s); first: impl={clip(d['impl'])} model={clip(d['model'])}" if d else "", no_input=True)
        wall = time.time() - self.t0
        os.makedirs(os.path.join(ROOT, "evidence"), exist_ok=True)
        os.makedirs(os.path.join(ROOT, "replays"), exist_ok=True)
        cov = {
            "obligations": len(self.obligations),
            "discharged": len(self.discharged),
            "checker_cmd": checker_cmd or "lake build (Lean 4.33.0 kernel) + `#print axioms` audit of every listed theorem",
            "trusted_base": sorted(self.trusted | {"Lean 4.33.0 kernel", "Lean compiler (oracle executable)",
                                                    "correspondence harness (vlib + Go overlay driver)"}),
            "theorems": self.obligations,
            "evaluations": max(1, self.l1_cases + self.stats.get("cases", 0)),
            "distinct_nontrivial": self.coverage.get("l1_distinct_ops", 0),
            "rule": rule,
            "samples": self.samples[:6] or ["<none>"],
            "traces_validated_against_impl": self.l1_cases,
            "disagreements_checked": len(self.l1_disagreements),
            "l2_failures_known": {k: v["count"] for k, v in self.known_hits.items()},
            "driver_stats": dict(sorted(self.stats.items())),
            "explanation": explanation,
        }
        cov["tree"] = tree_identity()
        if self.notes:
            cov["notes"] = self.notes[:40]
        cov.update({k: v for k, v in self.coverage.items() if k not in cov})
        if extra_cov:
            cov.update(extra_cov)
        ev = {
            "property_id": self.prop,
            "tier": self.tier,
            "seed": self.seed,
            "level": level,
            "coverage": cov,
            "assumptions": self.assumptions,
            "wall_s": round(wall, 2),
            "violations": len(self.violations),
        }
        # a replay run does not describe a tier's coverage, and a run against a scratch tree (VERIF_REPO) must not
        # overwrite the evidence that describes /repo: it goes to evidence/scratch/ (git-ignored)
        ev_dir = os.path.join(ROOT, "evidence") if os.path.realpath(REPO) == "/repo" else os.path.join(ROOT, "evidence", "scratch")
        os.makedirs(ev_dir, exist_ok=True)
        if not self.replay:
            with open(os.path.join(ev_dir, f"{self.prop}.json"), "w") as f:
                json.dump(ev, f, indent=1, sort_keys=True)
                f.write("\n")
        for k, v in sorted(self.known_hits.items()):
            print(f"KNOWN-FINDING: property={self.prop} {k}: {v['finding']['what']} (reproduced on {v['count']} case(s) this run)")
        rc = 0
        if self.violations:
            # one replay file per distinct kind (first case of each)
            seen = set()
            for v in self.violations:
                if v["kind"] in seen:
                    continue
                seen.add(v["kind"])
                h = hashlib.sha1((v["kind"] + v["case"]).encode()).hexdigest()[:10]
                path = os.path.join(ROOT, "replays", f"{self.prop}-{h}.json")
                with open(path, "w") as f:
                    json.dump({"property": self.prop, "kind": v["kind"], "seed": self.seed, "tier": self.tier,
                               "case": v["case"], "detail": v["detail"],
                               "no_failing_input_found": v["no_input"],
                               "count_same_kind": sum(1 for x in self.violations if x["kind"] == v["kind"])},
                              f, indent=1)
                    f.write("\n")
                tail = " no-failing-input-found" if v["no_input"] else ""
                print(f"VIOLATION property={self.prop} replay={path}{tail}")
            rc = 1
        log(f"[{self.prop}] {self.tier} seed={self.seed} obligations={len(self.discharged)}/{len(self.obligations)} "
            f"l1={self.l1_cases} disagreements={len(self.l1_disagreements)} known={sum(v['count'] for v in self.known_hits.values())} "
            f"violations={len(self.violations)} wall={wall:.1f}s")
        if os.environ.get("VERIF_KEEP_TMP"):
            log(f"[{self.prop}] kept {self.tmp}")
        else:
            shutil.rmtree(self.tmp, ignore_errors=True)
        return rc


def tree_identity():
    """Which trees this run looked at (so that an evidence file can be matched to a commit)."""
    def git(cwd, *a):
        try:
            return subprocess.run(["git", "-C", cwd] + list(a), stdout=subprocess.PIPE, stderr=subprocess.DEVNULL,
                                  text=True, timeout=60).stdout.strip()
        except Exception:
            return "?"
    return {"repo_path": REPO, "repo_head": git(REPO, "rev-parse", "--short", "HEAD"),
            "repo_dirty_files": len([l for l in git(REPO, "status", "--porcelain", "--untracked-files=no").splitlines() if l]),
            "verif_head": git(ROOT, "rev-parse", "--short", "HEAD")}


def clip(s, n=300):
    return s if len(s) <= n else s[:n] + f"...(+{len(s) - n})"


def default_matcher(finding, failure):
    sig = finding.get("signature", {})
    if sig.get("kind") and sig["kind"] != failure["kind"]:
        return False
    if sig.get("kinds") and failure["kind"] not in sig["kinds"]:
        return False
    if sig.get("detail_re") and not re.search(sig["detail_re"], failure["detail"]):
        return False
    if sig.get("case_re") and not re.search(sig["case_re"], failure["case"]):
        return False
    return bool(sig)


def load_findings(prop):
    out = []
    p = os.path.join(ROOT, "KNOWN_FINDINGS.jsonl")
    if os.path.exists(p):
        for line in open(p):
            line = line.strip()
            if not line or line.startswith("#"):
                continue
            d = json.loads(line)
            if d.get("property") == prop:
                out.append(d)
    return out


def scan_banned(path):
    """Return banned constructs outside comments in a Lean file."""
    try:
        src = open(path).read()
    except OSError:
        return []
    src = re.sub(r"/-.*?-/", "", src, flags=re.S)
    hits = []
    for line in src.splitlines():
        code = line.split("--")[0]
        m = BANNED.search(code)
        if m:
            hits.append(code.strip()[:80])
    return hits


def write_generated(relpath, content):
    """Write a regenerated Lean file (always rewritten so stale facts never survive)."""
    path = os.path.join(LEAN, relpath)
    os.makedirs(os.path.dirname(path), exist_ok=True)
    old = open(path).read() if os.path.exists(path) else None
    if old != content:
        with open(path, "w") as f:
            f.write(content)
    return path
