"""Per-property registration: what MANIFEST.json says about each claimed check.
`python3 -m vlib.manifest` regenerates MANIFEST.json from this table."""

COMMON_NOTE = ("Trusted: Lean 4.33.0 kernel (axioms propext/Classical.choice/Quot.sound only, audited per theorem on "
               "every run; no sorry/native_decide/bv_decide), the Lean compiler for the oracle executable, the Go "
               "overlay driver + vlib comparison code. The theorem is about a hand-written executable model; the "
               "model is tied to /repo's working tree on every run by differential correspondence (real code vs "
               "oracle on the same generated cases, exact comparison) and, where listed, by facts regenerated from "
               "the source and re-checked by `decide`. ")

CHECKS = {
    "C05": {
        "engine": "lean-gguf",
        "technique": "Lean 4 proof over byte-level codec model + byte-exact differential correspondence",
        "category": "proof",
        "text": "Kernel-checked theorems over a byte-level Lean model of WriteGGUF/Decode (all tensor counts, kinds, "
                "sizes, alignments): declared offsets are aligned and the tensor's bytes are found there; decoder "
                "round trip. Model = code is checked byte-for-byte on thousands of generated files per run, and the "
                "property predicate is evaluated on the real decoder's view of the real writer's file.",
        "design_ref": "DESIGN.md §5 C05",
        "note": COMMON_NOTE + "Modelled, not verified: the tensor sort (any permutation is covered by the theorem; "
                "the harness feeds the order the real sort produced), Tensor.WriterTo writes exactly Size() bytes "
                "(WfT), file-system writes are faithful.",
    },
}

NOT_YET = {}
