"""Text shared by the per-property registrations (each vlib/checks/cXX.py defines REGISTRATION;
`python3 -m vlib.manifest` assembles MANIFEST.json from them)."""

COMMON_NOTE = ("Trusted: Lean 4.33.0 kernel (axioms propext/Classical.choice/Quot.sound only, audited per theorem on "
               "every run; no sorry/native_decide/bv_decide), the Lean compiler for the oracle executable, the Go "
               "overlay driver + vlib comparison code. The theorem is about a hand-written executable model; the "
               "model is tied to /repo's working tree on every run by differential correspondence (real code vs "
               "oracle on the same generated cases, exact comparison) and, where listed, by facts regenerated from "
               "the source and re-checked by `decide`. ")
