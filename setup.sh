#!/bin/sh
# MANIFEST.setup_cmd: build everything from files on disk, offline.
set -e
cd "$(dirname "$0")"
export GOTOOLCHAIN=go1.26.8 GOFLAGS=-mod=mod GOPROXY=off
(cd lean && lake build 2>&1 | tail -3)
# warm the Go build cache for the packages the drivers are compiled into
(cd /repo && go test -count=1 -vet=off -run '^$' ./fs/ggml/ ./server/ ./kvcache/ ./model/ ./runner/... ./sample/ ./llm/ ./types/model/ ./server/internal/... ./template/ ./openai/ >/dev/null 2>&1 || true)
echo setup-done
