package names

// C08 tie 1: the character classes and length limits of the real isValidPart, obtained by executing it on
// every 1-byte string, every string "a"+b, "aa"+b (position independence) and on a^n, n <= 400.
// Added with `go test -overlay`; never committed to /repo.

import (
	"fmt"
	"os"
	"path/filepath"
	"strings"
	"testing"
)

func TestVerifC08NameTable(t *testing.T) {
	out := os.Getenv("VERIF_OUT")
	if out == "" {
		t.Skip("verification driver: run through /verif/check")
	}
	var sb strings.Builder
	for kind := partHost; kind <= partTag; kind++ {
		var first, rest []string
		posIndep := 1
		for b := 0; b < 256; b++ {
			if isValidPart(kind, string([]byte{byte(b)})) {
				first = append(first, fmt.Sprint(b))
			}
			r1 := isValidPart(kind, string([]byte{'a', byte(b)}))
			if r1 {
				rest = append(rest, fmt.Sprint(b))
			}
			for _, s := range []string{string([]byte{'a', 'a', byte(b)}), string([]byte{'a', byte(b), 'a'}), string([]byte{'Z', '_', '9', byte(b), '0'})} {
				if isValidPart(kind, s) != r1 {
					posIndep = 0
				}
			}
		}
		maxLen, interval := -1, 1
		for n := 0; n <= 400; n++ {
			if isValidPart(kind, strings.Repeat("a", n)) {
				if n != maxLen+1 {
					interval = 0
				}
				maxLen = n
			}
		}
		fmt.Fprintf(&sb, "first %d %s\n", kind, strings.Join(first, " "))
		fmt.Fprintf(&sb, "rest %d %s\n", kind, strings.Join(rest, " "))
		fmt.Fprintf(&sb, "len %d %d %d %d\n", kind, maxLen, interval, posIndep)
	}
	if err := os.WriteFile(filepath.Join(out, "nametable.txt"), []byte(sb.String()), 0o666); err != nil {
		t.Fatal(err)
	}
}
