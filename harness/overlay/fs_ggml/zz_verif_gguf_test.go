package ggml

// Verification driver for C05 (and the shared canonical printer used by C10).
// Added to the package at build time with `go test -overlay`; never committed to /repo.

import (
	"bytes"
	"errors"
	"fmt"
	"io"
	"math"
	"os"
	"path/filepath"
	"sort"
	"strconv"
	"strings"
	"testing"

	"github.com/ollama/ollama/zzverif"
)

func verifTag(v any) (string, uint64, bool) {
	switch x := v.(type) {
	case uint8:
		return "u8", uint64(x), true
	case int8:
		return "i8", uint64(uint8(x)), true
	case uint16:
		return "u16", uint64(x), true
	case int16:
		return "i16", uint64(uint16(x)), true
	case uint32:
		return "u32", uint64(x), true
	case int32:
		return "i32", uint64(uint32(x)), true
	case float32:
		return "f32", uint64(math.Float32bits(x)), true
	case bool:
		if x {
			return "bool", 1, true
		}
		return "bool", 0, true
	case uint64:
		return "u64", x, true
	case int64:
		return "i64", uint64(x), true
	case float64:
		return "f64", math.Float64bits(x), true
	}
	return "", 0, false
}

func verifShowVal(v any) string {
	if tag, raw, ok := verifTag(v); ok {
		return tag + ":" + strconv.FormatUint(raw, 10)
	}
	switch x := v.(type) {
	case string:
		return "str:" + zzverif.Hex([]byte(x))
	case *array:
		if x.values == nil {
			return fmt.Sprintf("arr:%d:nil", x.size)
		}
		parts := make([]string, len(x.values))
		for i, e := range x.values {
			parts[i] = verifShowVal(e)
		}
		return fmt.Sprintf("arr:%d:[%s]", x.size, strings.Join(parts, ","))
	}
	return fmt.Sprintf("?%T", v)
}

// verifSummary prints a decoded file exactly like the Lean oracle's `showDecoded`.
func verifSummary(g *GGML, end int64) string {
	kv := g.KV()
	items := make([]string, 0, len(kv))
	for k, v := range kv {
		items = append(items, zzverif.Hex([]byte(k))+"="+verifShowVal(v))
	}
	sort.Strings(items)
	ts := g.Tensors()
	tparts := make([]string, len(ts.items))
	for i, t := range ts.items {
		dims := make([]string, len(t.Shape))
		for j, d := range t.Shape {
			dims[j] = strconv.FormatUint(d, 10)
		}
		tparts[i] = fmt.Sprintf("%s,%d,%s,%d", zzverif.Hex([]byte(t.Name)), t.Kind, strings.Join(dims, "x"), t.Offset)
	}
	version := g.container.(*containerGGUF).Version
	return fmt.Sprintf("ok v=%d kv=[%s] t=[%s] to=%d end=%d", version, strings.Join(items, ";"), strings.Join(tparts, ";"), ts.Offset, end)
}

type verifKV struct {
	key string
	tag string
	val any
}

func verifGenKV(r *zzverif.Rng) []verifKV {
	n := r.Pick3(0, 3, 12)
	seen := map[string]bool{"general.parameter_count": true}
	var out []verifKV
	pool := []string{"general.architecture", "general.name", "a", "b", "A", "llama.block_count", "tokenizer.ggml.tokens", "zz", "a.b", "\xff\x00k", ""}
	if r.Chance(1, 2) {
		aligns := []uint32{1, 2, 8, 32, 64, 4096, 3, 7, 12, 100}
		kv := verifKV{"general.alignment", "u32", zzverif.Pick(r, aligns)}
		if r.Chance(1, 6) {
			// the key with every other supported value type, and zero: a map over the supported value types the writer is
			// handed like any other (finding C05 F1c: upstream's writer accepts these, its decoder rejects the file)
			switch r.Intn(8) {
			case 0:
				kv = verifKV{"general.alignment", "u32", uint32(0)}
			case 1:
				kv = verifKV{"general.alignment", "str", zzverif.Pick(r, []string{"32", "abc", ""})}
			case 2:
				kv = verifKV{"general.alignment", "f32", float32(zzverif.Pick(r, []int{8, 32, 0}))}
			case 3:
				kv = verifKV{"general.alignment", "bool", r.Bool()}
			case 4:
				kv = verifKV{"general.alignment", "ai32", []int32{32}}
			case 5:
				kv = verifKV{"general.alignment", "au32", []uint32{8}}
			case 6:
				kv = verifKV{"general.alignment", "af32", []float32{}}
			default:
				kv = verifKV{"general.alignment", "astr", []string{"32"}}
			}
		}
		out = append(out, kv)
		seen["general.alignment"] = true
	}
	for len(out) < n {
		var k string
		if r.Chance(2, 3) {
			k = zzverif.Pick(r, pool)
		} else {
			k = string(r.Bytes(r.Range(0, 6)))
		}
		if seen[k] {
			continue
		}
		seen[k] = true
		alen := r.Pick3(0, 2, 5)
		if r.Chance(1, 20) {
			alen = 1025 // above the default maxArraySize: decoded without values
		} else if r.Chance(1, 6) {
			// both sides of the collection limits the cases use (maxArraySize 3, and 0 = 1024): `size <= limit` exactly
			alen = zzverif.Pick(r, []int{3, 4, 1024})
		}
		switch r.Intn(8) {
		case 0:
			out = append(out, verifKV{k, "u32", uint32(r.U64())})
		case 1:
			out = append(out, verifKV{k, "f32", math.Float32frombits(uint32(r.U64()))})
		case 2:
			out = append(out, verifKV{k, "bool", r.Bool()})
		case 3:
			sl := r.Pick3(0, 3, 40)
			if r.Chance(1, 12) {
				// longer than the decoder's 16 KiB scratch buffer and its 32 KiB read buffer: the growing-buffer path,
				// short reads in the middle of the value
				sl = zzverif.Pick(r, []int{16383, 16384, 16385, 20000, 32768, 40000, 70000})
			}
			out = append(out, verifKV{k, "str", string(r.Bytes(sl))})
		case 4:
			a := make([]int32, alen)
			for i := range a {
				a[i] = int32(r.U64())
			}
			out = append(out, verifKV{k, "ai32", a})
		case 5:
			a := make([]uint32, alen)
			for i := range a {
				a[i] = uint32(r.U64())
			}
			out = append(out, verifKV{k, "au32", a})
		case 6:
			a := make([]float32, alen)
			for i := range a {
				a[i] = math.Float32frombits(uint32(r.U64()))
			}
			out = append(out, verifKV{k, "af32", a})
		case 7:
			a := make([]string, alen)
			for i := range a {
				a[i] = string(r.Bytes(r.Pick3(0, 2, 9)))
			}
			out = append(out, verifKV{k, "astr", a})
		}
	}
	return out
}

func verifKVLine(kvs []verifKV) string {
	var sb strings.Builder
	fmt.Fprintf(&sb, "%d", len(kvs))
	for _, kv := range kvs {
		fmt.Fprintf(&sb, " %s %s", zzverif.Hex([]byte(kv.key)), kv.tag)
		switch v := kv.val.(type) {
		case uint32:
			fmt.Fprintf(&sb, " %d", v)
		case float32:
			fmt.Fprintf(&sb, " %d", math.Float32bits(v))
		case bool:
			if v {
				sb.WriteString(" 1")
			} else {
				sb.WriteString(" 0")
			}
		case string:
			sb.WriteString(" " + zzverif.Hex([]byte(v)))
		case []int32:
			fmt.Fprintf(&sb, " %d", len(v))
			for _, e := range v {
				fmt.Fprintf(&sb, " %d", uint32(e))
			}
		case []uint32:
			fmt.Fprintf(&sb, " %d", len(v))
			for _, e := range v {
				fmt.Fprintf(&sb, " %d", e)
			}
		case []float32:
			fmt.Fprintf(&sb, " %d", len(v))
			for _, e := range v {
				fmt.Fprintf(&sb, " %d", math.Float32bits(e))
			}
		case []string:
			fmt.Fprintf(&sb, " %d", len(v))
			for _, e := range v {
				sb.WriteString(" " + zzverif.Hex([]byte(e)))
			}
		}
	}
	return sb.String()
}

type verifTensor struct {
	name  string
	kind  uint32
	shape []uint64
	data  []byte
}

var verifKinds = []uint32{0, 1, 2, 3, 6, 7, 8, 9, 10, 11, 12, 13, 14, 15, 16, 17, 18, 19, 20, 21, 22, 23, 24, 25, 26, 27, 28, 29, 30, 4, 5, 31, 99}

func verifGenTensors(r *zzverif.Rng) []verifTensor {
	n := r.Pick3(0, 3, 12)
	out := make([]verifTensor, 0, n)
	for i := 0; i < n; i++ {
		var name string
		switch r.Intn(5) {
		case 0:
			name = fmt.Sprintf("blk.%d.attn_q.weight", r.Intn(4))
		case 1:
			name = fmt.Sprintf("blk.%d.w%d", r.Intn(13), i)
		case 2:
			name = zzverif.Pick(r, []string{"token_embd.weight", "output.weight", "output_norm.weight", "v.blk.1.x", "blk.x.y", "blk.-1.z", "blk.0", ""}) + fmt.Sprint(i)
		case 3:
			name = fmt.Sprintf("t%d", i)
		default:
			name = fmt.Sprintf("blk.0.dup")
		}
		kind := zzverif.Pick(r, verifKinds)
		nd := r.Intn(4)
		shape := make([]uint64, nd)
		for j := range shape {
			shape[j] = uint64(r.Pick3(0, 7, 33))
			if r.Chance(1, 6) {
				shape[j] = uint64(zzverif.Pick(r, []int{32, 64, 256}))
			}
		}
		t := Tensor{Name: name, Kind: kind, Shape: shape}
		sz := t.Size()
		if sz > 1<<16 {
			i--
			continue
		}
		out = append(out, verifTensor{name, kind, shape, r.Bytes(int(sz))})
	}
	return out
}

func verifTensorLine(ts []verifTensor) string {
	var sb strings.Builder
	fmt.Fprintf(&sb, "%d", len(ts))
	for _, t := range ts {
		fmt.Fprintf(&sb, " %s %d %d", zzverif.Hex([]byte(t.name)), t.kind, len(t.shape))
		for _, d := range t.shape {
			fmt.Fprintf(&sb, " %d", d)
		}
		sb.WriteString(" " + zzverif.Hex(t.data))
	}
	return sb.String()
}

// verifWT writes its bytes and reports a count chosen by mode: 0 exact (one Write), 1 always 0 (like the
// tensor writers of convert/), 2 exact but in two Write calls, 3 too large.
type verifWT struct {
	data []byte
	mode int
	id   int    // position in the caller's list: how the driver recognises the tensor after WriteGGUF's sort
	seq  *[]int // when set, WriteTo appends id: the order of the data section IS the order of the WriteTo calls
}

func (w verifWT) WriteTo(dst io.Writer) (int64, error) {
	if w.seq != nil {
		*w.seq = append(*w.seq, w.id)
	}
	switch w.mode {
	case 2:
		h := len(w.data) / 2
		if _, err := dst.Write(w.data[:h]); err != nil {
			return 0, err
		}
		_, err := dst.Write(w.data[h:])
		return int64(len(w.data)), err
	case 4: // the data source fails part way (disk error, broken safetensors): WriteGGUF must not report success
		n, _ := dst.Write(w.data[:len(w.data)/2])
		return int64(n), errVerifSource
	default:
		_, err := dst.Write(w.data)
		return []int64{int64(len(w.data)), 0, 0, int64(len(w.data)) + 7}[w.mode], err
	}
}

var errVerifSource = fmt.Errorf("verif: tensor data source failed")

// verifC05FailingSource: a file whose i-th tensor source fails must make WriteGGUF return an error (a writer that
// swallows it leaves a short file behind a nil result: decoded locations outside the file, end offset != length).
func verifC05FailingSource(out *zzverif.Out, dir string, kvs []verifKV, ts []verifTensor, bad int) {
	kv := KV{}
	for _, e := range kvs {
		kv[e.key] = e.val
	}
	gts := make([]Tensor, len(ts))
	for i, t := range ts {
		mode := 0
		if i == bad {
			mode = 4
		}
		gts[i] = Tensor{Name: t.name, Kind: t.kind, Shape: t.shape, WriterTo: verifWT{t.data, mode, i, nil}}
	}
	f, err := os.Create(filepath.Join(dir, "c05-fail.gguf"))
	if err != nil {
		panic(err)
	}
	defer os.Remove(f.Name())
	defer f.Close()
	out.Count("failing_source_cases")
	if err := verifC05CallWrite(f, kv, gts); err == nil {
		st, _ := f.Stat()
		out.L2("source-error-swallowed", fmt.Sprintf("gguf-failsrc %d ", bad)+verifKVLine(kvs)+" "+verifTensorLine(ts),
			fmt.Sprintf("the source of tensor #%d (%q) failed after %d of %d bytes, WriteGGUF returned nil and left a file of %d bytes", bad, ts[bad].name, len(ts[bad].data)/2, len(ts[bad].data), st.Size()))
	}
}

// verifC05Variant: which writer the tree has, probed on the real code (variant argument of the `gguf-enc` oracle command).
// Bit 1: WriteGGUF refuses a general.alignment that is not a non-zero uint32 (finding C05 F1c repaired); the model has both
// writers, the run follows the tree, and the lenient writer's consequence is reported by L2 (decode-error on a written file).
var verifC05VariantCache = -1

func verifC05Variant(dir string) int {
	if verifC05VariantCache >= 0 {
		return verifC05VariantCache
	}
	f, err := os.Create(filepath.Join(dir, "c05-probe.gguf"))
	if err != nil {
		panic(err)
	}
	defer os.Remove(f.Name())
	defer f.Close()
	verifC05VariantCache = 0
	if err := WriteGGUF(f, KV{"general.alignment": "abc"}, nil); err != nil {
		verifC05VariantCache = 2
	}
	return verifC05VariantCache
}

// verifC05CallWrite: WriteGGUF with a run-time panic turned into an error (upstream's writer divides by a zero alignment
// as soon as there is a tensor to pad)
func verifC05CallWrite(f *os.File, kv KV, gts []Tensor) (err error) {
	defer func() {
		if p := recover(); p != nil {
			err = fmt.Errorf("panic: %v", p)
		}
	}()
	return WriteGGUF(f, kv, gts)
}

// verifErrClass: a decoder error as the oracle prints it (the three classes callers can tell apart)
func verifErrClass(err error) string {
	switch {
	case errors.Is(err, io.EOF):
		return "err:eof"
	case errors.Is(err, io.ErrUnexpectedEOF):
		return "err:ueof"
	}
	return "err:invalid"
}

// verifC05AlignValid: the key is absent or a non-zero uint32 (the inputs for which a file can exist at all)
func verifC05AlignValid(kvs []verifKV) bool {
	for _, e := range kvs {
		if e.key == "general.alignment" {
			a, ok := e.val.(uint32)
			return ok && a != 0
		}
	}
	return true
}

// verifWrite runs the real WriteGGUF into a real file and returns the bytes and the
// tensor order the writer's sort produced.
func verifWrite(dir string, kvs []verifKV, ts []verifTensor) (data []byte, order []verifTensor, err error) {
	kv := KV{}
	for _, e := range kvs {
		kv[e.key] = e.val
	}
	gts := make([]Tensor, len(ts))
	var seq []int
	for i, t := range ts {
		// the data source's WriteTo result is not part of the contract WriteGGUF may rely on for the layout
		// (every WriterTo in convert/ writes its bytes and returns 0): vary it, the file must not depend on it.
		// The source also carries the tensor's position in the caller's list: WriteGGUF sorts the slice in place and may
		// assign any Tensor field, so the order it wrote is read back from the sources, not from a field.
		gts[i] = Tensor{Name: t.name, Kind: t.kind, Shape: t.shape, WriterTo: verifWT{t.data, (len(t.data) + i) % 4, i, &seq}}
	}
	f, err := os.Create(filepath.Join(dir, "c05.gguf"))
	if err != nil {
		return nil, nil, err
	}
	defer os.Remove(f.Name())
	defer f.Close()
	if err := verifC05CallWrite(f, kv, gts); err != nil {
		return nil, nil, err
	}
	// the order the writer laid the tensors out in = the order it asked the sources for their bytes (independent of
	// whether the sort works in place or on a copy); every source must have been asked exactly once
	if len(seq) != len(ts) {
		return nil, nil, fmt.Errorf("verif: WriteGGUF asked %d of %d tensor sources for data", len(seq), len(ts))
	}
	for _, id := range seq {
		order = append(order, ts[id])
	}
	if _, err := f.Seek(0, io.SeekStart); err != nil {
		return nil, nil, err
	}
	data, err = io.ReadAll(f)
	return data, order, err
}

// verifC05Property evaluates the property directly on the real decode of real output.
func verifC05Property(data []byte, kvs []verifKV, order []verifTensor, maxArray int) (string, string) {
	g, end, err := Decode(bytes.NewReader(data), maxArray)
	if err != nil {
		return "decode-error", err.Error()
	}
	if end != int64(len(data)) {
		return "end-offset", fmt.Sprintf("end=%d len=%d", end, len(data))
	}
	kv := g.KV()
	if len(kv) != len(kvs)+1 {
		return "kv-count", fmt.Sprintf("decoded %d want %d+1", len(kv), len(kvs))
	}
	limit := maxArray
	if limit == 0 {
		limit = 1024
	}
	for _, e := range kvs {
		got, ok := kv[e.key]
		if !ok {
			return "kv-missing", e.key
		}
		want := verifExpectVal(e.val, limit)
		if verifShowVal(got) != want {
			return "kv-value", fmt.Sprintf("%q: got %s want %s", e.key, verifShowVal(got), want)
		}
	}
	align := uint64(kv.Uint("general.alignment", 32))
	ts := g.Tensors()
	if len(ts.items) != len(order) {
		return "tensor-count", ""
	}
	if len(order) > 0 && ts.Offset%align != 0 {
		return "base-unaligned", fmt.Sprint(ts.Offset)
	}
	for i, t := range ts.items {
		w := order[i]
		if t.Name != w.name || t.Kind != w.kind || len(t.Shape) != len(w.shape) {
			return "tensor-info", fmt.Sprintf("#%d %q", i, t.Name)
		}
		for j := range t.Shape {
			if t.Shape[j] != w.shape[len(w.shape)-1-j] {
				return "tensor-shape", fmt.Sprintf("#%d", i)
			}
		}
		if t.Offset%align != 0 {
			return "offset-unaligned", fmt.Sprintf("#%d off=%d align=%d", i, t.Offset, align)
		}
		lo := ts.Offset + t.Offset
		hi := lo + uint64(len(w.data))
		if hi > uint64(len(data)) || !bytes.Equal(data[lo:hi], w.data) {
			return "tensor-bytes", fmt.Sprintf("#%d name=%q declared=%d size=%d", i, t.Name, t.Offset, len(w.data))
		}
	}
	return "", ""
}

func verifExpectVal(v any, limit int) string {
	switch x := v.(type) {
	case []int32:
		return verifExpectArr(len(x), limit, func(i int) any { return x[i] })
	case []uint32:
		return verifExpectArr(len(x), limit, func(i int) any { return x[i] })
	case []float32:
		return verifExpectArr(len(x), limit, func(i int) any { return x[i] })
	case []string:
		return verifExpectArr(len(x), limit, func(i int) any { return x[i] })
	}
	return verifShowVal(v)
}

func verifExpectArr(n, limit int, at func(int) any) string {
	if limit >= 0 && n > limit {
		return fmt.Sprintf("arr:%d:nil", n)
	}
	parts := make([]string, n)
	for i := range parts {
		parts[i] = verifShowVal(at(i))
	}
	return fmt.Sprintf("arr:%d:[%s]", n, strings.Join(parts, ","))
}

// verifIndependentSize: byte size of a tensor computed WITHOUT the code under test, for the kinds whose block layout is
// fixed by the ggml format (type size / block size): elements = product of the dimensions (1 for a scalar), 64-bit wrap.
func verifIndependentSize(kind uint32, shape []uint64) (uint64, bool) {
	tb := map[uint32][2]uint64{0: {4, 1}, 1: {2, 1}, 2: {18, 32}, 3: {20, 32}, 6: {22, 32}, 7: {24, 32}, 8: {34, 32}, 24: {1, 1}, 25: {2, 1}, 26: {4, 1}, 27: {8, 1}, 28: {8, 1}, 30: {2, 1}}
	e, ok := tb[kind]
	if !ok {
		return 0, false
	}
	n := uint64(1)
	for _, d := range shape {
		n *= d
	}
	return n * e[0] / e[1], true
}

func verifC05Case(out *zzverif.Out, dir string, kvs []verifKV, ts []verifTensor, maxArray int) {
	for _, t := range ts {
		if want, ok := verifIndependentSize(t.kind, t.shape); ok {
			if got := (Tensor{Kind: t.kind, Shape: t.shape}).Size(); got != want {
				out.L2("tensor-size", verifKVLine(nil)+" "+verifTensorLine([]verifTensor{t}), fmt.Sprintf("kind %d shape %v: Tensor.Size() = %d, the format says %d bytes", t.kind, t.shape, got, want))
			}
			out.Count("tensor_size_checked_independently")
		}
	}
	variant := verifC05Variant(dir)
	if !verifC05AlignValid(kvs) {
		out.Count("cases_alignment_invalid")
	}
	data, order, err := verifWrite(dir, kvs, ts)
	if err != nil {
		out.Count("write_error")
		// the writer refused: compared with the model (L1); a refusal of an input whose alignment is valid is a failure
		impl := "err:invalid"
		if strings.Contains(err.Error(), "panic:") {
			impl = "panic:other"
			if strings.Contains(err.Error(), "divide by zero") {
				impl = "panic:alignment-zero"
			}
		}
		out.Case(fmt.Sprintf("gguf-enc %d ", variant)+verifKVLine(kvs)+" "+verifTensorLine(ts), impl)
		if verifC05AlignValid(kvs) {
			out.L2("write-error", fmt.Sprintf("gguf-enc %d ", variant)+verifKVLine(kvs)+" "+verifTensorLine(ts), err.Error())
		} else {
			out.Count("write_refused_invalid_alignment")
		}
		out.Count("cases")
		return
	}
	encLine := fmt.Sprintf("gguf-enc %d ", variant) + verifKVLine(kvs) + " " + verifTensorLine(order)
	out.Case(encLine, "ok "+zzverif.Hex(data))
	g, end, err := Decode(bytes.NewReader(data), maxArray)
	decLine := fmt.Sprintf("gguf-dec %d - %s", maxArray, zzverif.Hex(data))
	if err != nil {
		out.Case(decLine, verifErrClass(err))
	} else {
		out.Case(decLine, verifSummary(g, end))
	}
	if kind, detail := verifC05Property(data, kvs, order, maxArray); kind != "" {
		out.L2(kind, encLine, detail)
	}
	// the same file as the second model of a bigger file (create decodes several models back to back from one
	// reader): every position the decoder reports is an absolute file offset
	if len(data) < 4096 && (len(data)+len(kvs))%3 == 0 {
		for _, pre := range []int{1, 24, 32, 100, 4096, 40000} {
			whole := append(make([]byte, pre), data...)
			for i := 0; i < pre; i++ {
				whole[i] = byte(i*7 + 1)
			}
			rd := bytes.NewReader(whole)
			rd.Seek(int64(pre), io.SeekStart)
			g2, end2, err2 := Decode(rd, maxArray)
			atLine := fmt.Sprintf("gguf-dec-at %d %d %s", maxArray, pre, zzverif.Hex(whole))
			if err2 != nil {
				out.Case(atLine, verifErrClass(err2))
			} else {
				out.Case(atLine, verifSummary(g2, end2))
				// property at the shifted position when the shift keeps the alignment: same tensors, locations moved by pre
				if g, _, err := Decode(bytes.NewReader(data), maxArray); err == nil {
					al := int(g.KV().Uint("general.alignment", 32))
					if al > 0 && pre%al == 0 && len(g.Tensors().Items()) > 0 {
						if g2.Tensors().Offset != g.Tensors().Offset+uint64(pre) || end2 != int64(len(whole)) {
							out.L2("decode-at-offset", atLine, fmt.Sprintf("decoded at file offset %d: tensor data start %d (standalone %d), end %d (file %d)", pre, g2.Tensors().Offset, g.Tensors().Offset, end2, len(whole)))
						}
					}
				}
			}
			out.Count("decode_at_offset_cases")
		}
	}
	out.Count("cases")
	if len(ts) == 0 {
		out.Count("cases_no_tensor")
	}
	for i := range order {
		if order[i].name != ts[i].name || !bytes.Equal(order[i].data, ts[i].data) {
			out.Count("cases_sort_reordered")
			break
		}
	}
	for _, e := range kvs {
		if a, ok := e.val.(uint32); ok && e.key == "general.alignment" && a != 32 && a != 0 {
			out.Count("cases_alignment_not_32")
			if a&(a-1) != 0 {
				out.Count("cases_alignment_not_power_of_two")
			}
		}
		switch v := e.val.(type) {
		case string:
			if v == "" {
				out.Count("kv_empty_string")
			}
		case []int32:
			verifC05CountArr(out, len(v), maxArray)
		case []uint32:
			verifC05CountArr(out, len(v), maxArray)
		case []float32:
			verifC05CountArr(out, len(v), maxArray)
		case []string:
			verifC05CountArr(out, len(v), maxArray)
		}
	}
	out.Add("tensors", len(ts))
	out.Add("kvs", len(kvs))
	if len(ts) >= 3 {
		out.Count("cases_ge3_tensors")
	}
	for _, t := range ts {
		if len(t.data)%32 != 0 {
			out.Count("tensor_size_not_multiple_of_32")
		}
		out.Count(fmt.Sprintf("kind_%d", t.kind))
	}
	for _, e := range kvs {
		out.Count("kvtype_" + e.tag)
	}
}

func verifC05CountArr(out *zzverif.Out, n, maxArray int) {
	limit := maxArray
	if limit == 0 {
		limit = 1024
	}
	if limit >= 0 && n == limit {
		out.Count("kv_array_at_limit")
	}
	if limit >= 0 && n == limit+1 {
		out.Count("kv_array_limit_plus_1")
	}
	switch {
	case n == 0:
		out.Count("kv_empty_array")
	case limit >= 0 && n > limit:
		out.Count("kv_array_not_collected")
	default:
		out.Count("kv_array_collected")
	}
}

func TestVerifC05(t *testing.T) {
	out := zzverif.NewOut()
	defer out.Close()
	dir := zzverif.OutDir()
	if rp := os.Getenv("VERIF_REPLAY"); rp != "" {
		verifC05Replay(t, out, dir, rp)
		return
	}
	root := zzverif.NewRng(zzverif.Seed())
	n := zzverif.EnvInt("VERIF_N", 2000)
	// the writer the tree is EXPECTED to have validates general.alignment (C05 F1c, repaired in /repo by c8efab438): the
	// check requires this counter, so a tree that lost the repair is reported (besides the L2 decode-error on its files)
	out.Add("writer_validates_alignment", verifC05Variant(dir)/2)
	// corpus first: the minimal F1 witness (three 4-byte tensors)
	three := []verifTensor{{"a", 0, []uint64{1}, []byte{1, 2, 3, 4}}, {"b", 0, []uint64{1}, []byte{5, 6, 7, 8}}, {"c", 0, []uint64{1}, []byte{9, 10, 11, 12}}}
	verifC05Case(out, dir, nil, three, 0)
	for i := 0; i < n; i++ {
		r := root.Fork()
		kvs := verifGenKV(r)
		ts := verifGenTensors(r)
		maxArray := zzverif.Pick(r, []int{0, 0, -1, 3})
		verifC05Case(out, dir, kvs, ts, maxArray)
		if len(ts) > 0 && r.Chance(1, 8) {
			verifC05FailingSource(out, dir, kvs, ts, r.Intn(len(ts)))
		}
	}
}

// verifC05Replay re-runs one recorded `gguf-enc` line against the real code.
func verifC05Replay(t *testing.T, out *zzverif.Out, dir, path string) {
	b, err := os.ReadFile(path)
	if err != nil {
		t.Fatal(err)
	}
	toks := strings.Fields(strings.TrimSpace(string(b)))
	if len(toks) >= 3 && toks[0] == "gguf-failsrc" {
		toks = append([]string{"gguf-enc"}, toks[1:]...)
	}
	if len(toks) < 3 || toks[0] != "gguf-enc" {
		t.Fatalf("bad replay line")
	}
	p := 2
	next := func() string { s := toks[p]; p++; return s }
	num := func() uint64 { v, _ := strconv.ParseUint(next(), 10, 64); return v }
	var kvs []verifKV
	for i, n := 0, int(num()); i < n; i++ {
		k := string(zzverif.Unhex(next()))
		tag := next()
		switch tag {
		case "u32":
			kvs = append(kvs, verifKV{k, tag, uint32(num())})
		case "f32":
			kvs = append(kvs, verifKV{k, tag, math.Float32frombits(uint32(num()))})
		case "bool":
			kvs = append(kvs, verifKV{k, tag, num() != 0})
		case "str":
			kvs = append(kvs, verifKV{k, tag, string(zzverif.Unhex(next()))})
		case "ai32":
			a := make([]int32, num())
			for j := range a {
				a[j] = int32(uint32(num()))
			}
			kvs = append(kvs, verifKV{k, tag, a})
		case "au32":
			a := make([]uint32, num())
			for j := range a {
				a[j] = uint32(num())
			}
			kvs = append(kvs, verifKV{k, tag, a})
		case "af32":
			a := make([]float32, num())
			for j := range a {
				a[j] = math.Float32frombits(uint32(num()))
			}
			kvs = append(kvs, verifKV{k, tag, a})
		case "astr":
			a := make([]string, num())
			for j := range a {
				a[j] = string(zzverif.Unhex(next()))
			}
			kvs = append(kvs, verifKV{k, tag, a})
		}
	}
	var ts []verifTensor
	for i, n := 0, int(num()); i < n; i++ {
		name := string(zzverif.Unhex(next()))
		kind := uint32(num())
		shape := make([]uint64, num())
		for j := range shape {
			shape[j] = num()
		}
		ts = append(ts, verifTensor{name, kind, shape, zzverif.Unhex(next())})
	}
	// the case line does not carry the array limit the failing case ran with: replay under all three
	for _, maxArray := range []int{0, -1, 3} {
		verifC05Case(out, dir, kvs, ts, maxArray)
	}
}

// TestVerifC05Table executes the real typeSize/blockSize for kinds 0..63 (the regenerated
// table consumed by lean/OllamaVerif/Tie/C05.lean).
func TestVerifC05Table(t *testing.T) {
	f, err := os.Create(filepath.Join(zzverif.OutDir(), "table.txt"))
	if err != nil {
		t.Fatal(err)
	}
	defer f.Close()
	for k := uint32(0); k < 64; k++ {
		x := Tensor{Kind: k}
		fmt.Fprintf(f, "%d %d %d\n", k, x.typeSize(), x.blockSize())
	}
	// the real ggufPadding over offsets 0..99 x alignments 1..40 (+ the page-sized ones): the model's `padding`
	pf, err := os.Create(filepath.Join(zzverif.OutDir(), "padding.txt"))
	if err != nil {
		t.Fatal(err)
	}
	defer pf.Close()
	aligns := []int64{64, 100, 128, 4096}
	for a := int64(1); a <= 40; a++ {
		aligns = append(aligns, a)
	}
	for _, a := range aligns {
		for off := int64(0); off < 100; off++ {
			fmt.Fprintf(pf, "%d %d %d\n", off, a, ggufPadding(off, a))
		}
		for _, off := range []int64{4095, 4096, 4097, 1 << 20, 1<<40 + 17, 1<<62 + 5} {
			fmt.Fprintf(pf, "%d %d %d\n", off, a, ggufPadding(off, a))
		}
	}
}
