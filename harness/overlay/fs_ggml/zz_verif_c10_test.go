package ggml

// Verification driver for C10 (decoder safety on untrusted bytes).
// TestVerifC10Gen writes the inputs (one `gguf-safe` oracle command per line);
// TestVerifC10Worker decodes them with the real decoder, one result line per input, flushed,
// so that the parent can attribute a process death (fatal out-of-memory) to one input.

import (
	"bufio"
	"bytes"
	"encoding/binary"
	"errors"
	"fmt"
	"io"
	"os"
	"path/filepath"
	"runtime"
	"strings"
	"testing"

	"github.com/ollama/ollama/zzverif"
)

const verifC10BudgetBase = 1 << 20

func verifC10Budget(n int) int { return verifC10BudgetBase + 64*n }

// interesting replacement values for length / count / type / dimension fields
func verifC10Values(r *zzverif.Rng, remaining int) uint64 {
	vals := []uint64{0, 1, 2, 3, 7, 8, 9, 12, 13, 255, 1024, 1025, 16384, 16385,
		1 << 31, 1<<32 - 1, 1 << 32, 1 << 40, 1 << 62, 1<<63 - 1, 1 << 63, 1<<63 + 1, 1<<64 - 1, 1<<64 - 2, 1<<64 - 32,
		uint64(remaining), uint64(remaining) + 1, uint64(max(remaining-1, 0)), uint64(max(remaining-8, 0))}
	return zzverif.Pick(r, vals)
}

func verifC10Base(r *zzverif.Rng, dir string) []byte {
	for {
		kvs := verifGenKV(r)
		ts := verifGenTensors(r)
		if len(ts) > 4 {
			ts = ts[:4]
		}
		for i := range ts {
			if len(ts[i].data) > 256 {
				// keep base files small: shrink the tensor to a single element row
				ts[i].shape = nil
				ts[i].kind = 0
				ts[i].data = r.Bytes(4)
			}
		}
		data, _, err := verifWrite(dir, kvs, ts)
		if err == nil && len(data) < 6000 {
			return data
		}
	}
}

// hand-written v1 / big-endian files so that those decoder paths see structured input too
func verifC10Legacy(r *zzverif.Rng) []byte {
	var b bytes.Buffer
	var bo binary.ByteOrder = binary.LittleEndian
	version := uint32(zzverif.Pick(r, []int{1, 1, 2, 3}))
	if r.Chance(1, 3) {
		bo = binary.BigEndian
		b.WriteString("FUGG")
	} else {
		b.WriteString("GGUF")
	}
	w := func(v any) { binary.Write(&b, bo, v) }
	str := func(s string) {
		if version == 1 {
			w(uint64(len(s) + 1))
			b.WriteString(s)
			b.WriteByte(0)
		} else {
			w(uint64(len(s)))
			b.WriteString(s)
		}
	}
	w(version)
	nt, nkv := uint64(r.Intn(3)), uint64(r.Intn(4))
	if version == 1 {
		w(uint32(nt))
		w(uint32(nkv))
	} else {
		w(nt)
		w(nkv)
	}
	for i := uint64(0); i < nkv; i++ {
		str(zzverif.Pick(r, []string{"general.alignment", "a", "general.architecture", "k" + fmt.Sprint(i)}))
		switch r.Intn(6) {
		case 0:
			w(uint32(4))
			w(uint32(zzverif.Pick(r, []int{0, 1, 8, 32})))
		case 1:
			w(uint32(8))
			str("hello")
		case 2:
			w(uint32(9))
			w(uint32(zzverif.Pick(r, []int{0, 4, 5, 8, 9, 13})))
			n := r.Intn(3)
			if version == 1 {
				w(uint32(n))
			} else {
				w(uint64(n))
			}
			for j := 0; j < n; j++ {
				w(uint32(j))
			}
		case 3:
			w(uint32(r.Intn(14)))
			w(uint64(r.U64()))
		case 4:
			w(uint32(7))
			w(uint8(r.Intn(3)))
		default:
			w(uint32(10))
			w(r.U64())
		}
	}
	for i := uint64(0); i < nt; i++ {
		str(fmt.Sprintf("t%d", i))
		nd := uint32(r.Intn(3))
		w(nd)
		for j := uint32(0); j < nd; j++ {
			w(uint64(r.Intn(5)))
		}
		w(uint32(zzverif.Pick(r, []int{0, 1, 2, 8, 30, 99})))
		w(uint64(0))
	}
	b.Write(r.Bytes(r.Intn(40)))
	return b.Bytes()
}

func verifC10Mutate(r *zzverif.Rng, base []byte) ([]byte, string) {
	b := bytes.Clone(base)
	switch r.Intn(10) {
	case 0: // truncation
		return b[:r.Intn(len(b)+1)], "truncate"
	case 1, 2, 3: // overwrite an aligned-ish 8-byte field
		if len(b) < 32 {
			return b, "none"
		}
		off := r.Range(8, len(b)-8)
		binary.LittleEndian.PutUint64(b[off:], verifC10Values(r, len(b)-off-8))
		return b, "field64"
	case 4, 5: // overwrite a 4-byte field
		if len(b) < 32 {
			return b, "none"
		}
		off := r.Range(4, len(b)-4)
		binary.LittleEndian.PutUint32(b[off:], uint32(verifC10Values(r, len(b)-off-4)))
		return b, "field32"
	case 6: // header counts
		if len(b) < 24 {
			return b, "none"
		}
		off := zzverif.Pick(r, []int{4, 8, 16})
		binary.LittleEndian.PutUint64(b[off:], verifC10Values(r, len(b)-24))
		return b, "header"
	case 7: // flip a byte
		if len(b) == 0 {
			return b, "none"
		}
		b[r.Intn(len(b))] ^= byte(1 << r.Intn(8))
		return b, "bitflip"
	case 8: // version / byte order
		if len(b) < 8 {
			return b, "none"
		}
		if r.Bool() {
			copy(b, "FUGG")
		}
		binary.LittleEndian.PutUint32(b[4:], uint32(zzverif.Pick(r, []int{0, 1, 2, 3, 4, 1 << 24, 3 << 24})))
		return b, "version"
	default: // random garbage after a valid magic
		g := append([]byte("GGUF"), r.Bytes(r.Intn(64))...)
		return g, "random"
	}
}

func verifC10Crafted() [][]byte { return zzverif.C10Crafted() }

func TestVerifC10Gen(t *testing.T) {
	dir := zzverif.OutDir()
	f, err := os.Create(filepath.Join(dir, "ops.txt"))
	if err != nil {
		t.Fatal(err)
	}
	defer f.Close()
	w := bufio.NewWriterSize(f, 1<<20)
	defer w.Flush()
	stats := map[string]int{}
	emit := func(b []byte, maxArray int, kind string) {
		fmt.Fprintf(w, "gguf-safe %d %d %s\n", maxArray, verifC10Budget(len(b)), zzverif.Hex(b))
		stats["gen_"+kind]++
	}
	for _, b := range verifC10Crafted() {
		emit(b, 0, "crafted")
		emit(b, -1, "crafted")
	}
	// structured stream: every length / count / type / value field of valid files x every boundary value
	verifC10SiteInputs(zzverif.EnvInt("VERIF_SITES_MAX", 12000), func(b []byte, maxArray int, site string) {
		emit(b, maxArray, "site_"+site)
	})
	root := zzverif.NewRng(zzverif.Seed())
	n := zzverif.EnvInt("VERIF_N", 3000)
	var base []byte
	for i := 0; i < n; i++ {
		r := root.Fork()
		if i%8 == 0 || base == nil {
			if r.Chance(1, 3) {
				base = verifC10Legacy(r)
			} else {
				base = verifC10Base(r, dir)
			}
			emit(base, zzverif.Pick(r, []int{0, -1, 3}), "valid")
			continue
		}
		m, kind := verifC10Mutate(r, base)
		// sometimes stack a second mutation
		if r.Chance(1, 4) {
			m, _ = verifC10Mutate(r, m)
			kind += "+"
		}
		emit(m, zzverif.Pick(r, []int{0, 0, -1, 3}), kind)
	}
	// every truncation of one valid file (exhaustive for small files)
	tr := verifC10Base(root.Fork(), dir)
	if len(tr) > zzverif.EnvInt("VERIF_TRUNC_MAX", 700) {
		tr = tr[:zzverif.EnvInt("VERIF_TRUNC_MAX", 700)]
	}
	for k := 0; k <= len(tr); k++ {
		emit(tr[:k], 0, "truncate-all")
	}
	sf, _ := os.Create(filepath.Join(dir, "stats.txt"))
	defer sf.Close()
	for k, v := range stats {
		fmt.Fprintf(sf, "%s=%d\n", k, v)
	}
}

func verifC10Classify(maxArray int, data []byte) (res string) {
	budget := verifC10Budget(len(data))
	var before runtime.MemStats
	runtime.ReadMemStats(&before)
	over := func() bool {
		var after runtime.MemStats
		runtime.ReadMemStats(&after)
		return after.TotalAlloc-before.TotalAlloc > 4*uint64(budget)
	}
	defer func() {
		if p := recover(); p != nil {
			msg := fmt.Sprint(p)
			switch {
			case strings.Contains(msg, "makeslice"):
				res = "alloc"
			case strings.Contains(msg, "truncation out of range"):
				res = "panic:v1-string-truncate"
			case strings.Contains(msg, "slice bounds out of range"):
				res = "panic:string-slice-negative"
			case strings.Contains(msg, "index out of range"):
				res = "panic:v1-array-index"
			case strings.Contains(msg, "interface conversion"):
				res = "panic:alignment-type"
			case strings.Contains(msg, "divide by zero"):
				res = "panic:alignment-zero"
			default:
				res = "panic:other:" + strings.ReplaceAll(msg, "\n", " ")
			}
			if over() {
				res = "alloc"
			}
		}
	}()
	g, end, err := Decode(bytes.NewReader(data), maxArray)
	if over() {
		return "alloc"
	}
	if err != nil {
		// the three classes callers can tell apart (create's multi-model loop ends quietly on io.EOF only)
		switch {
		case errors.Is(err, io.EOF):
			return "err:eof"
		case errors.Is(err, io.ErrUnexpectedEOF):
			return "err:ueof"
		}
		return "err:invalid"
	}
	return verifSummary(g, end)
}

func verifC10Nested(depth int) []byte {
	var b bytes.Buffer
	b.WriteString("GGUF")
	binary.Write(&b, binary.LittleEndian, uint32(3))
	binary.Write(&b, binary.LittleEndian, uint64(0)) // tensors
	binary.Write(&b, binary.LittleEndian, uint64(1)) // key/values
	binary.Write(&b, binary.LittleEndian, uint64(1))
	b.WriteString("a")
	binary.Write(&b, binary.LittleEndian, uint32(9)) // value type: array
	level := make([]byte, 12)
	binary.LittleEndian.PutUint32(level, 9) // element type: array
	binary.LittleEndian.PutUint64(level[4:], 1)
	for i := 0; i < depth; i++ {
		b.Write(level)
	}
	binary.Write(&b, binary.LittleEndian, uint32(0)) // innermost: uint8 elements
	binary.Write(&b, binary.LittleEndian, uint64(0)) // none
	return b.Bytes()
}

func TestVerifC10Worker(t *testing.T) {
	in, err := os.Open(os.Getenv("VERIF_IN"))
	if err != nil {
		t.Fatal(err)
	}
	defer in.Close()
	start := zzverif.EnvInt("VERIF_START", 0)
	implName := os.Getenv("VERIF_IMPL_NAME")
	if implName == "" {
		implName = "impl.txt"
	}
	out, err := os.OpenFile(filepath.Join(zzverif.OutDir(), implName), os.O_APPEND|os.O_CREATE|os.O_WRONLY, 0o644)
	if err != nil {
		t.Fatal(err)
	}
	defer out.Close()
	sc := bufio.NewScanner(in)
	sc.Buffer(make([]byte, 1<<20), 1<<28)
	for i := 0; sc.Scan(); i++ {
		if i < start {
			continue
		}
		toks := strings.Fields(sc.Text())
		if len(toks) != 4 || (toks[0] != "gguf-safe" && toks[0] != "gguf-nest") {
			t.Fatalf("bad line %d", i)
		}
		var maxArray int
		fmt.Sscan(toks[1], &maxArray)
		// announce the input before running it, so a death is attributable
		fmt.Fprintf(out, "")
		var data []byte
		if toks[0] == "gguf-nest" {
			// directed search only: one key whose value is an array nested <depth> levels deep (each level: element type
			// "array", count 1), innermost an empty uint8 array.  A decoder that accepts arrays as array elements recurses
			// once per level.
			var depth int
			fmt.Sscan(toks[3], &depth)
			data = verifC10Nested(depth)
		} else {
			data = zzverif.Unhex(toks[3])
		}
		res := verifC10Classify(maxArray, data)
		if _, err := fmt.Fprintln(out, res); err != nil {
			t.Fatal(err)
		}
		if i%64 == 0 {
			runtime.GC()
		}
	}
}
