package ggml

// C10, structured stream: every length / count / type / value field of a structurally valid file — in every context
// the decoder reads it in (key, string value, collected array, array above the collection limit whose strings are
// skipped, tensor name, dimension count, dimension, kind, declared offset, header counts) — is set, one field at a
// time, to every boundary value; and `general.alignment` is written with every value type and every boundary value.
// The random mutation stream of zz_verif_c10_test.go reaches these (site, value) pairs only by chance.

import (
	"bytes"
	"encoding/binary"
	"fmt"
)

type verifC10Field struct {
	off, width int
	what       string
	hot        bool // part of the 1030-string array of the big templates (the only fields mutated there)
	parent     int  // index of the count field of the array this element field belongs to (-1: none)
}

type verifC10Tmpl struct {
	b       bytes.Buffer
	bo      binary.ByteOrder
	version uint32
	fields  []verifC10Field
	hot     bool
	parent  int // count field of the array being written (-1 outside arrays)
}

func (t *verifC10Tmpl) put(v any) { binary.Write(&t.b, t.bo, v) }

// field writes v and records its position as a mutation site
func (t *verifC10Tmpl) field(what string, v any) {
	t.fields = append(t.fields, verifC10Field{t.b.Len(), binary.Size(v), what, t.hot, t.parent})
	t.put(v)
}

func (t *verifC10Tmpl) count(what string, n uint64) {
	defer func() { t.parent = len(t.fields) - 1 }()
	if t.version == 1 {
		t.field(what, uint32(n))
	} else {
		t.field(what, n)
	}
}

func (t *verifC10Tmpl) str(what, s string) {
	if what == "key-len" || what == "tensor-name-len" {
		t.parent = -1
	}
	if t.version == 1 {
		t.field(what, uint64(len(s)+1))
		t.b.WriteString(s)
		t.b.WriteByte(0)
	} else {
		t.field(what, uint64(len(s)))
		t.b.WriteString(s)
	}
}

// verifC10Template: a small valid file that takes the decoder through every reader.  `discard` strings: an array of
// 5 strings (skipped, not collected, when maxArraySize is 3) and, if big, an array of 1030 strings (skipped under the
// default limit of 1024).
func verifC10Template(version uint32, be, big bool) *verifC10Tmpl {
	t := &verifC10Tmpl{bo: binary.LittleEndian, version: version, parent: -1}
	if be {
		t.bo = binary.BigEndian
		t.b.WriteString("FUGG")
	} else {
		t.b.WriteString("GGUF")
	}
	t.put(version)
	nkv := uint64(7)
	if big {
		nkv++
	}
	t.count("header-tensors", 2)
	t.parent = -1
	t.count("header-kvs", nkv)
	t.parent = -1
	t.str("key-len", "general.alignment")
	t.field("value-type", uint32(4))
	t.field("alignment-value", uint32(8))
	t.str("key-len", "general.architecture")
	t.field("value-type", uint32(8))
	t.str("string-len", "llama")
	t.str("key-len", "u8s")
	t.field("value-type", uint32(9))
	t.field("array-type", uint32(0))
	t.count("array-count", 3)
	t.b.Write([]byte{1, 2, 3})
	t.str("key-len", "strs")
	t.field("value-type", uint32(9))
	t.field("array-type", uint32(8))
	t.count("array-count", 5)
	for i := 0; i < 5; i++ {
		t.str("array-string-len", "ab"[:i%3])
	}
	t.str("key-len", "flag")
	t.field("value-type", uint32(7))
	t.b.WriteByte(1)
	t.str("key-len", "u64")
	t.field("value-type", uint32(10))
	t.field("u64-value", uint64(77))
	t.str("key-len", "f32s")
	t.field("value-type", uint32(9))
	t.field("array-type", uint32(6))
	t.count("array-count", 2)
	t.put(uint32(1))
	t.put(uint32(2))
	if big {
		t.hot = true
		t.str("key-len", "many")
		t.field("value-type", uint32(9))
		t.field("array-type", uint32(8))
		t.count("array-count", 1030)
		for i := 0; i < 1030; i++ {
			s := ""
			if i%7 == 3 {
				s = "x"
			}
			if i < 3 || i == 1029 || i == 1024 {
				t.str("skipped-string-len", s)
			} else if version == 1 {
				t.put(uint64(len(s) + 1))
				t.b.WriteString(s)
				t.b.WriteByte(0)
			} else {
				t.put(uint64(len(s)))
				t.b.WriteString(s)
			}
		}
		t.hot = false
	}
	for i := 0; i < 2; i++ {
		t.str("tensor-name-len", fmt.Sprintf("blk.%d.w", i))
		t.field("tensor-dims", uint32(2))
		t.field("tensor-dim", uint64(2))
		t.field("tensor-dim", uint64(3))
		t.field("tensor-kind", uint32(0))
		t.field("tensor-offset", uint64(i*24))
	}
	// data section: padded to 8, two 24-byte tensors
	for t.b.Len()%8 != 0 {
		t.b.WriteByte(0)
	}
	t.b.Write(bytes.Repeat([]byte{0xA5}, 48))
	return t
}

func verifC10Boundary(width, remaining int) []uint64 {
	if width == 4 {
		return []uint64{0, 1, 2, 7, 8, 9, 10, 12, 13, 255, 1024, 1025, 1 << 16, 1 << 31, 1<<31 - 1, 1<<32 - 1, 1<<32 - 2, 1<<32 - 8,
			uint64(uint32(remaining)), uint64(uint32(remaining + 1))}
	}
	v := []uint64{0, 1, 3, 1024, 1025, 16384, 16385, 1 << 31, 1<<32 - 1, 1 << 32, 3 << 32, 1<<32 + 8, 1 << 40, 1 << 61, 1 << 62, 1<<63 - 1, 1 << 63, 1<<63 + 8,
		uint64(remaining), uint64(remaining + 1)}
	for _, k := range []uint64{1, 2, 4, 7, 8, 9, 12, 16, 17, 20, 24, 32, 64} {
		v = append(v, -k) // 2^64 - k: a negative int64, -k
	}
	return v
}

// verifC10AlignmentFiles: `general.alignment` stored with every value type (scalar widths, string, array) and every
// boundary value, followed by one tensor — the decoder must answer with a model or an error
func verifC10AlignmentFiles() [][]byte {
	var out [][]byte
	vals := []uint64{0, 1, 8, 32, 255, 256, 1 << 16, 1<<32 - 1, 1 << 32, 3 << 32, 1<<32 + 32, 1 << 63, 1<<64 - 1, 1<<64 - 32}
	for typ := uint32(0); typ <= 13; typ++ {
		for _, v := range vals {
			var b bytes.Buffer
			w := func(x any) { binary.Write(&b, binary.LittleEndian, x) }
			b.WriteString("GGUF")
			w(uint32(3))
			w(uint64(1))
			w(uint64(1))
			w(uint64(17))
			b.WriteString("general.alignment")
			w(typ)
			switch typ {
			case 0, 1, 7:
				w(uint8(v))
			case 2, 3:
				w(uint16(v))
			case 4, 5, 6:
				w(uint32(v))
			case 8:
				w(uint64(1))
				b.WriteByte(byte(v))
			case 9:
				w(uint32(4))
				w(uint64(1))
				w(uint32(v))
			default:
				w(v)
			}
			w(uint64(1))
			b.WriteString("t")
			w(uint32(1))
			w(uint64(4))
			w(uint32(0))
			w(uint64(0))
			b.Write(make([]byte, 80))
			out = append(out, b.Bytes())
			if typ == 8 || typ == 9 || typ == 13 {
				break // the value does not matter for these
			}
		}
	}
	return out
}

// verifC10SiteInputs calls emit(file, maxArraySize, site) for the whole product; `limit` caps the number of inputs (the
// order interleaves templates so that a cap keeps every site of the small templates)
func verifC10SiteInputs(limit int, emit func(b []byte, maxArray int, site string)) {
	n := 0
	for _, f := range verifC10AlignmentFiles() {
		emit(f, 0, "alignment-typed")
		n++
	}
	type tv struct {
		version  uint32
		be, big  bool
		maxArray []int
	}
	for _, v := range []tv{{3, false, false, []int{0, 3, -1}}, {3, false, true, []int{0}}, {2, false, false, []int{3}}, {3, true, false, []int{3}}, {1, false, false, []int{3, 0}}, {1, false, true, []int{0}}, {3, true, true, []int{0}}} {
		t := verifC10Template(v.version, v.be, v.big)
		base := t.b.Bytes()
		for _, ma := range v.maxArray {
			emit(base, ma, "template")
			for _, f := range t.fields {
				if v.big && !f.hot {
					continue
				}
				for _, val := range verifC10Boundary(f.width, len(base)-f.off-f.width) {
					if n >= limit {
						emit(base, ma, "sites_capped") // reported: the check fails closed on a cut product
						return
					}
					m := bytes.Clone(base)
					if f.width == 4 {
						t.bo.PutUint32(m[f.off:], uint32(val))
					} else {
						t.bo.PutUint64(m[f.off:], val)
					}
					if bytes.Equal(m, base) {
						continue
					}
					emit(m, ma, f.what)
					n++
					// an element field inside an array: the same value under a huge declared element count.  Every
					// iteration of the element loop must consume input (or fail); one that does not — a length that
					// moves the reader backwards or not at all — only shows as non-termination when the count is huge
					if f.parent >= 0 && (val >= 1<<63 || val == 0) {
						for _, cnt := range []uint64{1 << 40, 1<<63 - 1} {
							m2 := bytes.Clone(m)
							pf := t.fields[f.parent]
							if pf.width == 4 {
								t.bo.PutUint32(m2[pf.off:], uint32(1<<31-1))
							} else {
								t.bo.PutUint64(m2[pf.off:], cnt)
							}
							emit(m2, ma, f.what+"-under-huge-count")
							n++
							if pf.width == 4 {
								break
							}
						}
					}
				}
			}
		}
	}
}
