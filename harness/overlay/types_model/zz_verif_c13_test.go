package model

// C13 driver for types/model: ParseNameBare / ParseName / IsValid / String / Filepath /
// ParseNameFromFilepath / isValidPart.  Added by `go test -overlay`; never committed to /repo.

import (
	"fmt"
	"os"
	"path/filepath"
	"strings"
	"testing"

	"github.com/ollama/ollama/zzverif"
)

const c13Root = "/zz/verif models/store" // models dir used for the confinement monitor

func c13Fields(n Name) string { return zzverif.C13Fields(n.Host, n.Namespace, n.Model, n.Tag) }

// c13Filepath calls Filepath and maps its panic to "!".
func c13Filepath(n Name) (p string, ok bool) {
	defer func() {
		if recover() != nil {
			p, ok = "", false
		}
	}()
	return n.Filepath(), true
}

func c13NameCase(out *zzverif.Out, s string) {
	op := "mname " + zzverif.Hex([]byte(s))
	bare := ParseNameBare(s)
	full := ParseName(s)
	valid := full.IsValid()
	str := full.String()
	fp, fpok := c13Filepath(full)
	fph := "!"
	if fpok {
		fph = zzverif.Hex([]byte(fp))
	}
	disp := full.DisplayShortest()
	out.Case(op, fmt.Sprintf("bare=%s full=%s valid=%s str=%s fp=%s disp=%s dbare=%s", c13Fields(bare), c13Fields(full),
		zzverif.C13Bool(valid), zzverif.Hex([]byte(str)), fph, zzverif.Hex([]byte(disp)), zzverif.Hex([]byte(bare.DisplayShortest()))))
	out.Count("cases")
	if valid != full.IsFullyQualified() {
		out.L2("valid-vs-fq", op, "IsValid and IsFullyQualified differ")
	}
	if valid != fpok {
		out.L2("filepath-guard", op, fmt.Sprintf("valid=%v but Filepath ok=%v", valid, fpok))
	}
	if !valid {
		out.Count("name_rejected")
		return
	}
	out.Count("name_accepted")
	// mechanism: an accepted name consists of four parts that each pass the part rule (and so are safe components)
	for k, part := range []string{full.Host, full.Namespace, full.Model, full.Tag} {
		if !isValidPart(partKind(k), part) || strings.IndexFunc(part, func(c rune) bool { return c >= 0x80 }) >= 0 {
			out.L2("accepted-name-invalid-part", op, fmt.Sprintf("part %d = %q does not pass isValidPart", k, part))
		}
	}
	// clause 1: the derived manifest path is confined at depth 4 under <models>/manifests
	p := filepath.Join(c13Root, "manifests", fp)
	if why := zzverif.C13Confined(c13Root, "manifests", p, 4); why != "" {
		out.L2("manifest-path-escapes", op, why+" path="+zzverif.Hex([]byte(p)))
	}
	// clause 2: print/parse round trip
	if again := ParseName(str); again != full {
		out.L2("roundtrip-model", op, "ParseName(String()) = "+c13Fields(again)+" want "+c13Fields(full))
	}
	if again := ParseNameBare(str); again != full {
		out.L2("roundtrip-model-bare", op, "ParseNameBare(String()) = "+c13Fields(again))
	}
	// clause 2 for the third printer: what DisplayShortest prints (list / ps output) is read back as the same name up to
	// letter case, and exactly unless host / namespace are case variants of the defaults (which it abbreviates away)
	if again := ParseName(disp); !again.IsValid() || !again.EqualFold(full) {
		out.L2("roundtrip-display", op, "ParseName(DisplayShortest()) = "+c13Fields(again)+" want "+c13Fields(full))
	} else if again != full {
		out.Count("display_roundtrip_case_only")
		if (again.Host == full.Host || full.Host != defaultHost && strings.EqualFold(full.Host, defaultHost)) &&
			(again.Namespace == full.Namespace || full.Namespace != defaultNamespace && strings.EqualFold(full.Namespace, defaultNamespace)) &&
			again.Model == full.Model && again.Tag == full.Tag {
			// the documented abbreviation of a case variant of a default
		} else {
			out.L2("roundtrip-display", op, "ParseName(DisplayShortest()) = "+c13Fields(again)+" differs beyond the case of a default part")
		}
	} else {
		out.Count("display_roundtrip_exact")
	}
	// Name.EqualFold against spellings of the same and of other names
	for _, other := range []string{str, strings.ToUpper(str), strings.ToLower(str), strings.Replace(str, "s", "\u017f", 1),
		strings.Replace(strings.ToLower(str), "k", "\u212a", 1), str + "x", strings.Replace(str, "/", "/x", 1), full.Model + ":" + full.Tag} {
		c13NFoldCase(out, s, other)
	}
	// Filepath and ParseNameFromFilepath are inverse on accepted names
	if back := ParseNameFromFilepath(fp); back != full {
		out.L2("filepath-inverse", op, "ParseNameFromFilepath(Filepath()) = "+c13Fields(back))
	}
	// case twins: the legacy path keeps the case (recorded as coverage, see notes/C13.md)
	up := Name{strings.ToUpper(full.Host), strings.ToUpper(full.Namespace), strings.ToUpper(full.Model), strings.ToUpper(full.Tag)}
	if up != full && up.IsValid() && full.EqualFold(up) && up.Filepath() != fp {
		out.Count("legacy_case_twin_distinct_path")
	}
}

// c13NFoldCase ties model.Name.EqualFold (the comparison getExistingName uses on the legacy store) to the model: a is
// an accepted name (ASCII parts), b any string read by ParseNameBare.
func c13NFoldCase(out *zzverif.Out, a, b string) {
	na := ParseName(a)
	if !na.IsValid() {
		return
	}
	nb := ParseNameBare(b)
	eq := na.EqualFold(nb)
	op := "nfold " + zzverif.Hex([]byte(a)) + " " + zzverif.Hex([]byte(b))
	out.Case(op, zzverif.C13Bool(eq))
	out.Count("cases")
	if eq {
		out.Count("nfold_equal")
	} else {
		out.Count("nfold_different")
	}
	if nb.EqualFold(na) != eq {
		out.L2("equalfold-asymmetric", op, "a.EqualFold(b) != b.EqualFold(a)")
	}
	// names the legacy lookup joins are valid together and differ at most in letter case of ASCII letters or by a
	// simple-fold partner; when both are valid they have the same lower-case form
	if eq && nb.IsValid() && strings.ToLower(na.String()) != strings.ToLower(nb.String()) {
		out.L2("equalfold-vs-lowercase", op, "EqualFold valid names with different lower-case forms")
	}
}

func c13PathCase(out *zzverif.Out, s string) {
	op := "mpath " + zzverif.Hex([]byte(s))
	n := ParseNameFromFilepath(s)
	out.Case(op, c13Fields(n))
	out.Count("cases")
	if n == (Name{}) {
		out.Count("relpath_rejected")
		return
	}
	out.Count("relpath_accepted")
	if !n.IsFullyQualified() {
		out.L2("relpath-not-fq", op, "accepted relative path is not fully qualified: "+c13Fields(n))
		return
	}
	for k, part := range []string{n.Host, n.Namespace, n.Model, n.Tag} {
		if !isValidPart(partKind(k), part) {
			out.L2("accepted-name-invalid-part", op, fmt.Sprintf("part %d = %q does not pass isValidPart", k, part))
		}
	}
	if n.Filepath() != s {
		out.L2("relpath-inverse", op, "Filepath(ParseNameFromFilepath(s)) != s: "+zzverif.Hex([]byte(n.Filepath())))
	}
	p := filepath.Join(c13Root, "manifests", s)
	if why := zzverif.C13Confined(c13Root, "manifests", p, 4); why != "" {
		out.L2("relpath-escapes", op, why)
	}
}

func c13PartCase(out *zzverif.Out, kind int, s string) {
	op := fmt.Sprintf("vpart M %d %s", kind, zzverif.Hex([]byte(s)))
	ok := isValidPart(partKind(kind), s)
	out.Case(op, zzverif.C13Bool(ok))
	out.Count("cases")
	if ok {
		out.Count("part_accepted")
		if s == "" || s == "." || s == ".." || strings.ContainsAny(s, "/\\\x00") || s[0] == '.' {
			out.L2("part-unsafe", op, "accepted part is not a safe path component")
		}
	}
}


// c13UTF8Sample calls f with valid UTF-8 encodings (2, 3 and 4 bytes) of code points chosen per LOW BYTE class:
// for every value 0..255 of cp&0xFF and every encoded length, the smallest such code point and a seeded random one
// (surrogates skipped).  A decoder that truncates a rune to a byte is sensitive to exactly this class.
func c13UTF8Sample(r *zzverif.Rng, f func(ch string, low, size int)) {
	ranges := [][2]int{{0x80, 0x7FF}, {0x800, 0xFFFF}, {0x10000, 0x10FFFF}}
	for low := 0; low < 256; low++ {
		for ri, rg := range ranges {
			first := rg[0] - rg[0]%256 + low
			if first < rg[0] {
				first += 256
			}
			span := (rg[1] - first) / 256
			cps := []int{first, first + 256*r.Intn(span+1)}
			for _, cp := range cps {
				if cp >= 0xD800 && cp <= 0xDFFF {
					cp += 0x800
				}
				f(string(rune(cp)), low, ri+2)
			}
		}
	}
}

// c13FoldFamily: the DIRECTED family "every string that strings.EqualFold maps onto a default part or onto a stored
// spelling": for each base part, every single-character substitution by a simple-fold partner (LONG S for s/S, KELVIN
// SIGN for k/K, the other letter case), placed in host, namespace, model and tag position of an otherwise default name,
// in fully written and in abbreviated (defaults merged in) form.  f gets the name string and its four intended parts.
func c13FoldFamily(f func(name string, parts [4]string, pos int)) {
	bases := []string{"registry.ollama.ai", "library", "latest", "mistral", "Phi-3.5k", "ks", "_sk", "K"}
	def := [4]string{"registry.ollama.ai", "library", "m", "latest"}
	seen := map[string]bool{}
	for _, b := range bases {
		var variants []string
		for i := 0; i < len(b); i++ {
			c := b[i]
			var subs []string
			switch {
			case c == 's' || c == 'S':
				subs = append(subs, "\u017f")
			case c == 'k' || c == 'K':
				subs = append(subs, "\u212a")
			}
			if c >= 'a' && c <= 'z' || c >= 'A' && c <= 'Z' {
				subs = append(subs, string([]byte{c ^ 0x20}))
			}
			for _, sub := range subs {
				variants = append(variants, b[:i]+sub+b[i+1:])
			}
		}
		variants = append(variants, b, strings.ToUpper(b))
		for _, v := range variants {
			for pos := 0; pos < 4; pos++ {
				p := def
				p[pos] = v
				full := p[0] + "/" + p[1] + "/" + p[2] + ":" + p[3]
				names := []string{full}
				switch pos { // abbreviated forms in which the other parts come from the defaults
				case 1:
					names = append(names, p[1]+"/"+p[2])
				case 2:
					names = append(names, p[2], p[2]+":"+p[3])
				case 3:
					names = append(names, p[2]+":"+p[3])
				}
				for _, nm := range names {
					if !seen[nm] {
						seen[nm] = true
						f(nm, p, pos)
					}
				}
			}
		}
	}
}

func c13Replay(out *zzverif.Out, line string) {
	f := strings.Fields(line)
	switch {
	case len(f) == 2 && f[0] == "mname":
		c13NameCase(out, string(zzverif.Unhex(f[1])))
	case len(f) == 2 && f[0] == "mpath":
		c13PathCase(out, string(zzverif.Unhex(f[1])))
	case len(f) == 3 && f[0] == "nfold":
		c13NFoldCase(out, string(zzverif.Unhex(f[1])), string(zzverif.Unhex(f[2])))
	case len(f) == 4 && f[0] == "vpart":
		var k int
		fmt.Sscan(f[2], &k)
		c13PartCase(out, k, string(zzverif.Unhex(f[3])))
	}
}

func TestVerifC13(t *testing.T) {
	out := zzverif.NewOut()
	defer out.Close()
	if rp := os.Getenv("VERIF_REPLAY"); rp != "" {
		b, _ := os.ReadFile(rp)
		c13Replay(out, strings.TrimSpace(string(b)))
		return
	}
	root := zzverif.NewRng(zzverif.Seed())
	// regression corpus first
	if b, err := os.ReadFile(os.Getenv("VERIF_CORPUS")); err == nil {
		for _, l := range strings.Split(string(b), "\n") {
			if l = strings.TrimSpace(l); l != "" && !strings.HasPrefix(l, "#") {
				c13Replay(out, l)
				out.Count("corpus")
			}
		}
	}
	// witnesses derived by the check from a failed regenerated-table Tie (see vlib/checks/c13.py)
	if b, err := os.ReadFile(os.Getenv("VERIF_WITNESS")); err == nil {
		for _, l := range strings.Split(string(b), "\n") {
			if l = strings.TrimSpace(l); l != "" && !strings.HasPrefix(l, "#") {
				c13Replay(out, l)
				out.Count("tie_witness")
			}
		}
	}
	// directed: Unicode-fold / case spellings of the defaults and of stored names, in every position
	c13FoldFamily(func(nm string, parts [4]string, pos int) {
		c13NameCase(out, nm)
		c13PathCase(out, parts[0]+"/"+parts[1]+"/"+parts[2]+"/"+parts[3])
		c13PartCase(out, pos, parts[pos])
		out.Count("fold_family")
	})
	// valid multi-byte characters, per low-byte class
	c13UTF8Sample(root.Fork(), func(ch string, low, size int) {
		for kind := 0; kind < 5; kind++ {
			c13PartCase(out, kind, ch)
			c13PartCase(out, kind, "a"+ch)
			c13PartCase(out, kind, ch+"a")
		}
		c13NameCase(out, "h/n/"+ch+":t")
		c13NameCase(out, "h"+ch+"/n/m:t"+ch)
		c13PathCase(out, "h/n/"+ch+"/t")
		out.Count(fmt.Sprintf("utf8_sample_%dbyte", size))
	})
	// exhaustive short strings over the class alphabet
	maxLen := zzverif.EnvInt("VERIF_EXH", 3)
	zzverif.C13Exhaustive(zzverif.C13Alphabet, maxLen, func(s string) {
		c13NameCase(out, s)
		out.Count("exhaustive_name")
	})
	zzverif.C13Exhaustive(zzverif.C13Alphabet, zzverif.EnvInt("VERIF_EXH_PATH", 3), func(s string) {
		c13PathCase(out, s)
		out.Count("exhaustive_relpath")
	})
	// relative paths with exactly three separators, exhaustively over a small alphabet
	small := []byte{'a', 'B', '.', ':', '-', '\\'}
	zzverif.C13Exhaustive(small, 1, func(a string) {
		zzverif.C13Exhaustive(small, 1, func(b string) {
			zzverif.C13Exhaustive(small, 1, func(c string) {
				zzverif.C13Exhaustive(small, 2, func(d string) {
					c13PathCase(out, a+"/"+b+"/"+c+"/"+d)
					out.Count("exhaustive_relpath4")
				})
			})
		})
	})
	// length limits
	zzverif.C13LimitParts(root.Fork(), func(kind int, s string) { c13PartCase(out, kind, s) })
	// random / structured
	n := zzverif.EnvInt("VERIF_N", 4000)
	for i := 0; i < n; i++ {
		r := root.Fork()
		class, s := zzverif.C13Name(r)
		out.Count("name_class_" + class)
		c13NameCase(out, s)
		class, s = zzverif.C13RelPath(r)
		out.Count("relpath_class_" + class)
		c13PathCase(out, s)
	}
}

// TestVerifC13Table is Tie 1: the real isValidPart executed on every 1-byte and 2-byte string
// for every part kind, reduced to first-byte / rest-byte sets (after checking that the 2-byte
// relation is exactly their product) and the accepted length interval.
func TestVerifC13Table(t *testing.T) {
	f, err := os.Create(filepath.Join(zzverif.OutDir(), "table.txt"))
	if err != nil {
		t.Fatal(err)
	}
	defer f.Close()
	// the constants the model copies: DefaultName()'s three parts and MissingPart, as the real code has them
	dn := DefaultName()
	fmt.Fprintf(f, "M 0 consthex %s %s %s %s\n", zzverif.Hex([]byte(dn.Host)), zzverif.Hex([]byte(dn.Namespace)), zzverif.Hex([]byte(dn.Tag)), zzverif.Hex([]byte(MissingPart)))
	for kind := 0; kind < 5; kind++ {
		k := partKind(kind)
		var first, rest []string
		inFirst, inRest := [256]bool{}, [256]bool{}
		for b := 0; b < 256; b++ {
			if isValidPart(k, string([]byte{byte(b)})) {
				first = append(first, fmt.Sprint(b))
				inFirst[b] = true
			}
			if isValidPart(k, string([]byte{'a', byte(b)})) {
				rest = append(rest, fmt.Sprint(b))
				inRest[b] = true
			}
		}
		product := 1
		// probes beyond 1 and 2 bytes: the acceptance of ANY string must be "first byte in the first set and every
		// later byte in the rest set"; strings for which the real function says otherwise are emitted as `odd`
		// witnesses (and clear the product flag)
		var odd []string
		probe := func(s string) {
			want := len(s) > 0 && inFirst[s[0]]
			for i := 1; i < len(s) && want; i++ {
				want = inRest[s[i]]
			}
			if len(s) > 0 && isValidPart(k, s) != want {
				product = 0
				if len(odd) < 6 {
					odd = append(odd, zzverif.Hex([]byte(s)))
				}
			}
		}
		for a := 0; a < 256; a++ {
			for b := 0; b < 256; b++ {
				probe(string([]byte{byte(a), byte(b)}))
			}
		}
		c13UTF8Sample(zzverif.NewRng(7), func(ch string, low, size int) {
			probe(ch)
			probe("a" + ch)
			probe(ch + "a")
			probe("a" + ch + "a")
		})
		for b := 0; b < 256; b++ {
			probe(string([]byte{'a', 'a', byte(b)}))
			probe(string([]byte{'a', byte(b), 'a'}))
		}
		lo, hi, contiguous := -1, -1, 1
		for n := 0; n <= 1200; n++ {
			if isValidPart(k, strings.Repeat("a", n)) {
				if lo < 0 {
					lo = n
				}
				if hi >= 0 && hi != n-1 {
					contiguous = 0
				}
				hi = n
			}
		}
		fmt.Fprintf(f, "M %d first %s\n", kind, strings.Join(first, " "))
		fmt.Fprintf(f, "M %d rest %s\n", kind, strings.Join(rest, " "))
		fmt.Fprintf(f, "M %d len %d %d %d %d\n", kind, lo, hi, contiguous, product)
		fmt.Fprintf(f, "M %d odd %s\n", kind, strings.Join(odd, " "))
	}
}
