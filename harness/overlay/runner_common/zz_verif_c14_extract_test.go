package common

import (
	"bytes"
	"fmt"
	"go/ast"
	"go/parser"
	"go/printer"
	"go/token"
	"os"
	"path/filepath"
	"regexp"
	"strings"
	"testing"

	"github.com/ollama/ollama/zzverif"
)

// ---------------------------------------------------------------- Tie 1: structural facts
//
// TestVerifC14Extract parses runner/ollamarunner/runner.go and runner/llamarunner/runner.go of the
// tree under test and prints, for processBatch / removeSequence / flushPending of each, the
// "output skeleton": every statement that mentions the output state (pendingResponses,
// numPredicted, numPredict, the stop functions, flushPending, removeSequence, the EOS test, the
// sampled piece) in source order, with the if/for structure that encloses it and the
// continue/break/return statements of those blocks.  Statements that do not touch the output state
// (cache bookkeeping, logging, batching) are left out, so refactoring them does not change the
// skeleton.  vlib/checks/c14.py writes the result to Generated/C14_Skeleton.lean and Tie/C14.lean
// compares it with the skeleton the model was written against.
var vRelevant = regexp.MustCompile(`\b(pendingResponses|numPredicted|numPredict|FindStop|TruncateStop|ContainsStopSuffix|IncompleteUnicode|flushPending|removeSequence|TokenIsEog|SpecialEOS|doneReason|responses|sequence|ValidString|CompletionResponse|DoneReason|quit|numDecoded)\b`)

// Local variables are handled by OBJECT, not by name, so that renaming a local is not a change of the skeleton:
//   - `src` prints every occurrence of a local of the function as a marker `zzL<k>zz` (k = order of first occurrence);
//     `real` puts the current names back, `skeleton_tmpl.txt` keeps the markers and the table k -> name, and
//     vlib/checks/c14.py accepts a skeleton that equals the recorded one up to a renaming of locals (unification);
//   - a statement is relevant if it mentions a word of vRelevant (fields / functions of the output state) or a local that
//     CARRIES output text: one defined from Decode / TokenToPiece / strings.Join / FindStop or received from
//     `.responses` (`piece`, `sequence`, `joined`, `stop`, `content` in the tree as pinned) — whatever it is called.
var vProducer = regexp.MustCompile(`\b(Decode|TokenToPiece|strings\.Join|FindStop)\(|<-\s*\w+\.responses\b`)
var vMarker = regexp.MustCompile(`zzL(\d+)zz`)

type vSkel struct {
	fset   *token.FileSet
	locals map[*ast.Object]int
	names  []string
	rel    map[int]bool
}

func (v *vSkel) raw(n ast.Node) string {
	var b bytes.Buffer
	printer.Fprint(&b, v.fset, n)
	return strings.Join(strings.Fields(b.String()), " ")
}

// src prints a node with the locals of the current function as markers
func (v *vSkel) src(n ast.Node) string {
	type saved struct {
		id   *ast.Ident
		name string
	}
	var undo []saved
	ast.Inspect(n, func(x ast.Node) bool {
		if id, ok := x.(*ast.Ident); ok && id.Obj != nil {
			if k, ok := v.locals[id.Obj]; ok {
				undo = append(undo, saved{id, id.Name})
				id.Name = fmt.Sprintf("zzL%dzz", k)
			}
		}
		return true
	})
	t := v.raw(n)
	for _, u := range undo {
		u.id.Name = u.name
	}
	return t
}

func (v *vSkel) real(t string) string {
	return vMarker.ReplaceAllStringFunc(t, func(m string) string {
		var k int
		fmt.Sscanf(m, "zzL%dzz", &k)
		return v.names[k]
	})
}

func (v *vSkel) relevant(t string) bool {
	if vRelevant.MatchString(v.real(t)) {
		return true
	}
	for _, m := range vMarker.FindAllStringSubmatch(t, -1) {
		var k int
		fmt.Sscanf(m[1], "%d", &k)
		if v.rel[k] {
			return true
		}
	}
	return false
}

// enter prepares the local-variable table of one function
func (v *vSkel) enter(fd *ast.FuncDecl) {
	v.locals, v.names, v.rel = map[*ast.Object]int{}, nil, map[int]bool{}
	ast.Inspect(fd, func(x ast.Node) bool {
		if id, ok := x.(*ast.Ident); ok && id.Obj != nil && id.Obj.Kind == ast.Var && id.Name != "_" {
			if p := id.Obj.Pos(); p >= fd.Pos() && p <= fd.End() {
				if _, seen := v.locals[id.Obj]; !seen {
					v.locals[id.Obj] = len(v.names)
					v.names = append(v.names, id.Name)
				}
			}
		}
		return true
	})
	ast.Inspect(fd, func(x ast.Node) bool {
		as, ok := x.(*ast.AssignStmt)
		if !ok || as.Tok != token.DEFINE {
			return true
		}
		rhs := ""
		for _, r := range as.Rhs {
			rhs += v.raw(r) + " "
		}
		if !vProducer.MatchString(rhs) {
			return true
		}
		for _, l := range as.Lhs {
			if id, ok := l.(*ast.Ident); ok && id.Obj != nil && id.Name != "err" {
				if k, ok := v.locals[id.Obj]; ok {
					v.rel[k] = true
				}
			}
		}
		return true
	})
}

// returns the tokens of a statement and whether it is relevant by itself
func (v *vSkel) stmt(s ast.Stmt) ([]string, bool) {
	switch x := s.(type) {
	case *ast.BlockStmt:
		return v.block(x.List)
	case *ast.IfStmt:
		head := "if "
		if x.Init != nil {
			head += v.src(x.Init) + "; "
		}
		head += v.src(x.Cond)
		rel := v.relevant(head)
		body, brel := v.block(x.Body.List)
		toks := append([]string{head + " {"}, body...)
		rel = rel || brel
		if x.Else != nil {
			els, erel := v.stmt(x.Else)
			toks = append(append(toks, "} else {"), els...)
			rel = rel || erel
		}
		toks = append(toks, "}")
		return toks, rel
	case *ast.ForStmt:
		head := "for "
		if x.Cond != nil {
			head += v.src(x.Cond)
		}
		rel := v.relevant(head)
		body, brel := v.block(x.Body.List)
		return append(append([]string{head + " {"}, body...), "}"), rel || brel
	case *ast.RangeStmt:
		head := "range " + v.src(x.X)
		body, brel := v.block(x.Body.List)
		return append(append([]string{head + " {"}, body...), "}"), brel
	case *ast.SelectStmt:
		var toks []string
		toks = append(toks, "select {")
		rel := false
		for _, c := range x.Body.List {
			cc := c.(*ast.CommClause)
			head := "default:"
			if cc.Comm != nil {
				head = "case " + v.src(cc.Comm) + ":"
			}
			rel = rel || v.relevant(head)
			body, brel := v.block(cc.Body)
			rel = rel || brel
			toks = append(append(toks, head), body...)
		}
		return append(toks, "}"), rel
	case *ast.BranchStmt, *ast.ReturnStmt:
		return []string{v.src(s)}, false
	default:
		t := v.src(s)
		if strings.HasPrefix(v.real(t), "slog.") {
			return nil, false
		}
		// len(seq.pendingResponses) only feeds the cache-length arithmetic (C07), not the output
		probe := regexp.MustCompile(`len\((zzL\d+zz|\w+)\.pendingResponses\)`).ReplaceAllString(t, "LEN")
		return []string{t}, v.relevant(probe)
	}
}

// a block keeps: relevant children entirely; branch statements only if some sibling is relevant
func (v *vSkel) block(list []ast.Stmt) ([]string, bool) {
	type item struct {
		toks   []string
		rel    bool
		branch bool
	}
	var items []item
	any := false
	for _, s := range list {
		toks, rel := v.stmt(s)
		_, isBr := s.(*ast.BranchStmt)
		_, isRet := s.(*ast.ReturnStmt)
		items = append(items, item{toks, rel, isBr || isRet})
		any = any || rel
	}
	var out []string
	for _, it := range items {
		if it.rel || it.branch {
			out = append(out, it.toks...)
		}
	}
	return out, any
}

// vLocalNames: per function, the current names of its locals in marker order
var vLocalNames = map[string][]string{}

func vExtractFile(path string, funcs []string) (map[string][]string, error) {
	fset := token.NewFileSet()
	f, err := parser.ParseFile(fset, path, nil, 0)
	if err != nil {
		return nil, err
	}
	v := &vSkel{fset: fset}
	res := map[string][]string{}
	for _, d := range f.Decls {
		fd, ok := d.(*ast.FuncDecl)
		if !ok || fd.Body == nil {
			continue
		}
		for _, name := range funcs {
			if fd.Name.Name == name {
				v.enter(fd)
				toks, _ := v.block(fd.Body.List)
				res[name] = toks // with markers
				vLocalNames[path+"\t"+name] = append([]string(nil), v.names...)
			}
		}
	}
	return res, nil
}

func TestVerifC14Extract(t *testing.T) {
	dir := zzverif.OutDir()
	f, err := os.Create(filepath.Join(dir, "skeleton.txt"))
	if err != nil {
		t.Fatal(err)
	}
	defer f.Close()
	// completion: the HTTP handler that turns the Sequence's chunks and outcome into the JSON lines the client reads
	funcs := []string{"processBatch", "removeSequence", "flushPending", "completion"}
	ft, err := os.Create(filepath.Join(dir, "skeleton_tmpl.txt"))
	if err != nil {
		t.Fatal(err)
	}
	defer ft.Close()
	for _, r := range []string{"ollamarunner", "llamarunner"} {
		path := filepath.Join("..", r, "runner.go")
		res, err := vExtractFile(path, funcs)
		if err != nil {
			t.Fatal(err)
		}
		for _, fn := range funcs {
			toks, ok := res[fn]
			if !ok {
				fmt.Fprintf(f, "%s\t%s\t<missing>\n", r, fn)
				continue
			}
			names := vLocalNames[path+"\t"+fn]
			subst := func(tk string) string {
				return vMarker.ReplaceAllStringFunc(tk, func(m string) string {
					var k int
					fmt.Sscanf(m, "zzL%dzz", &k)
					return names[k]
				})
			}
			fmt.Fprintf(ft, "%s\t%s\t#locals\t%s\n", r, fn, strings.Join(names, ","))
			for _, tk := range toks {
				fmt.Fprintf(f, "%s\t%s\t%s\n", r, fn, subst(tk))
				fmt.Fprintf(ft, "%s\t%s\t%s\n", r, fn, tk)
			}
		}
	}
}

// ---------------------------------------------------------------- Tie 1: which FindStop the tree has
//
// TestVerifC14Variant EXECUTES the real common.FindStop (and TruncateStop on its result) on inputs that
// tell the two variants of the Lean model apart (`findStopV pinned`: first listed stop vs earliest
// occurrence), on ties, on the empty stop and on a miss.  vlib/checks/c14.py writes the answers to
// Generated/C14_Variant.lean; Tie/C14Variant.lean decides by `decide` which variant agrees with the
// tree and derives the tree-level theorem from it.  The oracle is asked for that variant.
func TestVerifC14Variant(t *testing.T) {
	probes := []struct {
		seq   string
		stops []string
	}{
		{"}\n\n", []string{"\n\n", "}"}}, // F7 witness: first listed "\n\n"@1, earliest "}"@0
		{"}\n\n", []string{"}", "\n\n"}},
		{"xaby", []string{"by", "ab"}},
		{"xaby", []string{"ab", "a"}}, // both start at 1: the first listed
		{"xaby", []string{"a", "ab"}},
		{"a<|b", []string{"|b", "<|", "a<|b!"}},
		{"hello", []string{"z"}},
		{"hello", nil},
		{"", []string{""}},
		{"abc", []string{"c", "", "a"}},
		{"a\xe2\x82\xacb\xe2\x82\xac", []string{"\xacb", "\xe2\x82\xac"}},
	}
	f, err := os.Create(filepath.Join(zzverif.OutDir(), "variant.txt"))
	if err != nil {
		t.Fatal(err)
	}
	defer f.Close()
	hx := func(s string) string { return zzverif.Hex([]byte(s)) }
	for _, p := range probes {
		ok, stop := FindStop(p.seq, p.stops)
		var hs []string
		for _, s := range p.stops {
			hs = append(hs, hx(s))
		}
		res, kept := "none", "-"
		if ok {
			res = "some " + hx(stop)
			ps, _ := TruncateStop([]string{p.seq}, stop)
			kept = hx(strings.Join(ps, ""))
		}
		fmt.Fprintf(f, "%s\t%s\t%s\t%s\n", hx(p.seq), strings.Join(hs, ","), res, kept)
	}
}
