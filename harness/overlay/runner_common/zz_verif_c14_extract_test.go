package common

import (
	"bytes"
	"fmt"
	"go/ast"
	"go/parser"
	"go/printer"
	"go/token"
	"os"
	"path/filepath"
	"regexp"
	"strings"
	"testing"

	"github.com/ollama/ollama/zzverif"
)

// ---------------------------------------------------------------- Tie 1: structural facts
//
// TestVerifC14Extract parses runner/ollamarunner/runner.go and runner/llamarunner/runner.go of the
// tree under test and prints, for processBatch / removeSequence / flushPending of each, the
// "output skeleton": every statement that mentions the output state (pendingResponses,
// numPredicted, numPredict, the stop functions, flushPending, removeSequence, the EOS test, the
// sampled piece) in source order, with the if/for structure that encloses it and the
// continue/break/return statements of those blocks.  Statements that do not touch the output state
// (cache bookkeeping, logging, batching) are left out, so refactoring them does not change the
// skeleton.  vlib/checks/c14.py writes the result to Generated/C14_Skeleton.lean and Tie/C14.lean
// compares it with the skeleton the model was written against.
var vRelevant = regexp.MustCompile(`\b(pendingResponses|numPredicted|numPredict|FindStop|TruncateStop|ContainsStopSuffix|IncompleteUnicode|flushPending|removeSequence|TokenIsEog|SpecialEOS|doneReason|responses|sequence|piece|joined|ValidString|CompletionResponse|DoneReason|quit|numDecoded)\b`)

type vSkel struct {
	fset *token.FileSet
}

func (v *vSkel) src(n ast.Node) string {
	var b bytes.Buffer
	printer.Fprint(&b, v.fset, n)
	return strings.Join(strings.Fields(b.String()), " ")
}

// returns the tokens of a statement and whether it is relevant by itself
func (v *vSkel) stmt(s ast.Stmt) ([]string, bool) {
	switch x := s.(type) {
	case *ast.BlockStmt:
		return v.block(x.List)
	case *ast.IfStmt:
		head := "if "
		if x.Init != nil {
			head += v.src(x.Init) + "; "
		}
		head += v.src(x.Cond)
		rel := vRelevant.MatchString(head)
		body, brel := v.block(x.Body.List)
		toks := append([]string{head + " {"}, body...)
		rel = rel || brel
		if x.Else != nil {
			els, erel := v.stmt(x.Else)
			toks = append(append(toks, "} else {"), els...)
			rel = rel || erel
		}
		toks = append(toks, "}")
		return toks, rel
	case *ast.ForStmt:
		head := "for "
		if x.Cond != nil {
			head += v.src(x.Cond)
		}
		rel := vRelevant.MatchString(head)
		body, brel := v.block(x.Body.List)
		return append(append([]string{head + " {"}, body...), "}"), rel || brel
	case *ast.RangeStmt:
		head := "range " + v.src(x.X)
		body, brel := v.block(x.Body.List)
		return append(append([]string{head + " {"}, body...), "}"), brel
	case *ast.SelectStmt:
		var toks []string
		toks = append(toks, "select {")
		rel := false
		for _, c := range x.Body.List {
			cc := c.(*ast.CommClause)
			head := "default:"
			if cc.Comm != nil {
				head = "case " + v.src(cc.Comm) + ":"
			}
			rel = rel || vRelevant.MatchString(head)
			body, brel := v.block(cc.Body)
			rel = rel || brel
			toks = append(append(toks, head), body...)
		}
		return append(toks, "}"), rel
	case *ast.BranchStmt, *ast.ReturnStmt:
		return []string{v.src(s)}, false
	default:
		t := v.src(s)
		if strings.HasPrefix(t, "slog.") {
			return nil, false
		}
		// len(seq.pendingResponses) only feeds the cache-length arithmetic (C07), not the output
		probe := strings.ReplaceAll(t, "len(seq.pendingResponses)", "LEN")
		return []string{t}, vRelevant.MatchString(probe)
	}
}

// a block keeps: relevant children entirely; branch statements only if some sibling is relevant
func (v *vSkel) block(list []ast.Stmt) ([]string, bool) {
	type item struct {
		toks   []string
		rel    bool
		branch bool
	}
	var items []item
	any := false
	for _, s := range list {
		toks, rel := v.stmt(s)
		_, isBr := s.(*ast.BranchStmt)
		_, isRet := s.(*ast.ReturnStmt)
		items = append(items, item{toks, rel, isBr || isRet})
		any = any || rel
	}
	var out []string
	for _, it := range items {
		if it.rel || it.branch {
			out = append(out, it.toks...)
		}
	}
	return out, any
}

func vExtractFile(path string, funcs []string) (map[string][]string, error) {
	fset := token.NewFileSet()
	f, err := parser.ParseFile(fset, path, nil, 0)
	if err != nil {
		return nil, err
	}
	v := &vSkel{fset: fset}
	res := map[string][]string{}
	for _, d := range f.Decls {
		fd, ok := d.(*ast.FuncDecl)
		if !ok || fd.Body == nil {
			continue
		}
		for _, name := range funcs {
			if fd.Name.Name == name {
				toks, _ := v.block(fd.Body.List)
				res[name] = toks
			}
		}
	}
	return res, nil
}

func TestVerifC14Extract(t *testing.T) {
	dir := zzverif.OutDir()
	f, err := os.Create(filepath.Join(dir, "skeleton.txt"))
	if err != nil {
		t.Fatal(err)
	}
	defer f.Close()
	// completion: the HTTP handler that turns the Sequence's chunks and outcome into the JSON lines the client reads
	funcs := []string{"processBatch", "removeSequence", "flushPending", "completion"}
	for _, r := range []string{"ollamarunner", "llamarunner"} {
		res, err := vExtractFile(filepath.Join("..", r, "runner.go"), funcs)
		if err != nil {
			t.Fatal(err)
		}
		for _, fn := range funcs {
			toks, ok := res[fn]
			if !ok {
				fmt.Fprintf(f, "%s\t%s\t<missing>\n", r, fn)
				continue
			}
			for _, tk := range toks {
				fmt.Fprintf(f, "%s\t%s\t%s\n", r, fn, tk)
			}
		}
	}
}

// ---------------------------------------------------------------- Tie 1: which FindStop the tree has
//
// TestVerifC14Variant EXECUTES the real common.FindStop (and TruncateStop on its result) on inputs that
// tell the two variants of the Lean model apart (`findStopV pinned`: first listed stop vs earliest
// occurrence), on ties, on the empty stop and on a miss.  vlib/checks/c14.py writes the answers to
// Generated/C14_Variant.lean; Tie/C14Variant.lean decides by `decide` which variant agrees with the
// tree and derives the tree-level theorem from it.  The oracle is asked for that variant.
func TestVerifC14Variant(t *testing.T) {
	probes := []struct {
		seq   string
		stops []string
	}{
		{"}\n\n", []string{"\n\n", "}"}}, // F7 witness: first listed "\n\n"@1, earliest "}"@0
		{"}\n\n", []string{"}", "\n\n"}},
		{"xaby", []string{"by", "ab"}},
		{"xaby", []string{"ab", "a"}}, // both start at 1: the first listed
		{"xaby", []string{"a", "ab"}},
		{"a<|b", []string{"|b", "<|", "a<|b!"}},
		{"hello", []string{"z"}},
		{"hello", nil},
		{"", []string{""}},
		{"abc", []string{"c", "", "a"}},
		{"a\xe2\x82\xacb\xe2\x82\xac", []string{"\xacb", "\xe2\x82\xac"}},
	}
	f, err := os.Create(filepath.Join(zzverif.OutDir(), "variant.txt"))
	if err != nil {
		t.Fatal(err)
	}
	defer f.Close()
	hx := func(s string) string { return zzverif.Hex([]byte(s)) }
	for _, p := range probes {
		ok, stop := FindStop(p.seq, p.stops)
		var hs []string
		for _, s := range p.stops {
			hs = append(hs, hx(s))
		}
		res, kept := "none", "-"
		if ok {
			res = "some " + hx(stop)
			ps, _ := TruncateStop([]string{p.seq}, stop)
			kept = hx(strings.Join(ps, ""))
		}
		fmt.Fprintf(f, "%s\t%s\t%s\t%s\n", hx(p.seq), strings.Join(hs, ","), res, kept)
	}
}
