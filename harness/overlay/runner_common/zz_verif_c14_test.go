package common

// C14 driver for the pure functions of runner/common/stop.go (FindStop, ContainsStopSuffix,
// TruncateStop, IncompleteUnicode) and for the model's UTF-8 decoder against unicode/utf8.
// L1: every case goes to the Lean oracle, exact comparison.  L2: independent specifications of the
// four functions evaluated on the real functions' results.
//
// Added with `go test -overlay`; never committed to /repo.

import (
	"fmt"
	"os"
	"strings"
	"testing"
	"unicode/utf8"

	"github.com/ollama/ollama/zzverif"
)

func vHexList(xs []string) string {
	var sb strings.Builder
	fmt.Fprintf(&sb, "%d", len(xs))
	for _, x := range xs {
		sb.WriteString(" " + zzverif.Hex([]byte(x)))
	}
	return sb.String()
}

func vBool(b bool) string {
	if b {
		return "true"
	}
	return "false"
}

// prefix of some valid UTF-8 string (unicode/utf8 only)
func vValidPrefix(s string) bool {
	for len(s) > 0 {
		r, n := utf8.DecodeRuneInString(s)
		if r == utf8.RuneError && n <= 1 {
			return !utf8.FullRuneInString(s)
		}
		s = s[n:]
	}
	return true
}

// vPinnedFindStop selects the model variant the oracle runs for `find`: 1 = FindStop as pinned (first
// listed stop), 0 = the repaired FindStop of proposed_fixes/C14-F7.patch (earliest occurrence).
// vlib/checks/c14.py passes it (PINNED_FINDSTOP); flip it there when the fix is applied to /repo.
var vPinnedFindStop = zzverif.EnvInt("VERIF_C14_PINNED", 1)

func vFind(out *zzverif.Out, seq string, stops []string) {
	line := fmt.Sprintf("find %d ", vPinnedFindStop) + zzverif.Hex([]byte(seq)) + " " + vHexList(stops)
	ok, stop := FindStop(seq, stops)
	obs := "none"
	if ok {
		obs = "some " + zzverif.Hex([]byte(stop))
		out.Count("find_hit")
	}
	out.Case(line, obs)
	// L2: hit iff some listed stop occurs; the returned stop is listed and occurs
	any := false
	for _, s := range stops {
		if strings.Contains(seq, s) {
			any = true
		}
	}
	listed := false
	for _, s := range stops {
		if s == stop {
			listed = true
		}
	}
	if ok != any || (ok && (!listed || !strings.Contains(seq, stop))) {
		out.L2("find-spec", line, obs)
	}
}

func vSuffix(out *zzverif.Out, seq string, stops []string) {
	line := "suffix " + zzverif.Hex([]byte(seq)) + " " + vHexList(stops)
	got := ContainsStopSuffix(seq, stops)
	out.Case(line, vBool(got))
	if got {
		out.Count("suffix_hit")
	}
	// L2 (stated from the sequence's side): some non-empty suffix of seq is a prefix of a stop
	want := false
	for k := 1; k <= len(seq); k++ {
		for _, s := range stops {
			if strings.HasPrefix(s, seq[len(seq)-k:]) {
				want = true
			}
		}
	}
	if got != want {
		out.L2("suffix-spec", line, fmt.Sprintf("got=%v want=%v", got, want))
	}
}

func vTrunc(out *zzverif.Out, pieces []string, stop string) {
	line := "trunc " + vHexList(pieces) + " " + zzverif.Hex([]byte(stop))
	in := append([]string(nil), pieces...)
	res, tr := TruncateStop(in, stop)
	t := 0
	if tr {
		t = 1
		out.Count("trunc_token_truncated")
	}
	out.Case(line, fmt.Sprintf("%s %d", vHexList(res), t))
	// L2: the joined result is the text before the first occurrence; pieces keep their boundaries
	joined := strings.Join(pieces, "")
	want := joined
	if i := strings.Index(joined, stop); i >= 0 {
		want = joined[:i]
		out.Count("trunc_hit")
	}
	bad := strings.Join(res, "") != want || len(res) > len(pieces)
	for i := range res {
		if i >= len(pieces) {
			break
		}
		if i < len(res)-1 && res[i] != pieces[i] {
			bad = true
		}
		if !strings.HasPrefix(pieces[i], res[i]) {
			bad = true
		}
	}
	if n := len(res); n > 0 && n <= len(pieces) && tr != (res[n-1] != pieces[n-1]) {
		bad = true
	}
	if bad {
		out.L2("trunc-spec", line, fmt.Sprintf("res=%s tr=%v", vHexList(res), tr))
	}
}

func vIncomplete(out *zzverif.Out, s string) {
	line := "incomplete " + zzverif.Hex([]byte(s))
	got := IncompleteUnicode(s)
	out.Case(line, vBool(got))
	if got {
		out.Count("incomplete_true")
	}
	// L2: on a prefix of valid UTF-8, "incomplete" is exactly "not valid yet"
	if vValidPrefix(s) {
		out.Count("incomplete_on_valid_prefix")
		if got != !utf8.ValidString(s) {
			out.L2("incomplete-spec", line, fmt.Sprintf("got=%v valid=%v", got, utf8.ValidString(s)))
		}
	}
}

func vValid(out *zzverif.Out, s string) {
	ok := utf8.ValidString(s)
	if ok {
		out.Count("valid_true")
	}
	out.Case("valid "+zzverif.Hex([]byte(s)), vBool(ok))
}

// all strings over alpha of length <= maxLen
func vAll(alpha []string, maxLen int, f func(string)) {
	var rec func(prefix string, left int)
	rec = func(prefix string, left int) {
		f(prefix)
		if left == 0 {
			return
		}
		for _, a := range alpha {
			rec(prefix+a, left-1)
		}
	}
	rec("", maxLen)
}

func vSplits(s string, f func([]string)) {
	n := len(s)
	if n == 0 {
		f(nil)
		f([]string{""})
		return
	}
	for mask := 0; mask < 1<<(n-1); mask++ {
		var ps []string
		start := 0
		for i := 1; i < n; i++ {
			if mask&(1<<(i-1)) != 0 {
				ps = append(ps, s[start:i])
				start = i
			}
		}
		ps = append(ps, s[start:])
		f(ps)
		if mask%5 == 0 { // an empty piece somewhere
			at := mask % (len(ps) + 1)
			q := append(append(append([]string(nil), ps[:at]...), ""), ps[at:]...)
			f(q)
		}
	}
}

var vChars = []string{"a", "b", "}", "\n", " ", "<", "|", "é", "€", "😀", "ß", "日"}
var vBad = []string{"\xff", "\x80", "\xc0", "\xc3", "\xe2\x82", "\xf0\x9f", "\xf0\x9f\x98", "\xed\xa0\x80", "\xf5", "\xbf", "\xf4\x90", "\xe0\x9f"}

func vText(r *zzverif.Rng, n int, badPct int) string {
	var sb strings.Builder
	for i := 0; i < n; i++ {
		if r.Intn(100) < badPct {
			sb.WriteString(zzverif.Pick(r, vBad))
		} else {
			sb.WriteString(zzverif.Pick(r, vChars))
		}
	}
	return sb.String()
}

func vStops(r *zzverif.Rng, text string) []string {
	var stops []string
	ns := r.Range(0, 4)
	for i := 0; i < ns; i++ {
		switch r.Intn(8) {
		case 0, 1, 2:
			if len(text) > 0 {
				a := r.Intn(len(text))
				b := a + r.Range(1, 4)
				if b > len(text) {
					b = len(text)
				}
				stops = append(stops, text[a:b])
				continue
			}
			fallthrough
		case 3, 4:
			stops = append(stops, vText(r, r.Range(1, 3), 0))
		case 5: // extends past the end of the text
			if len(text) > 0 {
				a := r.Intn(len(text))
				stops = append(stops, text[a:]+vText(r, r.Range(1, 2), 0))
				continue
			}
			stops = append(stops, "a")
		case 6:
			stops = append(stops, "")
		default:
			stops = append(stops, vText(r, r.Range(1, 2), 30))
		}
	}
	return stops
}

func vRandomSplit(r *zzverif.Rng, s string) []string {
	var ps []string
	for len(s) > 0 {
		n := r.Pick3(1, 3, 8)
		if n > len(s) {
			n = len(s)
		}
		ps = append(ps, s[:n])
		s = s[n:]
		if r.Chance(1, 15) {
			ps = append(ps, "")
		}
	}
	return ps
}

func TestVerifC14(t *testing.T) {
	out := zzverif.NewOut()
	defer out.Close()
	if rp := os.Getenv("VERIF_REPLAY"); rp != "" {
		vReplay(t, out, rp)
		return
	}
	exh := zzverif.EnvInt("VERIF_EXH", 4)
	// ---- exhaustive small scopes
	// ASCII, stop characters, 2-/3-/4-byte leads and their continuation bytes
	alpha := []string{"a", "}", "\n", "\xc3", "\xa9", "\xe2", "\x82", "\xf0", "\x9f"}
	vAll(alpha, exh+1, func(s string) {
		vIncomplete(out, s)
		vValid(out, s)
		out.Count("exh_unicode")
	})
	// boundary bytes of the well-formed UTF-8 table
	edge := []string{"\x00", "\x7f", "\x80", "\x8f", "\x90", "\x9f", "\xa0", "\xbf", "\xc0", "\xc1", "\xc2", "\xdf", "\xe0", "\xe1", "\xec", "\xed", "\xee", "\xef", "\xf0", "\xf1", "\xf3", "\xf4", "\xf5", "\xff"}
	vAll(edge, exh-1, func(s string) {
		vValid(out, s)
		vIncomplete(out, s)
		out.Count("exh_edge")
	})
	stopSets := [][]string{nil, {"}"}, {"\n\n", "}"}, {"}", "\n\n"}, {"a}", "}a"}, {"\xc3\xa9"}, {"\xe2\x82\xac", "a"}, {""}, {"aa", "a"}, {"\x82"}}
	vAll(alpha[:7], exh, func(s string) {
		for _, st := range stopSets {
			vFind(out, s, st)
			vSuffix(out, s, st)
		}
		out.Count("exh_stops")
	})
	truncStops := []string{"a", "}", "\n\n", "}\n", "aa", "a}", "", "b", "\n}\n"}
	vAll([]string{"a", "}", "\n"}, exh+1, func(s string) {
		vSplits(s, func(ps []string) {
			for _, st := range truncStops {
				vTrunc(out, ps, st)
			}
			out.Count("exh_trunc_splits")
		})
	})
	// ---- random longer
	root := zzverif.NewRng(zzverif.Seed())
	n := zzverif.EnvInt("VERIF_N", 3000)
	for i := 0; i < n; i++ {
		r := root.Fork()
		bad := zzverif.Pick(r, []int{0, 0, 0, 10, 40})
		text := vText(r, r.Pick3(0, 8, 40), bad)
		stops := vStops(r, text)
		vFind(out, text, stops)
		vSuffix(out, text, stops)
		// the tail cut somewhere inside a character / inside a stop
		if len(text) > 0 {
			cut := text[:r.Range(0, len(text))]
			vSuffix(out, cut, stops)
			vIncomplete(out, cut)
			vValid(out, cut)
		}
		vIncomplete(out, text)
		vValid(out, text)
		ps := vRandomSplit(r, text)
		stop := "zz"
		if len(stops) > 0 {
			stop = stops[0]
		}
		vTrunc(out, ps, stop)
		// arbitrary bytes
		raw := string(r.Bytes(r.Range(1, 6)))
		vValid(out, raw)
		vIncomplete(out, raw)
		out.Count("random_rounds")
	}
}

func vReplay(t *testing.T, out *zzverif.Out, path string) {
	b, err := os.ReadFile(path)
	if err != nil {
		t.Fatal(err)
	}
	toks := strings.Fields(strings.TrimSpace(string(b)))
	if len(toks) == 0 {
		return
	}
	un := func(s string) string { return string(zzverif.Unhex(s)) }
	list := func(p int) ([]string, int) {
		var n int
		fmt.Sscanf(toks[p], "%d", &n)
		p++
		var xs []string
		for i := 0; i < n; i++ {
			xs = append(xs, un(toks[p]))
			p++
		}
		return xs, p
	}
	switch toks[0] {
	case "find":
		st, _ := list(3)
		vFind(out, un(toks[2]), st)
	case "suffix":
		st, _ := list(2)
		vSuffix(out, un(toks[1]), st)
	case "trunc":
		ps, p := list(1)
		vTrunc(out, ps, un(toks[p]))
	case "incomplete":
		vIncomplete(out, un(toks[1]))
	case "valid":
		vValid(out, un(toks[1]))
	default:
		t.Skip("not a runner/common case")
	}
}
