package sample

// C18 — the grammar path of Sampler.Sample, driven with the REAL llama.cpp grammar sampler over a small
// synthetic vocabulary (a vocab-only GGUF the driver writes itself; no model file needed).
//
// A grammar history is   G <tempbits> <k> <pbits> <minpbits> <seed> <grammar hex> <ncalls> {<n> <logitbits>*}*
// Per call: the set of token ids the grammar accepts at that point is obtained from the real grammar by
// probing Apply (Apply does not change the grammar state, Accept does); the model gets that set as data.

import (
	"encoding/hex"
	"fmt"
	"math"
	"math/rand/v2"
	"os"
	"path/filepath"
	"strconv"
	"strings"
	"testing"

	"github.com/ollama/ollama/fs/ggml"
	"github.com/ollama/ollama/zzverif"
)

// ids: 0 <unk>, 1 <s>, 2 </s>, 3 "\n", 4.. "a".."h"
var c18VocabTokens = []string{"<unk>", "<s>", "</s>", "<0x0A>", "a", "b", "c", "d", "e", "f", "g", "h"}

var c18Grammars = []string{
	`root ::= "b"`,                        // accept one token, then only end-of-sequence
	`root ::= "b" | "c"`,                  // accept a set
	`root ::= [b-d] [a-c]* "h"`,           // sets that change from call to call
	`root ::= "h"+`,                       // all but one (usually unlikely) token rejected
	`root ::= [a-h]+`,                     // every letter accepted: mostly the fast path
	`root ::= ("a" "b")+ "c"?`,            // alternating singletons
	`root ::= [^a-f]+`,                    // g, h, newline
	`root ::= "g" | "h" | "a" "a" "a"`,    // set, then singleton or end
	`root ::= [a-h] [a-h] "\n"`,           // ends with the byte token
}

func c18MakeVocab() *Vocab {
	types := make([]int32, len(c18VocabTokens))
	scores := make([]float32, len(c18VocabTokens))
	for i := range types {
		types[i], scores[i] = 1, -1
	}
	types[0], types[1], types[2], types[3] = 2, 3, 3, 6
	scores[0], scores[1], scores[2], scores[3] = 0, 0, 0, 0
	kv := ggml.KV{
		"general.architecture":            "llama",
		"tokenizer.ggml.model":            "llama",
		"tokenizer.ggml.tokens":           c18VocabTokens,
		"tokenizer.ggml.scores":           scores,
		"tokenizer.ggml.token_type":       types,
		"tokenizer.ggml.bos_token_id":     uint32(1),
		"tokenizer.ggml.eos_token_id":     uint32(2),
		"tokenizer.ggml.unknown_token_id": uint32(0),
	}
	path := filepath.Join(zzverif.OutDir(), "c18-vocab.gguf")
	f, err := os.Create(path)
	if err != nil {
		panic(err)
	}
	if err := ggml.WriteGGUF(f, kv, nil); err != nil {
		panic(err)
	}
	f.Close()
	return NewVocab(path)
}

type c18GHist struct {
	temp, p, mp float32
	k, seed     int
	grammar     string
	calls       [][]float32
}

func (h *c18GHist) line() string {
	var b strings.Builder
	fmt.Fprintf(&b, "G %s %d %s %s %d %s %d", c18Bits(h.temp), h.k, c18Bits(h.p), c18Bits(h.mp), h.seed,
		hex.EncodeToString([]byte(h.grammar)), len(h.calls))
	for _, v := range h.calls {
		b.WriteByte(' ')
		b.WriteString(c18FList(v))
	}
	return b.String()
}

func c18ParseGHist(line string) *c18GHist {
	f := strings.Fields(line)
	if len(f) < 8 || f[0] != "G" {
		return nil
	}
	h := &c18GHist{temp: c18ParseF(f[1]), p: c18ParseF(f[3]), mp: c18ParseF(f[4])}
	h.k, _ = strconv.Atoi(f[2])
	h.seed, _ = strconv.Atoi(f[5])
	g, err := hex.DecodeString(f[6])
	if err != nil {
		return nil
	}
	h.grammar = string(g)
	nc, _ := strconv.Atoi(f[7])
	pos := 8
	for j := 0; j < nc && pos < len(f); j++ {
		n, err := strconv.Atoi(f[pos])
		if err != nil {
			return nil
		}
		pos++
		v := make([]float32, 0, n)
		for i := 0; i < n && pos < len(f); i++ {
			v = append(v, c18ParseF(f[pos]))
			pos++
		}
		h.calls = append(h.calls, v)
	}
	return h
}

// c18CountSrc counts the words drawn from the sampler's own generator (a *rand.Rand is a rand.Source).
type c18CountSrc struct {
	src rand.Source
	n   int
}

func (c *c18CountSrc) Uint64() uint64 { c.n++; return c.src.Uint64() }

func c18GenGLogits(r *zzverif.Rng, out *zzverif.Out) []float32 {
	n := len(c18VocabTokens)
	v := make([]float32, n)
	switch r.Intn(6) {
	case 0, 1:
		out.Count("gvec_normal")
		for i := range v {
			v[i] = c18RandFloat(r, -10, 10)
		}
	case 2: // most of the vocabulary already masked by the model
		out.Count("gvec_masked")
		for i := range v {
			if r.Chance(2, 3) {
				v[i] = c18NegInf
			} else {
				v[i] = c18RandFloat(r, -10, 10)
			}
		}
	case 3: // one dominant token: the grammar often rejects it (slow path onto unlikely tokens)
		out.Count("gvec_peaked")
		for i := range v {
			v[i] = c18RandFloat(r, -5, 5)
		}
		v[r.Intn(n)] = c18RandFloat(r, 10, 30)
	case 4:
		out.Count("gvec_ties")
		pal := []float32{c18RandFloat(r, -3, 3), c18RandFloat(r, -3, 3), c18NegInf}
		for i := range v {
			v[i] = zzverif.Pick(r, pal)
		}
	default: // a ladder: min-p / top-p cut somewhere in the middle
		out.Count("gvec_ladder")
		step := c18RandFloat(r, 0.2, 3)
		perm := make([]int, n)
		for i := range perm {
			perm[i] = i
		}
		for i := n - 1; i > 0; i-- {
			j := r.Intn(i + 1)
			perm[i], perm[j] = perm[j], perm[i]
		}
		for i := range v {
			v[perm[i]] = -step * float32(i)
		}
	}
	return v
}

func c18GenGHist(r *zzverif.Rng, out *zzverif.Out) *c18GHist {
	n := len(c18VocabTokens)
	h := &c18GHist{grammar: zzverif.Pick(r, c18Grammars)}
	switch r.Intn(8) {
	case 0:
		h.temp = 0
	case 1:
		h.temp = 1
	case 2:
		h.temp = zzverif.Pick(r, []float32{1e-3, 0.1, 5, 100})
	default:
		h.temp = c18RandFloat(r, 0.2, 2)
	}
	h.k = zzverif.Pick(r, []int{0, 0, -1, n, n + 8, 40, 1, 2, 3, 5, n - 1})
	h.p = zzverif.Pick(r, []float32{1, 1, 0.9, 0.95, 0.5, c18RandFloat(r, 0, 1)})
	h.mp = zzverif.Pick(r, []float32{0, 0, 0.05, 0.5, c18RandFloat(r, 0, 1)})
	h.seed = r.Range(1, 1<<30)
	if r.Chance(1, 10) {
		h.seed = c18SpecialSeed(r)
		if h.seed == -1 {
			h.seed = 7
		}
	}
	if r.Chance(1, 8) { // the production default for structured outputs: a grammar on an UNSEEDED sampler
		h.seed = -1
	}
	for j := 0; j < r.Range(1, 5); j++ {
		h.calls = append(h.calls, c18GenGLogits(r, out))
	}
	return h
}

// c18RunGHistUnseeded: grammar + seed -1 (`rng == nil`).  The numbers come from the process-wide generator, so
// neither the path (first pick accepted / retry) nor the draws can be replayed through the model; what holds on
// EITHER path is evaluated on every real result: the token is accepted by the grammar, and — with respect to the
// masked logits — it is in range, not -Inf, an arg-max at temperature 0, and inside the top-k window (a first
// pick that was accepted is in the top-k of the original logits, hence of the masked ones, which are pointwise
// smaller or equal).
func c18RunGHistUnseeded(out *zzverif.Out, g *Grammar, h *c18GHist, line string) {
	realS := NewSampler(h.temp, h.k, h.p, h.mp, h.seed, g)
	out.Case(fmt.Sprintf("newrng %d", h.seed), c18RngKind(&realS))
	if realS.rng != nil {
		return
	}
	n := len(c18VocabTokens)
	for j, logits0 := range h.calls {
		if len(logits0) != n {
			break
		}
		logits := append([]float32(nil), logits0...)
		probe := c18Toks(make([]float32, n))
		g.Apply(probe)
		var acc []int
		accSet := map[int32]bool{}
		for _, t := range probe {
			if !math.IsInf(float64(t.value), -1) {
				acc = append(acc, int(t.id))
				accSet[t.id] = true
			}
		}
		if len(acc) == 0 {
			out.Count("grammar_dead_end")
			break
		}
		someAccFinite := false
		for _, id := range acc {
			if c18Finite(logits[id]) {
				someAccFinite = true
			}
		}
		if !someAccFinite {
			logits[acc[0]] = 1
		}
		masked := make([]float32, n)
		for i := range masked {
			masked[i] = c18NegInf
			if accSet[int32(i)] {
				masked[i] = logits[i]
			}
		}
		c2 := &c18Case{temp: h.temp, p: h.p, mp: h.mp, k: h.k, seed: h.seed, logits: masked}
		spec := c18Spec(c2)
		res := c18CallSample(&realS, append([]float32(nil), logits...))
		out.Count("grammar_unseeded_calls")
		callLine := fmt.Sprintf("%s # call=%d grammar unseeded accepted=%v", line, j, acc)
		if res.pnc == nil && res.err == nil && res.id >= 0 && int(res.id) < n && !accSet[res.id] {
			out.L2("grammar-rejected-token", callLine, fmt.Sprintf("id=%d is not accepted by the grammar at this point", res.id))
		}
		c18L2(out, c2, &spec, res, callLine, nil)
		if res.err != nil || res.pnc != nil {
			break
		}
	}
}

func c18Finite(v float32) bool { return v == v && !math.IsInf(float64(v), 0) }

func c18RunGHist(out *zzverif.Out, vocab *Vocab, h *c18GHist, fix bool) {
	line := h.line()
	// journal: if the process dies inside the real call (llama.cpp throws when a rejected token is
	// accepted) the check reports this line
	os.WriteFile(filepath.Join(zzverif.OutDir(), "current.txt"), []byte(line+"\n"), 0o644)
	out.Count("grammar_histories")
	g, err := NewGrammar(vocab, h.grammar)
	if err != nil || g == nil || g.sampler == nil {
		out.Count("grammar_init_failed")
		return
	}
	if h.seed == -1 {
		c18RunGHistUnseeded(out, g, h, line)
		return
	}
	realS := NewSampler(h.temp, h.k, h.p, h.mp, h.seed, g)
	if realS.rng == nil {
		out.L2("seed-ignored", line, "NewSampler returned a sampler without a seeded generator although seed != -1")
		return
	}
	cnt := &c18CountSrc{src: realS.rng}
	realS.rng = rand.New(cnt)
	s2 := NewSampler(h.temp, h.k, h.p, h.mp, h.seed, nil)
	stream := make([]float32, 2*len(h.calls)+2)
	for i := range stream {
		stream[i] = s2.rng.Float32()
	}
	fixedSampler := func(r float32) Sampler {
		s := NewSampler(h.temp, h.k, h.p, h.mp, h.seed, nil)
		s.rng = rand.New(c18FixedSrc(uint64(r*(1<<24)) << 32))
		return s
	}
	n := len(c18VocabTokens)
	draws := 0
	var op strings.Builder
	var impl []string
	tbl := map[string]string{}
	var order []string
	addPairs := func(c *c18Case) {
		for _, kv := range c18CallExpPairs(c, fix) {
			if _, ok := tbl[kv[0]]; !ok {
				tbl[kv[0]] = kv[1]
				order = append(order, kv[0])
			}
		}
	}
	ncalls := 0
	for j, logits0 := range h.calls {
		if len(logits0) != n {
			break
		}
		logits := append([]float32(nil), logits0...)
		// the accepted set at this point, from the real grammar
		probe := c18Toks(make([]float32, n))
		g.Apply(probe)
		var acc []int
		accSet := map[int32]bool{}
		for _, t := range probe {
			if !math.IsInf(float64(t.value), -1) {
				acc = append(acc, int(t.id))
				accSet[t.id] = true
			}
		}
		if len(acc) == 0 {
			out.Count("grammar_dead_end")
			break
		}
		out.Count(fmt.Sprintf("grammar_accepts_%d", min(len(acc), 4)))
		// stay clear of "no accepted token has a finite logit": at temperature 0 the code then hands a
		// rejected token to llama.cpp's Accept, which throws and kills the process (see notes)
		someAccFinite := false
		for _, id := range acc {
			if c18Finite(logits[id]) {
				someAccFinite = true
			}
		}
		if !someAccFinite {
			out.Count("grammar_patched_finite_accepted_logit")
			logits[acc[0]] = 1
		}
		masked := make([]float32, n)
		for i := range masked {
			masked[i] = c18NegInf
			if accSet[int32(i)] {
				masked[i] = logits[i]
			}
		}
		ncalls++
		fmt.Fprintf(&op, " %s %d", c18FList(logits), len(acc))
		for _, id := range acc {
			fmt.Fprintf(&op, " %d", id)
		}
		c1 := &c18Case{temp: h.temp, p: h.p, mp: h.mp, k: h.k, seed: h.seed, logits: logits}
		c2 := &c18Case{temp: h.temp, p: h.p, mp: h.mp, k: h.k, seed: h.seed, logits: masked}
		addPairs(c1)
		addPairs(c2)
		spec := c18Spec(c1)

		// the two component calls on grammar-free samplers whose source is fixed to the number the
		// history's generator delivers at that point: stage-by-stage L1 + L2, and the expected path
		s1 := fixedSampler(stream[draws])
		cons1, _, res1, stage1 := c18RunCall(out, c1, fix, &s1, stream[draws], line, j, false)
		d := 0
		if cons1 {
			d++
		}
		expC, expStage, path := c1, stage1, "fast"
		if res1.err == nil && res1.pnc == nil {
			if !(accSet[res1.id] && !(spec.temperature == 0 && logits[res1.id] == c18NegInf)) {
				path = "slow"
				s2x := fixedSampler(stream[draws+d])
				cons2, _, _, stage2 := c18RunCall(out, c2, fix, &s2x, stream[draws+d], line, j, false)
				if cons2 {
					d++
				}
				expC, expStage = c2, stage2
			}
		} else {
			path = "first-sample-error"
		}
		out.Count("grammar_path_" + path)
		draws += d

		// the real call on the grammar sampler
		before := cnt.n
		res := c18CallSample(&realS, append([]float32(nil), logits...))
		impl = append(impl, fmt.Sprintf("%s d=%d", res.head, cnt.n-before))
		callLine := fmt.Sprintf("%s # call=%d grammar path=%s accepted=%v", line, j, path, acc)
		if res.pnc == nil && res.err == nil && res.id >= 0 && int(res.id) < n && !accSet[res.id] {
			out.L2("grammar-rejected-token", callLine, fmt.Sprintf("id=%d is not accepted by the grammar at this point", res.id))
		}
		// every admissibility clause, w.r.t. the logits the expected path samples from
		c18L2(out, expC, &spec, res, callLine, expStage)
		if res.err != nil || res.pnc != nil {
			break // the grammar did not advance; stop the history here
		}
	}
	if ncalls > 0 {
		fixFlag := c18FixMask()
		head := fmt.Sprintf("ghist %d %s %d %s %s %d %d", fixFlag, c18Bits(h.temp), h.k, c18Bits(h.p), c18Bits(h.mp), h.seed, len(impl))
		// only the calls that were made (a history stops at the first error)
		_ = ncalls
		var t strings.Builder
		fmt.Fprintf(&t, " %d", len(order))
		for _, k := range order {
			t.WriteString(" " + k + " " + tbl[k])
		}
		if len(impl) == ncalls {
			out.Count("ghist_ops")
			out.Case(head+op.String()+t.String(), strings.Join(impl, ";"))
		}
	}
}

func c18GrammarRuns(out *zzverif.Out, r *zzverif.Rng, fix bool, n int) {
	vocab := c18MakeVocab()
	if _, err := vocab.Load(); err != nil {
		out.Count("grammar_vocab_load_failed")
		return
	}
	for i := 0; i < n; i++ {
		c18RunGHist(out, vocab, c18GenGHist(r.Fork(), out), fix)
	}
	os.Remove(filepath.Join(zzverif.OutDir(), "current.txt"))
}

// TestVerifC18F18c is run in a process of its own (finding F18c kills the process): temperature 0, the
// grammar accepts only token "b" and the model gives "b" the logit -Inf.  The journal says how far it got.
func TestVerifC18F18c(t *testing.T) {
	journal := filepath.Join(zzverif.OutDir(), "f18c.txt")
	vocab := c18MakeVocab()
	g, err := NewGrammar(vocab, `root ::= "b"`)
	if err != nil {
		os.WriteFile(journal, []byte("init-failed\n"), 0o644)
		return
	}
	logits := []float32{0, 0, 0, 0, 5, c18NegInf, 1, 1, 1, 1, 1, 1}
	h := &c18GHist{temp: 0, k: 40, p: 0.9, mp: 0.05, seed: 1, grammar: `root ::= "b"`, calls: [][]float32{logits}}
	os.WriteFile(journal, []byte("begin\t"+h.line()+"\n"), 0o644)
	s := NewSampler(h.temp, h.k, h.p, h.mp, h.seed, g)
	res := c18CallSample(&s, logits)
	os.WriteFile(journal, []byte("returned\t"+h.line()+"\t"+res.head+"\n"), 0o644)
}
