package sample

// Verification driver for C18 (sampler admissibility + determinism under a seed).
// Added to the package at build time with `go test -overlay`; never committed to /repo.
//
// A case is   S <tempbits> <k> <pbits> <minpbits> <seed> <n> <logitbits>*   (floats as IEEE bit
// patterns in decimal, `nan` for NaN).  For every case the driver
//   L1: runs each transform of the real package on the real stage inputs and records the oracle
//       command + the real observation (ids / bit patterns), then the whole `Sample` call with the
//       random number the seeded generator is going to deliver,
//   L2: evaluates the clauses of the property directly on what `Sample` returned, recomputing the
//       filter set independently in float64.

import (
	"fmt"
	"math"
	"math/rand/v2"
	"os"
	"runtime"
	"sort"
	"strconv"
	"strings"
	"testing"

	"github.com/ollama/ollama/zzverif"
)

var (
	c18NegInf = float32(math.Inf(-1))
	c18PosInf = float32(math.Inf(1))
	c18NaN    = float32(math.NaN())
)

type c18Case struct {
	temp, p, mp float32
	k, seed     int
	logits      []float32
	weird       bool // parameters outside the property's domain (NaN/Inf temperature...): L1 only
}

func c18Bits(f float32) string {
	if f != f {
		return "nan"
	}
	return strconv.FormatUint(uint64(math.Float32bits(f)), 10)
}

func c18ParseF(s string) float32 {
	if s == "nan" {
		return c18NaN
	}
	v, err := strconv.ParseUint(s, 10, 32)
	if err != nil {
		panic(err)
	}
	return math.Float32frombits(uint32(v))
}

func c18FList(vs []float32) string {
	var b strings.Builder
	b.WriteString(strconv.Itoa(len(vs)))
	for _, v := range vs {
		b.WriteByte(' ')
		b.WriteString(c18Bits(v))
	}
	return b.String()
}

func c18Join(vs []float32) string {
	parts := make([]string, len(vs))
	for i, v := range vs {
		parts[i] = c18Bits(v)
	}
	return strings.Join(parts, ",")
}

func c18Ids(ts []token) string {
	parts := make([]string, len(ts))
	for i, t := range ts {
		parts[i] = strconv.Itoa(int(t.id))
	}
	return strings.Join(parts, ",")
}

func c18Vals(ts []token) []float32 {
	vs := make([]float32, len(ts))
	for i, t := range ts {
		vs[i] = t.value
	}
	return vs
}

func c18Toks(vs []float32) []token {
	ts := make([]token, len(vs))
	for i, v := range vs {
		ts[i] = token{id: int32(i), value: v}
	}
	return ts
}

func (c *c18Case) line() string {
	return fmt.Sprintf("S %s %d %s %s %d %s", c18Bits(c.temp), c.k, c18Bits(c.p), c18Bits(c.mp), c.seed, c18FList(c.logits))
}

func c18ParseCase(line string) *c18Case {
	f := strings.Fields(line)
	if len(f) < 7 || f[0] != "S" {
		return nil
	}
	c := &c18Case{temp: c18ParseF(f[1]), p: c18ParseF(f[3]), mp: c18ParseF(f[4])}
	c.k, _ = strconv.Atoi(f[2])
	c.seed, _ = strconv.Atoi(f[5])
	n, _ := strconv.Atoi(f[6])
	for i := 0; i < n && 7+i < len(f); i++ {
		c.logits = append(c.logits, c18ParseF(f[7+i]))
	}
	for _, x := range []float32{c.temp, c.p, c.mp} {
		if x != x || math.IsInf(float64(x), 0) {
			c.weird = true
		}
	}
	return c
}

// ---------------------------------------------------------------- generators

func c18RandFloat(r *zzverif.Rng, lo, hi float64) float32 {
	u := float64(r.U64()>>11) / float64(1<<53)
	return float32(lo + u*(hi-lo))
}

func c18GenLogits(r *zzverif.Rng, out *zzverif.Out) []float32 {
	var n int
	switch r.Intn(20) {
	case 0:
		n = 1
	case 1:
		n = 2
	case 2, 3, 4, 5, 6, 7, 8, 9:
		n = r.Range(2, 16)
	case 10, 11, 12, 13, 14, 15:
		n = r.Range(13, 300)
	case 16, 17, 18:
		n = r.Range(301, 1500)
	default:
		n = r.Range(1501, 4096)
	}
	vs := make([]float32, n)
	class := r.Intn(17)
	switch class {
	case 16: // one or two dominant tokens, a long tail of tiny probabilities (each about half an ulp of
		// the running sum: float32 summation error accumulates) and some -Inf entries: the regime in
		// which "sum of the parts" and "the parts one after the other" round differently near r = 1
		out.Count("vec_longtail_masked")
		if n < 300 {
			n = r.Range(300, 3000)
			vs = make([]float32, n)
		}
		gap := c18RandFloat(r, 14, 19)
		for i := range vs {
			vs[i] = c18RandFloat(r, -0.01, 0.01)
		}
		vs[r.Intn(n)] = gap
		if r.Bool() {
			vs[r.Intn(n)] = gap - c18RandFloat(r, 0, 1)
		}
		for j := 0; j < r.Range(1, 5); j++ {
			vs[r.Intn(n)] = c18NegInf
		}
	case 0, 1, 2, 3: // ordinary logits
		out.Count("vec_normal")
		for i := range vs {
			vs[i] = c18RandFloat(r, -20, 20)
		}
	case 4, 5: // few distinct values: many ties
		out.Count("vec_ties")
		pal := make([]float32, r.Range(1, 4))
		for i := range pal {
			pal[i] = c18RandFloat(r, -5, 5)
		}
		if r.Chance(1, 4) {
			pal[0] = c18NegInf
		}
		for i := range vs {
			vs[i] = zzverif.Pick(r, pal)
		}
	case 6, 7: // grammar-like mask: a random subset is -Inf
		out.Count("vec_masked")
		den := r.Range(2, 10)
		for i := range vs {
			if r.Chance(den-1, den) {
				vs[i] = c18NegInf
			} else {
				vs[i] = c18RandFloat(r, -20, 20)
			}
		}
	case 8: // huge magnitudes
		out.Count("vec_huge")
		for i := range vs {
			switch r.Intn(4) {
			case 0:
				vs[i] = c18RandFloat(r, -20, 20)
			case 1:
				vs[i] = float32(3e38) * c18RandFloat(r, 0.5, 1.1)
			case 2:
				vs[i] = -float32(3e38) * c18RandFloat(r, 0.5, 1.1)
			default:
				vs[i] = float32(math.Pow(10, float64(r.Range(25, 38)))) * c18RandFloat(r, -1, 1)
			}
		}
	case 9: // +Inf present
		out.Count("vec_posinf")
		for i := range vs {
			vs[i] = c18RandFloat(r, -20, 20)
		}
		for j := 0; j < r.Range(1, 2); j++ {
			vs[r.Intn(n)] = c18PosInf
		}
	case 10: // denormals, zeros, tiny
		out.Count("vec_denormal")
		for i := range vs {
			switch r.Intn(4) {
			case 0:
				vs[i] = math.Float32frombits(uint32(r.Intn(1 << 23)))
			case 1:
				vs[i] = math.Float32frombits(0x80000000 | uint32(r.Intn(1<<23)))
			case 2:
				vs[i] = 0
			default:
				vs[i] = c18RandFloat(r, -1e-30, 1e-30)
			}
		}
	case 11: // arbitrary bit patterns (NaN, Inf included)
		out.Count("vec_rawbits")
		for i := range vs {
			vs[i] = math.Float32frombits(uint32(r.U64()))
		}
	case 12: // all -Inf, or all but one
		out.Count("vec_allneginf")
		for i := range vs {
			vs[i] = c18NegInf
		}
		if r.Bool() {
			vs[r.Intn(n)] = c18RandFloat(r, -20, 20)
		}
	case 13: // neighbouring floats around one value
		out.Count("vec_ulps")
		base := math.Float32bits(c18RandFloat(r, 1, 30))
		for i := range vs {
			vs[i] = math.Float32frombits(base + uint32(r.Intn(4)))
		}
	case 14: // peaked: one or two dominant tokens, long flat tail
		out.Count("vec_peaked")
		for i := range vs {
			vs[i] = c18RandFloat(r, -2, 2)
		}
		vs[r.Intn(n)] = c18RandFloat(r, 5, 200)
		if r.Bool() {
			vs[r.Intn(n)] = c18RandFloat(r, 5, 200)
		}
	default: // a NaN among ordinary logits
		out.Count("vec_nan")
		for i := range vs {
			vs[i] = c18RandFloat(r, -20, 20)
		}
		if r.Chance(1, 3) {
			vs[0] = c18NaN
		} else {
			vs[r.Intn(n)] = c18NaN
		}
	}
	return vs
}

func c18GenCase(r *zzverif.Rng, out *zzverif.Out) *c18Case {
	c := &c18Case{logits: c18GenLogits(r, out)}
	n := len(c.logits)
	switch r.Intn(12) {
	case 0, 1:
		c.temp = 0
	case 2:
		c.temp = zzverif.Pick(r, []float32{1e-9, 1e-7, 1e-5, 1e-3})
	case 3:
		c.temp = -c18RandFloat(r, 0, 2) // clamped to 0
	case 4:
		c.temp = zzverif.Pick(r, []float32{2, 10, 100, 1e6})
	case 5:
		c.temp = 1
	default:
		c.temp = c18RandFloat(r, 0.05, 2)
	}
	switch r.Intn(10) {
	case 0:
		c.k = 0
	case 1:
		c.k = -r.Range(1, 3)
	case 2:
		c.k = 1
	case 3:
		c.k = n
	case 4:
		c.k = n + r.Range(1, 3)
	case 5:
		c.k = max(n-1, 1)
	case 6:
		c.k = 40
	default:
		c.k = r.Range(1, max(n, 1))
	}
	pv := func() float32 {
		switch r.Intn(10) {
		case 0:
			return 0
		case 1:
			return 1
		case 2:
			return 0.5
		case 3:
			return zzverif.Pick(r, []float32{0.9, 0.95, 0.05})
		case 4:
			return c18RandFloat(r, 1, 3) // clamped to 1
		case 5:
			return -c18RandFloat(r, 0, 1) // clamped to 0
		default:
			return c18RandFloat(r, 0, 1)
		}
	}
	c.p = pv()
	c.mp = pv()
	if r.Chance(1, 3) {
		c.mp = 0
	}
	if r.Chance(1, 3) {
		c.p = 1
	}
	switch r.Intn(10) {
	case 0:
		c.seed = 0
	case 1:
		c.seed = -r.Range(2, 1000)
	case 2:
		c.seed = int(r.U64() >> 1)
	case 3: // the seed space around the 32-bit boundary and the -1 sentinel's bit pattern
		c.seed = c18SpecialSeed(r)
	case 4: // the sentinel itself: an unseeded sampler (what api.DefaultOptions asks for)
		c.seed = -1
	default:
		c.seed = r.Range(1, 1<<30)
	}
	if r.Chance(1, 40) { // outside the property's domain (not expressible in a JSON request): L1 only
		c.weird = true
		x := zzverif.Pick(r, []float32{c18NaN, c18PosInf, c18NegInf, math.Float32frombits(1)})
		switch r.Intn(3) {
		case 0:
			c.temp = x
		case 1:
			c.p = x
		default:
			c.mp = x
		}
	}
	return c
}

// ---------------------------------------------------------------- stage replication

// c18Shift mirrors the proposed repair (C18-F18.patch); only used when VERIF_C18_FIX=1.
func c18Shift(ts []token) bool {
	m := ts[0].value
	if math.IsInf(float64(m), -1) {
		return false
	}
	for i := range ts {
		if ts[i].value == m {
			ts[i].value = 0
		} else {
			ts[i].value -= m
		}
	}
	return true
}

func c18ExpTable(scaled []float32) string {
	m := c18NegInf
	for _, v := range scaled {
		if v > m {
			m = v
		}
	}
	seen := map[uint32]bool{}
	var b strings.Builder
	cnt := 0
	for _, v := range scaled {
		a := v - m
		if a != a {
			continue
		}
		key := math.Float32bits(a)
		if seen[key] {
			continue
		}
		seen[key] = true
		cnt++
		b.WriteByte(' ')
		b.WriteString(c18Bits(a))
		b.WriteByte(' ')
		b.WriteString(c18Bits(float32(math.Exp(float64(a)))))
	}
	return strconv.Itoa(cnt) + b.String()
}

func c18IsDesc(vs []float32) bool {
	for i := 0; i+1 < len(vs); i++ {
		if vs[i] < vs[i+1] {
			return false
		}
	}
	return true
}

func c18IsAsc(vs []float32) bool {
	for i := 0; i+1 < len(vs); i++ {
		if vs[i+1] < vs[i] {
			return false
		}
	}
	return true
}

func c18Guard(scaled []float32) bool {
	if len(scaled) == 0 {
		return false
	}
	for _, v := range scaled {
		if v != v || !(v < c18PosInf) {
			return false
		}
	}
	return c18NegInf < scaled[0]
}

func c18ScaleOK(vs, ss []float32) bool {
	if len(vs) != len(ss) || !c18IsDesc(ss) {
		return false
	}
	for i := range vs {
		if vs[i] == c18NegInf && ss[i] != c18NegInf {
			return false
		}
	}
	return true
}

func c18SoftmaxOK(ss, ps []float32) bool {
	if len(ss) != len(ps) || len(ps) == 0 {
		return false
	}
	for _, p := range ps {
		if p != p || p < 0 {
			return false
		}
	}
	if !c18IsDesc(ps) {
		return false
	}
	for i := range ss {
		if ss[i] == c18NegInf && ps[i] != 0 {
			return false
		}
	}
	return 0 < ps[0]
}

// c18TopKContract is the Go evaluation of the oracle's isTopKB.
func c18TopKContract(k int, in, out []token) bool {
	want := k
	if k >= len(in) || k <= 0 {
		want = len(in)
	}
	if len(out) != want || !c18IsDesc(c18Vals(out)) {
		return false
	}
	used := map[int32]bool{}
	for _, t := range out {
		if used[t.id] || int(t.id) >= len(in) {
			return false
		}
		x := in[t.id]
		if c18Bits(x.value) != c18Bits(t.value) {
			return false
		}
		used[t.id] = true
	}
	if len(out) == 0 {
		return len(in) == 0
	}
	m := out[len(out)-1].value
	for _, x := range in {
		if !used[x.id] && m < x.value {
			return false
		}
	}
	return true
}

func c18HasNaN(vs []float32) bool {
	for _, v := range vs {
		if v != v {
			return true
		}
	}
	return false
}

func c18HasDup(vs []float32) bool {
	seen := map[float32]bool{}
	for _, v := range vs {
		if v == 0 {
			v = 0 // -0 == +0
		}
		if seen[v] {
			return true
		}
		seen[v] = true
	}
	return false
}

// canonical order inside groups of equal values (pdqsort is unstable beyond 12 elements)
func c18CanonTies(ts []token) []token {
	out := append([]token(nil), ts...)
	i := 0
	for i < len(out) {
		j := i + 1
		for j < len(out) && out[j].value == out[i].value {
			j++
		}
		g := out[i:j]
		sort.Slice(g, func(a, b int) bool { return g[a].id < g[b].id })
		i = j
	}
	return out
}

type c18Result struct {
	id   int32
	err  error
	pnc  any
	head string
}

func c18CallSample(s *Sampler, logits []float32) (res c18Result) {
	defer func() {
		if p := recover(); p != nil {
			res.pnc = p
			res.head = "panic"
		}
	}()
	id, err := s.Sample(logits)
	res.id, res.err = id, err
	switch {
	case err == nil:
		res.head = "ok " + strconv.Itoa(int(id))
	case strings.Contains(err.Error(), "NaN"):
		res.head = "err:nan"
	case strings.Contains(err.Error(), "no logits"):
		res.head = "err:nologits"
	case strings.Contains(err.Error(), "-Inf"):
		res.head = "err:allneginf"
	default:
		res.head = "err:other"
	}
	return res
}

// ---------------------------------------------------------------- one case

// c18Spec is the parameter clamping the API promises (what NewSampler documents), written down
// independently of NewSampler: the stage replication, the oracle commands and the L2 clauses all use
// these values, the real call uses whatever the real NewSampler stored.
func c18Spec(c *c18Case) Sampler {
	t, p, mp := c.temp, c.p, c.mp
	if t < 0 {
		t = 0
	}
	if p < 0 {
		p = 0
	}
	if p >= 1 {
		p = 1
	}
	if mp < 0 {
		mp = 0
	}
	if mp >= 1 {
		mp = 1
	}
	return Sampler{topK: c.k, topP: p, minP: mp, temperature: t}
}

// c18RunCall runs call number `idx` of a history on the shared real sampler `realS`; `r` is the number
// the seeded generator delivers if this call reaches it.  Returns whether the call consumes a random
// number (by the model's rule) and whether the oracle needs Go's sort order (pdqsort ties).
func c18RunCall(out *zzverif.Out, c *c18Case, fix bool, realS *Sampler, r float32, line string, idx int, crafted bool) (consumed, needPre bool, result c18Result, stg *c18Stage) {
	return c18RunCallG(out, c, fix, realS, r, line, idx, crafted, nil)
}

// c18RunCallG: as c18RunCall; with `given` the real call has already been made (unseeded sampler: the
// number it drew is not observable, `r` is then a witness found afterwards by c18FindR).
func c18RunCallG(out *zzverif.Out, c *c18Case, fix bool, realS *Sampler, r float32, line string, idx int, crafted bool, given *c18Result) (consumed, needPre bool, result c18Result, stg *c18Stage) {
	n := len(c.logits)
	out.Count("calls")
	hasNaN := c18HasNaN(c.logits)
	s := c18Spec(c)
	if n == 0 {
		var res c18Result
		if given != nil {
			res = *given
		} else {
			res = c18CallSample(realS, c.logits)
		}
		out.Count("br_empty_input")
		out.Case(fmt.Sprintf("sample 0 0 %s %d %s %s %s 0 0", c18Bits(s.temperature), s.topK, c18Bits(s.topP), c18Bits(s.minP), c18Bits(r)), res.head)
		return false, false, res, nil
	}

	small := n <= 48
	sortPath := s.topK >= n || s.topK <= 0
	if sortPath {
		out.Count("topk_sortpath")
	} else {
		out.Count("topk_heappath")
	}

	// ---- stage L1
	if small || s.temperature == 0 {
		g := greedy(c18Toks(c.logits))
		out.Case("greedy "+c18FList(c.logits), strconv.Itoa(int(g.id)))
	}
	raw := c18Toks(c.logits)
	L := topK(c18Toks(c.logits), s.topK)
	// recorded assumption of `reproducible_with_any_sort`: the real top-k stage (pdqsort / container/heap) is a
	// FUNCTION of its input — run it a second time on a fresh copy, the two outputs must be identical
	if Lb := topK(c18Toks(c.logits), s.topK); !hasNaN {
		out.Count("topk_determinism_checked")
		same := len(Lb) == len(L)
		for i := 0; same && i < len(L); i++ {
			if L[i].id != Lb[i].id || math.Float32bits(L[i].value) != math.Float32bits(Lb[i].value) {
				same = false
			}
		}
		if !same {
			out.L2("topk-not-deterministic", line, fmt.Sprintf("call=%d: two runs of the real topK on the same tokens differ", idx))
		}
	}
	if !(sortPath && hasNaN) && n <= 5000 { // (the oracle's IsTopK check is quadratic)
		shown := L
		if sortPath && n > 12 {
			shown = c18CanonTies(L)
		}
		cflag := 0
		if c18TopKContract(s.topK, raw, L) {
			cflag = 1
		}
		out.Case(fmt.Sprintf("topk %d %s", s.topK, c18FList(c.logits)), fmt.Sprintf("%s c=%d", c18Ids(shown), cflag))
	}
	kt := len(L)
	pre := s.temperature != 0 && sortPath && (hasNaN || (n > 12 && c18HasDup(c.logits)))
	if pre {
		out.Count("sample_presorted")
	}
	var tokList strings.Builder
	src := raw
	if pre {
		src = L
	}
	tokList.WriteString(strconv.Itoa(len(src)))
	for _, t := range src {
		fmt.Fprintf(&tokList, " %d %s", t.id, c18Bits(t.value))
	}

	status := "greedy"
	kp, km := "", ""
	expTable := "0"
	var cumF []float32 // cumulative sums of the filtered list (only when the guard holds)
	var stage *c18Stage
	var baseFlags []string
	haveBase := false
	var pickVals, pickCum []float32 // the filtered probabilities / their cumulative sums, for the `pick` stage op
	var pickIds []int32
	if s.temperature != 0 {
		W := append([]token(nil), L...)
		lv0 := c18Vals(W)
		shifted := true
		if fix {
			shifted = c18Shift(W)
		}
		if shifted {
			lv := c18Vals(W)
			temperature(W, s.temperature)
			sv := c18Vals(W)
			if small {
				out.Case(fmt.Sprintf("temp %s %s", c18Bits(s.temperature), c18FList(lv)), c18Join(sv))
			}
			expTable = c18ExpTable(sv)
			softmax(W)
			pv := c18Vals(W)
			stage = &c18Stage{pv: pv, ok: !c18HasNaN(pv)}
			for _, t := range W {
				stage.ids = append(stage.ids, t.id)
			}
			if small {
				out.Case(fmt.Sprintf("softmax %s %s", c18FList(sv), expTable), c18Join(pv))
			}
			fp := topP(W, s.topP)
			kp = strconv.Itoa(len(fp))
			if small {
				out.Case(fmt.Sprintf("topp %s %s", c18Bits(s.topP), c18FList(pv)), kp)
			}
			var fm []token
			func() {
				defer func() {
					if recover() != nil {
						km = "panic"
					}
				}()
				fm = minP(fp, s.minP)
				km = strconv.Itoa(len(fm))
			}()
			if small && km != "panic" {
				out.Case(fmt.Sprintf("minp %s %s", c18Bits(s.minP), c18FList(c18Vals(fp))), km)
			}
			// contracts, evaluated here independently of the oracle
			if !c18Guard(sv) {
				status = "guard"
				out.Count("contract_guard")
			} else {
				var flags []string
				if fix && !c18ScaleOK(lv0, lv) {
					flags = append(flags, "shift")
				}
				if !c18ScaleOK(lv, sv) {
					flags = append(flags, "scale")
				}
				if !c18SoftmaxOK(sv, pv) {
					flags = append(flags, "softmax")
				}
				// the run guard of the `_on` theorems (model: runGood): no NaN is ever compared — none after the
				// shift, among the scaled values, the probabilities, the running sums of the topP scan, the minP
				// threshold, the cumulative sums (the target r*total is looked at in c18Status)
				nanSeen := c18HasNaN(lv) || c18HasNaN(sv) || c18HasNaN(pv) || s.topP != s.topP
				{
					var acc float32
					for _, v := range pv {
						acc += v
						if acc != acc {
							nanSeen = true
						}
					}
					if len(fp) > 0 {
						if th := fp[0].value * s.minP; th != th {
							nanSeen = true
						}
					}
				}
				// the residual guard of `runGood_from_input` (model: massFinite): the normaliser is positive and
				// finite, every probability and every cumulative sum of the kept tokens is below +Inf
				massBad := false
				{
					mx := c18NegInf
					for _, v := range sv {
						if v > mx {
							mx = v
						}
					}
					var se float32
					for _, v := range sv {
						se += float32(math.Exp(float64(v - mx)))
					}
					if !(se > 0) || !(se < c18PosInf) {
						massBad = true
					}
					for _, v := range pv {
						if !(v < c18PosInf) {
							massBad = true
						}
					}
				}
				if km == "panic" || len(fm) == 0 {
					flags = append(flags, "empty")
				} else {
					cum := make([]float32, len(fm))
					var sum float32
					for i := range fm {
						sum += fm[i].value
						cum[i] = sum
					}
					if !c18IsAsc(cum) {
						flags = append(flags, "cum")
					}
					if c18HasNaN(cum) {
						nanSeen = true
					}
					for _, v := range cum {
						if !(v < c18PosInf) {
							massBad = true
						}
					}
					cumF = cum
					pickVals, pickCum, pickIds = c18Vals(fm), cum, nil
					for _, t := range fm {
						pickIds = append(pickIds, t.id)
					}
				}
				if nanSeen {
					flags = append(flags, "nan")
				}
				if massBad {
					flags = append(flags, "mass")
				}
				baseFlags = flags
				haveBase = true
				status = c18Status(baseFlags, cumF, r)
				if status == "ok" {
					out.Count("contract_ok")
				} else if c.weird && (status == "bad:nan" || status == "bad:mass" || status == "bad:nan,mass") {
					// a NaN PARAMETER (not expressible in a JSON request, L1 only) is compared: the run guard
					// says so on both sides; not a broken IEEE contract
					out.Count("contract_nan_weird_params")
				} else {
					out.L2("contract-broken", line, "stage contract "+status+" although the scaled maximum is finite")
				}
			}
		} else {
			status = ""
		}
	} else {
		out.Count("temp_zero")
	}

	// ---- the real call
	var res c18Result
	if given != nil {
		res = *given
	} else {
		res = c18CallSample(realS, c.logits)
	}
	out.Count("res_" + strings.Fields(res.head)[0])
	c18Branches(out, c, &s, L, kt, kp, km, status, res, stage)
	if small && pickVals != nil {
		// the pick stage on its own: the index is the one the REAL call landed on (position of the returned id
		// in the list the real filters kept), not a re-implementation of the search
		obs := "panic"
		switch {
		case res.err != nil && res.head == "err:nan":
			obs = "err:nan"
		case res.err == nil && res.pnc == nil:
			obs = "id-not-in-filtered-list"
			for i, id := range pickIds {
				if id == res.id {
					obs = fmt.Sprintf("%d %s", i, c18Bits(pickCum[i]))
					break
				}
			}
		case res.err != nil:
			obs = res.head
		}
		out.Case(fmt.Sprintf("pick %s %s", c18Bits(r), c18FList(pickVals)), obs)
	}
	fixFlag := c18FixMask()
	preFlag := 0
	if pre {
		preFlag = 1
	}
	{
		op := fmt.Sprintf("sample %d %d %s %d %s %s %s %s %s", fixFlag, preFlag, c18Bits(s.temperature), s.topK,
			c18Bits(s.topP), c18Bits(s.minP), c18Bits(r), tokList.String(), expTable)
		var impl string
		switch {
		case s.temperature == 0:
			impl = res.head + " c=greedy"
		case status == "":
			impl = fmt.Sprintf("%s kt=%d", res.head, kt)
		default:
			impl = fmt.Sprintf("%s kt=%d kp=%s km=%s c=%s h=%d", res.head, kt, kp, km, status, c18HashVals(stage.pv))
		}
		out.Case(op, impl)
	}

	// ---- L2: the property on the real result
	c18L2(out, c, &s, res, fmt.Sprintf("%s # call=%d", line, idx), stage)

	// ---- the same call with chosen random numbers (a fixed rand.Source): r = 0, the largest r,
	// and r whose product with the total hits a cumulative sum exactly (the `<` of the walk)
	consumed = s.temperature != 0 && status != ""
	if crafted && s.temperature != 0 && haveBase && len(cumF) > 0 {
		total := cumF[len(cumF)-1]
		ks := []uint32{0, 1<<24 - 1}
		for tries := 0; tries < 3; tries++ {
			j := (tries * 7) % len(cumF)
			k0 := int64(float64(cumF[j]) / float64(total) * (1 << 24))
			for d := int64(-1); d <= 1; d++ {
				k := k0 + d
				if k < 0 || k >= 1<<24 {
					continue
				}
				if float32(k)/(1<<24)*total == cumF[j] {
					ks = append(ks, uint32(k))
					out.Count("crafted_r_exact_hit")
					break
				}
			}
		}
		for _, k := range ks {
			rr := float32(k) / (1 << 24)
			s3 := NewSampler(c.temp, c.k, c.p, c.mp, c.seed, nil)
			s3.rng = rand.New(c18FixedSrc(uint64(k) << 32))
			res3 := c18CallSample(&s3, c.logits)
			out.Count("crafted_r_calls")
			op := fmt.Sprintf("sample %d %d %s %d %s %s %s %s %s", fixFlag, preFlag, c18Bits(s.temperature), s.topK,
				c18Bits(s.topP), c18Bits(s.minP), c18Bits(rr), tokList.String(), expTable)
			out.Case(op, fmt.Sprintf("%s kt=%d kp=%s km=%s c=%s h=%d", res3.head, kt, kp, km, c18Status(baseFlags, cumF, rr), c18HashVals(stage.pv)))
			c18L2(out, c, &s, res3, line+fmt.Sprintf(" # call=%d on a fresh sampler, crafted r=%d/2^24", idx, k), stage)
		}
	}
	return consumed, pre, res, stage
}

// c18Branches counts, from what the REAL code did on this call, which branch of the anchored code (and
// of the model the theorems talk about) was taken.  The check fails closed (`correspondence-coverage`)
// when one of them is never taken in a run.
func c18Branches(out *zzverif.Out, c *c18Case, s *Sampler, L []token, kt int, kp, km, status string, res c18Result, st *c18Stage) {
	n := len(c.logits)
	if s.temperature == 0 {
		out.Count("br_greedy")
		if res.err == nil && res.id > 0 {
			out.Count("br_greedy_max_not_first")
		}
		return
	}
	if s.topK >= n || s.topK <= 0 {
		out.Count("br_topk_sort")
	} else {
		// the heap replaced its root at least once iff a token from beyond the first k survived
		replaced := false
		for _, t := range L {
			if int(t.id) >= s.topK {
				replaced = true
			}
		}
		if replaced {
			out.Count("br_topk_heap_replace")
		} else {
			out.Count("br_topk_heap_keep")
		}
	}
	if status == "" {
		out.Count("br_all_neginf_before_draw")
		return
	}
	if len(L) > 1 && L[0].value == L[1].value {
		out.Count("br_shift_several_maxima")
	}
	ikp, e1 := strconv.Atoi(kp)
	ikm, e2 := strconv.Atoi(km)
	if e1 != nil {
		return
	}
	switch {
	case s.topP == 1:
		out.Count("br_topp_shortcut")
	case ikp < kt:
		out.Count("br_topp_cut")
	default:
		out.Count("br_topp_no_cut")
	}
	if e2 != nil {
		return
	}
	if ikm < ikp {
		out.Count("br_minp_cut")
	} else {
		out.Count("br_minp_no_cut")
	}
	switch {
	case res.err != nil && res.head == "err:nan":
		out.Count("br_nan_guard")
	case res.err == nil && st != nil:
		pos := -1
		for i, id := range st.ids {
			if id == res.id {
				pos = i
				break
			}
		}
		switch {
		case pos == 0:
			out.Count("br_pick_first")
		case pos > 0 && pos == ikm-1:
			out.Count("br_pick_last")
		case pos > 0 && pos < ikm:
			out.Count("br_pick_middle")
		}
	}
}

// c18FindR: for a call on an UNSEEDED sampler the number drawn from the process-wide generator cannot be
// observed.  Given the id the real call returned, look for a numerator k such that r = k/2^24 makes the
// pick land on that id (stages replicated with the real transforms; the landing index is monotone in k).
// The model then has to return the same id for that r (`sample` op, L1).  No witness: r = 0.
func c18FindR(c *c18Case, fix bool, res c18Result) (float32, bool) {
	s := c18Spec(c)
	if len(c.logits) == 0 || s.temperature == 0 || res.err != nil || res.pnc != nil {
		return 0, true
	}
	W := topK(c18Toks(c.logits), s.topK)
	if fix && !c18Shift(W) {
		return 0, true
	}
	temperature(W, s.temperature)
	softmax(W)
	W = topP(W, s.topP)
	ok := true
	func() {
		defer func() {
			if recover() != nil {
				ok = false
			}
		}()
		W = minP(W, s.minP)
	}()
	if !ok || len(W) == 0 {
		return 0, false
	}
	pos := -1
	cum := make([]float32, len(W))
	var sum float32
	for i := range W {
		if W[i].id == res.id && pos < 0 {
			pos = i
		}
		sum += W[i].value
		cum[i] = sum
	}
	if pos < 0 || sum != sum {
		return 0, false
	}
	land := func(k int) int {
		t := float32(k) / (1 << 24) * sum
		return sort.Search(len(cum), func(i int) bool { return !(cum[i] < t) })
	}
	k := sort.Search(1<<24, func(k int) bool { return land(k) >= pos })
	if k < 1<<24 && land(k) == pos {
		return float32(k) / (1 << 24), true
	}
	return 0, false
}

// c18RunUnseeded: a history on a sampler built with the sentinel seed -1 (the default of
// api.DefaultOptions): `rng` stays nil and every drawing call takes its number from the process-wide
// generator.  Every admissibility clause is evaluated on every real result (L2); L1: the `newrng` op, and
// per call the usual stage ops + the `sample` op with a witness number for which the model must return
// the id the real call returned.
func c18RunUnseeded(out *zzverif.Out, h *c18Hist, fix bool) {
	line := h.line()
	out.Count("cases")
	out.Count("unseeded_histories")
	realS := NewSampler(h.temp, h.k, h.p, h.mp, h.seed, nil)
	out.Case(fmt.Sprintf("newsampler %s %d %s %s", c18Bits(h.temp), h.k, c18Bits(h.p), c18Bits(h.mp)),
		fmt.Sprintf("%s %d %s %s", c18Bits(realS.temperature), realS.topK, c18Bits(realS.topP), c18Bits(realS.minP)))
	out.Case(fmt.Sprintf("newrng %d", h.seed), c18RngKind(&realS))
	if realS.rng != nil {
		return
	}
	for j, logits := range h.calls {
		c := &c18Case{temp: h.temp, p: h.p, mp: h.mp, k: h.k, seed: h.seed, logits: logits, weird: h.weird}
		res := c18CallSample(&realS, append([]float32(nil), logits...))
		out.Count("br_unseeded_call")
		r, found := c18FindR(c, fix, res)
		if found {
			out.Count("unseeded_witness_found")
		} else {
			out.Count("unseeded_no_witness")
			if !h.weird && !c18HasNaN(logits) {
				out.L2("unseeded-result-unreachable", fmt.Sprintf("%s # call=%d", line, j),
					fmt.Sprintf("%s: no number in [0,1) makes the pick land on this token of minP(topP(softmax(topK)))", res.head))
			}
		}
		c18RunCallG(out, c, fix, nil, r, line, j, false, &res)
	}
}

func c18RngKind(s *Sampler) string {
	if s.rng == nil {
		return "nil"
	}
	return "seeded"
}

var c18HistSeq int

func c18HashVals(vs []float32) uint32 {
	h := uint32(2166136261)
	for _, v := range vs {
		b := math.Float32bits(v)
		if v != v {
			b = 0x7FC00000
		}
		h = (h ^ b) * 16777619
	}
	return h
}

func c18HashIds(ts []token) uint32 {
	h := uint32(2166136261)
	for _, t := range ts {
		h = (h ^ uint32(t.id)) * 16777619
	}
	return h
}

// c18EnvRepro: reproducibility ACROSS ENVIRONMENTS.  The model says the result of a history is a function
// of (logits, parameters, generator state) only; so the same history on fresh samplers under GOMAXPROCS =
// 1, 2, 7, 16 must give the same id sequence AND the same bit patterns of every stage output.
func c18EnvRepro(out *zzverif.Out, h *c18Hist, line string, fix bool) {
	if h.seed == -1 {
		return
	}
	old := runtime.GOMAXPROCS(0)
	defer runtime.GOMAXPROCS(old)
	observe := func() string {
		s := NewSampler(h.temp, h.k, h.p, h.mp, h.seed, nil)
		var b strings.Builder
		for _, v := range h.calls {
			res := c18CallSample(&s, append([]float32(nil), v...))
			b.WriteString(res.head)
			// the stage outputs of the real transforms, in the order of `sample`
			c := &c18Case{temp: h.temp, p: h.p, mp: h.mp, k: h.k, logits: v}
			sp := c18Spec(c)
			if len(v) > 0 && sp.temperature != 0 {
				W := topK(c18Toks(v), sp.topK)
				fmt.Fprintf(&b, " topk=%08x/%08x", c18HashIds(W), c18HashVals(c18Vals(W)))
				if !fix || c18Shift(W) {
					temperature(W, sp.temperature)
					fmt.Fprintf(&b, " temp=%08x", c18HashVals(c18Vals(W)))
					softmax(W)
					fmt.Fprintf(&b, " softmax=%08x", c18HashVals(c18Vals(W)))
					W = topP(W, sp.topP)
					if len(W) > 0 {
						W = minP(W, sp.minP)
					}
					fmt.Fprintf(&b, " kept=%d", len(W))
				}
			}
			b.WriteString(";")
		}
		return b.String()
	}
	procs := []int{1, 2, 7, 16}
	var first string
	out.Count("env_repro_histories")
	for i, p := range procs {
		runtime.GOMAXPROCS(p)
		got := observe()
		if i == 0 {
			first = got
			continue
		}
		if got != first {
			a, b := strings.Split(first, ";"), strings.Split(got, ";")
			d := "?"
			for j := range a {
				if j < len(b) && a[j] != b[j] {
					d = fmt.Sprintf("call %d: GOMAXPROCS=%d -> %s | GOMAXPROCS=%d -> %s", j, procs[0], a[j], p, b[j])
					break
				}
			}
			out.L2("env-dependent", line, "same seed, logits and parameters, fresh samplers: "+d)
			return
		}
	}
}

// large vocabularies: generated from a compact line   L <tempbits> <k> <pbits> <minpbits> <seed> <n> <vecseed> <ncalls>
func c18LargeHist(temp float32, k int, p, mp float32, seed, n int, vseed uint64, ncalls int) *c18Hist {
	h := &c18Hist{temp: temp, k: k, p: p, mp: mp, seed: seed}
	h.label = fmt.Sprintf("L %s %d %s %s %d %d %d %d", c18Bits(temp), k, c18Bits(p), c18Bits(mp), seed, n, vseed, ncalls)
	r := zzverif.NewRng(vseed)
	for j := 0; j < ncalls; j++ {
		v := make([]float32, n)
		switch r.Intn(3) {
		case 0: // flat-ish: every token contributes to the normaliser
			for i := range v {
				v[i] = c18RandFloat(r, -2, 2)
			}
		case 1: // realistic spread with a masked part
			for i := range v {
				v[i] = c18RandFloat(r, -12, 6)
				if r.Chance(1, 50) {
					v[i] = c18NegInf
				}
			}
		default: // a few likely tokens over a flat tail
			for i := range v {
				v[i] = c18RandFloat(r, -1, 1)
			}
			for t := 0; t < 5; t++ {
				v[r.Intn(n)] = c18RandFloat(r, 3, 8)
			}
		}
		h.calls = append(h.calls, v)
	}
	return h
}

func c18ParseLarge(line string) *c18Hist {
	f := strings.Fields(line)
	if len(f) < 9 || f[0] != "L" {
		return nil
	}
	k, _ := strconv.Atoi(f[2])
	seed, _ := strconv.Atoi(f[5])
	n, _ := strconv.Atoi(f[6])
	vseed, _ := strconv.ParseUint(f[7], 10, 64)
	nc, _ := strconv.Atoi(f[8])
	if n <= 0 || n > 1<<20 || nc <= 0 || nc > 16 {
		return nil
	}
	return c18LargeHist(c18ParseF(f[1]), k, c18ParseF(f[3]), c18ParseF(f[4]), seed, n, vseed, nc)
}

func c18LargeRuns(out *zzverif.Out, r *zzverif.Rng, fix bool, rounds int) {
	for round := 0; round < rounds; round++ {
		for _, n := range []int{16383, 16384, 16385, 32000, 128256} {
			k := zzverif.Pick(r, []int{0, 0, -1, n, n + 1, 40, n - 1})
			if n == 32000 { // one large history per round on the heap path: no tie-order issue, so it also goes through `hist`
				k = 40
			}
			p := zzverif.Pick(r, []float32{1, 1, 0.95, 0.9})
			mp := zzverif.Pick(r, []float32{0, 0, 0.01})
			temp := zzverif.Pick(r, []float32{1, 1, 0.7, 1.5})
			nc := 2
			if n > 100000 {
				nc = 1 + round%2
			}
			out.Count(fmt.Sprintf("large_vocab_%d", n))
			c18RunHist(out, c18LargeHist(temp, k, p, mp, r.Range(1, 1<<30), n, r.U64()>>1, nc), fix)
		}
	}
}

// c18FixMask: which repairs the tree under test contains (VERIF_C18_FIX): bit 0 = F18 max-shift,
// bit 1 = F18c (greedy reports all -Inf as an error).  Passed to the oracle on every op.
func c18FixMask() int {
	if os.Getenv("VERIF_C18_FIX") != "" {
		return zzverif.EnvInt("VERIF_C18_FIX", 0)
	}
	if c18Probed < 0 {
		c18Probed = c18ProbeFix()
	}
	return c18Probed
}

var c18Probed = -1

// c18ProbeFix asks the tree under test which variant of the model it implements, on the two witness
// inputs of the findings: F18 (temperature 1, logits [+Inf, 0]: the pinned code answers "logits sum to
// NaN", the repaired one token 0) and F18c (temperature 0, all logits -Inf: the pinned code answers token
// 0, the repaired one an error).  The check turns the answer into Generated/C18_Variant.lean, and
// Tie/C18.lean requires the repaired variant (`tree_is_fixed`).
func c18ProbeFix() int {
	m := 0
	s := NewSampler(1, 0, 1, 0, 1, nil)
	if r := c18CallSample(&s, []float32{c18PosInf, 0}); r.err == nil && r.pnc == nil {
		m |= 1
	}
	g := NewSampler(0, 0, 1, 0, 1, nil)
	if r := c18CallSample(&g, []float32{c18NegInf, c18NegInf}); r.err != nil {
		m |= 2
	}
	return m
}

// c18FixedSrc is a rand.Source that always returns the same word.
type c18FixedSrc uint64

func (f c18FixedSrc) Uint64() uint64 { return uint64(f) }

// c18Status joins the contract flags of a run; the only one that depends on r is `r*total <= total`.
func c18Status(base []string, cum []float32, r float32) string {
	flags := []string{}
	nan, mass := false, false
	for _, f := range base {
		switch f {
		case "nan": // the run guard `runGood`: reported after the others, together with its r-dependent part
			nan = true
		case "mass": // the residual guard `massFinite`: reported last
			mass = true
		default:
			flags = append(flags, f)
		}
	}
	if len(cum) > 0 {
		sum := cum[len(cum)-1]
		if !(r*sum <= sum) {
			flags = append(flags, "r")
		}
		if t := r * sum; t != t {
			nan = true
		}
	}
	if nan {
		flags = append(flags, "nan")
	}
	if mass {
		flags = append(flags, "mass")
	}
	if len(flags) == 0 {
		return "ok"
	}
	return "bad:" + strings.Join(flags, ",")
}

func c18L2(out *zzverif.Out, c *c18Case, s *Sampler, res c18Result, line string, st *c18Stage) {
	n := len(c.logits)
	if res.pnc != nil {
		out.L2("panic", line, fmt.Sprint(res.pnc))
		return
	}
	if res.err == nil && (res.id < 0 || int(res.id) >= n) {
		out.L2("id-out-of-range", line, fmt.Sprintf("id=%d n=%d", res.id, n))
		return
	}
	if c.weird {
		out.Count("l2_skipped_weird_params")
		return
	}
	hasNaN := c18HasNaN(c.logits)
	someFinite := false
	maxv := c18NegInf
	for _, v := range c.logits {
		if v == v && !math.IsInf(float64(v), 0) {
			someFinite = true
		}
		if v > maxv {
			maxv = v
		}
	}
	temp := s.temperature
	if hasNaN {
		// a NaN logit is reported as an error by the weighted path (the code's own NaN guard);
		// only the greedy clause is meaningful
		out.Count("l2_nan_vectors")
		if temp == 0 && res.err == nil {
			got := c.logits[res.id]
			if got != got || got < maxv {
				out.L2("greedy-not-max", line, fmt.Sprintf("cause=nan-logit id=%d logit=%s max-non-nan=%v nan-at-0=%v", res.id, c18Bits(got), maxv, c.logits[0] != c.logits[0]))
			}
		}
		if temp != 0 {
			// outside the property's quantifier, but never unmonitored: with a NaN among the logits the weighted
			// path answers an error, or (NaN outside the top-k window) a token whose own logit is neither NaN
			// nor -Inf
			out.Count("l2_nan_weighted_checked")
			if res.err == nil {
				if got := c.logits[res.id]; got != got || got == c18NegInf {
					out.L2("nan-vector-inadmissible-token", line, fmt.Sprintf("id=%d logit=%s", res.id, c18Bits(got)))
				}
			}
		}
		return
	}
	if res.err != nil {
		if someFinite {
			// classify the cause for the known-finding signature
			tt := max(temp, 1e-7)
			cause := "unknown"
			posInf, overflow, allNegAfter := false, false, true
			for _, v := range c.logits {
				sc := v / tt
				if v == c18PosInf {
					posInf = true
				} else if sc == c18PosInf {
					overflow = true
				}
				if sc != c18NegInf {
					allNegAfter = false
				}
			}
			switch {
			case posInf:
				cause = "posinf-logit"
			case overflow:
				cause = "scale-overflow"
			case allNegAfter:
				cause = "scale-underflow-all-neginf"
			}
			// is the offending token inside the top-k window? (it always is: it is the maximum)
			out.L2("error-with-finite-logit", line, fmt.Sprintf("cause=%s temp=%v err=%v", cause, temp, res.err))
		} else {
			out.Count("l2_error_no_finite_logit")
		}
		return
	}
	got := c.logits[res.id]
	if someFinite && got == c18NegInf {
		out.L2("neg-inf-chosen", line, fmt.Sprintf("id=%d", res.id))
	}
	if temp == 0 {
		if got != maxv {
			out.L2("greedy-not-max", line, fmt.Sprintf("cause=plain id=%d logit=%v max=%v", res.id, got, maxv))
		}
		return
	}
	// membership in the filter set, recomputed independently
	// top-k (tolerance free): fewer than k logits are strictly larger
	larger := 0
	for _, v := range c.logits {
		if v > got {
			larger++
		}
	}
	k := s.topK
	if k <= 0 || k > n {
		k = n
	}
	if larger >= k {
		out.L2("not-in-topk", line, fmt.Sprintf("id=%d strictly-larger=%d k=%d", res.id, larger, k))
	}
	// top-p / min-p: the filter sets are DEFINED on the float32 probabilities the real softmax
	// produced (bit patterns, in the order the real topK produced), with the float32 comparisons of
	// the property itself — no re-derivation of the probabilities with another rounding:
	//   min-p set = { t : not (p_t < maxp * minP) },  maxp = the largest probability
	//   top-p set = { t at position i : not (p_0 + ... + p_{i-1} > topP) }   (everything if topP == 1)
	if st == nil || !st.ok {
		out.Count("l2_membership_skipped_no_stage_values")
		return
	}
	pos := -1
	for i, id := range st.ids {
		if id == res.id {
			pos = i
			break
		}
	}
	if pos < 0 {
		out.L2("not-in-topk", line, fmt.Sprintf("id=%d is not among the %d tokens the real topK returned", res.id, len(st.ids)))
		return
	}
	out.Count("l2_membership_checked")
	maxp := st.pv[0]
	for _, v := range st.pv {
		if v > maxp {
			maxp = v
		}
	}
	if th := maxp * s.minP; st.pv[pos] < th {
		out.L2("not-in-minp", line, fmt.Sprintf("id=%d prob=%s (%g) < maxprob*minP=%s (%g)", res.id, c18Bits(st.pv[pos]), st.pv[pos], c18Bits(th), th))
	}
	if s.topP != 1 {
		var before float32
		for i := 0; i < pos; i++ {
			before += st.pv[i]
		}
		if before > s.topP {
			out.L2("not-in-topp", line, fmt.Sprintf("id=%d position=%d mass-before=%s (%g) > topP=%g", res.id, pos, c18Bits(before), before, s.topP))
		}
	}
}

// c18Stage carries the values the real transforms produced for one case: the ids in the order the
// real topK returned them and the float32 probabilities after the real softmax.
type c18Stage struct {
	ids []int32
	pv  []float32
	ok  bool // no NaN among the probabilities
}

// ---------------------------------------------------------------- histories

// c18Hist is the unit of a run: ONE sampler (parameters + seed) and a sequence of calls on it.
//
//	H <tempbits> <k> <pbits> <minpbits> <seed> <ncalls> {<n> <logitbits>*}*
//
// (the older single-call form `S <temp> <k> <p> <minp> <seed> <n> <bits>*` is still read)
type c18Hist struct {
	temp, p, mp float32
	k, seed     int
	calls       [][]float32
	weird       bool
	label       string // compact replay line of a generated large-vocabulary history (`L ...`)
}

func (h *c18Hist) line() string {
	if h.label != "" {
		return h.label
	}
	var b strings.Builder
	fmt.Fprintf(&b, "H %s %d %s %s %d %d", c18Bits(h.temp), h.k, c18Bits(h.p), c18Bits(h.mp), h.seed, len(h.calls))
	for _, v := range h.calls {
		b.WriteByte(' ')
		b.WriteString(c18FList(v))
	}
	return b.String()
}

func c18ParseHist(line string) *c18Hist {
	f := strings.Fields(line)
	if len(f) >= 7 && f[0] == "S" {
		c := c18ParseCase(line)
		if c == nil {
			return nil
		}
		return &c18Hist{temp: c.temp, p: c.p, mp: c.mp, k: c.k, seed: c.seed, calls: [][]float32{c.logits}, weird: c.weird}
	}
	if len(f) < 7 || f[0] != "H" {
		return nil
	}
	h := &c18Hist{temp: c18ParseF(f[1]), p: c18ParseF(f[3]), mp: c18ParseF(f[4])}
	h.k, _ = strconv.Atoi(f[2])
	h.seed, _ = strconv.Atoi(f[5])
	nc, _ := strconv.Atoi(f[6])
	pos := 7
	for j := 0; j < nc && pos < len(f); j++ {
		n, err := strconv.Atoi(f[pos])
		if err != nil {
			return nil
		}
		pos++
		v := make([]float32, 0, n)
		for i := 0; i < n && pos < len(f); i++ {
			v = append(v, c18ParseF(f[pos]))
			pos++
		}
		h.calls = append(h.calls, v)
	}
	for _, x := range []float32{h.temp, h.p, h.mp} {
		if x != x || math.IsInf(float64(x), 0) {
			h.weird = true
		}
	}
	return h
}

func c18GenHist(r *zzverif.Rng, out *zzverif.Out) *c18Hist {
	c := c18GenCase(r, out)
	h := &c18Hist{temp: c.temp, p: c.p, mp: c.mp, k: c.k, seed: c.seed, weird: c.weird, calls: [][]float32{c.logits}}
	nc := 1
	switch r.Intn(8) {
	case 0, 1:
		nc = 1
	case 2, 3, 4:
		nc = 2
	case 5, 6:
		nc = r.Range(3, 4)
	default:
		nc = r.Range(5, 8)
	}
	if len(c.logits) > 600 {
		nc = min(nc, 2)
	}
	for j := 1; j < nc; j++ {
		prev := h.calls[j-1]
		var v []float32
		switch r.Intn(8) {
		case 0: // a different vocabulary size
			out.Count("hist_next_other_length")
			v = c18GenLogits(r, out)
			if len(v) > 600 {
				v = v[:600]
			}
		case 1, 2: // a fresh vector of the same length from another class
			out.Count("hist_next_fresh_same_length")
			v = c18GenLogits(r, out)
			for len(v) < len(prev) {
				v = append(v, v...)
			}
			v = v[:len(prev)]
		case 3: // the same vector again
			out.Count("hist_next_identical")
			v = append([]float32(nil), prev...)
		case 4: // a different mask over the same values (what a grammar does between tokens)
			out.Count("hist_next_remasked")
			v = append([]float32(nil), prev...)
			for i := range v {
				if v[i] == c18NegInf {
					v[i] = c18RandFloat(r, -20, 20)
				}
			}
			den := r.Range(2, 6)
			for i := range v {
				if r.Chance(den-1, den) {
					v[i] = c18NegInf
				}
			}
		case 5: // a permutation of the previous vector
			out.Count("hist_next_permuted")
			v = append([]float32(nil), prev...)
			for i := len(v) - 1; i > 0; i-- {
				j := r.Intn(i + 1)
				v[i], v[j] = v[j], v[i]
			}
		default: // the previous vector with some entries redrawn
			out.Count("hist_next_perturbed")
			v = append([]float32(nil), prev...)
			for j := 0; j < 1+len(v)/4; j++ {
				v[r.Intn(len(v))] = c18RandFloat(r, -20, 20)
			}
		}
		h.calls = append(h.calls, v)
	}
	return h
}

// c18GenLongHist: one sampler, 150 calls on small vocabularies (the length changes now and then, masks come and go).
func c18GenLongHist(r *zzverif.Rng, out *zzverif.Out) *c18Hist {
	n := r.Range(3, 24)
	h := &c18Hist{
		temp: zzverif.Pick(r, []float32{1, 0.7, 1.3, 0.25}),
		k:    zzverif.Pick(r, []int{0, 5, 40, max(n-1, 1), 2}),
		p:    zzverif.Pick(r, []float32{1, 0.9, 0.95, 0.5}),
		mp:   zzverif.Pick(r, []float32{0, 0.05, 0.2}),
		seed: r.Range(1, 1<<30),
	}
	if r.Chance(1, 4) {
		h.seed = -1
	}
	out.Count("long_histories")
	for j := 0; j < 150; j++ {
		if j%17 == 16 {
			n = r.Range(3, 24)
		}
		v := make([]float32, n)
		for i := range v {
			v[i] = c18RandFloat(r, -8, 8)
			if r.Chance(1, 6) {
				v[i] = c18NegInf
			}
		}
		v[r.Intn(n)] = c18RandFloat(r, -2, 9) // at least one finite logit
		h.calls = append(h.calls, v)
	}
	return h
}

// c18RunHist: one real Sampler, all calls on it; the generator state is threaded by the model's rule.
func c18RunHist(out *zzverif.Out, h *c18Hist, fix bool) {
	if h.seed == -1 {
		c18RunUnseeded(out, h, fix)
		return
	}
	line := h.line()
	c18HistSeq++
	large := false
	for _, v := range h.calls {
		if len(v) > 5000 {
			large = true
		}
	}
	if large {
		out.Count("large_vocab_histories")
	}
	out.Count("cases")
	out.Count(fmt.Sprintf("hist_len_%d", min(len(h.calls), 5)))
	realS := NewSampler(h.temp, h.k, h.p, h.mp, h.seed, nil)
	out.Case(fmt.Sprintf("newsampler %s %d %s %s", c18Bits(h.temp), h.k, c18Bits(h.p), c18Bits(h.mp)),
		fmt.Sprintf("%s %d %s %s", c18Bits(realS.temperature), realS.topK, c18Bits(realS.topP), c18Bits(realS.minP)))
	out.Case(fmt.Sprintf("newrng %d", h.seed), c18RngKind(&realS))
	if realS.rng == nil {
		out.L2("seed-ignored", line, "NewSampler returned a sampler without a seeded generator although seed != -1")
		c18ReproFlat(out, h, line)
		return
	}
	// the seeded stream, read from a second, identically constructed sampler
	s2 := NewSampler(h.temp, h.k, h.p, h.mp, h.seed, nil)
	stream := make([]float32, len(h.calls)+2)
	nums := make([]string, len(stream))
	for i := range stream {
		stream[i] = s2.rng.Float32()
		nums[i] = strconv.Itoa(int(stream[i] * (1 << 24)))
	}
	out.Case(fmt.Sprintf("rng %d %d", h.seed, len(stream)), strings.Join(nums, ","))

	draws := 0
	anyPre := false
	for j, logits := range h.calls {
		c := &c18Case{temp: h.temp, p: h.p, mp: h.mp, k: h.k, seed: h.seed, logits: logits, weird: h.weird}
		consumed, pre, _, _ := c18RunCall(out, c, fix, &realS, stream[draws], line, j, !large && (j == 0 || j == len(h.calls)-1))
		if consumed {
			draws++
		}
		anyPre = anyPre || pre
	}
	out.Add("rng_draws", draws)

	// the whole history on fresh samplers: (a) reproducible under the seed, (b) through the model's
	// `sampleHist` (generator state threaded inside the oracle) when no call needs Go's tie order
	run := func() []string {
		s := NewSampler(h.temp, h.k, h.p, h.mp, h.seed, nil)
		heads := make([]string, len(h.calls))
		for j, v := range h.calls {
			heads[j] = c18CallSample(&s, append([]float32(nil), v...)).head
		}
		return heads
	}
	c18ReproFlat(out, h, line)
	a, b := run(), run()
	out.Count("repro_histories")
	if strings.Join(a, ";") != strings.Join(b, ";") {
		out.L2("not-reproducible", line, fmt.Sprintf("same seed, same inputs: %s vs %s", strings.Join(a, ";"), strings.Join(b, ";")))
	}
	if large || c18HistSeq%6 == 0 {
		c18EnvRepro(out, h, line, fix)
	}
	if !anyPre && !h.weird {
		if large {
			out.Count("large_hist_ops")
		}
		fixFlag := c18FixMask()
		var op strings.Builder
		fmt.Fprintf(&op, "hist %d %s %d %s %s %d %d", fixFlag, c18Bits(h.temp), h.k, c18Bits(h.p), c18Bits(h.mp), h.seed, len(h.calls))
		tbl := map[string]string{}
		var order []string
		for _, v := range h.calls {
			op.WriteByte(' ')
			op.WriteString(c18FList(v))
			c := &c18Case{temp: h.temp, p: h.p, mp: h.mp, k: h.k, logits: v}
			for _, kv := range c18CallExpPairs(c, fix) {
				if _, ok := tbl[kv[0]]; !ok {
					tbl[kv[0]] = kv[1]
					order = append(order, kv[0])
				}
			}
		}
		fmt.Fprintf(&op, " %d", len(order))
		for _, k := range order {
			op.WriteString(" " + k + " " + tbl[k])
		}
		out.Count("hist_ops")
		out.Case(op.String(), strings.Join(a, ";"))
	} else {
		out.Count("hist_ops_skipped_tie_order_or_weird")
	}
}

// the seeds that matter for "reproducible under a fixed seed": 32-bit boundary, all-ones low words
// (the bit pattern of the -1 sentinel after a truncation), 63-bit, negative, 0
func c18SpecialSeed(r *zzverif.Rng) int {
	k := r.Range(1, 1000)
	return zzverif.Pick(r, []int{1<<32 - 1, 1<<63 - 1, 1 << 32, 1<<32 + k, 1<<33 - 1, k<<32 | 0xFFFFFFFF, -(1 << 32) - 1,
		-(1 << 32), -(1 << 31), -2, 0, 1<<31 - 1, 1 << 31, -(k << 32) - 1, math.MinInt64, 0xFFFFFFFF + k})
}

// c18ReproFlat: two fresh samplers with the same seed (never the sentinel -1) on a sequence of calls in
// which the draw matters (flat distributions over 64 tokens, temperature 1) must return the same sequence.
func c18ReproFlat(out *zzverif.Out, h *c18Hist, line string) {
	if h.seed == -1 {
		return
	}
	flat := make([]float32, 64)
	run := func() string {
		s := NewSampler(1, 0, 1, 0, h.seed, nil)
		var b strings.Builder
		for j := 0; j < 12; j++ {
			b.WriteString(c18CallSample(&s, append([]float32(nil), flat...)).head + ";")
		}
		return b.String()
	}
	a, b := run(), run()
	out.Count("repro_flat_sequences")
	if a != b {
		out.L2("not-reproducible", line, fmt.Sprintf("seed %d: two fresh samplers, 12 calls on 64 equal logits at temperature 1: %s vs %s", h.seed, a, b))
	}
}

// c18CallExpPairs replicates the stages up to softmax with the real transforms and returns the
// (argument, exp value) pairs of that call.
func c18CallExpPairs(c *c18Case, fix bool) [][2]string {
	s := c18Spec(c)
	if len(c.logits) == 0 || s.temperature == 0 {
		return nil
	}
	W := topK(c18Toks(c.logits), s.topK)
	if fix && !c18Shift(W) {
		return nil
	}
	temperature(W, s.temperature)
	f := strings.Fields(c18ExpTable(c18Vals(W)))
	var out [][2]string
	for i := 1; i+1 < len(f); i += 2 {
		out = append(out, [2]string{f[i], f[i+1]})
	}
	return out
}

// directed search for the temperature-0 clause: near-tied top logits (adjacent floats), many seeds;
// whatever the seed, the result must be an arg-max.
func c18GreedyNearTies(out *zzverif.Out, r *zzverif.Rng, fix bool) {
	for i := 0; i < 96; i++ {
		n := r.Range(2, 12)
		base := math.Float32bits(zzverif.Pick(r, []float32{1, 1, 0.5, 2, 1e-3, 17.25}))
		v := make([]float32, n)
		for j := range v {
			v[j] = math.Float32frombits(base - uint32(r.Range(1, 2)))
		}
		v[r.Intn(n)] = math.Float32frombits(base) // the unique maximum, one or two ulps above the rest
		h := &c18Hist{temp: 0, k: zzverif.Pick(r, []int{0, 40, n, -1}), p: zzverif.Pick(r, []float32{1, 0.95, 0.9}),
			mp: zzverif.Pick(r, []float32{0, 0.05}), seed: r.Range(1, 1<<30), calls: [][]float32{v}}
		if r.Chance(1, 3) {
			h.temp = float32(math.Copysign(0, -1)) // -0
		}
		if r.Bool() {
			h.calls = append(h.calls, append([]float32(nil), v...))
		}
		out.Count("directed_greedy_near_ties")
		c18RunHist(out, h, fix)
	}
}

func TestVerifC18(t *testing.T) {
	out := zzverif.NewOut()
	defer out.Close()
	fix := c18FixMask()&1 != 0
	os.WriteFile(zzverif.OutDir()+"/variant.txt", []byte(fmt.Sprintf("fix=%d probed=%d\n", c18FixMask(), c18ProbeFix())), 0o644)
	if rp := os.Getenv("VERIF_REPLAY"); rp != "" {
		b, err := os.ReadFile(rp)
		if err != nil {
			t.Fatal(err)
		}
		if strings.HasPrefix(strings.TrimSpace(string(b)), "G ") {
			gh := c18ParseGHist(strings.TrimSpace(string(b)))
			if gh == nil {
				t.Fatalf("bad replay line")
			}
			c18RunGHist(out, c18MakeVocab(), gh, fix)
			os.Remove(zzverif.OutDir() + "/current.txt")
			return
		}
		h := c18ParseHist(strings.TrimSpace(string(b)))
		if h == nil {
			h = c18ParseLarge(strings.TrimSpace(string(b)))
		}
		if h == nil {
			t.Fatalf("bad replay line")
		}
		c18HistSeq = -1 // the replayed history always goes through the cross-environment monitor
		c18RunHist(out, h, fix)
		return
	}
	root := zzverif.NewRng(zzverif.Seed())
	n := zzverif.EnvInt("VERIF_N", 1000)
	// corpus first
	if dir := os.Getenv("VERIF_CORPUS"); dir != "" {
		if b, err := os.ReadFile(dir + "/cases.txt"); err == nil {
			for _, l := range strings.Split(string(b), "\n") {
				if h := c18ParseHist(strings.TrimSpace(l)); h != nil {
					out.Count("corpus_cases")
					c18RunHist(out, h, fix)
				}
			}
		}
	}
	c18GreedyNearTies(out, root.Fork(), fix)
	// directed: every special seed, a history in which the draw matters
	for _, sd := range []int{1<<32 - 1, 1<<63 - 1, 1 << 32, 1<<32 + 7, 1<<33 - 1, 5<<32 | 0xFFFFFFFF, -(1 << 32) - 1, -(1 << 32),
		-(1 << 31), -2, 0, 1<<31 - 1, 1 << 31, math.MinInt64, 42} {
		out.Count("directed_special_seeds")
		flat := make([]float32, 16)
		c18RunHist(out, &c18Hist{temp: 1, k: 0, p: 1, mp: 0, seed: sd, calls: [][]float32{flat, flat, flat}}, fix)
	}
	c18GrammarRuns(out, root.Fork(), fix, zzverif.EnvInt("VERIF_NG", 200))
	c18LargeRuns(out, root.Fork(), fix, zzverif.EnvInt("VERIF_NL", 1))
	for i := 0; i < n; i++ {
		r := root.Fork()
		c18RunHist(out, c18GenHist(r, out), fix)
	}
	// long histories: behaviour that depends on HOW MANY calls a sampler has served (a scratch buffer grown once,
	// a call counter, a re-seed) does not show in 1..8 calls
	for i := 0; i < zzverif.EnvInt("VERIF_NLONG", 2); i++ {
		c18RunHist(out, c18GenLongHist(root.Fork(), out), fix)
	}
	// empty input, alone and inside a history
	c18RunHist(out, &c18Hist{temp: 0.8, k: 40, p: 0.9, mp: 0.05, seed: 7, calls: [][]float32{{}}}, fix)
	c18RunHist(out, &c18Hist{temp: 0.8, k: 0, p: 0.9, mp: 0.05, seed: 7, calls: [][]float32{{1, 2, 3}, {}, {3, 2, 1}}}, fix)
}
