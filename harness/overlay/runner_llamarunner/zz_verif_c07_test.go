package llamarunner

// Verification driver for C07, llamarunner half: only the pure slot-selection and discard
// arithmetic of runner/llamarunner/cache.go can be executed here (its KV cache is llama.cpp's,
// reached through cgo with a loaded model: modelled, not verified).  Same line protocol and the
// same Lean functions as the ollamarunner policies.  Added with `go test -overlay`.

import (
	"fmt"
	"strconv"
	"strings"
	"testing"
	"time"

	"github.com/ollama/ollama/zzverif"
)

func v7llToks(in []input) string {
	if len(in) == 0 {
		return "-"
	}
	ss := make([]string, len(in))
	for i, x := range in {
		ss[i] = strconv.Itoa(x.token)
	}
	return strings.Join(ss, ",")
}

func TestVerifC07LL(t *testing.T) {
	out := zzverif.NewOut()
	defer out.Close()
	root := zzverif.NewRng(zzverif.Seed())
	n := zzverif.EnvInt("VERIF_N", 2000)
	base := time.Now().Add(-24 * time.Hour)
	for range n {
		r := root.Fork()
		vocab := r.Range(1, 3)
		nslots := r.Range(1, 4)
		mk := func(k int) []input {
			o := make([]input, k)
			for i := range o {
				o[i] = input{token: r.Intn(vocab)}
			}
			return o
		}
		prompt := mk(r.Range(1, 8))
		slots := make([]InputCacheSlot, nslots)
		var desc []string
		for i := range slots {
			var in []input
			switch r.Intn(4) {
			case 0:
				in = mk(r.Intn(8))
			case 1:
				in = append([]input(nil), prompt[:r.Intn(len(prompt)+1)]...)
			case 2:
				in = append(append([]input(nil), prompt...), mk(r.Intn(3))...)
			default:
				in = append(append([]input(nil), prompt[:r.Intn(len(prompt)+1)]...), mk(r.Intn(3))...)
			}
			lu := r.Intn(6)
			slots[i] = InputCacheSlot{Id: i, Inputs: in, InUse: r.Chance(1, 3)}
			if lu > 0 {
				slots[i].lastUsed = base.Add(time.Duration(lu) * time.Millisecond)
			}
			u := 0
			if slots[i].InUse {
				u = 1
			}
			d := fmt.Sprintf("%d %d %d", u, lu, len(in))
			for _, x := range in {
				d += " " + strconv.Itoa(x.token)
			}
			desc = append(desc, d)
		}
		ptoks := strconv.Itoa(len(prompt))
		for _, x := range prompt {
			ptoks += " " + strconv.Itoa(x.token)
		}
		slotsDesc := fmt.Sprintf("%d %s", nslots, strings.Join(desc, " "))
		inUse := make([]bool, nslots)
		for i := range slots {
			inUse[i] = slots[i].InUse
		}

		run := func(multi bool) (res string, idx int) {
			c := &InputCache{numCtx: 8, slots: append([]InputCacheSlot(nil), slots...), multiUserCache: multi}
			for i := range c.slots {
				c.slots[i].Inputs = append([]input(nil), slots[i].Inputs...)
			}
			idx = -1
			defer func() {
				if p := recover(); p != nil {
					res = "panic"
				}
			}()
			var sl *InputCacheSlot
			var np int
			var err error
			if multi {
				sl, np, err = c.findBestCacheSlot(prompt)
			} else {
				sl, np, err = c.findLongestCacheSlot(prompt)
			}
			if err != nil {
				return "err:noslots", -1
			}
			res = fmt.Sprintf("ok %d %d", sl.Id, np)
			if multi {
				var ss []string
				for i := range c.slots {
					ss = append(ss, v7llToks(c.slots[i].Inputs))
				}
				res += " [" + strings.Join(ss, ";") + "]"
			}
			// L2: the reused prefix is a prefix of the prompt
			if np > len(prompt) || np > len(sl.Inputs) || v7llToks(sl.Inputs[:np]) != v7llToks(prompt[:np]) {
				out.L2("ll-prefix-reuse", "", fmt.Sprintf("slot %d numPast %d is not a common prefix", sl.Id, np))
			}
			return res, sl.Id
		}
		for _, multi := range []bool{false, true} {
			res, idx := run(multi)
			op := "ll-longest " + slotsDesc + " " + ptoks
			if multi {
				op = "ll-best 1000000 " + slotsDesc + " " + ptoks
			}
			out.Case(op, res)
			out.Count("ll_cases")
			out.Count("ll_" + strings.Fields(res)[0])
			if idx >= 0 && inUse[idx] {
				out.L2("ll-slot-exclusive", op, fmt.Sprintf("slot %d was in use and has been selected", idx))
			}
		}
		ctx, il, k := r.Range(1, 64), 0, 0
		il = r.Intn(ctx + 2)
		k = r.Intn(ctx)
		c := &InputCache{numCtx: ctx}
		d := c.ShiftDiscard(il, k)
		out.Case(fmt.Sprintf("ll-discard %d %d %d", ctx, il, k), strconv.Itoa(d))
		if il == ctx && (d < 1 || k+d > il) {
			out.L2("ll-discard", fmt.Sprintf("ll-discard %d %d %d", ctx, il, k), "a full context must discard between 1 and len-keep inputs")
		}
	}
}
