package llamarunner

// Verification driver for C07, llamarunner half: only the pure slot-selection and discard
// arithmetic of runner/llamarunner/cache.go can be executed here (its KV cache is llama.cpp's,
// reached through cgo with a loaded model: modelled, not verified).  Same line protocol and the
// same Lean functions as the ollamarunner policies.  Added with `go test -overlay`.

import (
	"fmt"
	"os"
	"regexp"
	"strconv"
	"strings"
	"testing"
	"testing/synctest"
	"time"

	"github.com/ollama/ollama/zzverif"
)

func v7llToks(in []input) string {
	if len(in) == 0 {
		return "-"
	}
	ss := make([]string, len(in))
	for i, x := range in {
		ss[i] = strconv.Itoa(x.token)
	}
	return strings.Join(ss, ",")
}

func TestVerifC07LL(t *testing.T) {
	out := zzverif.NewOut()
	defer out.Close()
	root := zzverif.NewRng(zzverif.Seed())
	n := zzverif.EnvInt("VERIF_N", 2000)
	base := time.Now().Add(-24 * time.Hour)
	for range n {
		r := root.Fork()
		vocab := r.Range(1, 3)
		nslots := r.Range(1, 4)
		mk := func(k int) []input {
			o := make([]input, k)
			for i := range o {
				o[i] = input{token: r.Intn(vocab)}
			}
			return o
		}
		prompt := mk(r.Range(1, 8))
		slots := make([]InputCacheSlot, nslots)
		var desc []string
		for i := range slots {
			var in []input
			switch r.Intn(4) {
			case 0:
				in = mk(r.Intn(8))
			case 1:
				in = append([]input(nil), prompt[:r.Intn(len(prompt)+1)]...)
			case 2:
				in = append(append([]input(nil), prompt...), mk(r.Intn(3))...)
			default:
				in = append(append([]input(nil), prompt[:r.Intn(len(prompt)+1)]...), mk(r.Intn(3))...)
			}
			lu := r.Intn(6)
			slots[i] = InputCacheSlot{Id: i, Inputs: in, InUse: r.Chance(1, 3)}
			if lu > 0 {
				slots[i].lastUsed = base.Add(time.Duration(lu) * time.Millisecond)
			}
			u := 0
			if slots[i].InUse {
				u = 1
			}
			d := fmt.Sprintf("%d %d %d", u, lu, len(in))
			for _, x := range in {
				d += " " + strconv.Itoa(x.token)
			}
			desc = append(desc, d)
		}
		ptoks := strconv.Itoa(len(prompt))
		for _, x := range prompt {
			ptoks += " " + strconv.Itoa(x.token)
		}
		slotsDesc := fmt.Sprintf("%d %s", nslots, strings.Join(desc, " "))
		inUse := make([]bool, nslots)
		for i := range slots {
			inUse[i] = slots[i].InUse
		}

		run := func(multi bool) (res string, idx int) {
			c := &InputCache{numCtx: 8, slots: append([]InputCacheSlot(nil), slots...), multiUserCache: multi}
			for i := range c.slots {
				c.slots[i].Inputs = append([]input(nil), slots[i].Inputs...)
			}
			idx = -1
			defer func() {
				if p := recover(); p != nil {
					res = "panic"
				}
			}()
			var sl *InputCacheSlot
			var np int
			var err error
			if multi {
				sl, np, err = c.findBestCacheSlot(prompt)
			} else {
				sl, np, err = c.findLongestCacheSlot(prompt)
			}
			if err != nil {
				return "err:noslots", -1
			}
			res = fmt.Sprintf("ok %d %d", sl.Id, np)
			if multi {
				var ss []string
				for i := range c.slots {
					ss = append(ss, v7llToks(c.slots[i].Inputs))
				}
				res += " [" + strings.Join(ss, ";") + "]"
			}
			// L2: the reused prefix is a prefix of the prompt
			if np > len(prompt) || np > len(sl.Inputs) || v7llToks(sl.Inputs[:np]) != v7llToks(prompt[:np]) {
				out.L2("ll-prefix-reuse", "", fmt.Sprintf("slot %d numPast %d is not a common prefix", sl.Id, np))
			}
			return res, sl.Id
		}
		for _, multi := range []bool{false, true} {
			res, idx := run(multi)
			op := "ll-longest " + slotsDesc + " " + ptoks
			if multi {
				op = "ll-best 1000000 " + slotsDesc + " " + ptoks
			}
			out.Case(op, res)
			out.Count("ll_cases")
			out.Count("ll_" + strings.Fields(res)[0])
			if idx >= 0 && inUse[idx] {
				out.L2("ll-slot-exclusive", op, fmt.Sprintf("slot %d was in use and has been selected", idx))
			}
		}
		ctx, il, k := r.Range(1, 64), 0, 0
		il = r.Intn(ctx + 2)
		k = r.Intn(ctx)
		c := &InputCache{numCtx: ctx}
		d := c.ShiftDiscard(il, k)
		out.Case(fmt.Sprintf("ll-discard %d %d %d", ctx, il, k), strconv.Itoa(d))
		if il == ctx && (d < 1 || k+d > il) {
			out.L2("ll-discard", fmt.Sprintf("ll-discard %d %d %d", ctx, il, k), "a full context must discard between 1 and len-keep inputs")
		}
	}
}

// ------------------------------------------------------------------ record histories
//
// TestVerifC07LLHist drives the slot records of the llama.cpp runner over request histories.  The slot
// selection (findLongestCacheSlot / findBestCacheSlot incl. the fork), countCommonPrefix and
// ShiftDiscard are the REAL functions on the REAL InputCache/InputCacheSlot values.  LoadCacheSlot and
// ShiftCacheSlot call into llama.cpp unconditionally (c.lc), which needs a loaded model: their
// remaining statements are replayed here verbatim, with each llama.cpp KV call replaced by the same
// operation on a shadow of the KV sequences (kv[seq] = tokens by position; modelled, not verified).
// Records are appended with the runner's own statement (seq.cache.Inputs = append(seq.cache.Inputs, ...)).

type v7llH struct {
	c        *InputCache
	kv       map[int][]int
	canShift bool
	ctx      int
	out      *zzverif.Out
	start    time.Time
	pending  map[int][]int // inputs the request owning the slot still has to decode
	keep     map[int]int
	events   []string
	obs      []string
	fails    [][2]string
}

func v7llInts(xs []int) string {
	if len(xs) == 0 {
		return "-"
	}
	ss := make([]string, len(xs))
	for i, x := range xs {
		ss[i] = strconv.Itoa(x)
	}
	return strings.Join(ss, ",")
}

func v7llTokInts(in []input) []int {
	o := make([]int, len(in))
	for i, x := range in {
		o[i] = x.token
	}
	return o
}

func v7llMk(toks []int) []input {
	o := make([]input, len(toks))
	for i, t := range toks {
		o[i] = input{token: t}
	}
	return o
}

func (h *v7llH) l2(kind, detail string) { h.fails = append(h.fails, [2]string{kind, detail}) }

func (h *v7llH) tick(t time.Time) int {
	if t.IsZero() {
		return 0
	}
	return int(t.Sub(h.start) / time.Millisecond)
}

func (h *v7llH) state() string {
	var sb strings.Builder
	for i := range h.c.slots {
		sl := &h.c.slots[i]
		u := 0
		if sl.InUse {
			u = 1
		}
		fmt.Fprintf(&sb, "S%d:%d:%d:%s;", sl.Id, u, h.tick(sl.lastUsed), v7llInts(v7llTokInts(sl.Inputs)))
	}
	return sb.String()
}

func (h *v7llH) records() [][]int {
	o := make([][]int, len(h.c.slots))
	for i := range h.c.slots {
		o[i] = v7llTokInts(h.c.slots[i].Inputs)
	}
	return o
}

// L2 after every event: (1) records of slots the event did not operate on are unchanged (records of
// different slots never share storage); (2) every record is what its KV sequence holds (exactly for a
// slot in use, as a prefix for a released slot whose record was cut by the stop handling).
func (h *v7llH) monitors(ev string, before [][]int, touched int) {
	for i := range h.c.slots {
		sl := &h.c.slots[i]
		rec := v7llTokInts(sl.Inputs)
		if i != touched && v7llInts(rec) != v7llInts(before[i]) {
			h.l2("ll-record-aliasing", fmt.Sprintf("%s on slot %d changed the record of slot %d (in use: %v) from %s to %s", ev, touched, i, sl.InUse, v7llInts(before[i]), v7llInts(rec)))
		}
		kv := h.kv[sl.Id]
		ok := len(kv) >= len(rec) && v7llInts(kv[:len(rec)]) == v7llInts(rec)
		if sl.InUse && len(kv) != len(rec) {
			ok = false
		}
		if !ok {
			h.l2("ll-coherent", fmt.Sprintf("after %s: slot %d (in use: %v) records %s but its KV sequence holds %s", ev, i, sl.InUse, v7llInts(rec), v7llInts(kv)))
		}
	}
}

func (h *v7llH) doLoad(cachePrompt bool, promptToks []int) string {
	c := h.c
	prompt := v7llMk(promptToks)
	before := h.records()
	inUse := make([]bool, len(c.slots))
	for i := range c.slots {
		inUse[i] = c.slots[i].InUse
	}
	// which slot findBestCacheSlot will regard as the longest match (first strict maximum over all slots)
	longestIdx, longest := -1, -1
	for i := range c.slots {
		if n := countCommonPrefix(c.slots[i].Inputs, prompt); n > longest {
			longest, longestIdx = n, i
		}
	}
	var slot *InputCacheSlot
	var numPast int
	var err error
	panicked := false
	func() {
		defer func() {
			if p := recover(); p != nil {
				panicked = true
			}
		}()
		// --- LoadCacheSlot, first statement (real)
		if !c.multiUserCache {
			slot, numPast, err = c.findLongestCacheSlot(prompt)
		} else {
			slot, numPast, err = c.findBestCacheSlot(prompt)
		}
	}()
	if panicked {
		h.out.Count("llh_load_panic")
		h.monitors("load(panic)", before, -1)
		return "load:panic"
	}
	if err != nil {
		h.out.Count("llh_load_err")
		h.monitors("load(err)", before, -1)
		return "load:err"
	}
	if inUse[slot.Id] {
		h.l2("ll-slot-exclusive", fmt.Sprintf("slot %d was in use and has been selected", slot.Id))
	}
	if c.multiUserCache && numPast > 0 && slot.Id != longestIdx &&
		!(longest == len(before[longestIdx]) && !inUse[longestIdx]) {
		// fork: c.lc.KvCacheSeqRm(dst, 0, -1); c.lc.KvCacheSeqCp(src, dst, 0, longest)
		src := h.kv[longestIdx]
		h.kv[slot.Id] = append([]int(nil), src[:min(numPast, len(src))]...)
		h.out.Count("llh_fork")
		if numPast < len(before[longestIdx]) {
			h.out.Count("llh_fork_proper_prefix")
		}
	}
	// --- rest of LoadCacheSlot (replayed; llama.cpp calls on the shadow)
	if !cachePrompt {
		numPast = 0
	}
	slot.InUse = true
	slot.lastUsed = time.Now()
	if numPast == len(prompt) {
		numPast--
	}
	// c.lc.KvCacheSeqRm(slot.Id, numPast, -1)
	if kv := h.kv[slot.Id]; len(kv) > numPast {
		h.kv[slot.Id] = kv[:numPast]
	}
	prompt = prompt[numPast:]
	slot.Inputs = slot.Inputs[:numPast]
	// ---
	if numPast > 0 {
		h.out.Count("llh_prefix_reused")
	}
	rec := v7llTokInts(slot.Inputs)
	if v7llInts(append(append([]int(nil), rec...), v7llTokInts(prompt)...)) != v7llInts(promptToks) || len(prompt) < 1 {
		h.l2("ll-prefix-reuse", fmt.Sprintf("slot %d record %s ++ remaining %s is not the prompt %s", slot.Id, v7llInts(rec), v7llInts(v7llTokInts(prompt)), v7llInts(promptToks)))
	}
	h.pending[slot.Id] = v7llTokInts(prompt)
	h.monitors("load", before, slot.Id)
	h.out.Count("llh_load_ok")
	return fmt.Sprintf("load:ok,slot=%d,rest=%d", slot.Id, len(prompt))
}

func (h *v7llH) doDec(i int, toks []int) string {
	before := h.records()
	sl := &h.c.slots[i]
	// processBatch after Decode: seq.cache.Inputs = append(seq.cache.Inputs, seq.pendingInputs...)
	sl.Inputs = append(sl.Inputs, v7llMk(toks)...)
	h.kv[sl.Id] = append(h.kv[sl.Id], toks...)
	h.monitors("decode", before, i)
	h.out.Add("llh_decoded", len(toks))
	return "dec"
}

func (h *v7llH) doShift(i, numKeep int) string {
	c := h.c
	before := h.records()
	slot := &c.slots[i]
	res := ""
	// --- ShiftCacheSlot (replayed; ShiftDiscard is the real function)
	if numKeep >= c.numCtx {
		res = "shift:errkeep"
	} else {
		inputLen := len(slot.Inputs)
		discard := c.ShiftDiscard(inputLen, numKeep)
		if discard <= 0 {
			res = "shift:ok"
		} else if !h.canShift {
			newInputs := make([]input, numKeep+inputLen-(numKeep+discard))
			copy(newInputs[:numKeep], slot.Inputs[:numKeep])
			copy(newInputs[numKeep:], slot.Inputs[numKeep+discard:])
			h.kv[slot.Id] = nil // c.lc.KvCacheSeqRm(slot.Id, 0, -1)
			slot.Inputs = []input{}
			h.pending[slot.Id] = append(v7llTokInts(newInputs), h.pending[slot.Id]...)
			res = "shift:reproc," + v7llInts(v7llTokInts(newInputs))
			h.out.Count("llh_shift_reprocess")
		} else {
			// c.lc.KvCacheSeqRm(slot.Id, numKeep, numKeep+discard); c.lc.KvCacheSeqAdd(..., -discard)
			kv := h.kv[slot.Id]
			h.kv[slot.Id] = append(append([]int(nil), kv[:numKeep]...), kv[numKeep+discard:]...)
			for j := numKeep + discard; j < inputLen; j++ {
				slot.Inputs[j-discard] = slot.Inputs[j]
			}
			slot.Inputs = slot.Inputs[:inputLen-discard]
			res = "shift:ok"
			h.out.Count("llh_shift_ok")
		}
	}
	h.monitors("shift", before, i)
	return res
}

func (h *v7llH) doCut(i, k int) string {
	before := h.records()
	sl := &h.c.slots[i]
	sl.Inputs = sl.Inputs[:min(k, len(sl.Inputs))] // seq.cache.Inputs = seq.cache.Inputs[:tokenLen]
	sl.InUse = false
	delete(h.pending, i)
	h.monitors("stop-cut", before, i)
	return "cut"
}

func (h *v7llH) doRel(i int) string {
	before := h.records()
	h.c.slots[i].InUse = false
	delete(h.pending, i)
	h.monitors("release", before, i)
	return "rel"
}

func (h *v7llH) exec(ev string) {
	time.Sleep(time.Millisecond)
	f := strings.Fields(ev)
	at := func(i int) int {
		v, err := strconv.Atoi(f[i])
		if err != nil {
			panic(err)
		}
		return v
	}
	list := func(i int) []int {
		n := at(i)
		o := make([]int, n)
		for j := range o {
			o[j] = at(i + 1 + j)
		}
		return o
	}
	var o string
	switch f[0] {
	case "load":
		o = h.doLoad(at(1) != 0, list(2))
	case "dec":
		o = h.doDec(at(1), list(2))
	case "shift":
		o = h.doShift(at(1), at(2))
	case "cut":
		o = h.doCut(at(1), at(2))
	case "rel":
		o = h.doRel(at(1))
	default:
		panic("bad event " + ev)
	}
	h.events = append(h.events, ev)
	h.obs = append(h.obs, o+" {"+h.state()+"}")
}

func (h *v7llH) flush(header string) {
	line := fmt.Sprintf("%s %d %s", header, len(h.events), strings.Join(h.events, " "))
	h.out.Case(line, strings.Join(h.obs, " | "))
	h.out.Count("llh_cases")
	h.out.Add("llh_events", len(h.events))
	seen := map[string]bool{}
	perKind := map[string]int{}
	for _, f := range h.fails {
		if k := llDedupKey(f[0], f[1]); !seen[k] && perKind[f[0]] < 8 {
			seen[k] = true
			perKind[f[0]]++
			h.out.L2(f[0], line, f[1])
		}
	}
}

func v7llNew(parallel, ctx int, multi, canShift bool, out *zzverif.Out) *v7llH {
	c, err := NewInputCache(nil, parallel*ctx, parallel, multi)
	if err != nil {
		panic(err)
	}
	return &v7llH{c: c, kv: map[int][]int{}, canShift: canShift, ctx: ctx, out: out, start: time.Now(),
		pending: map[int][]int{}, keep: map[int]int{}}
}

func v7llList(xs []int) string {
	ss := make([]string, len(xs)+1)
	ss[0] = strconv.Itoa(len(xs))
	for i, x := range xs {
		ss[i+1] = strconv.Itoa(x)
	}
	return strings.Join(ss, " ")
}

func v7llGenerate(r *zzverif.Rng, out *zzverif.Out) {
	parallel := r.Range(1, 4)
	if r.Chance(2, 3) {
		parallel = r.Range(2, 4)
	}
	ctx := r.Pick3(4, 12, 32)
	multi := r.Chance(2, 3)
	canShift := r.Chance(3, 4)
	vocab := r.Range(2, 6)
	b := func(x bool) int {
		if x {
			return 1
		}
		return 0
	}
	header := fmt.Sprintf("llhist %d %d %d %d", parallel, ctx, b(multi), b(canShift))
	h := v7llNew(parallel, ctx, multi, canShift, out)
	randToks := func(n int) []int {
		o := make([]int, n)
		for i := range o {
			o[i] = r.Intn(vocab)
		}
		return o
	}
	clip := func(p []int) []int {
		if len(p) > ctx {
			p = p[:ctx]
		}
		if len(p) == 0 {
			p = randToks(1)
		}
		return p
	}
	genPrompt := func() []int {
		var recs [][]int
		for i := range h.c.slots {
			if len(h.c.slots[i].Inputs) > 0 {
				recs = append(recs, v7llTokInts(h.c.slots[i].Inputs))
			}
		}
		if len(recs) == 0 || r.Chance(1, 6) {
			return clip(randToks(r.Range(1, ctx)))
		}
		rec := zzverif.Pick(r, recs)
		switch r.Intn(6) {
		case 0: // exact repeat of a record
			return clip(append([]int(nil), rec...))
		case 1, 2: // proper prefix of a record + a different continuation (fork under the multi-user policy)
			k := r.Range(1, len(rec))
			return clip(append(append([]int(nil), rec[:k]...), randToks(r.Range(1, 4))...))
		case 3: // proper prefix only
			return clip(append([]int(nil), rec[:r.Range(1, len(rec))]...))
		default: // follow-up turn: the whole record + new inputs
			return clip(append(append([]int(nil), rec...), randToks(r.Range(1, 3))...))
		}
	}
	budget := r.Range(6, 60)
	for n := 0; n < budget; n++ {
		var free, busy []int
		for i := range h.c.slots {
			if h.c.slots[i].InUse {
				busy = append(busy, i)
			} else {
				free = append(free, i)
			}
		}
		switch {
		case len(free) > 0 && (len(busy) == 0 || r.Chance(1, 3)):
			cp := 1
			if r.Chance(1, 10) {
				cp = 0
			}
			before := len(h.events)
			h.exec(fmt.Sprintf("load %d %s", cp, v7llList(genPrompt())))
			_ = before
			for i := range h.c.slots {
				if _, ok := h.keep[i]; !ok || !h.c.slots[i].InUse {
					h.keep[i] = zzverif.Pick(r, []int{0, 0, 1, 2, ctx / 2, ctx - 1})
				}
			}
		case len(free) == 0 && r.Chance(1, 25):
			h.exec("load 1 " + v7llList(genPrompt()))
		default:
			i := zzverif.Pick(r, busy)
			sl := &h.c.slots[i]
			pend := h.pending[i]
			if len(pend) == 0 && r.Chance(1, 6) {
				// request ends: EOS / limit, or a stop string that cuts the record
				if r.Chance(1, 3) && len(sl.Inputs) > 0 {
					h.exec(fmt.Sprintf("cut %d %d", i, len(sl.Inputs)-r.Intn(min(3, len(sl.Inputs)))))
				} else {
					h.exec(fmt.Sprintf("rel %d", i))
				}
				continue
			}
			if len(sl.Inputs)+1 > ctx {
				h.exec(fmt.Sprintf("shift %d %d", i, h.keep[i]))
				continue
			}
			var toks []int
			if len(pend) > 0 {
				k := min(r.Range(1, 4), len(pend), ctx-len(sl.Inputs))
				toks = pend[:k]
				h.pending[i] = pend[k:]
			} else {
				toks = randToks(1) // a generated token
			}
			h.exec(fmt.Sprintf("dec %d %s", i, v7llList(toks)))
		}
	}
	h.flush(header)
	out.Count(fmt.Sprintf("llh_cfg_parallel_%d", parallel))
	if multi {
		out.Count("llh_cfg_multiuser")
	}
}

func v7llReplay(line string, out *zzverif.Out) {
	f := strings.Fields(line)
	at := func(i int) int {
		v, err := strconv.Atoi(f[i])
		if err != nil {
			panic(err)
		}
		return v
	}
	h := v7llNew(at(1), at(2), at(3) != 0, at(4) != 0, out)
	n := at(5)
	i := 6
	for range n {
		start := i
		switch f[i] {
		case "load":
			i += 3 + at(i+2)
		case "dec":
			i += 3 + at(i+2)
		case "shift", "cut":
			i += 3
		case "rel":
			i += 2
		default:
			panic("bad event " + f[i])
		}
		h.exec(strings.Join(f[start:i], " "))
	}
	h.flush(strings.Join(f[:5], " "))
}

func TestVerifC07LLHist(t *testing.T) {
	out := zzverif.NewOut()
	defer out.Close()
	bubble := func(f func()) { synctest.Test(t, func(t *testing.T) { f() }) }
	if p := os.Getenv("VERIF_REPLAY"); p != "" {
		raw, err := os.ReadFile(p)
		if err != nil {
			t.Fatal(err)
		}
		for _, line := range strings.Split(string(raw), "\n") {
			if strings.HasPrefix(line, "llhist ") {
				bubble(func() { v7llReplay(line, out) })
			}
		}
		return
	}
	if p := os.Getenv("VERIF_C07_CORPUS"); p != "" {
		if raw, err := os.ReadFile(p); err == nil {
			for _, line := range strings.Split(string(raw), "\n") {
				if strings.HasPrefix(line, "llhist ") {
					bubble(func() { v7llReplay(line, out) })
				}
			}
		}
	}
	root := zzverif.NewRng(zzverif.Seed())
	n := zzverif.EnvInt("VERIF_N", 500)
	for range n {
		r := root.Fork()
		bubble(func() { v7llGenerate(r, out) })
	}
}

var (
	llReNum  = regexp.MustCompile(`-?\d+`)
	llReList = regexp.MustCompile(`(#,)+#`)
)

// shape of an L2 record: kind + detail with numbers and lists of numbers collapsed (a failure must not hide a
// later, different failure of the same kind in the same history)
func llDedupKey(kind, detail string) string {
	d := llReNum.ReplaceAllString(detail, "#")
	return kind + "|" + llReList.ReplaceAllString(d, "#")
}
