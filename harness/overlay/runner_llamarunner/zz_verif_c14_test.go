package llamarunner

// C14: llamarunner has its own copy of flushPending (and of the per-token loop, which needs
// llama.cpp + a model file and is therefore compared structurally, see Tie/C14.lean).  This driver
// executes the REAL llamarunner.flushPending on generated pending lists (L1 against the same Lean
// `flushChunk` that models ollamarunner's copy) and checks the UTF-8 clause on its output (L2).
//
// Added with `go test -overlay`; never committed to /repo.

import (
	"fmt"
	"strings"
	"testing"
	"unicode/utf8"

	"github.com/ollama/ollama/zzverif"
)

func verifFlushCase(out *zzverif.Out, pieces []string) {
	var sb strings.Builder
	fmt.Fprintf(&sb, "flush %d", len(pieces))
	for _, p := range pieces {
		sb.WriteString(" " + zzverif.Hex([]byte(p)))
	}
	line := sb.String()
	seq := &Sequence{pendingResponses: append([]string{}, pieces...), responses: make(chan string, 1), quit: make(chan bool, 1)}
	ok := flushPending(seq)
	obs := "none"
	chunk := ""
	select {
	case c := <-seq.responses:
		chunk = c
		obs = "some " + zzverif.Hex([]byte(c))
	default:
	}
	if !ok || len(seq.pendingResponses) != 0 {
		obs = fmt.Sprintf("err ok=%v pend=%d", ok, len(seq.pendingResponses))
	}
	out.Case(line, obs)
	out.Count("cases")
	joined := strings.Join(pieces, "")
	if !utf8.ValidString(chunk) {
		out.L2("chunk-invalid-utf8", line, fmt.Sprintf("chunk=%x", chunk))
	}
	if !strings.HasPrefix(joined, chunk) {
		out.L2("flush-not-prefix", line, fmt.Sprintf("chunk=%x", chunk))
	}
	if utf8.ValidString(joined) {
		out.Count("joined_valid")
		if chunk != joined {
			out.L2("flush-lost-valid-text", line, fmt.Sprintf("chunk=%x", chunk))
		}
	} else {
		out.Count("joined_invalid")
	}
}

func TestVerifC14LlamaFlush(t *testing.T) {
	out := zzverif.NewOut()
	defer out.Close()
	root := zzverif.NewRng(zzverif.Seed())
	n := zzverif.EnvInt("VERIF_N", 2000)
	alpha := []string{"a", "}", "\n", "é", "€", "😀", "\xc3", "\xa9", "\xe2", "\x82", "\xf0", "\x9f", "\xff", "\x80", "\xed\xa0\x80", "\xc0\xaf"}
	verifFlushCase(out, nil)
	verifFlushCase(out, []string{""})
	for i := 0; i < n; i++ {
		r := root.Fork()
		var pieces []string
		np := r.Range(0, 4)
		for j := 0; j < np; j++ {
			var sb strings.Builder
			k := r.Range(0, 4)
			for x := 0; x < k; x++ {
				sb.WriteString(zzverif.Pick(r, alpha))
			}
			pieces = append(pieces, sb.String())
		}
		verifFlushCase(out, pieces)
	}
}
