package llamarunner

// C14, llamarunner with TWO sequences in one Server / one llama.cpp context (parallel = 2, multi-user cache): both are
// sampled in the same processBatch call (one batch, two output rows, `seq.iBatch` selects the row).  The second
// sequence joins after `join` calls.  Each sequence is compared, on its own, with the single-sequence model
// (`loop`, theorem batch_mates_independent) and checked by the same L2 monitors.
//
// A sequence whose script is used up while it is still running gets one call with the zero-capacity token batch (the
// prediction-limit check only, for every sequence in the Server) and is then taken out by the driver.

import (
	"errors"
	"fmt"
	"strings"
	"testing"

	"github.com/ollama/ollama/llama"
	"github.com/ollama/ollama/zzverif"
)

type vmSeq struct {
	c       *vlCase
	seq     *Sequence
	slot    int
	res     vlResult
	removed bool
	gone    bool // finished (removed by the Server, or taken out by the driver while still running)
}

func (v *vlServer) vmRun(out *zzverif.Out, a, b *vlCase, join int) (ra, rb vlResult, err error) {
	s := v.s
	qs := []*vmSeq{{c: a, slot: 0}, {c: b, slot: 1}}
	start := func(q *vmSeq) error {
		sq, e := v.vlStart(q.c, q.slot)
		q.seq = sq
		return e
	}
	if err = start(qs[0]); err != nil {
		return
	}
	defer func() {
		for _, q := range qs {
			if q.seq != nil && s.seqs[q.slot] == q.seq {
				q.seq.cache.InUse = false
				s.seqs[q.slot] = nil
				s.seqsSem.Release(1)
			}
		}
	}()
	observe := func() error {
		for _, q := range qs {
			if q.seq == nil || q.gone {
				continue
			}
			closed := vlDrain(q.seq, &q.res)
			if s.seqs[q.slot] != q.seq {
				if !closed {
					return errors.New("sequence removed but responses not closed")
				}
				q.removed, q.gone = true, true
				vlFinish(q.seq, &q.res, true)
			}
		}
		return nil
	}
	for call := 0; call < 200; call++ {
		if call == join && qs[1].seq == nil {
			if err = start(qs[1]); err != nil {
				return
			}
		}
		active := 0
		for _, q := range qs {
			if q.seq != nil && !q.gone {
				active++
			}
		}
		if active == 0 && qs[1].seq != nil {
			break
		}
		// sequences whose script is used up: limit check only, then they leave
		for _, q := range qs {
			if q.seq != nil && !q.gone && q.res.consumed == len(q.c.script) {
				if err = s.processBatch(v.zero, &llama.Batch{}); err != nil {
					return
				}
				out.Count("llama_skip_calls")
				if err = observe(); err != nil {
					return
				}
				if !q.gone {
					vlFinish(q.seq, &q.res, false)
					q.gone = true
					q.seq.cache.InUse = false
					s.seqs[q.slot] = nil
					s.seqsSem.Release(1)
				}
			}
		}
		before := map[*vmSeq]int{}
		any := false
		for _, q := range qs {
			if q.seq != nil && !q.gone {
				before[q] = q.seq.numPredicted
				any = true
			}
		}
		if !any {
			if qs[1].seq != nil {
				break
			}
			continue
		}
		if len(before) == 2 {
			out.Count("llama_multi_calls_with_two_sequences")
		}
		if err = s.processBatch(v.batch, &llama.Batch{}); err != nil {
			return
		}
		v.batch.Clear()
		for q, np := range before {
			d := q.seq.numPredicted - np
			if d < 0 || d > 1 {
				err = fmt.Errorf("harness: a call sampled %d tokens for one sequence", d)
				return
			}
			if d == 1 {
				i := q.res.consumed
				q.res.consumed++
				if s.seqs[q.slot] == q.seq && (len(q.seq.inputs) != 1 || q.seq.inputs[0].token != q.c.toks[i]) {
					err = fmt.Errorf("harness: chain broken at %d: inputs=%v want %d", i, q.seq.inputs, q.c.toks[i])
					return
				}
			}
		}
		if err = observe(); err != nil {
			return
		}
	}
	if !qs[0].gone || qs[1].seq == nil || !qs[1].gone {
		err = errors.New("harness: the two sequences did not finish")
		return
	}
	return qs[0].res, qs[1].res, nil
}

func TestVerifC14LlamaMulti(t *testing.T) {
	out := zzverif.NewOut()
	defer out.Close()
	if zzverif.EnvInt("VERIF_REPLAY_SET", 0) != 0 {
		t.Skip("no replay for pairs: replay the `loop` line of the sequence")
	}
	root := zzverif.NewRng(zzverif.Seed() ^ 0x2c0de)
	n := zzverif.EnvInt("VERIF_N", 400)
	var cases []*vlCase
	for i := 0; i < 2*n; i++ {
		c := vlGenCase(root.Fork())
		c.skips = make([]int, len(c.script)+1)
		cases = append(cases, c)
	}
	for len(cases) > 1 {
		pieces, next, used := vlPack(cases)
		used -= used % 2
		if used == 0 {
			out.Count("llama_unrepresentable")
			cases = cases[1:]
			continue
		}
		v, err := vlLoad(t.TempDir(), pieces, next, 2)
		if err != nil {
			t.Fatal(err)
		}
		out.Count("llama_multi_models")
		for i := 0; i+1 < used; i += 2 {
			a, b := cases[i], cases[i+1]
			join := root.Intn(4)
			ra, rb, err := v.vmRun(out, a, b, join)
			out.Count("llama_multi_pairs")
			for k, c := range []*vlCase{a, b} {
				res := []vlResult{ra, rb}[k]
				line := vlLine(c.limit, c.stops, c.script)
				if err != nil {
					out.Case(line, "err:"+strings.ReplaceAll(err.Error(), "\n", " "))
					out.L2("loop-error", line, fmt.Sprintf("runner=llama multi join=%d %v", join, err))
					continue
				}
				out.Case(line, fmt.Sprintf("%s np=%d out=%s pend=%s", res.reason, res.np, vlHexList(res.chunks), vlHexList(res.pending)))
				out.Count("llama_multi_reason_" + res.reason)
				res.cacheLen = 0 // the cache monitor is the single-sequence driver's
				vlL2(out, line, c.stops, c.script, res)
			}
		}
		v.close()
		cases = cases[used:]
	}
}
