package llamarunner

// C14 driver for llamarunner's per-token output loop: the REAL llamarunner.Server.processBatch /
// removeSequence / flushPending / NewSequence / InputCache.LoadCacheSlot are executed on the REAL
// llama.cpp context (cgo), one call of processBatch per generated token.  Only the weights are
// scripted: the driver writes a tiny GGUF file (repo's own fs/ggml.WriteGGUF; llama architecture, one
// layer, n_embd = n_vocab, one-hot token embeddings, zero attention/FFN output, output matrix = a
// permutation) whose greedy continuation of token v is next[v], and whose vocabulary (tokenizer model
// "rwkv": llama.cpp un-escapes the token text, so one piece has many spellings and the token texts stay
// pairwise different as llama.cpp requires) gives token v the scripted piece (any bytes but NUL).  A script "piece_0 … piece_{n-1}" is a path in that
// functional graph; EOS events are edges to the EOS / EOT token.  llama.cpp's own llama_decode,
// sampler (common_sampler, temperature 0), llama_token_to_piece and llama_vocab_is_eog run behind
// processBatch.  Nothing of processBatch is replicated here.
//
// Calls in which the sequence is in s.seqs but is not sampled (only the prediction-limit check at the
// top of processBatch runs; `skipCalls` in the Lean model) are produced by passing a zero-capacity
// token batch (`&llama.Batch{}`, the value run() itself uses for the embedding batch of a text-only
// model): `i >= batch.Size()` leaves the loop before anything is added, the call returns after the
// limit checks.  The driver uses such a call after the last scripted token (the model's `run … []`)
// and, randomly, between tokens (theorem batch_mates_independent).
//
// Same oracle command (`loop …`), same observation and same L2 monitors as the ollamarunner driver.
//
// Added with `go test -overlay`; never committed to /repo.

import (
	"bytes"
	"context"
	"encoding/binary"
	"errors"
	"fmt"
	"io"
	"log/slog"
	"math"
	"os"
	"path/filepath"
	"strconv"
	"strings"
	"sync"
	"testing"
	"unicode/utf8"

	"golang.org/x/sync/semaphore"

	"github.com/ollama/ollama/fs/ggml"
	"github.com/ollama/ollama/llama"
	"github.com/ollama/ollama/zzverif"
)

type vlEv struct {
	eos   bool
	piece string
}

// ---------------------------------------------------------------- the scripted GGUF model

const (
	vlTokUnk   = 0
	vlTokBos   = 1
	vlTokEos   = 2 // tokenizer.ggml.eos_token_id
	vlTokLF    = 3 // "\n" (llama.cpp needs a linefeed token; the prompt "\n" tokenises to it)
	vlTokSpace = 4 // unused
	vlTokEot   = 5 // tokenizer.ggml.eot_token_id: a second end-of-generation token
	vlTokFirst = 6
)

func vlF32(name string, shape []uint64, vals []float32) ggml.Tensor {
	b := make([]byte, 4*len(vals))
	for i, v := range vals {
		binary.LittleEndian.PutUint32(b[4*i:], math.Float32bits(v))
	}
	return ggml.Tensor{Name: name, Kind: 0, Shape: shape, WriterTo: bytes.NewReader(b)}
}

// vlWriteModel writes a GGUF model file with vocabulary `pieces` whose greedy next token after v is next[v].
func vlWriteModel(path string, pieces []string, next []int) error {
	V := len(pieces)
	E := V
	nff := 8
	types := make([]int32, V)
	for i := range types {
		types[i] = 1 // NORMAL
	}
	types[vlTokUnk], types[vlTokBos], types[vlTokEos], types[vlTokEot] = 2, 3, 3, 3
	kv := ggml.KV{
		"general.architecture":                   "llama",
		"general.name":                           "verif-c14",
		"general.alignment":                      uint32(32),
		"llama.context_length":                   uint32(4096),
		"llama.embedding_length":                 uint32(E),
		"llama.block_count":                      uint32(1),
		"llama.feed_forward_length":              uint32(nff),
		"llama.attention.head_count":             uint32(4),
		"llama.attention.head_count_kv":          uint32(4),
		"llama.attention.layer_norm_rms_epsilon": float32(1e-5),
		"llama.rope.dimension_count":             uint32(E / 4),
		"llama.vocab_size":                       uint32(V),
		"tokenizer.ggml.model":                   "rwkv",
		"tokenizer.ggml.tokens":                  pieces,
		"tokenizer.ggml.scores":                  make([]float32, V),
		"tokenizer.ggml.token_type":              types,
		"tokenizer.ggml.bos_token_id":            uint32(vlTokBos),
		"tokenizer.ggml.eos_token_id":            uint32(vlTokEos),
		"tokenizer.ggml.eot_token_id":            uint32(vlTokEot),
		"tokenizer.ggml.unknown_token_id":        uint32(vlTokUnk),
		"tokenizer.ggml.add_bos_token":           false,
		"tokenizer.ggml.add_eos_token":           false,
	}
	ones := func(n int) []float32 {
		r := make([]float32, n)
		for i := range r {
			r[i] = 1
		}
		return r
	}
	zeros := func(n int) []float32 { return make([]float32, n) }
	emb, outw := zeros(V*E), zeros(V*E)
	for v := 0; v < V; v++ {
		emb[v*E+v] = 1
		outw[next[v]*E+v] = 1
	}
	u := func(xs ...int) []uint64 {
		r := make([]uint64, len(xs))
		for i, x := range xs {
			r[i] = uint64(x)
		}
		return r
	}
	ts := []ggml.Tensor{
		vlF32("token_embd.weight", u(V, E), emb),
		vlF32("output_norm.weight", u(E), ones(E)),
		vlF32("output.weight", u(V, E), outw),
		vlF32("blk.0.attn_norm.weight", u(E), ones(E)),
		vlF32("blk.0.attn_q.weight", u(E, E), zeros(E*E)),
		vlF32("blk.0.attn_k.weight", u(E, E), zeros(E*E)),
		vlF32("blk.0.attn_v.weight", u(E, E), zeros(E*E)),
		vlF32("blk.0.attn_output.weight", u(E, E), zeros(E*E)),
		vlF32("blk.0.ffn_norm.weight", u(E), ones(E)),
		vlF32("blk.0.ffn_gate.weight", u(nff, E), zeros(nff*E)),
		vlF32("blk.0.ffn_up.weight", u(nff, E), zeros(nff*E)),
		vlF32("blk.0.ffn_down.weight", u(E, nff), zeros(nff*E)),
	}
	f, err := os.Create(path)
	if err != nil {
		return err
	}
	defer f.Close()
	return ggml.WriteGGUF(f, kv, ts)
}

// one packed case: its script occupies the tokens start+1 … in the model's vocabulary
type vlCase struct {
	limit  int
	stops  []string
	script []vlEv
	start  int   // prompt token; next[start] = token of event 0
	toks   []int // token id of every event
	skips  []int // zero-batch calls before the i-th sampling call (len = len(script)+1)
}

const vlVocab = 256

// vlPack lays the scripts of as many cases as fit into one vocabulary.
func vlPack(cases []*vlCase) (pieces []string, next []int, used int) {
	pieces = make([]string, vlVocab)
	next = make([]int, vlVocab)
	pieces[vlTokUnk], pieces[vlTokBos], pieces[vlTokEos], pieces[vlTokLF], pieces[vlTokSpace], pieces[vlTokEot] =
		"<unk>", "<s>", "</s>", `\n`, "<pad4>", "<|e|>"
	id := vlTokFirst
	seen := map[string]int{"": 1} // llama.cpp renames a token whose text is empty; the empty piece is spelt `\` … instead
	for i := vlTokFirst; i < vlVocab; i++ {
		pieces[i] = fmt.Sprintf("<pad%d>", i)
	}
	eog := 0
	for _, c := range cases {
		need := 1
		fits := true
		cnt := map[string]int{}
		for _, e := range c.script {
			if !e.eos {
				need++
				cnt[e.piece]++
				if seen[e.piece]+cnt[e.piece] > vlSpellings || strings.Contains(e.piece, "\x00") {
					fits = false
				}
			}
		}
		if id+need > vlVocab || !fits {
			break
		}
		used++
		c.start = id
		pieces[id] = fmt.Sprintf("<start%d>", id)
		id++
		c.toks = c.toks[:0]
		prev := c.start
		dead := false // events after the first EOS are never sampled: no edge leads to them
		for _, e := range c.script {
			var t int
			if e.eos {
				t = []int{vlTokEos, vlTokEot}[eog%2]
				eog++
			} else {
				t = id
				pieces[id] = vlSpell(e.piece, seen[e.piece])
				seen[e.piece]++
				id++
			}
			c.toks = append(c.toks, t)
			if !dead {
				next[prev] = t
			}
			if e.eos {
				dead = true
			}
			prev = t
		}
	}
	return pieces, next, used
}

// vlSpell returns the k-th spelling (k < vlSpellings) of piece p in the escaped token syntax of llama.cpp's
// "rwkv" vocabulary (llama_unescape_rwkv_token: `\xhh`, `\c`; an unfinished escape at the end yields nothing):
// every byte as `\xhh`, then an unfinished escape `\`, `\x` or `\x<c>` chosen by k.  llama.cpp requires the
// token texts of one vocabulary to be pairwise different, while a script repeats pieces.
const vlSpellings = 97

func vlSpell(p string, k int) string {
	var sb strings.Builder
	for i := 0; i < len(p); i++ {
		fmt.Fprintf(&sb, "\\x%02x", p[i])
	}
	switch {
	case k == 0:
	case k == 1:
		sb.WriteString("\\")
	case k == 2:
		sb.WriteString("\\x")
	default:
		sb.WriteString("\\x" + string(rune(0x21+k-3)))
	}
	return sb.String()
}

type vlServer struct {
	s     *Server
	batch *llama.Batch
	zero  *llama.Batch
}

var vlBackendOnce sync.Once

func vlLoad(dir string, pieces []string, next []int, parallel int) (*vlServer, error) {
	vlBackendOnce.Do(func() {
		// llama.cpp logs ~100 lines per model load at INFO
		slog.SetDefault(slog.New(slog.NewTextHandler(io.Discard, &slog.HandlerOptions{Level: slog.LevelError})))
		llama.BackendInit()
	})
	mp := filepath.Join(dir, "m.gguf")
	if err := vlWriteModel(mp, pieces, next); err != nil {
		return nil, err
	}
	s := &Server{batchSize: 16, parallel: parallel, seqs: make([]*Sequence, parallel), seqsSem: semaphore.NewWeighted(int64(parallel))}
	s.cond = sync.NewCond(&s.mu)
	s.ready.Add(1)
	// the real start-up path of the runner: LoadModelFromFile, NewContextWithModel, NewInputCache
	s.loadModel(llama.ModelParams{UseMmap: true}, mp, nil, "", 256*parallel, "", false, 1, parallel > 1)
	b, err := llama.NewBatch(s.batchSize, len(s.seqs), 0) // as run() does
	if err != nil {
		return nil, err
	}
	return &vlServer{s: s, batch: b, zero: &llama.Batch{}}, nil
}

func (v *vlServer) close() {
	v.batch.Free()
	llama.FreeModel(v.s.model)
}

// ---------------------------------------------------------------- one run of the real loop

type vlResult struct {
	reason   string
	np       int
	chunks   []string
	pending  []string
	consumed int
	cacheLen int // len(seq.cache.Inputs) at the end
	prompt   int
}

// vlStart creates the Sequence the way the completion handler does (NewSequence, LoadCacheSlot, s.seqs[i] = seq);
// the prompt "\n" is tokenised by llama.cpp; its last token is then replaced by the case's start token.
func (v *vlServer) vlStart(c *vlCase, slot int) (*Sequence, error) {
	s := v.s
	seq, err := s.NewSequence("\n", nil, NewSequenceParams{numPredict: c.limit, stop: c.stops, samplingParams: &llama.SamplingParams{Temp: 0}})
	if err != nil {
		return nil, err
	}
	if len(seq.inputs) == 0 {
		return nil, errors.New("empty prompt")
	}
	seq.inputs[len(seq.inputs)-1] = input{token: c.start}
	if err := s.seqsSem.Acquire(context.Background(), 1); err != nil {
		return nil, err
	}
	s.mu.Lock()
	defer s.mu.Unlock()
	seq.cache, seq.inputs, err = s.cache.LoadCacheSlot(seq.inputs, true)
	if err != nil {
		return nil, err
	}
	if s.seqs[slot] != nil {
		return nil, errors.New("slot busy")
	}
	s.seqs[slot] = seq
	return seq, nil
}

func vlDrain(seq *Sequence, res *vlResult) (closed bool) {
	for {
		select {
		case c, ok := <-seq.responses:
			if !ok {
				return true
			}
			res.chunks = append(res.chunks, c)
		default:
			return false
		}
	}
}

func vlFinish(seq *Sequence, res *vlResult, removed bool) {
	if removed {
		switch seq.doneReason.String() {
		case "stop", "length":
			res.reason = seq.doneReason.String()
		default:
			res.reason = "closed"
		}
	} else {
		res.reason = "running"
	}
	res.np = seq.numPredicted
	res.pending = append([]string(nil), seq.pendingResponses...)
	res.cacheLen = len(seq.cache.Inputs)
	res.prompt = seq.numPromptInputs
}

func (v *vlServer) vlRun(out *zzverif.Out, c *vlCase) (res vlResult, err error) {
	s := v.s
	seq, err := v.vlStart(c, 0)
	if err != nil {
		return res, err
	}
	defer func() {
		if s.seqs[0] != nil { // still running: take it out the way removeSequence does, minus the output
			seq.cache.InUse = false
			s.seqs[0] = nil
			s.seqsSem.Release(1)
		}
	}()
	removed := false
	step := func(b *llama.Batch) error {
		perr := s.processBatch(b, &llama.Batch{})
		v.batch.Clear()
		closed := vlDrain(seq, &res)
		if s.seqs[0] == nil {
			if !closed {
				return errors.New("sequence removed but responses not closed")
			}
			removed = true
		}
		return perr
	}
	for i := 0; i <= len(c.script) && !removed; i++ {
		k := 0
		if i < len(c.skips) {
			k = c.skips[i]
		}
		if i == len(c.script) {
			k++ // the call after the last scripted token: limit check only (`run … []`)
		}
		for ; k > 0 && !removed; k-- {
			np := seq.numPredicted
			if err := step(v.zero); err != nil {
				return res, err
			}
			out.Count("llama_skip_calls")
			if seq.numPredicted != np {
				return res, errors.New("harness: a zero-batch call sampled a token")
			}
		}
		if removed || i == len(c.script) {
			break
		}
		np := seq.numPredicted
		if err := step(v.batch); err != nil {
			return res, err
		}
		if removed && seq.numPredicted == np {
			break // the prediction-limit check at the top of the call removed the sequence
		}
		if seq.numPredicted != np+1 {
			return res, fmt.Errorf("harness: call %d sampled %d tokens", i, seq.numPredicted-np)
		}
		res.consumed++
		if !removed && (len(seq.inputs) != 1 || seq.inputs[0].token != c.toks[i]) {
			return res, fmt.Errorf("harness: chain broken at %d: inputs=%v want %d", i, seq.inputs, c.toks[i])
		}
	}
	vlFinish(seq, &res, removed)
	return res, nil
}

// ---------------------------------------------------------------- case line

var vlPinned = zzverif.EnvInt("VERIF_C14_PINNED", 0)

func vlLine(limit int, stops []string, script []vlEv) string {
	var sb strings.Builder
	fmt.Fprintf(&sb, "loop %d %d %d", vlPinned, limit, len(stops))
	for _, st := range stops {
		sb.WriteString(" " + zzverif.Hex([]byte(st)))
	}
	fmt.Fprintf(&sb, " %d", len(script))
	for _, e := range script {
		if e.eos {
			sb.WriteString(" E")
		} else {
			sb.WriteString(" " + zzverif.Hex([]byte(e.piece)))
		}
	}
	return sb.String()
}

func vlParseLine(line string) (limit int, stops []string, script []vlEv, err error) {
	toks := strings.Fields(line)
	if len(toks) < 5 || toks[0] != "loop" {
		return 0, nil, nil, errors.New("not a loop line")
	}
	if limit, err = strconv.Atoi(toks[2]); err != nil {
		return
	}
	ns, _ := strconv.Atoi(toks[3])
	p := 4
	for i := 0; i < ns; i++ {
		stops = append(stops, string(zzverif.Unhex(toks[p])))
		p++
	}
	ne, _ := strconv.Atoi(toks[p])
	p++
	for i := 0; i < ne; i++ {
		if toks[p] == "E" {
			script = append(script, vlEv{eos: true})
		} else {
			script = append(script, vlEv{piece: string(zzverif.Unhex(toks[p]))})
		}
		p++
	}
	return
}

func vlHexList(xs []string) string {
	var sb strings.Builder
	fmt.Fprintf(&sb, "%d", len(xs))
	for _, x := range xs {
		sb.WriteString(" " + zzverif.Hex([]byte(x)))
	}
	return sb.String()
}

// ---------------------------------------------------------------- L2 (no model involved; unicode/utf8 + strings only)

func vlValidPrefix(s string) bool {
	for len(s) > 0 {
		r, n := utf8.DecodeRuneInString(s)
		if r == utf8.RuneError && n <= 1 {
			return !utf8.FullRuneInString(s)
		}
		s = s[n:]
	}
	return true
}

func vlSubsequence(sub, s string) bool {
	i := 0
	for j := 0; j < len(s) && i < len(sub); j++ {
		if s[j] == sub[i] {
			i++
		}
	}
	return i == len(sub)
}


// vlExplain: is the streamed text `o` the generated bytes `g` with only such bytes removed as flushPending's trim
// to the longest valid UTF-8 prefix can remove?  Every maximal removed run must START at a byte at which decoding `g`
// fails (an invalid byte, or a character that is never completed) — the trim then discards the rest of that pending
// window, valid or not — except a final run, which may also start where TruncateStop cut: at an occurrence of a stop
// in `g`, or at the first byte of a character that this cut left incomplete.  Returns also, for every byte of `o`,
// its position in `g` under one such explanation.  Independent of the model and of runner/common.
func vlExplain(o, g string, stops []string, endedByStop bool) (bool, []int) {
	n, m := len(g), len(o)
	invalid := make([]bool, n)
	for i := 0; i < n; {
		r, w := utf8.DecodeRuneInString(g[i:])
		if r == utf8.RuneError && w <= 1 {
			invalid[i] = true
			i++
		} else {
			i += w
		}
	}
	stopAt := func(i int) bool {
		if !endedByStop {
			return false
		}
		for j := i; j <= n && j <= i+3; j++ {
			if j > i {
				if r, w := utf8.DecodeRuneInString(g[i:j]); !(r == utf8.RuneError && w <= 1) {
					continue // g[:j] does not end in a character that starts at i and is cut short
				}
			}
			for _, st := range stops {
				if st != "" && strings.HasPrefix(g[j:], st) {
					return true
				}
			}
		}
		return false
	}
	memo := make([]int8, (n+1)*(m+1)*2)
	var can func(i, k, d int) bool
	can = func(i, k, d int) bool {
		if i == n {
			return k == m
		}
		ix := (i*(m+1)+k)*2 + d
		if memo[ix] != 0 {
			return memo[ix] > 0
		}
		ok := (k < m && g[i] == o[k] && can(i+1, k+1, 0)) ||
			((d == 1 || invalid[i]) && can(i+1, k, 1)) ||
			(k == m && stopAt(i))
		if ok {
			memo[ix] = 1
		} else {
			memo[ix] = -1
		}
		return ok
	}
	if !can(0, 0, 0) {
		return false, nil
	}
	pos := make([]int, 0, m)
	for i, k, d := 0, 0, 0; i < n && k < m; {
		if g[i] == o[k] && can(i+1, k+1, 0) {
			pos = append(pos, i)
			i, k, d = i+1, k+1, 0
		} else if (d == 1 || invalid[i]) && can(i+1, k, 1) {
			i, d = i+1, 1
		} else {
			break
		}
	}
	return len(pos) == m, pos
}

// vlDropsExplained: see vlExplain
func vlDropsExplained(o, g string, stops []string, endedByStop bool) bool {
	ok, _ := vlExplain(o, g, stops, endedByStop)
	return ok
}

// vlGluedOnly: every occurrence of a stop in the streamed text `o` spans bytes that were NOT adjacent in `g`
// (the removal of undecodable bytes glued two pieces of text together): the known consequence of F20a.  An
// occurrence whose bytes are adjacent in `g` was generated as such and should have ended the run.
func vlGluedOnly(o string, pos []int, stops []string) bool {
	for _, st := range stops {
		if st == "" {
			continue
		}
		for p := 0; p+len(st) <= len(o); p++ {
			if o[p:p+len(st)] != st {
				continue
			}
			glued := false
			for q := p + 1; q < p+len(st); q++ {
				if pos[q] != pos[q-1]+1 {
					glued = true
				}
			}
			if !glued {
				return false
			}
		}
	}
	return true
}

func vlTrimTail(s string) string {
	for i := 0; i < 4 && len(s) > 0 && !utf8.ValidString(s); i++ {
		s = s[:len(s)-1]
	}
	return s
}

func vlL2(out *zzverif.Out, line string, stops []string, script []vlEv, res vlResult) {
	var gen strings.Builder
	sawEOS := false
	for _, e := range script[:res.consumed] {
		if e.eos {
			sawEOS = true
		} else {
			gen.WriteString(e.piece)
		}
	}
	g := gen.String()
	o := strings.Join(res.chunks, "")
	vp := vlValidPrefix(g)
	if vp {
		out.Count("llama_gen_valid_prefix")
	} else {
		out.Count("llama_gen_invalid")
	}
	for _, c := range res.chunks {
		if c == "" || !utf8.ValidString(c) {
			out.L2("chunk-invalid-utf8", line, fmt.Sprintf("runner=llama chunk=%x", c))
		}
	}
	if !strings.HasPrefix(g, o) {
		if vp {
			out.L2("prefix-valid-gen", line, fmt.Sprintf("runner=llama out=%x gen=%x", o, g))
		} else {
			class := "other"
			oo := o
			if res.reason == "running" {
				oo += strings.Join(res.pending, "") // still running: the tail is held back, not dropped
			}
			if vlDropsExplained(oo, g, stops, res.reason == "stop") {
				class = "invalid-utf8-bytes-dropped"
				out.Count("llama_f20_dropped_bytes")
			} else if vlSubsequence(o, g) {
				class = "valid-text-lost"
			}
			out.L2("prefix-invalid-gen", line, fmt.Sprintf("class=%s runner=llama out=%x gen=%x", class, o, g))
		}
	}
	if vp && strings.HasPrefix(g, o) {
		off := 0
		for _, c := range res.chunks {
			off += len(c)
			if off < len(g) && !utf8.RuneStart(g[off]) {
				out.L2("chunk-splits-char", line, fmt.Sprintf("runner=llama offset=%d gen=%x", off, g))
			}
		}
	}
	if res.reason == "running" {
		if vp && o+strings.Join(res.pending, "") != g {
			out.L2("running-lost-text", line, fmt.Sprintf("runner=llama out=%x pend=%x gen=%x", o, strings.Join(res.pending, ""), g))
		}
		return
	}
	earliest := -1
	nOccur := 0
	for _, st := range stops {
		if st == "" {
			return
		}
		if i := strings.Index(g, st); i >= 0 {
			nOccur++
			if earliest < 0 || i < earliest {
				earliest = i
			}
		}
	}
	for _, st := range stops {
		if !utf8.ValidString(st) {
			return
		}
	}
	cause := "limit"
	if nOccur > 0 {
		cause = "stopstring"
	} else if sawEOS {
		cause = "eos"
	}
	out.Count("llama_cause_" + cause)
	want := map[string]string{"limit": "length", "eos": "stop", "stopstring": "stop"}[cause]
	if res.reason != want {
		out.L2("reason-map", line, fmt.Sprintf("runner=llama cause=%s reason=%s", cause, res.reason))
	}
	if !vp {
		for _, st := range stops {
			if strings.Contains(o, st) {
				cl := "other"
				if ok, pos := vlExplain(o, g, stops, res.reason == "stop"); ok && !strings.HasPrefix(g, o) && vlGluedOnly(o, pos, stops) {
					cl = "after-invalid-bytes"
					out.Count("llama_f20_stop_spelt_after_drop")
				}
				out.L2("stop-in-output", line, fmt.Sprintf("class=%s runner=llama stop=%x out=%x gen=%x", cl, st, o, g))
				break
			}
		}
		return
	}
	// "as soon as": generation ends WITH the token that completes the earliest stop / with the EOS token / with the
	// limit-th token — no token is sampled after the terminating event
	{
		want, acc := -1, ""
		for k, e := range script[:res.consumed] {
			if e.eos {
				want = k + 1
				break
			}
			acc += e.piece
			hit := false
			for _, st := range stops {
				if strings.Contains(acc, st) {
					hit = true
				}
			}
			if hit {
				want = k + 1
				break
			}
		}
		if want >= 0 && res.consumed != want {
			out.L2("sampled-after-end", line, fmt.Sprintf("runner=llama tokens_sampled=%d terminating_event_is_token=%d", res.consumed, want))
		}
	}
	for _, st := range stops {
		if strings.Contains(o, st) {
			out.L2("stop-in-output", line, fmt.Sprintf("class=other runner=llama stop=%x out=%x", st, o))
			break
		}
	}
	if cause == "stopstring" {
		ok := false
		if strings.HasPrefix(g, o) {
			for _, st := range stops {
				if strings.HasPrefix(g[len(o):], st) {
					ok = true
				}
			}
		}
		if !ok {
			out.L2("not-ended-before-stop", line, fmt.Sprintf("class=other runner=llama out=%x gen=%x", o, g))
		}
		// cache trimming: after a stop string the cache keeps the prompt and exactly the tokens whose text was streamed in full
		// (stated for scripts without empty pieces: an empty piece at the cut belongs to neither side)
		{
			m, cum, empty := 0, 0, false
			for _, e := range script[:res.consumed] {
				if e.piece == "" {
					empty = true
				}
				cum += len(e.piece)
				if cum <= len(o) {
					m++
				}
			}
			if res.cacheLen > 0 && !empty && strings.HasPrefix(g, o) && res.cacheLen != res.prompt+m { // 0: not observed (handler driver)
				out.L2("cache-not-streamed-tokens", line, fmt.Sprintf("runner=llama cache=%d prompt=%d tokens_streamed_in_full=%d out=%x", res.cacheLen, res.prompt, m, o))
			}
		}
		if o != g[:earliest] {
			out.L2("stop-output-not-earliest", line, fmt.Sprintf("runner=llama out=%x want=%x", o, g[:earliest]))
		}
	} else if o != vlTrimTail(g) {
		out.L2("ends-eos-limit", line, fmt.Sprintf("runner=llama cause=%s out=%x gen=%x", cause, o, g))
	}
}

// ---------------------------------------------------------------- generators (same distribution as the ollamarunner driver)

var vlChars = []string{"a", "b", "}", "\n", " ", "<", "é", "€", "😀", "ß", "日"}

func vlGenText(r *zzverif.Rng, n int) string {
	var sb strings.Builder
	for i := 0; i < n; i++ {
		sb.WriteString(zzverif.Pick(r, vlChars))
	}
	return sb.String()
}

func vlSplit(r *zzverif.Rng, s string, byChar bool) []string {
	var ps []string
	for len(s) > 0 {
		n := r.Pick3(1, 3, 7)
		if n > len(s) {
			n = len(s)
		}
		if byChar {
			for n < len(s) && !utf8.RuneStart(s[n]) {
				n++
			}
		}
		ps = append(ps, s[:n])
		s = s[n:]
	}
	return ps
}

var vlBadBytes = []string{"\xff", "\x80", "\xc0", "\xc3", "\xe2\x82", "\xf0\x9f", "\xf0\x9f\x98", "\xed\xa0\x80", "\xf5", "\xbf\xbf"}

func vlGenCase(r *zzverif.Rng) *vlCase {
	text := vlGenText(r, r.Pick3(0, 8, 20))
	var stops []string
	ns := zzverif.Pick(r, []int{0, 1, 1, 1, 2, 2, 3, 4})
	rs := []rune(text)
	for i := 0; i < ns; i++ {
		switch k := r.Intn(10); {
		case k <= 4 && len(rs) > 0:
			a := r.Intn(len(rs))
			b := min(a+r.Range(1, 3), len(rs))
			stops = append(stops, string(rs[a:b]))
		case k <= 7:
			stops = append(stops, vlGenText(r, r.Range(1, 3)))
		case k == 8 && len(rs) > 0: // extends past what will be generated: held back until the end
			stops = append(stops, string(rs[r.Intn(len(rs)):])+vlGenText(r, r.Range(1, 2)))
		default:
			if r.Chance(1, 4) {
				stops = append(stops, "")
			} else {
				stops = append(stops, zzverif.Pick(r, []string{"\n\n", "}", "a", "<|", "é", "\x82"}))
			}
		}
	}
	pieces := vlSplit(r, text, r.Chance(1, 4))
	// byte-fallback tokenisation: every byte of a multi-byte character its own token
	if r.Chance(1, 6) {
		var ps []string
		for _, p := range pieces {
			if len(p) > 1 && p[0] >= 0x80 {
				for i := 0; i < len(p); i++ {
					ps = append(ps, p[i:i+1])
				}
			} else {
				ps = append(ps, p)
			}
		}
		pieces = ps
	}
	if r.Chance(1, 5) {
		for i, k := 0, r.Range(1, 2); i < k; i++ {
			bad := zzverif.Pick(r, vlBadBytes)
			if len(pieces) == 0 || r.Bool() {
				at := r.Intn(len(pieces) + 1)
				pieces = append(pieces[:at], append([]string{bad}, pieces[at:]...)...)
			} else {
				at := r.Intn(len(pieces))
				c := r.Intn(len(pieces[at]) + 1)
				pieces[at] = pieces[at][:c] + bad + pieces[at][c:]
			}
		}
	}
	if r.Chance(1, 12) && len(pieces) > 0 {
		at := r.Intn(len(pieces) + 1)
		pieces = append(pieces[:at], append([]string{""}, pieces[at:]...)...)
	}
	if r.Chance(1, 4) && len(pieces) > 1 {
		at := r.Intn(len(pieces) - 1)
		pieces[at] += pieces[at+1]
		pieces = append(pieces[:at+1], pieces[at+2:]...)
	}
	var script []vlEv
	for _, p := range pieces {
		script = append(script, vlEv{piece: p})
	}
	switch r.Intn(6) {
	case 0:
	case 1:
		at := r.Intn(len(script) + 1)
		script = append(script[:at], append([]vlEv{{eos: true}}, script[at:]...)...)
	default:
		script = append(script, vlEv{eos: true})
	}
	limit := 0
	switch r.Intn(6) {
	case 0:
	case 1:
		limit = -1
	case 2:
		limit = len(script) + r.Intn(3)
	default:
		limit = r.Range(1, len(script)+1)
	}
	c := &vlCase{limit: limit, stops: stops, script: script, skips: make([]int, len(script)+1)}
	if r.Chance(1, 3) {
		for i := range c.skips {
			if r.Chance(1, 4) {
				c.skips[i] = r.Range(1, 2)
			}
		}
	}
	return c
}

// every way to cut a short text into pieces x stop sets x limits x EOS (the ollamarunner driver's small scope)
func vlExhaustive(maxLen int) []*vlCase {
	texts := []string{"}\n\n", "a}\n\nb", "ab€a", "aé}b", "😀a\n", "a\xffb", "ab\xe2\x82", "abab"}
	stopSets := [][]string{nil, {"\n\n", "}"}, {"b"}, {"ab"}, {"€a"}, {"é}", "a"}, {"ba", "ab"}, {"a\n\n"}, {"abc"}}
	var cs []*vlCase
	for _, text := range texts {
		if len(text) > maxLen {
			continue
		}
		n := len(text)
		for mask := 0; mask < 1<<(n-1); mask++ {
			var script []vlEv
			start := 0
			for i := 1; i < n; i++ {
				if mask&(1<<(i-1)) != 0 {
					script = append(script, vlEv{piece: text[start:i]})
					start = i
				}
			}
			script = append(script, vlEv{piece: text[start:]})
			for si, stops := range stopSets {
				for li, lim := range []int{0, 2, len(script)} {
					eos := (mask+si+li)%2 == 0
					sc := script
					if eos {
						sc = append(append([]vlEv(nil), script...), vlEv{eos: true})
					}
					cs = append(cs, &vlCase{limit: lim, stops: stops, script: sc, skips: make([]int, len(sc)+1)})
				}
			}
		}
	}
	return cs
}

// ---------------------------------------------------------------- the test

func vlRunAll(t *testing.T, out *zzverif.Out, cases []*vlCase) {
	for len(cases) > 0 {
		pieces, next, used := vlPack(cases)
		if used == 0 {
			out.Count("llama_unrepresentable") // a piece with a NUL byte, or a script longer than the vocabulary
			cases = cases[1:]
			continue
		}
		v, err := vlLoad(t.TempDir(), pieces, next, 1)
		if err != nil {
			t.Fatal(err)
		}
		out.Count("llama_models")
		for _, c := range cases[:used] {
			line := vlLine(c.limit, c.stops, c.script)
			res, err := v.vlRun(out, c)
			out.Count("llama_loop_cases")
			if err != nil {
				out.Case(line, "err:"+strings.ReplaceAll(err.Error(), "\n", " "))
				out.L2("loop-error", line, "runner=llama "+err.Error())
				continue
			}
			out.Case(line, fmt.Sprintf("%s np=%d out=%s pend=%s", res.reason, res.np, vlHexList(res.chunks), vlHexList(res.pending)))
			out.Count("llama_reason_" + res.reason)
			if len(res.pending) > 0 {
				out.Count("llama_pending_at_end")
			}
			if len(res.chunks) > 1 {
				out.Count("llama_multi_chunk")
			}
			vlL2(out, line, c.stops, c.script, res)
			// cache trimming next to TruncateStop: len(seq.cache.Inputs) at removal (model: cacheLenRun / cacheKeep)
			if res.reason != "running" {
				t3 := strings.SplitN(line, " ", 3) // loop <pinned> <limit …>
				out.Case(fmt.Sprintf("cachelen %s %d %s", t3[1], res.prompt, t3[2]), strconv.Itoa(res.cacheLen))
				out.Count("llama_cachelen_cases")
			}
		}
		v.close()
		cases = cases[used:]
	}
}

func TestVerifC14LlamaLoop(t *testing.T) {
	out := zzverif.NewOut()
	defer out.Close()
	if rp := os.Getenv("VERIF_REPLAY"); rp != "" {
		b, err := os.ReadFile(rp)
		if err != nil {
			t.Fatal(err)
		}
		limit, stops, script, err := vlParseLine(strings.TrimSpace(string(b)))
		if err != nil {
			t.Skip("not a loop case")
		}
		vlRunAll(t, out, []*vlCase{{limit: limit, stops: stops, script: script, skips: make([]int, len(script)+1)}})
		return
	}
	var cases []*vlCase
	mk := func(limit int, stops []string, script ...vlEv) {
		cases = append(cases, &vlCase{limit: limit, stops: stops, script: script, skips: make([]int, len(script)+1)})
	}
	// corpus: the F7 witness (fixed), the F20 shapes, byte-fallback characters, a chat-style stop split over tokens
	mk(0, []string{"\n\n", "}"}, vlEv{piece: "}\n\n"}, vlEv{eos: true})
	mk(0, []string{"ab"}, vlEv{piece: "a"}, vlEv{piece: "\xff"}, vlEv{piece: "b"}, vlEv{eos: true})
	mk(0, nil, vlEv{piece: "costs 5 "}, vlEv{piece: "\xe2"}, vlEv{piece: "\x82"}, vlEv{piece: "\xac"}, vlEv{piece: " ok"}, vlEv{eos: true})
	mk(0, nil, vlEv{piece: "hi "}, vlEv{piece: "\xf0"}, vlEv{piece: "\x9f"}, vlEv{piece: "\x98"}, vlEv{piece: "\x80"}, vlEv{piece: " ok"}, vlEv{eos: true})
	mk(0, []string{"\n\nHuman:"}, vlEv{piece: "Sure"}, vlEv{piece: "."}, vlEv{piece: "\n\n"}, vlEv{piece: "Human"}, vlEv{piece: ":"}, vlEv{piece: " and"}, vlEv{piece: " more"})
	mk(2, nil, vlEv{piece: "a"}, vlEv{piece: "\xe2\x82"}, vlEv{piece: "\xac"})
	mk(2, nil, vlEv{piece: "a"}, vlEv{eos: true})
	mk(1, nil, vlEv{piece: "a"}, vlEv{eos: true})
	cases = append(cases, vlExhaustive(zzverif.EnvInt("VERIF_EXH", 4))...)
	out.Add("llama_exhaustive_cases", len(cases))
	root := zzverif.NewRng(zzverif.Seed())
	n := zzverif.EnvInt("VERIF_N", 1500)
	for i := 0; i < n; i++ {
		cases = append(cases, vlGenCase(root.Fork()))
	}
	vlRunAll(t, out, cases)
	// F20b on llamarunner too (reason vocabulary): an EOS-terminated and a stop-string-terminated run report the same reason
	{
		a := &vlCase{stops: []string{"x"}, script: []vlEv{{piece: "a"}, {eos: true}}, skips: make([]int, 3)}
		b := &vlCase{stops: []string{"x"}, script: []vlEv{{piece: "a"}, {piece: "x"}}, skips: make([]int, 3)}
		pieces, next, used := vlPack([]*vlCase{a, b})
		if used == 2 {
			if v, err := vlLoad(t.TempDir(), pieces, next, 1); err == nil {
				ra, ea := v.vlRun(out, a)
				rb, eb := v.vlRun(out, b)
				if ea == nil && eb == nil && ra.reason == rb.reason {
					out.L2("reason-two-values-three-causes", "loop 0 0 1 78 2 61 E", fmt.Sprintf("class=eos-and-stop-string-share-reason runner=llama eos=%s stopstring=%s", ra.reason, rb.reason))
				}
				v.close()
			}
		}
	}
}
